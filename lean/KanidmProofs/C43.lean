import KanidmProofs.Lemmas.PamAuth
/-!
# C43 — PAM fails closed

Property theorems only (helpers in `Lemmas/PamAuth.lean`).  `connected`, `fallback`,
`smAuthenticate`, `acctMgmt`, `parseCrypt`, `checkPw` transcribe
`sm_authenticate_connected`, `sm_authenticate_fallback`, `sm_authenticate`, `acct_mgmt`
(pam_sparkle_common/src/core.rs) and `CryptPw::from_str` / `check_pw` (common/src/unix_passwd.rs);
the reply → action table, every early-return code, the expiry comparison, the hash prefix table
and the `acct_mgmt` table are regenerated from the source on every run
(`Generated/PamOps.lean`), so each theorem is re-proved about the code as it is now.

`Handler.Sane` — "an `Err` of the `PamHandler` never carries `PAM_SUCCESS`" — is what the real
`PamHandle` guarantees (the translator checks all its error sites); without it the module
hands such an error up unchanged (`connected_full_false`).
-/
namespace Kanidm.Pam
open Kanidm.Gen.Pam

/-! ## Every reply kind on its own -/

/-- **Every other reply is a non-success.**  Of all `ClientResponse` shapes only the step reply
`Success` maps to `PAM_SUCCESS`; `Denied`, `Unknown` (either setting of `ignore_unknown_user`),
`Error`, every wrong reply kind, a failed call, an unanswered prompt and an exhausted
conversation map to something else. -/
theorem every_other_reply_nonsuccess :
    (∀ k c, stepAction k = .ret c → (c = .success ↔ k = .success)) ∧
    (∀ k a b, stepAction k = .retIf a b → a ≠ .success ∧ b ≠ .success) ∧
    (∀ k, otherCode k ≠ .success) ∧
    callErrCode ≠ .success ∧ noneCode ≠ .success ∧ exhaustedCode ≠ .success :=
  ⟨stepAction_ret, fun k a b h => ⟨(stepAction_retIf k a b h).1, (stepAction_retIf k a b h).2.1⟩,
   otherCode_ne_success, callErrCode_ne_success, noneCode_ne_success, exhaustedCode_ne_success⟩

/-! ## Daemon reachable -/

/-- **`PAM_SUCCESS` iff the last reply consumed is an explicit `Success`** — for every script of
daemon replies / failures (any length, any order, any session ids), every module option and every
sane handler script; the consumed events are a prefix of the daemon's script. -/
theorem connected_success_iff (opts : Opts) (h : Handler) (script : List DEvent) (hs : h.Sane) :
    ((connected opts h script).code = .success ↔ EndsInSuccess (connected opts h script).consumed) ∧
    (connected opts h script).consumed <+: script := by
  obtain ⟨h1, h2, h3, h4⟩ := hs
  have hnil : ¬ EndsInSuccess [] := fun ⟨_, h⟩ => by simp at h
  unfold connected
  cases hsi : h.serviceInfo with
  | some e =>
    simp only
    exact ⟨⟨fun hc => absurd (hc ▸ hsi) h1, fun hc => absurd hc hnil⟩, List.nil_prefix⟩
  | none =>
    cases hacc : h.accountId with
    | err e =>
      simp only
      rw [hacc] at h2
      exact ⟨⟨fun hc => absurd hc h2, fun hc => absurd hc hnil⟩, List.nil_prefix⟩
    | ok acct =>
      simp only
      by_cases hfp : opts.useFirstPass = true
      · simp only [hfp, if_true]
        cases htok : h.authtok with
        | err e =>
          simp only
          rw [htok] at h3
          exact ⟨⟨fun hc => absurd hc h3, fun hc => absurd hc hnil⟩, List.nil_prefix⟩
        | ok tok =>
          simp only
          obtain ⟨a, b, _⟩ := connLoop_spec opts script tok h.prompts (.init (acctOf acct)) h4
          exact ⟨a, b⟩
      · simp only [hfp]
        obtain ⟨a, b, _⟩ := connLoop_spec opts script none h.prompts (.init (acctOf acct)) h4
        exact ⟨a, b⟩

/-- Corollary, as the statement reads: success only when the daemon explicitly reported success. -/
theorem connected_success_needs_explicit_success (opts : Opts) (h : Handler) (script : List DEvent)
    (hs : h.Sane) (hc : (connected opts h script).code = .success) :
    ∃ sid, DEvent.reply (.step .success sid) ∈ script := by
  obtain ⟨h1, h2⟩ := connected_success_iff opts h script hs
  obtain ⟨sid, hl⟩ := h1.mp hc
  exact ⟨sid, h2.subset (List.mem_of_getLast? hl)⟩

/-- The same claim without the handler hypothesis … -/
def connected_full : Prop :=
  ∀ (opts : Opts) (h : Handler) (script : List DEvent),
    (connected opts h script).code = .success → ∃ sid, DEvent.reply (.step .success sid) ∈ script

/-- … is false of the code: an error of the handler is handed up unchanged, whatever it is.
(The real `PamHandle` never produces `Err(PAM_SUCCESS)`; the translator checks its error sites.) -/
theorem connected_full_false : ¬ connected_full := by
  intro hf
  obtain ⟨_, h⟩ := hf ⟨false, false⟩ ⟨some .success, .ok (some 1), .ok none, []⟩ [] rfl
  cases h

/-! ## Daemon unreachable: local shadow entry -/

/-- The password field names a supported scheme: it starts with one of the generated prefixes. -/
def Supported (s : List Char) : Prop := ∃ p k, (p, k) ∈ prefixTable ∧ p <+: s

theorem parseCryptWith_ne_default (t : List (List Char × HashKind)) (s : List Char)
    (h : parseCryptWith t s ≠ noPrefixKind) : ∃ p k, (p, k) ∈ t ∧ p <+: s := by
  induction t with
  | nil => simp [parseCryptWith] at h
  | cons pk t ih =>
    obtain ⟨p, k⟩ := pk
    unfold parseCryptWith at h
    by_cases hp : p.isPrefixOf s = true
    · exact ⟨p, k, List.mem_cons_self .., List.isPrefixOf_iff_prefix.mp hp⟩
    · simp only [hp] at h
      obtain ⟨p', k', hm, hpre⟩ := ih h
      exact ⟨p', k', List.mem_cons_of_mem _ hm, hpre⟩

/-- `check_pw` can only say yes for a supported hash of well-formed shape that the scheme's
verifier accepts. -/
theorem checkPw_true (verify : HashKind → List Char → Nat → Bool) (s : List Char) (cred : Nat)
    (h : checkPw verify s cred = true) :
    Supported s ∧ digestCanonical (digestShape (parseCrypt s)) s = true ∧
      verify (parseCrypt s) s cred = true := by
  unfold checkPw at h
  by_cases hk : kindVerifies (parseCrypt s) = true
  · simp only [hk, if_true, Bool.and_eq_true] at h
    refine ⟨?_, h.1, h.2⟩
    apply parseCryptWith_ne_default prefixTable s
    intro hd
    have : parseCrypt s = noPrefixKind := hd
    rw [this] at hk
    exact absurd hk (by decide)
  · simp [hk] at h

/-- **Malformed sha-crypt digests never verify** (repaired D32): for a `$5$` / `$6$` field the text
after the last `$` must be exactly 43 / 86 characters of `[./0-9A-Za-z]`; otherwise `check_pw`
is false without the verifier being consulted — whatever it would say. -/
theorem malformed_sha_digest_never_verifies (verify : HashKind → List Char → Nat → Bool)
    (s : List Char) (cred : Nat)
    (h : (parseCrypt s = .sha256 ∧ (digestOf s).length ≠ 43) ∨
         (parseCrypt s = .sha512 ∧ (digestOf s).length ≠ 86) ∨
         ((parseCrypt s = .sha256 ∨ parseCrypt s = .sha512) ∧ (digestOf s).all digestChar = false)) :
    checkPw verify s cred = false := by
  unfold checkPw
  rcases h with ⟨hk, hl⟩ | ⟨hk, hl⟩ | ⟨hk | hk, hl⟩ <;>
    simp [hk, kindVerifies, digestShape, digestCanonical, hl]

example : digestOf "$5$saltsalt$short".toList = "short".toList := by decide
example : checkPw (fun _ _ _ => true) "$5$saltsalt$short".toList 1 = false := by decide
example : digestCanonical (digestShape .sha256)
    "$5$saltsalt1$.2D7rJIcZS6MaTAFmL7U5JGXslM6CiRLRcc97p0i201".toList = true := by decide
/-- one character appended to a valid digest: rejected before the verifier is asked -/
example : checkPw (fun _ _ _ => true)
    "$5$saltsalt1$.2D7rJIcZS6MaTAFmL7U5JGXslM6CiRLRcc97p0i201a".toList 1 = false := by decide

/-- **Locked or empty password fields never authenticate**: a field that does not start with
`$` (empty, `!…`, `*…`, `x`, …) parses to `Invalid`, and `Invalid` never verifies — whatever
the verifier would say. -/
theorem locked_or_empty_never_authenticate (verify : HashKind → List Char → Nat → Bool)
    (s : List Char) (cred : Nat) (h : s.head? ≠ some '$') :
    parseCrypt s = .invalid ∧ checkPw verify s cred = false := by
  have hp : parseCrypt s = .invalid := by
    cases s with
    | nil => decide
    | cons c cs =>
      have hc : ¬ '$' = c := fun hc => h (by simp [← hc])
      simp [parseCrypt, parseCryptWith, prefixTable, List.isPrefixOf, hc, noPrefixKind]
  exact ⟨hp, by simp [checkPw, hp, kindVerifies]⟩

example : parseCrypt [] = .invalid ∧ parseCrypt ['!'] = .invalid ∧ parseCrypt ['*'] = .invalid ∧
    parseCrypt "!$6$salt$hash".toList = .invalid ∧ parseCrypt ['$', '6', '$', 'a'] = .sha512 := by
  decide

/-- Which credential the fallback judges: the stacked authtok (with `use_first_pass`, if there
is one), else the answer to one password prompt. -/
theorem fallbackCred_inr (opts : Opts) (h : Handler) (cred : Nat)
    (hc : (fallbackCred opts h).1 = .inr cred) :
    (opts.useFirstPass = true ∧ h.authtok = .ok (some cred)) ∨
    ((opts.useFirstPass = false ∨ h.authtok = .ok none) ∧ (nextPrompt h.prompts).1 = .ok (some cred)) := by
  have ask : ∀ cs, (askPw h cs).1 = .inr cred → (nextPrompt h.prompts).1 = .ok (some cred) := by
    intro cs hx
    unfold askPw at hx
    cases hn : nextPrompt h.prompts with
    | mk r rest =>
      rw [hn] at hx
      cases r with
      | err e => cases hx
      | ok v =>
        cases v with
        | none => cases hx
        | some c => simp only [Sum.inr.injEq] at hx; subst hx; rfl
  unfold fallbackCred at hc
  by_cases hfp : opts.useFirstPass = true
  · simp only [hfp, if_true] at hc
    cases htok : h.authtok with
    | err e => rw [htok] at hc; cases hc
    | ok tok =>
      rw [htok] at hc
      cases tok with
      | some c => simp only [Sum.inr.injEq] at hc; subst hc; exact Or.inl ⟨hfp, rfl⟩
      | none => exact Or.inr ⟨Or.inr rfl, ask _ hc⟩
  · have hfp' : opts.useFirstPass = false := by simpa using hfp
    simp only [hfp', Bool.false_eq_true, if_false] at hc
    exact Or.inr ⟨Or.inl hfp', ask _ hc⟩

theorem fallbackCred_sane (opts : Opts) (h : Handler) (hs : h.Sane) (c : PamCode)
    (hc : (fallbackCred opts h).1 = .inl c) : c ≠ .success := by
  obtain ⟨_, _, h3, h4⟩ := hs
  have hp := (nextPrompt_sane h.prompts h4).2
  have ask : ∀ cs, (askPw h cs).1 = .inl c → c ≠ .success := by
    intro cs hx
    unfold askPw at hx
    cases hn : nextPrompt h.prompts with
    | mk r rest =>
      rw [hn] at hx hp
      cases r with
      | err e => simp only [Sum.inl.injEq] at hx; subst hx; exact hp e rfl
      | ok v =>
        cases v with
        | none => simp only [Sum.inl.injEq] at hx; subst hx; exact noneCode_ne_success
        | some c => cases hx
  unfold fallbackCred at hc
  by_cases hfp : opts.useFirstPass = true
  · simp only [hfp, if_true] at hc
    cases htok : h.authtok with
    | err e =>
      rw [htok] at hc h3
      simp only [Sum.inl.injEq] at hc
      subst hc
      exact h3
    | ok tok =>
      rw [htok] at hc
      cases tok with
      | some c => cases hc
      | none => exact ask _ hc
  · simp only [hfp] at hc
    exact ask _ hc

/-- **Fallback success iff** the account has a passwd and a shadow entry, the entry has not
expired, and the credential offered verifies (`check_pw`). -/
theorem fallback_success_iff (verify : HashKind → List Char → Nat → Bool) (opts : Opts) (h : Handler)
    (now : Int) (users : List Nat) (shadow : List Shadow) (hs : h.Sane) :
    (fallback verify opts h now users shadow).code = .success ↔
      ∃ acct s cred, h.accountId = .ok acct ∧ lookup users shadow (acctOf acct) = some s ∧
        isExpired now s = false ∧ (fallbackCred opts h).1 = .inr cred ∧
        checkPw verify s.pw cred = true := by
  have h2 := hs.2.1
  unfold fallback
  cases hacc : h.accountId with
  | err e =>
    rw [hacc] at h2
    simp only [Out.noDaemon]
    constructor
    · intro hc; exact absurd hc h2
    · rintro ⟨_, _, _, hx, _⟩; cases hx
  | ok acct =>
    simp only
    cases hl : lookup users shadow (acctOf acct) with
    | none =>
      simp only [Out.noDaemon]
      constructor
      · intro hc
        by_cases hi : opts.ignoreUnknownUser = true
        · simp [hi, unknownIfIgnore] at hc
        · simp [hi, unknownOtherwise] at hc
      · rintro ⟨a, s, _, hx, hy, _⟩
        cases hx
        rw [hl] at hy
        exact absurd hy (by simp)
    | some s =>
      simp only
      by_cases hex : isExpired now s = true
      · simp only [hex, if_true, Out.noDaemon]
        constructor
        · intro hc; simp [expiredCode] at hc
        · rintro ⟨a, s', _, hx, hy, hz, _⟩
          cases hx
          rw [hl] at hy
          have : s = s' := Option.some.inj hy
          subst this
          rw [hex] at hz; cases hz
      · have hex' : isExpired now s = false := by simpa using hex
        simp only [hex]
        cases hfc : fallbackCred opts h with
        | mk res cs =>
          cases res with
          | inl c =>
            simp only [Out.noDaemon]
            have hne := fallbackCred_sane opts h hs c (by rw [hfc])
            constructor
            · intro hc; exact absurd hc hne
            · rintro ⟨_, _, _, _, _, _, hz, _⟩; cases hz
          | inr cred =>
            simp only [Out.noDaemon]
            constructor
            · intro hc
              refine ⟨acct, s, cred, rfl, hl, hex', rfl, ?_⟩
              by_cases hck : checkPw verify s.pw cred = true
              · exact hck
              · simp [hck, pwBadCode] at hc
            · rintro ⟨a, s', cred', hx, hy, _, hz, hw⟩
              cases hx
              rw [hl] at hy
              have : s = s' := Option.some.inj hy
              subst this
              simp only [Sum.inr.injEq] at hz
              subst hz
              simp [hw, pwOkCode]

/-- An expired account never authenticates locally (expiry = `now ≥ expire`, generated). -/
theorem expired_never_authenticates (verify : HashKind → List Char → Nat → Bool) (opts : Opts)
    (h : Handler) (now : Int) (users : List Nat) (shadow : List Shadow) (hs : h.Sane)
    (acct : Option Nat) (s : Shadow) (e : Int)
    (ha : h.accountId = .ok acct) (hl : lookup users shadow (acctOf acct) = some s)
    (he : s.expire = some e) (hnow : e ≤ now) :
    (fallback verify opts h now users shadow).code ≠ .success := by
  intro hc
  obtain ⟨a, s', _, hx, hy, hz, _⟩ := (fallback_success_iff verify opts h now users shadow hs).mp hc
  rw [ha] at hx; cases hx
  rw [hl] at hy
  have : s = s' := Option.some.inj hy
  subst this
  simp [isExpired, he, expiredWhen, hnow] at hz

/-! ## `sm_authenticate`: the statement -/

/-- **PAM fails closed.**  `sm_authenticate` reports `PAM_SUCCESS` only when the daemon was
reachable and one of its replies was an explicit `Success`, or the daemon was unreachable and the
local shadow entry of the account holds a supported hash that verifies the offered credential
and has not expired. -/
theorem pam_fails_closed (verify : HashKind → List Char → Nat → Bool) (opts : Opts) (h : Handler)
    (now : Int) (src : Source) (hs : h.Sane)
    (hc : (smAuthenticate verify opts h now src).code = .success) :
    match src with
    | .daemon script => ∃ sid, DEvent.reply (.step .success sid) ∈ script
    | .fallback users shadow =>
      ∃ acct s cred, h.accountId = .ok acct ∧ lookup users shadow (acctOf acct) = some s ∧
        (∀ e, s.expire = some e → now < e) ∧ (fallbackCred opts h).1 = .inr cred ∧
        Supported s.pw ∧ verify (parseCrypt s.pw) s.pw cred = true := by
  cases src with
  | daemon script => exact connected_success_needs_explicit_success opts h script hs hc
  | fallback users shadow =>
    obtain ⟨acct, s, cred, h1, h2, h3, h4, h5⟩ := (fallback_success_iff verify opts h now users shadow hs).mp hc
    obtain ⟨h6, _, h7⟩ := checkPw_true verify s.pw cred h5
    refine ⟨acct, s, cred, h1, h2, ?_, h4, h6, h7⟩
    intro e he
    simp only [isExpired, he, expiredWhen, decide_eq_false_iff_not] at h3
    omega

/-! ## `acct_mgmt` -/

/-- With the daemon reachable, `acct_mgmt` succeeds iff the daemon's reply is
`PamStatus(Some(true))`; a failed call and every other reply are non-success. -/
theorem acct_mgmt_daemon_success_iff (opts : Opts) (h : Handler) (now : Int) (script : List DEvent)
    (hs : h.Sane) :
    (acctMgmt opts h now (.daemon script)).code = .success ↔
      h.serviceInfo = none ∧ (∃ a, h.accountId = .ok a) ∧
      script.head? = some (.reply (.pamStatus (some true))) := by
  obtain ⟨h1, h2, _, _⟩ := hs
  unfold acctMgmt
  cases hsi : h.serviceInfo with
  | some e =>
    simp only
    constructor
    · intro hc; exact absurd (hc ▸ hsi) h1
    · rintro ⟨hx, _⟩; cases hx
  | none =>
    cases hacc : h.accountId with
    | err e =>
      rw [hacc] at h2
      simp only
      constructor
      · intro hc; exact absurd hc h2
      · rintro ⟨_, ⟨_, hx⟩, _⟩; cases hx
    | ok acct =>
      simp only
      cases script with
      | nil => simp [acctCallErrCode]
      | cons ev rest =>
        cases ev with
        | fail => simp [acctCallErrCode]
        | reply r =>
          cases r with
          | step k sid => simp [acctOtherCode]
          | other k => simp [acctOtherCode]
          | pamStatus o =>
            cases o with
            | none =>
              by_cases hi : opts.ignoreUnknownUser = true <;> simp [acctStatus, hi]
            | some b => cases b <;> simp [acctStatus]

/-- With the daemon unreachable, `acct_mgmt` succeeds iff the account has a passwd and a shadow
entry that has not expired. -/
theorem acct_mgmt_fallback_success_iff (opts : Opts) (h : Handler) (now : Int) (users : List Nat)
    (shadow : List Shadow) (hs : h.Sane) :
    (acctMgmt opts h now (.fallback users shadow)).code = .success ↔
      h.serviceInfo = none ∧ ∃ a s, h.accountId = .ok a ∧ lookup users shadow (acctOf a) = some s ∧
        isExpired now s = false := by
  obtain ⟨h1, h2, _, _⟩ := hs
  unfold acctMgmt
  cases hsi : h.serviceInfo with
  | some e =>
    simp only
    constructor
    · intro hc; exact absurd (hc ▸ hsi) h1
    · rintro ⟨hx, _⟩; cases hx
  | none =>
    cases hacc : h.accountId with
    | err e =>
      rw [hacc] at h2
      simp only
      constructor
      · intro hc; exact absurd hc h2
      · rintro ⟨_, _, _, hx, _⟩; cases hx
    | ok acct =>
      simp only
      cases hl : lookup users shadow (acctOf acct) with
      | none =>
        by_cases hi : opts.ignoreUnknownUser = true <;> simp [hi, unknownIfIgnore, unknownOtherwise, hl]
      | some s =>
        by_cases hex : isExpired now s = true
        · simp [hex, expiredCode, hl]
        · simp [hex, acctFallbackOk, hl]

/-! ## Non-vacuity -/

private def alice : Handler := ⟨none, .ok (some 7), .ok (some 100), [.ok (some 200), .ok (some 300)]⟩
private def firstPass : Opts := ⟨true, false⟩

example : alice.Sane := by
  refine ⟨by decide, trivial, trivial, ?_⟩
  intro p hp
  simp only [alice, List.mem_cons, List.not_mem_nil, or_false] at hp
  rcases hp with rfl | rfl <;> trivial

/-- password from the stacked authtok, then an MFA code from the conversation, then success -/
example : connected firstPass alice
      [.reply (.step .password 5), .reply (.step .mFACode 5), .reply (.step .success 5), .fail] =
    { code := .success,
      sent := [.init 7, .step .password (some 100) 5, .step .mFACode (some 200) 5],
      calls := [.serviceInfo, .accountId, .authtok, .promptMfa],
      consumed := [.reply (.step .password 5), .reply (.step .mFACode 5), .reply (.step .success 5)] } := by
  decide
/-- the daemon goes away after the password: `PAM_AUTH_ERR` -/
example : (connected firstPass alice [.reply (.step .password 5)]).code = .authErr := by decide
example : (connected firstPass alice [.reply (.other .ok)]).code = .authErr := by decide
example : (connected firstPass alice [.reply (.step .unknown 1)]).code = .userUnknown := by decide
example : (connected ⟨true, true⟩ alice [.reply (.step .unknown 1)]).code = .ignore := by decide
/-- SetupPin: first pair differs, second pair matches -/
example : (connected ⟨false, false⟩
      ⟨none, .ok (some 7), .ok none, [.ok none, .ok (some 1), .ok (some 2), .ok none, .ok (some 3), .ok (some 3)]⟩
      [.reply (.step .setupPin 9), .reply (.step .success 9)]).sent = [.init 7, .step .setupPin (some 3) 9] := by
  decide
/-- fallback: supported hash that verifies, not expired -/
private def goodField : List Char := "$6$x$".toList ++ List.replicate 85 'a' ++ ['.']
example : (fallback (fun _ _ c => c == 100) firstPass alice 1000 [7] [⟨7, goodField, some 2000⟩]).code = .success := by
  decide
example : (fallback (fun _ _ c => c == 100) firstPass alice 2000 [7] [⟨7, goodField, some 2000⟩]).code = .acctExpired := by
  decide
/-- the same field with one more character: `PAM_AUTH_ERR`, though the verifier would say yes -/
example : (fallback (fun _ _ _ => true) firstPass alice 1000 [7] [⟨7, goodField ++ ['a'], some 2000⟩]).code = .authErr := by
  decide
example : (fallback (fun _ _ _ => true) firstPass alice 1000 [7] [⟨7, ['!', '$', '6', '$', 'x'], none⟩]).code = .authErr := by
  decide
example : (acctMgmt firstPass alice 0 (.daemon [.reply (.pamStatus (some true))])).code = .success := by decide
example : (acctMgmt firstPass alice 0 (.daemon [.reply (.step .success 1)])).code = .ignore := by decide

end Kanidm.Pam
