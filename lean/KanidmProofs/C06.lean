import KanidmProofs.Lemmas.TxnSnapshot
import KanidmModel.ReloadDispatch
/-!
# C06 — read transactions see one consistent committed state

Statements about `Kanidm.TxnSnapshot` (the functions the driver `km_c06` runs) over the reader's
acquisition order (`Gen.ReadOrder`) and the writer's publication order (`Gen.CommitOrder`), both
regenerated from the source.

The full statement (every interleaving of one reader with one committing writer gives the reader one
committed state) is FALSE of the generated orders: `snapshot_consistent_full_false` (witness
`reader_between_publications`: D5) and, even for a reader whose `read()` is not interleaved at all,
`atomic_read_consistent_full_false` (witness `reader_select_after_commit`: the SQLite snapshot is
deferred to the first statement).  What holds: `snapshot_consistent_partial` (readers entirely before
the first publication or entirely after the commit), `eager_snapshot_read_before_commit_consistent`
(what pinning the snapshot in `read()` would give), `cache_new_imp_db_new` ("always take entrycache
FIRST" as an ordering fact).  That a snapshot, once taken, never changes (repeat reads) is the
trusted semantics of concread read transactions and SQLite WAL snapshots, built into `observe`
(an observation is a function of the acquisition schedule only) and exercised by the harness.
-/
namespace Kanidm.TxnSnapshot
open Kanidm.Gen.CommitOrder Kanidm.Gen.ReadOrder Kanidm.TxnCommit

/-! ## facts about the generated orders -/

/-- The reader begins its SQLite transaction exactly once, and takes every cell at most once. -/
theorem read_order_shape :
    (readSteps.filter (· == .dbBegin)).length = 1 ∧ readSteps.Nodup := by decide

/-- Every cell a reader takes is published by a successful commit. -/
theorem read_cells_are_published :
    readSteps.all (fun a => match a with | .cell c => decide (c ∈ publishedCells flatSteps) | .dbBegin => true) = true := by
  decide

/-- The entry cache (and every other backend cache, the RUV and the index metadata) is published
only after `COMMIT TRANSACTION`; schema, cid, domain info, configs, access controls, key providers
and the OAuth2 set are not. -/
theorem late_cells_eq :
    lateCells = [.opTsMax, .nameCache, .idxExistsCache, .idlCache, .allids, .maxid, .keyhandles, .entryCache, .ruv, .idxmetaWr] := by
  decide

/-! ## readers entirely before / after the commit -/

/-- A reader all of whose acquisitions and whose first select happen before the writer's first
publication observes exactly the old committed state. -/
theorem reader_before_commit_consistent (s : St) (ops : List Op) (σ : Sched)
    (hacq : ∀ k ∈ σ.acq, k ≤ firstPublish flatSteps) (hsel : dbPos dbSnapshotDeferred σ ≤ firstPublish flatSteps) :
    observe (applyOps s ops) σ = oldObs s σ := by
  have hc := applyOps_committed ops s
  unfold observe observeWith oldObs
  congr 1
  · apply cellObsF_congr
    intro c k hk
    show ((during (applyOps s ops) k).cells c).committed = (s.cells c).committed
    rw [during_before _ k (hacq k hk)]
    exact hc.1 c
  · show (during (applyOps s ops) _).db.committed = s.db.committed
    rw [during_before _ _ hsel]
    exact hc.2

/-- A reader that starts after `commit()` returned observes exactly the new committed state. -/
theorem reader_after_commit_consistent (s : St) (ops : List Op) (σ : Sched)
    (hl : σ.acq.length = readSteps.length)
    (hacq : ∀ k ∈ σ.acq, flatSteps.length ≤ k) (hsel : flatSteps.length ≤ σ.sel) :
    observe (applyOps s ops) σ = newObs (applyOps s ops) σ := by
  have hpub := read_cells_are_published
  have hdb : flatSteps.length ≤ dbPos dbSnapshotDeferred σ := by
    unfold dbPos
    split
    · exact hsel
    · exact hacq _ (beginPos_mem readSteps σ.acq hl.symm (by decide))
  unfold observe observeWith newObs
  congr 1
  · -- cell by cell, only for the cells that are actually read
    have key : ∀ (as : List Acq) (ks : List Nat),
        as.all (fun a => match a with | .cell c => decide (c ∈ publishedCells flatSteps) | .dbBegin => true) = true →
        (∀ k ∈ ks, flatSteps.length ≤ k) →
        cellObsF (fun c k => ((during (applyOps s ops) k).cells c).committed) as ks =
        cellObsF (fun c _ => (((applyOps s ops).cells c).publish).committed) as ks := by
      intro as
      induction as with
      | nil => intro ks _ _; cases ks <;> rfl
      | cons a rest ih =>
        intro ks hall hks
        cases ks with
        | nil => cases a <;> rfl
        | cons k ks =>
          simp only [List.all_cons, Bool.and_eq_true] at hall
          have hks' : ∀ k' ∈ ks, flatSteps.length ≤ k' := fun k' h => hks k' (List.mem_cons_of_mem _ h)
          cases a with
          | cell c =>
            simp only [cellObsF]
            rw [during_after_cell _ k (hks k (List.mem_cons_self ..)) c (by simpa using hall.1), ih ks hall.2 hks']
          | dbBegin =>
            simp only [cellObsF]
            exact ih ks hall.2 hks'
    exact key readSteps σ.acq hpub hacq
  · show (during (applyOps s ops) _).db.committed = _
    rw [during_after_db _ _ hdb (by decide)]

/-- **Partial snapshot consistency**: a reader that runs entirely before the writer's first
publication, or entirely after its `commit()`, observes one committed state. -/
theorem snapshot_consistent_partial (s : St) (ops : List Op) (σ : Sched)
    (hl : σ.acq.length = readSteps.length)
    (h : ((∀ k ∈ σ.acq, k ≤ firstPublish flatSteps) ∧ σ.sel ≤ firstPublish flatSteps) ∨
         ((∀ k ∈ σ.acq, flatSteps.length ≤ k) ∧ flatSteps.length ≤ σ.sel)) :
    Consistent s (applyOps s ops) σ (observe (applyOps s ops) σ) := by
  rcases h with ⟨ha, hs⟩ | ⟨ha, hs⟩
  · left
    apply reader_before_commit_consistent s ops σ ha
    unfold dbPos
    split
    · exact hs
    · exact ha _ (beginPos_mem readSteps σ.acq hl.symm (by decide))
  · right
    exact reader_after_commit_consistent s ops σ hl ha hs

/-- Non-vacuity: both kinds of schedule exist, are well-formed, and differ in what they see. -/
example :
    let t := applyOps zero [.stage .dInfo 1, .stage .schema 1, .dbStage 1]
    (atomicRead 0 0).wf ∧ (atomicRead flatSteps.length flatSteps.length).wf ∧
    observe t (atomicRead 0 0) = oldObs zero (atomicRead 0 0) ∧
    observe t (atomicRead flatSteps.length flatSteps.length) = newObs t (atomicRead 0 0) ∧
    oldObs zero (atomicRead 0 0) ≠ newObs t (atomicRead 0 0) := by
  refine ⟨⟨by decide, by decide, by decide⟩, ⟨by decide, by decide, by decide⟩, by decide, by decide, by decide⟩

/-! ## the full statement is false -/

/-- The full property: whatever the (well-formed) interleaving, the reader observes one committed state. -/
def snapshot_consistent_full : Prop :=
  ∀ (s : St), Clean s → ∀ (ops : List Op) (σ : Sched), σ.wf →
    Consistent s (applyOps s ops) σ (observe (applyOps s ops) σ)

/-- Index of `be_txn.commit()`'s first step (`write_db_ruv`): every QS-level cell is published, the
database is not yet committed. -/
def windowPos : Nat := flatSteps.findIdx isDbCommit

/-- D5 witness: a reader that starts (and selects) between the writer's publications and its
`COMMIT`: the new domain info with the old database. -/
def reader_between_publications : Sched := atomicRead windowPos windowPos

theorem snapshot_consistent_full_false : ¬ snapshot_consistent_full := by
  intro h
  have h1 := h zero ⟨fun _ => rfl, rfl⟩ [.stage .dInfo 1, .dbStage 1] reader_between_publications
    ⟨by decide, by decide, by decide⟩
  have hobs : (observe (applyOps zero [.stage .dInfo 1, .dbStage 1]) reader_between_publications).db = 0 ∧
      (.dInfo, 1) ∈ (observe (applyOps zero [.stage .dInfo 1, .dbStage 1]) reader_between_publications).cells := by
    decide
  rcases h1 with h1 | h1
  · rw [h1] at hobs
    exact absurd hobs.2 (by decide)
  · rw [h1] at hobs
    exact absurd hobs.1 (by decide)

/-- The same for readers whose `read()` is atomic (not interleaved with the writer at all). -/
def atomic_read_consistent_full : Prop :=
  ∀ (s : St), Clean s → ∀ (ops : List Op) (k sel : Nat), k ≤ sel →
    Consistent s (applyOps s ops) (atomicRead k sel) (observe (applyOps s ops) (atomicRead k sel))

/-- Witness: `read()` before the writer even began, first select after its `commit()` returned. -/
def reader_select_after_commit : Sched := atomicRead 0 flatSteps.length

/-- Because the SQLite snapshot is deferred, even an un-interleaved `read()` does not give one
committed state: old domain info, new database. -/
theorem atomic_read_consistent_full_false : ¬ atomic_read_consistent_full := by
  intro h
  have h1 := h zero ⟨fun _ => rfl, rfl⟩ [.stage .dInfo 1, .dbStage 1] 0 flatSteps.length (Nat.zero_le _)
  have hobs : (observe (applyOps zero [.stage .dInfo 1, .dbStage 1]) (atomicRead 0 flatSteps.length)).db = 1 ∧
      (.dInfo, 0) ∈ (observe (applyOps zero [.stage .dInfo 1, .dbStage 1]) (atomicRead 0 flatSteps.length)).cells := by
    decide
  rcases h1 with h1 | h1
  · rw [h1] at hobs
    exact absurd hobs.1 (by decide)
  · rw [h1] at hobs
    exact absurd hobs.2 (by decide)

/-- What an eager snapshot (a reading statement inside `read()`) would give: a reader whose
`read()` ran before the writer's first publication observes the old state, whenever it selects. -/
theorem eager_snapshot_read_before_commit_consistent (s : St) (ops : List Op) (σ : Sched)
    (hl : σ.acq.length = readSteps.length) (hacq : ∀ k ∈ σ.acq, k ≤ firstPublish flatSteps) :
    observeWith false (applyOps s ops) σ = oldObs s σ := by
  have hc := applyOps_committed ops s
  unfold observeWith oldObs
  congr 1
  · apply cellObsF_congr
    intro c k hk
    show ((during (applyOps s ops) k).cells c).committed = (s.cells c).committed
    rw [during_before _ k (hacq k hk)]
    exact hc.1 c
  · show (during (applyOps s ops) (dbPos false σ)).db.committed = s.db.committed
    have : dbPos false σ ≤ firstPublish flatSteps := by
      show beginPos readSteps σ.acq ≤ _
      exact hacq _ (beginPos_mem readSteps σ.acq hl.symm (by decide))
    rw [during_before _ _ this]
    exact hc.2

/-! ## ordering facts that do hold -/

/-- "IMPORTANT! Always take entrycache FIRST": whatever the interleaving, a reader that sees a
backend cache (entry, idl, name, idx-exists, allids), the RUV or the index metadata in its new
version also sees the new database — a cache is never newer than the reader's database snapshot. -/
theorem cache_new_imp_db_new (σ : Sched) (hwf : σ.wf) (c : Cell) (hc : c ∈ lateCells) (k : Nat)
    (hk : k ∈ σ.acq) (hnew : cellNewAt c k = true) (hdef : dbSnapshotDeferred = true) :
    dbNewAt (dbPos dbSnapshotDeferred σ) = true := by
  have hnot : c ∉ publishedCells (flatSteps.take (flatSteps.findIdx isDbCommit + 1)) := by
    rw [late_cells_eq] at hc
    simp only [List.mem_cons, List.mem_nil_iff, or_false] at hc
    rcases hc with h | h | h | h | h | h | h | h | h | h <;> subst h <;> decide
  have h1 : (flatSteps.take k).any isDbCommit = true :=
    late_cell_new_imp_db flatSteps k c hnot (by simpa [cellNewAt] using hnew)
  have hle : k ≤ dbPos dbSnapshotDeferred σ := by
    unfold dbPos
    rw [hdef]
    exact hwf.2.2 k hk
  exact any_take_mono isDbCommit flatSteps k _ hle h1

example : cellNewAt .entryCache flatSteps.length = true ∧ dbNewAt flatSteps.length = true ∧
    cellNewAt .entryCache (windowPos + 1) = false := by decide

end Kanidm.TxnSnapshot

/-! ## the reload dispatch at the start of `commit()` (several reload flags set by ONE write transaction) -/
namespace Kanidm.ReloadDispatch
open Kanidm.Gen.ReloadDispatch

/-- Without `else if` chains every check whose flags intersect runs. -/
theorem run_unchained (changed : List Flag) (cs : List Check) (t : Bool)
    (h : ∀ c ∈ cs, c.chained = false) (c : Check) (hc : c ∈ cs) (hh : hit changed c = true)
    (r : Reload) (hr : r ∈ c.calls) : r ∈ run changed cs t := by
  induction cs generalizing t with
  | nil => cases hc
  | cons d ds ih =>
    have hd : d.chained = false := h d (List.mem_cons_self ..)
    simp only [run, hd, Bool.false_and, Bool.not_false, Bool.and_true, Bool.false_or, List.mem_append]
    rcases List.mem_cons.mp hc with rfl | hc'
    · left; simp [hh, hr]
    · right; exact ih _ (fun x hx => h x (List.mem_cons_of_mem _ hx)) hc'

/-- The generated checks of `reload()` are independent `if`s: whatever set of flags ONE write transaction
set, every check whose flags intersect it executes all of its reload functions (an `else if` between two
checks — e.g. system config / domain info — generates `chained := true` and this stops proving). -/
theorem reload_checks_independent (changed : List Flag) (c : Check) (hc : c ∈ checks)
    (hh : hit changed c = true) (r : Reload) (hr : r ∈ c.calls) : r ∈ reloadRuns changed :=
  run_unchained changed checks false (by decide) c hc hh r hr

/-- Every flag `reload()` clears is served by a check: a set flag is never dropped without its reload. -/
theorem reload_cleared_flags_served : ∀ f ∈ cleared, ∃ c ∈ checks, f ∈ c.flags ∧ c.calls ≠ [] := by decide

/-- Hence: for every cleared flag a transaction set, some reload function of a check naming it ran. -/
theorem reload_serves_every_set_flag (changed : List Flag) (f : Flag) (hf : f ∈ cleared) (hs : f ∈ changed) :
    ∃ c ∈ checks, f ∈ c.flags ∧ c.calls ≠ [] ∧ ∀ r ∈ c.calls, r ∈ reloadRuns changed := by
  obtain ⟨c, hc, hfc, hne⟩ := reload_cleared_flags_served f hf
  refine ⟨c, hc, hfc, hne, fun r hr => reload_checks_independent changed c hc ?_ r hr⟩
  exact List.any_eq_true.mpr ⟨f, hfc, by simpa using hs⟩

/-- Non-vacuity: a transaction that changes system config and domain info runs both reloads
(and the version check), in source order. -/
example : reloadRuns [.systemConfig, .domain] = [.reloadDomainInfoVersion, .reloadSystemConfig, .reloadDomainInfo] := by decide

/-- The model does distinguish a chained dispatch: with `else if` between the two checks the domain
reload is skipped when both flags are set. -/
example : run [.systemConfig, .domain]
    [⟨[.systemConfig], [.reloadSystemConfig], false⟩, ⟨[.domain], [.reloadDomainInfo], true⟩] false
    = [.reloadSystemConfig] := by decide

end Kanidm.ReloadDispatch
