import KanidmProofs.Lemmas.LdapGateway
/-!
# C40 — The LDAP gateway is read-only and no more privileged than its bind

Property theorems only (helpers in `Lemmas/LdapGateway.lean`).  `handleRequest` / `Conn.step` /
`runConn` / `dbAlong` are the transcription of `handle_ldaprequest`, `client_process` and
`LdapServer::do_op` with its handlers; every table they consult is regenerated from the source on
each run (`Generated/LdapGatewayOps.lean`), so the statements below are re-proved about the
tables the current source has.

Part (a): no request — and no sequence of requests, whatever else happens to the server in
between — changes the database.  Part (b): the identity a search or compare runs as is the one
its connection's last successful bind determines: the anonymous entry with read-only scope for
every password bind (POSIX or application), the token's own account and scope for a token bind.
-/
namespace Kanidm.Ldap
open Kanidm.Ldap.Gen

/-! ## (a) read-only -/

/-- Exactly five wire operations reach `do_op`; all of them are reads, binds or session
management.  (`ServerOps::try_from`, regenerated.) -/
theorem dispatched_ops (op : WireOp) :
    (wireDispatch op).isSome = true ↔
      op ∈ [WireOp.bindSimple, .unbindRequest, .searchRequest, .compareRequest, .extendedWhoami] := by
  cases op <;> simp [wireDispatch]

/-- Every update operation of RFC 4511 (Add, Modify, ModifyDN, Delete) and every extended
operation other than "Who am I?" is refused before any handler runs: the answer is a
disconnection notice with `protocolError`, nothing is queued, whatever the connection state. -/
theorem update_ops_refused (w : World) (st : Option Token) (m : Msg) (h : m.wireOp.isUpdate = true) :
    handleRequest w st m = (.disconnect .protocolError, []) := by
  unfold handleRequest
  cases m with
  | bind | search | compare => simp [Msg.wireOp, WireOp.isUpdate] at h
  | other op => cases op <;> simp [Msg.wireOp, WireOp.isUpdate] at h <;> rfl

example : handleRequest (exWorld 60 true) (some ⟨7, .apiToken 7 9 50 (some 100) .readWrite⟩)
    (.other .modifyRequest) = (.disconnect .protocolError, []) := by decide
example : (WireOp.all.filter WireOp.isUpdate).length = 5 := by decide

/-- … and the refusal ends the connection without touching its session (`client_process`:
`Disconnect` ⇒ send the notice, `break`). -/
theorem update_ops_close_connection (c : Conn) (w : World) (m : Msg) (h : m.wireOp.isUpdate = true) :
    (c.step w m).1 = ⟨c.session, true⟩ := by
  unfold Conn.step
  rw [update_ops_refused w c.session m h]
  rfl

/-- Anything that is not one of the five operations is refused the same way (responses sent as
requests, SASL binds, abandon, …). -/
theorem undispatched_refused (w : World) (st : Option Token) (m : Msg)
    (h : wireDispatch m.wireOp = none) : handleRequest w st m = (.disconnect .protocolError, []) := by
  unfold handleRequest
  rw [h]
  rfl

/-- Every transaction a handler opens is a read transaction: `do_bind` ↦ `auth()`, `do_search`
/ `do_compare` ↦ `proxy_read()`, each of which calls `self.qs.read()`; and the scan of every
function reachable from `do_op` finds no call of the write API, the auth transaction's `commit`
is a no-op. -/
theorem handlers_open_read_transactions_only :
    (∀ h t, t ∈ handlerTxns h → txnQs t = .read) ∧ writeApiCalls = [] ∧ authCommitNoop = true :=
  ⟨handler_txns_read, rfl, rfl⟩

/-- One request leaves the database as it was — for every database, every notion of
modification, everything the code inside the handlers may attempt, every world, connection state
and message. -/
theorem doOp_db_unchanged {DB Mod : Type} (apply : DB → Mod → DB) (beh : Behaviour DB Mod)
    (w : World) (st : Option Token) (m : Msg) (db : DB) : dbAfter apply beh w st m db = db := by
  unfold dbAfter
  split
  · rfl
  · apply foldl_const
    intro a h _
    exact runHandler_id apply beh w m a h

/-- No sequence of LDAP messages changes the database, for any interleaving of outside changes
to what the gateway reads (each message meets its own world). -/
theorem connection_db_unchanged {DB Mod : Type} (apply : DB → Mod → DB) (beh : Behaviour DB Mod)
    (c : Conn) (db : DB) (msgs : List (World × Msg)) : dbAlong apply beh c db msgs = db := by
  induction msgs generalizing c db with
  | nil => rfl
  | cons wm rest ih =>
    obtain ⟨w, m⟩ := wm
    unfold dbAlong
    split
    · rfl
    · rw [doOp_db_unchanged]
      exact ih _ _

/-- The statement is not empty: a transaction of the other kind *would* change the database in
this model (so the theorem above really rests on the generated transaction kinds). -/
example : commitTxn (fun (db : List Nat) (x : Nat) => x :: db) [] .write [7] = [7] := rfl
example : txnQs .proxyWrite = .write := rfl

/-- The only thing a bind leaves behind besides its answer is, possibly, one delayed action, and
then it is the password-hash upgrade of the account that has just bound successfully with its
correct unix password while the flag allows it (`auth_with_unix_pass`, the only `DelayedAction`
the reachable functions name). -/
theorem only_delayed_action_is_pw_upgrade (w : World) (dn : List Char) (pw : Nat) (sl : Bool)
    (d : DelayedKind × Nat × Nat) (hd : d ∈ (doBind w dn pw sl).delayed) :
    ∃ a, d = (.unixPwUpgrade, a.uuid, pw) ∧ bindTarget w dn pw = .ok (.account a.uuid) ∧
      w.acct a.uuid = some a ∧ a.unixPw = some pw ∧ a.unixNeedsUpgrade = true ∧
      w.allowUnixPwBind = true ∧ (doBind w dn pw sl).res = .ok (some ⟨a.uuid, .unixBind a.uuid⟩) := by
  rcases doBind_cases w dn pw sl with ⟨e, _, hb⟩ | ⟨u, hbt, hb⟩ | ⟨_, hb⟩ | ⟨a, u, _, hb⟩
  · rw [hb] at hd; simp at hd
  · rw [hb] at hd ⊢
    unfold authLdap at hd
    simp only [anonymousTestIsUuidEq, Bool.true_and] at hd
    by_cases hu : u == w.anonymous
    · simp only [hu, if_true] at hd
      repeat' split at hd
      all_goals simp at hd
    · simp only [hu] at hd
      by_cases hf : (unixFlagGuard && !w.allowUnixPwBind)
      · simp [hf] at hd
      · simp only [hf] at hd
        cases hap : authWithUnixPass w u pw sl with
        | mk r up =>
          simp only [hap] at hd
          cases r with
          | error e => simp at hd
          | ok oa =>
            cases oa with
            | none => simp at hd
            | some a =>
              obtain ⟨h1, h2, h3, h4, h5, h6⟩ := authWithUnixPass_some hap
              have hau := acct_uuid h1
              by_cases hup : up
              · simp [hup] at hd
                have hflag : w.allowUnixPwBind = true := by
                  simp [unixFlagGuard] at hf; exact hf
                refine ⟨a, by rw [hd, hau], by rw [hau]; exact hbt, by rw [hau]; exact h1, h4,
                  by rw [← h6]; exact hup, hflag, ?_⟩
                have hne : (u == w.anonymous) = false := by simpa using hu
                simp [authLdap, anonymousTestIsUuidEq, hne, unixFlagGuard, hflag, hap, hau]
              · simp [hup] at hd
  · rw [hb, tokenAuthLdap_delayed] at hd; simp at hd
  · rw [hb, applicationAuthLdap_delayed] at hd; simp at hd

example : (doBind (exWorld 60 true) "alice".toList 42 false).delayed = [(.unixPwUpgrade, 10, 42)] := by
  decide

/-- The table of delayed actions the reachable functions can send, as regenerated. -/
theorem delayed_sends_table :
    delayedSends = [("auth_with_unix_pass", DelayedKind.unixPwUpgrade)] := rfl

/-! ## (b) no more privileged than the bind -/

/-- **Password binds only ever yield anonymous-level read rights.**  Whatever DN and secret led
to a successful bind that did not go through the token path (POSIX password of any account,
application password, the anonymous bind itself), every later search or compare on that session
— in any later state of the server — runs as the *anonymous entry* with *read-only* scope, and
only while the bound account still exists and is inside its validity window. -/
theorem password_bind_anonymous_rights (w : World) (dn : List Char) (pw : Nat) (sl : Bool) (t : Token)
    (h : (doBind w dn pw sl).res = .ok (some t)) (hk : bindTarget w dn pw ≠ .ok .apiToken)
    (w' : World) (id : Ident) (hv : validateLdapSession w' t.session = .ok id) :
    id = ⟨w'.anonymous, .readOnly⟩ ∧
      ∃ a, w'.acct t.session.subject = some a ∧ a.withinValidTime w'.ct = true := by
  obtain ⟨u, hs⟩ := doBind_password_session h hk
  rw [hs, validate_unixBind] at hv
  obtain ⟨h1, a, h2, _, h3⟩ := processLdapUuid_ok hv
  exact ⟨h1, a, by rw [hs]; exact h2, h3⟩

example : (doBind (exWorld 60 true) "name=alice,dc=example,dc=com".toList 42 false).res
    = .ok (some ⟨10, .unixBind 10⟩) ∧
    bindTarget (exWorld 60 true) "name=alice,dc=example,dc=com".toList 42 = .ok (.account 10) ∧
    validateLdapSession (exWorld 70 true) (.unixBind 10) = .ok ⟨0, .readOnly⟩ := by decide

/-- The same for *any* session of a password kind, however obtained. -/
theorem password_session_anonymous_rights (w : World) (s : Session)
    (hk : s.kind = .unixBind ∨ s.kind = .applicationPasswordBind) (id : Ident)
    (hv : validateLdapSession w s = .ok id) : id = ⟨w.anonymous, .readOnly⟩ := by
  cases s with
  | unixBind u => rw [validate_unixBind] at hv; exact (processLdapUuid_ok hv).1
  | applicationPasswordBind x u => rw [validate_appPw] at hv; exact (processLdapUuid_ok hv).1
  | userAuthToken => simp [Session.kind] at hk
  | apiToken => simp [Session.kind] at hk

/-- **POSIX password binds are refused unless the domain enables them**: with the flag off, a
bind whose DN names any account other than anonymous answers `invalidCredentials` — right or
wrong password, existing or not — and queues nothing. -/
theorem unix_bind_needs_flag (w : World) (dn : List Char) (pw u : Nat) (sl : Bool)
    (hb : bindTarget w dn pw = .ok (.account u)) (hu : u ≠ w.anonymous)
    (hf : w.allowUnixPwBind = false) :
    (doBind w dn pw sl).res = .ok none ∧ (doBind w dn pw sl).delayed = [] := by
  rcases doBind_cases w dn pw sl with ⟨e, hb', _⟩ | ⟨u', hb', hd⟩ | ⟨hb', _⟩ | ⟨a, u', hb', _⟩
  · rw [hb] at hb'; cases hb'
  · rw [hb] at hb'; cases hb'
    rw [hd]; exact authLdap_flag_off hf hu
  · rw [hb] at hb'; cases hb'
  · rw [hb] at hb'; cases hb'

example : bindTarget (exWorld 60 false) "alice".toList 42 = .ok (.account 10) ∧
    (doBind (exWorld 60 false) "alice".toList 42 false).res = .ok none ∧
    (doBind (exWorld 60 true) "alice".toList 42 false).res = .ok (some ⟨10, .unixBind 10⟩) := by decide

/-- A successful POSIX bind means: the flag is on, the account exists, is an account, is inside
its validity window, is not soft-locked, and the secret is its unix password; the session is
`UnixBind` of exactly that account. -/
theorem unix_bind_requires_password (w : World) (dn : List Char) (pw u : Nat) (sl : Bool) (t : Token)
    (hb : bindTarget w dn pw = .ok (.account u)) (hu : u ≠ w.anonymous)
    (h : (doBind w dn pw sl).res = .ok (some t)) :
    w.allowUnixPwBind = true ∧ sl = false ∧ t = ⟨u, .unixBind u⟩ ∧
      ∃ a, w.acct u = some a ∧ a.isAccount = true ∧ a.withinValidTime w.ct = true ∧ a.unixPw = some pw := by
  rcases doBind_cases w dn pw sl with ⟨e, hb', _⟩ | ⟨u', hb', hd⟩ | ⟨hb', _⟩ | ⟨a, u', hb', _⟩
  · rw [hb] at hb'; cases hb'
  · rw [hb] at hb'; cases hb'
    rw [hd] at h
    rcases authLdap_ok h with ⟨he, _⟩ | ⟨_, hf, a, h1, h2, h3, h4, h5, h6, _⟩
    · exact absurd he hu
    · exact ⟨hf, h5, h6, a, h1, h2, h3, h4⟩
  · rw [hb] at hb'; cases hb'
  · rw [hb] at hb'; cases hb'

/-- **Application binds require membership of the application's group** (and a matching
application password of that very application, a valid non-anonymous account); the session is
`UnixBind` of that account, hence anonymous rights by the theorems above. -/
theorem app_bind_needs_linked_group (w : World) (dn : List Char) (pw u : Nat) (appName : List Char)
    (sl : Bool) (t : Token) (hb : bindTarget w dn pw = .ok (.application appName u))
    (h : (doBind w dn pw sl).res = .ok (some t)) :
    ∃ a app, w.acct u = some a ∧ u ≠ w.anonymous ∧ a.withinValidTime w.ct = true ∧
      w.apps.find? (·.name == appName) = some app ∧
      app.linkedGroup ∈ a.memberOf ∧ (app.uuid, pw) ∈ a.appPws ∧ t = ⟨u, .unixBind u⟩ := by
  rcases doBind_cases w dn pw sl with ⟨e, hb', _⟩ | ⟨u', hb', _⟩ | ⟨hb', _⟩ | ⟨a, u', hb', hd⟩
  · rw [hb] at hb'; cases hb'
  · rw [hb] at hb'; cases hb'
  · rw [hb] at hb'; cases hb'
  · rw [hb] at hb'; cases hb'
    rw [hd] at h
    obtain ⟨a, app, h1, _, h3, h4, h5, h6, h7, h8⟩ := applicationAuthLdap_ok h
    refine ⟨a, app, h1, h3, h4, h5, by simpa using h6, ?_, h8⟩
    rw [List.any_eq_true] at h7
    obtain ⟨⟨x, y⟩, hm, hxy⟩ := h7
    simp at hxy
    rw [← hxy.1, ← hxy.2]; exact hm

example : bindTarget (exWorld 60 true) "alice,app=mail".toList 43 = .ok (.application "mail".toList 10) ∧
    (doBind (exWorld 60 true) "alice,app=mail".toList 43 false).res = .ok (some ⟨10, .unixBind 10⟩) ∧
    -- bob holds an application password for the same application but is not in its group
    (doBind (exWorld 40 true) "bob,app=mail,dc=example,dc=com".toList 44 false).res = .ok none := by
  decide

/-- Not a member ⇒ refused, whatever the password. -/
theorem app_bind_nonmember_refused (w : World) (appName : List Char) (u pw : Nat) (a : Acct) (app : App)
    (ha : w.acct u = some a) (happ : w.apps.find? (·.name == appName) = some app)
    (hm : app.linkedGroup ∉ a.memberOf) :
    ∀ t, (applicationAuthLdap w appName u pw).res ≠ .ok (some t) := by
  intro t h
  obtain ⟨a', app', h1, _, _, _, h5, h6, _⟩ := applicationAuthLdap_ok h
  rw [ha] at h1; cases h1
  rw [happ] at h5; cases h5
  exact hm (by simpa using h6)

/-- **The anonymous bind checks the anonymous account's validity** — at bind time and again at
every search / compare. -/
theorem anonymous_bind_validity_checked (w : World) (dn : List Char) (pw : Nat) (sl : Bool) (t : Token)
    (hb : bindTarget w dn pw = .ok (.account w.anonymous))
    (h : (doBind w dn pw sl).res = .ok (some t)) :
    t = ⟨w.anonymous, .unixBind w.anonymous⟩ ∧
      (∃ a, w.acct w.anonymous = some a ∧ a.withinValidTime w.ct = true) ∧
      ∀ w' id, validateLdapSession w' t.session = .ok id →
        ∃ a, w'.acct w.anonymous = some a ∧ a.withinValidTime w'.ct = true := by
  rcases doBind_cases w dn pw sl with ⟨e, hb', _⟩ | ⟨u', hb', hd⟩ | ⟨hb', _⟩ | ⟨a, u', hb', _⟩
  · rw [hb] at hb'; cases hb'
  · rw [hb] at hb'; cases hb'
    rw [hd] at h
    rcases authLdap_ok h with ⟨_, a, h1, h2, h3, _⟩ | ⟨hne, _⟩
    · refine ⟨h3, ⟨a, h1, h2⟩, ?_⟩
      intro w' id hv
      rw [h3, validate_unixBind] at hv
      obtain ⟨_, a', h4, _, h5⟩ := processLdapUuid_ok hv
      exact ⟨a', h4, h5⟩
    · exact absurd rfl hne
  · rw [hb] at hb'; cases hb'
  · rw [hb] at hb'; cases hb'

example : bindTarget (exWorld 60 true) [] 0 = .ok (.account 0) ∧
    (doBind (exWorld 60 true) [] 0 false).res = .ok (some ⟨0, .unixBind 0⟩) := by decide

/-- **A token bind yields the token's own identity, nothing more**: the session carries exactly
the verified token; an api token's identity is the token's account with the scope of the token's
purpose; a UAT's identity is its account, read-write only inside the UAT's own privilege window. -/
theorem token_bind_identity_is_tokens (w : World) (dn : List Char) (pw : Nat) (sl : Bool) (t : Token)
    (hb : bindTarget w dn pw = .ok .apiToken) (h : (doBind w dn pw sl).res = .ok (some t)) :
    (∃ a s e pu, lookup pw w.tokens = some (.uat a s e pu) ∧ t = ⟨a, .userAuthToken a s e pu⟩ ∧
        ∀ w' id, validateLdapSession w' t.session = .ok id →
          id.entry = a ∧ (id.scope = .readOnly ∨
            (id.scope = .readWrite ∧ ∃ x, pu = .readWrite (some x) ∧ w'.ct < x))) ∨
    (∃ a ti i e pu, lookup pw w.tokens = some (.apit a ti i e pu) ∧ t = ⟨a, .apiToken a ti i e pu⟩ ∧
        ∀ w' id, validateLdapSession w' t.session = .ok id → id = ⟨a, apitScope pu⟩) := by
  rcases doBind_cases w dn pw sl with ⟨e, hb', _⟩ | ⟨u', hb', _⟩ | ⟨_, hd⟩ | ⟨a, u', hb', _⟩
  · rw [hb] at hb'; cases hb'
  · rw [hb] at hb'; cases hb'
  · rw [hd] at h
    rcases tokenAuthLdap_ok h with ⟨a, s, e, pu, h1, h2, _, _⟩ | ⟨a, ti, i, e, pu, h1, h2, _, _, _⟩
    · refine Or.inl ⟨a, s, e, pu, h1, h2, ?_⟩
      intro w' id hv
      rw [h2, validate_uat] at hv
      obtain ⟨h3, h4, _⟩ := processUat_ok hv
      exact ⟨h3, h4⟩
    · refine Or.inr ⟨a, ti, i, e, pu, h1, h2, ?_⟩
      intro w' id hv
      rw [h2, validate_apit] at hv
      exact (processApit_ok hv).1
  · rw [hb] at hb'; cases hb'

example : bindTarget (exWorld 60 true) "dn=token".toList 5 = .ok .apiToken ∧
    (doBind (exWorld 60 true) "dn=token".toList 5 false).res
      = .ok (some ⟨7, .apiToken 7 9 50 (some 100) .readWrite⟩) ∧
    validateLdapSession (exWorld 70 true) (.apiToken 7 9 50 (some 100) .readWrite) = .ok ⟨7, .readWrite⟩ ∧
    nativeTokenIdent (exWorld 70 true) 5 = .ok ⟨7, .readWrite⟩ := by decide

/-- A token bind succeeds only if the session it creates is usable at that moment: the identity
builder of the token kind (account inside its validity window, session still stored / not
revoked) is run before the token is handed out (`token_auth_ldap`, regenerated flags). -/
theorem token_bind_validated_at_bind (w : World) (dn : List Char) (pw : Nat) (sl : Bool) (t : Token)
    (hb : bindTarget w dn pw = .ok .apiToken) (h : (doBind w dn pw sl).res = .ok (some t)) :
    ∃ id, validateLdapSession w t.session = .ok id := by
  rcases doBind_cases w dn pw sl with ⟨e, hb', _⟩ | ⟨u', hb', _⟩ | ⟨_, hd⟩ | ⟨a, u', hb', _⟩
  · rw [hb] at hb'; cases hb'
  · rw [hb] at hb'; cases hb'
  · rw [hd] at h
    rcases tokenAuthLdap_ok h with ⟨a, s, e, pu, _, h2, _, id, h3⟩ | ⟨a, ti, i, e, pu, _, h2, _, _, id, h3⟩
    · exact ⟨id, by rw [h2, validate_uat]; exact h3⟩
    · exact ⟨id, by rw [h2, validate_apit]; exact h3⟩
  · rw [hb] at hb'; cases hb'

example : (doBind { exWorld 60 true with apiSessions := [], grace := 0 } "dn=token".toList 5 false).res
    = .error .sessionExpired := by decide

/-- While the token is unexpired and still verifies to the same content, the identity a
token-bound LDAP session runs as is exactly the identity the native API derives from the same
token presented as a bearer token (both end in the same two builders). -/
theorem token_session_identity_eq_native (w w' : World) (dn : List Char) (pw : Nat) (sl : Bool) (t : Token)
    (hb : bindTarget w dn pw = .ok .apiToken) (h : (doBind w dn pw sl).res = .ok (some t))
    (hsame : lookup pw w'.tokens = lookup pw w.tokens)
    (hlive : ∀ info, lookup pw w.tokens = some info →
      match info with
      | .uat _ _ e _ => ∀ x, e = some x → w'.ct < x
      | .apit _ _ _ e _ => ∀ x, e = some x → w'.ct < x)
    (id : Ident) :
    validateLdapSession w' t.session = .ok id ↔ nativeTokenIdent w' pw = .ok id := by
  rcases doBind_cases w dn pw sl with ⟨e, hb', _⟩ | ⟨u', hb', _⟩ | ⟨_, hd⟩ | ⟨a, u', hb', _⟩
  · rw [hb] at hb'; cases hb'
  · rw [hb] at hb'; cases hb'
  · rw [hd] at h
    rcases tokenAuthLdap_ok h with ⟨a, s, e, pu, h1, h2, _, _⟩ | ⟨a, ti, i, e, pu, h1, h2, _, _, _⟩
    · have hl := hlive _ h1
      simp only at hl
      rw [h2, validate_uat]
      unfold nativeTokenIdent
      rw [hsame, h1]
      have he : uatExpired w' e = false := by
        cases e with
        | none => rfl
        | some x => have := hl x rfl; simp [uatExpired]; omega
      simp [he]
    · have hl := hlive _ h1
      simp only at hl
      rw [h2, validate_apit]
      unfold nativeTokenIdent
      rw [hsame, h1]
      have he : apitExpired w' e = false := by
        cases e with
        | none => rfl
        | some x => have := hl x rfl; simp [apitExpired]; omega
      cases hacc : w'.acct a with
      | none => simp [processApit, hacc, he]
      | some acc => simp [he, hacc]
  · rw [hb] at hb'; cases hb'

/-- The unrestricted version of the previous theorem is false: -/
def token_session_identity_eq_native_full : Prop :=
  ∀ (w w' : World) (dn : List Char) (pw : Nat) (sl : Bool) (t : Token) (id : Ident),
    bindTarget w dn pw = .ok .apiToken → (doBind w dn pw sl).res = .ok (some t) →
    lookup pw w'.tokens = lookup pw w.tokens →
    (validateLdapSession w' t.session = .ok id ↔ nativeTokenIdent w' pw = .ok id)

def witnessAcct : Acct :=
  { uuid := 7, isAccount := true, validFrom := none, expire := none, unixPw := none,
    unixNeedsUpgrade := false, memberOf := [], appPws := [] }

def witnessWorld (ct : Nat) : World :=
  { ct := ct, basedn := "dc=example,dc=com".toList, anonymous := 0, names := [],
    accts := [witnessAcct, { witnessAcct with uuid := 0 }], apps := [], allowUnixPwBind := true,
    tokens := [(5, .apit 7 9 50 (some 100) .readWrite)], apiSessions := [9], uatValid := [] }

/-- … a session bound with an api token that expires at 100 still runs as the token's identity
at time 200 (`validate_ldap_session` → `process_apit_to_identity` → `check_api_token_valid` looks
at the account window and the stored session, never at `apit.expiry`), while the native API
refuses the same token with `SessionExpired`.  The harness replays this on the implementation. -/
theorem token_session_identity_eq_native_full_false : ¬ token_session_identity_eq_native_full := by
  intro h
  have := h (witnessWorld 60) (witnessWorld 200) [] 5 false ⟨7, .apiToken 7 9 50 (some 100) .readWrite⟩
    ⟨7, .readWrite⟩ (by decide) (by decide) (by decide)
  exact absurd (this.mp (by decide)) (by decide)

/-! ### The connection state machine -/

/-- The last token an outcome list handed to the wire layer, starting from `init`. -/
def lastToken (init : Option Token) (os : List Outcome) : Option Token :=
  os.foldl (fun s o => match o.token with | some t => some t | none => s) init

/-- **The connection's session is always the token of its most recent successful bind** —
explicit (`Bind`) or the implicit anonymous bind of an unbound search / compare; every other
response (failed bind included) leaves it alone.  For every sequence of requests and worlds. -/
theorem session_is_last_successful_bind (c : Conn) (msgs : List (World × Msg)) :
    (runConn c msgs).1.session = lastToken c.session (runConn c msgs).2 := by
  induction msgs generalizing c with
  | nil => rfl
  | cons wm rest ih =>
    obtain ⟨w, m⟩ := wm
    unfold runConn
    split
    · rfl
    · simp only [lastToken, List.foldl_cons]
      rw [ih]
      rw [step_session]
      rfl

/-- bind as alice, fail a bind, search: the search still runs on alice's (anonymous-rights)
session; an unbound search binds anonymously by itself. -/
example : (runConn Conn.start
      [(exWorld 60 true, .bind "alice".toList 42 false), (exWorld 60 true, .bind "alice".toList 1 false),
       (exWorld 60 true, .search "dc=example,dc=com".toList .subtree 0 none)]).2
    = [.bound ⟨10, .unixBind 10⟩, .respond .invalidCredentials none, .query ⟨0, .readOnly⟩ 0 none] ∧
    (runConn Conn.start [(exWorld 60 true, .search "dc=example,dc=com".toList .subtree 0 none)])
    = (⟨some ⟨0, .unixBind 0⟩, false⟩, [.query ⟨0, .readOnly⟩ 0 (some ⟨0, .unixBind 0⟩)]) := by decide

/-- A bind that does not succeed leaves the session as it was. -/
theorem failed_bind_keeps_session (c : Conn) (w : World) (m : Msg)
    (h : (c.step w m).2.1.token = none) : (c.step w m).1.session = c.session := by
  rw [step_session, h]

/-- **The identity of every search / compare is the one its connection's session determines**:
the session of the last successful bind when there is one, otherwise the implicit bind's, which
is the anonymous `UnixBind`. -/
theorem query_identity_from_session (c : Conn) (w : World) (m : Msg) (id : Ident)
    (h : (∃ ext imp, (c.step w m).2.1 = .query id ext imp) ∨ (∃ imp, (c.step w m).2.1 = .compare id imp)) :
    (∃ t, c.session = some t ∧ validateLdapSession w t.session = .ok id) ∨
    (c.session = none ∧ validateLdapSession w (.unixBind w.anonymous) = .ok id) := by
  have hstep : (c.step w m).2.1 = (handleRequest w c.session m).1 := by
    unfold Conn.step; rfl
  rw [hstep] at h
  unfold handleRequest at h
  cases m with
  | other op =>
    cases op <;> simp [Msg.wireOp, wireDispatch, wireRefusal, wireDispatchesToDoOp, doOp] at h
    all_goals (cases hs : c.session <;> simp [hs] at h)
  | bind dn pw sl =>
    simp only [Msg.wireOp, wireDispatch, wireDispatchesToDoOp, if_true, doOp] at h
    cases hs : c.session <;>
      simp only [hs, Option.isSome_some, Option.isSome_none, doOpCalls] at h <;>
      (cases hr : (doBind w dn pw sl).res with
       | error e => simp [hr, errRespond] at h
       | ok ot => cases ot <;> simp [hr] at h)
  | search base sc n late =>
    simp only [Msg.wireOp, wireDispatch, wireDispatchesToDoOp, if_true, doOp] at h
    cases hs : c.session with
    | some t =>
      left
      refine ⟨t, rfl, ?_⟩
      simp only [hs, Option.isSome_some, doOpCalls, boundUsesSessionToken, if_true] at h
      have := doSearch_query (w := w) (t := t) (imp := none) (base := base) (sc := sc) (n := n) (late := late) rfl
      rcases h with ⟨ext, imp, h⟩ | ⟨imp, h⟩
      · exact this.1 id ext imp (by simpa using h)
      · exact absurd (by simpa using h) (this.2 id imp)
    | none =>
      right
      refine ⟨rfl, ?_⟩
      simp only [hs, Option.isSome_none, doOpCalls, implicitBindAnonymous, if_true] at h
      cases hr : (doBind w [] 0 false).res with
      | error e => simp [hr, errRespond] at h
      | ok ot =>
        cases ot with
        | none => simp [hr] at h
        | some lbt =>
          have hl := implicit_bind_session hr
          have := doSearch_query (w := w) (t := lbt) (imp := some lbt) (base := base) (sc := sc) (n := n) (late := late) rfl
          rw [hl] at this
          simp only [hr] at h
          rcases h with ⟨ext, imp, h⟩ | ⟨imp, h⟩
          · exact this.1 id ext imp (by simpa using h)
          · exact absurd (by simpa using h) (this.2 id imp)
  | compare entry late =>
    simp only [Msg.wireOp, wireDispatch, wireDispatchesToDoOp, if_true, doOp] at h
    cases hs : c.session with
    | some t =>
      left
      refine ⟨t, rfl, ?_⟩
      simp only [hs, Option.isSome_some, doOpCalls, boundUsesSessionToken, if_true] at h
      have := doCompare_query (w := w) (t := t) (imp := none) (entry := entry) (late := late) rfl
      rcases h with ⟨ext, imp, h⟩ | ⟨imp, h⟩
      · exact absurd (by simpa using h) (this.2 id ext imp)
      · exact this.1 id imp (by simpa using h)
    | none =>
      right
      refine ⟨rfl, ?_⟩
      simp only [hs, Option.isSome_none, doOpCalls, implicitBindAnonymous, if_true] at h
      cases hr : (doBind w [] 0 false).res with
      | error e => simp [hr, errRespond] at h
      | ok ot =>
        cases ot with
        | none => simp [hr] at h
        | some lbt =>
          have hl := implicit_bind_session hr
          have := doCompare_query (w := w) (t := lbt) (imp := some lbt) (entry := entry) (late := late) rfl
          rw [hl] at this
          simp only [hr] at h
          rcases h with ⟨ext, imp, h⟩ | ⟨imp, h⟩
          · exact absurd (by simpa using h) (this.2 id ext imp)
          · exact this.1 id imp (by simpa using h)

end Kanidm.Ldap
