import KanidmProofs.Lemmas.OAuth2Token
/-!
# C39 — OAuth2 tokens are redeemable only as issued

Property theorems only (helpers: `Lemmas/OAuth2Token.lean`).  The model
(`KanidmModel/OAuth2/Token.lean`) transcribes the token endpoint, introspection, userinfo and
revocation of `idm/oauth2.rs` and `check_oauth2_account_uuid_valid` of `idm/server.rs` over C36's
model of an account entry; every comparison, error kind, constant and the order of the checks is
regenerated from the source (`Gen.OAuth2Token`), so an edit of the anchored code re-states these
theorems.  Right-hand sides are written from the property text (`Revoked`, `ExpiredAt`, `LiveAt`,
plain `<`, `⊆`).
-/
namespace Kanidm.OAuth2.Token
open Kanidm.OAuth2 Kanidm.Gen.OAuth2Token Kanidm.SessionPlugin Kanidm.SessionMerge Kanidm.Gen.SessionOrd

/-! ## 0. What is pinned -/

/-- The order of the checks of the two grants and the commit rule of the token endpoint's caller,
as the hand model transcribes them. A re-ordering in the source re-generates the lists and breaks
this theorem by name. -/
theorem check_orders_pinned :
    codeCheckOrder = [.parse, .decrypt, .expiry, .pkce, .redirect, .account, .window, .parentSession] ∧
    refreshCheckOrder = [.parse, .decrypt, .kind, .expiry, .valid, .sessionPresent, .reuse, .scopes] ∧
    commitOnOk = true ∧ (∀ e, commitOnErr e = true ↔ e = .invalidGrant) := by
  refine ⟨rfl, rfl, rfl, ?_⟩
  intro e; cases e <;> simp [commitOnErr]

/-! ## 1. PKCE -/

/-- The statement's PKCE clause: a recorded challenge needs a verifier hashing to it; and (as
coded) without a recorded challenge the client must not require PKCE and no verifier may be sent. -/
def PkceOk (hash : Nat → Nat) (c : TClient) (cd : ExchangeCode) (v : Option Nat) : Prop :=
  (∃ ch x, cd.codeChallenge = some ch ∧ v = some x ∧ hash x = ch) ∨
  (cd.codeChallenge = none ∧ c.base.requirePkce = false ∧ v = none)

theorem pkce_matrix (hash : Nat → Nat) (c : TClient) (cd : ExchangeCode) (v : Option Nat) :
    pkceCheck hash c cd v = none ↔ PkceOk hash c cd v := by
  unfold pkceCheck PkceOk pkceVerifyFails pkceVerify pkceRequiredButAbsent pkceStrayVerifier
  cases hc : cd.codeChallenge with
  | some ch =>
    cases v with
    | none => simp
    | some x =>
      by_cases hx : ch = hash x
      · simp [hx]
      · have : ¬ hash x = ch := fun h => hx h.symm
        simp [hx, this]
  | none =>
    cases hr : c.base.requirePkce <;> cases v <;> simp

example : PkceOk id ⟨⟨1, .pub false, [], [], false, [], []⟩, 0, 60, [], []⟩ ⟨2, 3, 100, some 7, 5, [0], none, none⟩ (some 7) :=
  Or.inl ⟨7, 7, rfl, rfl, rfl⟩

/-! ## 2. The authorisation-code grant -/

/-- The login session that authorised the code is on record and revoked or expired. -/
def ParentDead (e : Entry) (sid ct : Nat) : Prop := ∃ s, uatOf e sid = some s ∧ (Revoked s ∨ ExpiredAt s ct)

theorem codeParentDeadOn_iff (e : Entry) (sid ct : Nat) : codeParentDeadOn e sid ct = true ↔ ParentDead e sid ct := by
  unfold codeParentDeadOn ParentDead codeParentDeadRevoked codeParentDeadExpires codeParentDeadNever codeParentAbsent
  have hfold : (e.uats.bind fun m => lookup m sid) = uatOf e sid := rfl
  simp only [hfold]
  cases hu : uatOf e sid with
  | none => simp
  | some s =>
    unfold Revoked ExpiredAt
    cases hs : s.state <;> simp [hs]

/-- The terms on which a code is redeemable, in the words of the statement: it is a code of this
very client (`H_jwe`: it decrypts under the client's key), not expired, the PKCE clause holds, the
redirect URI is the one in the code, the account exists and is inside its validity window, and the
authorising login session is neither revoked nor expired. -/
structure CodeTerms (hash : Nat → Nat) (w : World) (c : TClient) (t : Tok) (redirect : Nat)
    (verifier : Option Nat) (ct : Nat) (cd : ExchangeCode) (e : Entry) : Prop where
  isCode : t = .code c.base.uuid cd
  unexpired : asSecs ct < cd.expiry
  pkce : PkceOk hash c cd verifier
  sameRedirect : redirect = cd.redirectUri
  account : w.acct cd.accountUuid = some e
  window : withinWindow e ct = true
  parentLive : ¬ ParentDead e cd.sessionId ct

theorem generate_ok (w : World) (c : TClient) (ct : Nat) (scopes : List Nat) (parent : Option Nat)
    (sid acct : Nat) (nonce : Option Nat) (e : Entry) (he : w.acct acct = some e) :
    ∃ w', generate w c ct scopes parent sid acct nonce =
      (w', .ok { sid := sid, acct := acct, parent := parent, scopes := scopes, iat := asSecs ct,
                 aexp := accessExp ct, rexp := some (refreshExp (asSecs ct) c.refreshExpiry),
                 idToken := scopes.contains scopeOpenid,
                 access := .access c.base.uuid ⟨scopes, parent, sid, accessExp ct, acct, asSecs ct⟩,
                 refresh := some (.refresh c.base.uuid
                   ⟨scopes, parent, sid, refreshExp (asSecs ct) c.refreshExpiry, acct, asSecs ct, nonce⟩) }) ∧
      w.write acct (.grant sid parent (some (sessionExpiry ct c.refreshExpiry)) ct) ct = some w' := by
  obtain ⟨w', hw'⟩ := update_isSome (w := w) id (.grant sid parent (some (sessionExpiry ct c.refreshExpiry)) ct) ct he
  refine ⟨w', ?_, hw'⟩
  unfold generate World.write
  rw [hw']

theorem generate_result {w w' : World} {c : TClient} {ct : Nat} {scopes : List Nat} {parent : Option Nat}
    {sid acct : Nat} {nonce : Option Nat} {r : Resp}
    (h : generate w c ct scopes parent sid acct nonce = (w', .ok r)) :
    r.sid = sid ∧ r.acct = acct ∧ r.parent = parent ∧ r.scopes = scopes ∧
    r.access = .access c.base.uuid ⟨scopes, parent, sid, accessExp ct, acct, asSecs ct⟩ ∧
    r.refresh = some (.refresh c.base.uuid
      ⟨scopes, parent, sid, refreshExp (asSecs ct) c.refreshExpiry, acct, asSecs ct, nonce⟩) ∧
    w.write acct (.grant sid parent (some (sessionExpiry ct c.refreshExpiry)) ct) ct = some w' := by
  unfold generate at h
  cases hw : w.write acct (.grant sid parent (some (sessionExpiry ct c.refreshExpiry)) ct) ct with
  | none => simp [hw] at h
  | some w1 =>
    simp only [hw, Prod.mk.injEq, Except.ok.injEq] at h
    obtain ⟨h1, h2⟩ := h
    subst h1; subst h2
    simp

/-- **First sentence of the property, both directions.** The code grant yields tokens exactly on
the terms `CodeTerms`. -/
theorem exchange_code_ok_iff (hash : Nat → Nat) (w : World) (c : TClient) (t : Tok) (redirect : Nat)
    (verifier : Option Nat) (ct : Nat) :
    (∃ w' r, exchangeCode hash w c t redirect verifier ct = (w', .ok r)) ↔
      ∃ cd e, CodeTerms hash w c t redirect verifier ct cd e := by
  constructor
  · rintro ⟨w', r, h⟩
    unfold exchangeCode at h
    cases t with
    | access _ _ => simp at h
    | garbage => simp at h
    | refresh _ _ => simp at h
    | clientAccess _ _ => simp at h
    | code key cd =>
      simp only at h
      by_cases hk : key = c.base.uuid
      · by_cases hx : codeExpired cd.expiry (asSecs ct) = true
        · simp [hk, hx] at h
        · cases hp : pkceCheck hash c cd verifier with
          | some e => simp [hk, hx, hp] at h
          | none =>
            by_cases hr : redirectDiffers redirect cd.redirectUri = true
            · simp [hk, hx, hp, hr] at h
            · cases ha : w.acct cd.accountUuid with
              | none => simp [hk, hx, hp, hr, ha] at h
              | some e =>
                by_cases hwn : codeOutsideWindow (withinWindow e ct) = true
                · simp [hk, hx, hp, hr, ha, hwn] at h
                · by_cases hd : codeParentDeadOn e cd.sessionId ct = true
                  · simp [hk, hx, hp, hr, ha, hwn, hd] at h
                  · refine ⟨cd, e, ⟨by rw [hk], ?_, (pkce_matrix hash c cd verifier).mp hp, ?_, ha, ?_, ?_⟩⟩
                    · simpa [codeExpired] using hx
                    · simpa [redirectDiffers] using hr
                    · simpa [codeOutsideWindow] using hwn
                    · rw [← codeParentDeadOn_iff]; exact hd
      · simp [hk] at h
  · rintro ⟨cd, e, ht⟩
    obtain ⟨w1, hg, _⟩ := generate_ok w c ct cd.scopes (some cd.sessionId) w.nextSid cd.accountUuid cd.nonce e ht.account
    have hx : codeExpired cd.expiry (asSecs ct) = false := by
      simp [codeExpired]; exact ht.unexpired
    have hp := (pkce_matrix hash c cd verifier).mpr ht.pkce
    have hr : redirectDiffers redirect cd.redirectUri = false := by simp [redirectDiffers, ht.sameRedirect]
    have hwn : codeOutsideWindow (withinWindow e ct) = false := by simp [codeOutsideWindow, ht.window]
    have hd : codeParentDeadOn e cd.sessionId ct = false := by
      rw [← Bool.not_eq_true, codeParentDeadOn_iff]; exact ht.parentLive
    rw [ht.isCode]
    unfold exchangeCode
    simp only [ne_eq, not_true_eq_false, ↓reduceIte, hx, hp, hr, ht.account, hwn, hd, hg, Bool.false_eq_true]
    exact ⟨_, _, rfl⟩

/-- What a successful code exchange hands out: exactly the code's scopes, bound to the code's
account and to the login session that authorised it, under the redeeming client's key, in a fresh
OAuth2 session. -/
theorem exchange_code_grant {hash : Nat → Nat} {w w' : World} {c : TClient} {t : Tok} {redirect : Nat}
    {verifier : Option Nat} {ct : Nat} {r : Resp}
    (h : exchangeCode hash w c t redirect verifier ct = (w', .ok r)) :
    ∃ cd, t = .code c.base.uuid cd ∧ r.scopes = cd.scopes ∧ r.acct = cd.accountUuid ∧
      r.parent = some cd.sessionId ∧ r.sid = w.nextSid ∧
      r.access = .access c.base.uuid ⟨cd.scopes, some cd.sessionId, w.nextSid, accessExp ct, cd.accountUuid, asSecs ct⟩ ∧
      r.refresh = some (.refresh c.base.uuid ⟨cd.scopes, some cd.sessionId, w.nextSid,
        refreshExp (asSecs ct) c.refreshExpiry, cd.accountUuid, asSecs ct, cd.nonce⟩) := by
  obtain ⟨cd, e, ht⟩ := (exchange_code_ok_iff hash w c t redirect verifier ct).mp ⟨w', r, h⟩
  refine ⟨cd, ht.isCode, ?_⟩
  obtain ⟨w1, hg, _⟩ := generate_ok w c ct cd.scopes (some cd.sessionId) w.nextSid cd.accountUuid cd.nonce e ht.account
  have hx : codeExpired cd.expiry (asSecs ct) = false := by
    simp [codeExpired]; exact ht.unexpired
  have hp := (pkce_matrix hash c cd verifier).mpr ht.pkce
  have hr : redirectDiffers redirect cd.redirectUri = false := by simp [redirectDiffers, ht.sameRedirect]
  have hwn : codeOutsideWindow (withinWindow e ct) = false := by simp [codeOutsideWindow, ht.window]
  have hd : codeParentDeadOn e cd.sessionId ct = false := by
    rw [← Bool.not_eq_true, codeParentDeadOn_iff]; exact ht.parentLive
  rw [ht.isCode] at h
  unfold exchangeCode at h
  simp only [ne_eq, not_true_eq_false, ↓reduceIte, hx, hp, hr, ht.account, hwn, hd, hg, Bool.false_eq_true,
    Prod.mk.injEq, Except.ok.injEq] at h
  obtain ⟨_, h2⟩ := h
  subst h2
  simp

end Kanidm.OAuth2.Token
