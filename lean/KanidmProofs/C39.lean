import KanidmProofs.Lemmas.OAuth2Token
/-!
# C39 — OAuth2 tokens are redeemable only as issued

Property theorems only (helpers: `Lemmas/OAuth2Token.lean`).  The model
(`KanidmModel/OAuth2/Token.lean`) transcribes the token endpoint, introspection, userinfo and
revocation of `idm/oauth2.rs` and `check_oauth2_account_uuid_valid` of `idm/server.rs` over C36's
model of an account entry; every comparison, error kind, constant and the order of the checks is
regenerated from the source (`Gen.OAuth2Token`), so an edit of the anchored code re-states these
theorems.  Right-hand sides are written from the property text (`Revoked`, `ExpiredAt`, `LiveAt`,
plain `<`, `⊆`).
-/
namespace Kanidm.OAuth2.Token
open Kanidm.OAuth2 Kanidm.Gen.OAuth2Token Kanidm.SessionPlugin Kanidm.SessionMerge Kanidm.Gen.SessionOrd

/-! ## 0. What is pinned -/

/-- The order of the checks of the two grants and the commit rule of the token endpoint's caller,
as the hand model transcribes them. A re-ordering in the source re-generates the lists and breaks
this theorem by name. -/
theorem check_orders_pinned :
    codeCheckOrder = [.parse, .decrypt, .expiry, .pkce, .redirect, .account, .window, .parentSession] ∧
    refreshCheckOrder = [.parse, .decrypt, .kind, .expiry, .valid, .sessionPresent, .reuse, .scopes] ∧
    commitOnOk = true ∧ (∀ e, commitOnErr e = true ↔ e = .invalidGrant) := by
  refine ⟨rfl, rfl, rfl, ?_⟩
  intro e; cases e <;> simp [commitOnErr]

/-! ## 1. PKCE -/

/-- The statement's PKCE clause: a recorded challenge needs a verifier hashing to it; and (as
coded) without a recorded challenge the client must not require PKCE and no verifier may be sent. -/
def PkceOk (hash : Nat → Nat) (c : TClient) (cd : ExchangeCode) (v : Option Nat) : Prop :=
  (∃ ch x, cd.codeChallenge = some ch ∧ v = some x ∧ hash x = ch) ∨
  (cd.codeChallenge = none ∧ c.base.requirePkce = false ∧ v = none)

theorem pkce_matrix (hash : Nat → Nat) (c : TClient) (cd : ExchangeCode) (v : Option Nat) :
    pkceCheck hash c cd v = none ↔ PkceOk hash c cd v := by
  unfold pkceCheck PkceOk pkceVerifyFails pkceVerify pkceRequiredButAbsent pkceStrayVerifier
  cases hc : cd.codeChallenge with
  | some ch =>
    cases v with
    | none => simp
    | some x =>
      by_cases hx : ch = hash x
      · simp [hx]
      · have : ¬ hash x = ch := fun h => hx h.symm
        simp [hx, this]
  | none =>
    cases hr : c.base.requirePkce <;> cases v <;> simp

example : PkceOk id ⟨⟨1, .pub false, [], [], false, [], []⟩, 0, 60, [], []⟩ ⟨2, 3, 100, some 7, 5, [0], none, none⟩ (some 7) :=
  Or.inl ⟨7, 7, rfl, rfl, rfl⟩

/-! ## 2. The authorisation-code grant -/

/-- The login session that authorised the code is on record and revoked or expired. -/
def ParentDead (e : Entry) (sid ct : Nat) : Prop := ∃ s, uatOf e sid = some s ∧ (Revoked s ∨ ExpiredAt s ct)

theorem codeParentDeadOn_iff (e : Entry) (sid ct : Nat) : codeParentDeadOn e sid ct = true ↔ ParentDead e sid ct := by
  unfold codeParentDeadOn ParentDead codeParentDeadRevoked codeParentDeadExpires codeParentDeadNever codeParentAbsent
  have hfold : (e.uats.bind fun m => lookup m sid) = uatOf e sid := rfl
  simp only [hfold]
  cases hu : uatOf e sid with
  | none => simp
  | some s =>
    unfold Revoked ExpiredAt
    cases hs : s.state <;> simp [hs]

/-- The terms on which a code is redeemable, in the words of the statement: it is a code of this
very client (`H_jwe`: it decrypts under the client's key), not expired, the PKCE clause holds, the
redirect URI is the one in the code, the account exists and is inside its validity window, and the
authorising login session is neither revoked nor expired. -/
structure CodeTerms (hash : Nat → Nat) (w : World) (c : TClient) (t : Tok) (redirect : Nat)
    (verifier : Option Nat) (ct : Nat) (cd : ExchangeCode) (e : Entry) : Prop where
  isCode : t = .code c.base.uuid cd
  unexpired : asSecs ct < cd.expiry
  pkce : PkceOk hash c cd verifier
  sameRedirect : redirect = cd.redirectUri
  account : w.acct cd.accountUuid = some e
  window : withinWindow e ct = true
  parentLive : ¬ ParentDead e cd.sessionId ct

theorem generate_ok (w : World) (c : TClient) (ct : Nat) (scopes : List Nat) (parent : Option Nat)
    (sid acct : Nat) (nonce : Option Nat) (e : Entry) (he : w.acct acct = some e) :
    ∃ w', generate w c ct scopes parent sid acct nonce =
      (w', .ok { sid := sid, acct := acct, parent := parent, scopes := scopes, iat := asSecs ct,
                 aexp := accessExp ct, rexp := some (refreshExp (asSecs ct) c.refreshExpiry),
                 idToken := scopes.contains scopeOpenid,
                 access := .access c.base.uuid ⟨scopes, parent, sid, accessExp ct, acct, asSecs ct⟩,
                 refresh := some (.refresh c.base.uuid
                   ⟨scopes, parent, sid, refreshExp (asSecs ct) c.refreshExpiry, acct, asSecs ct, nonce⟩) }) ∧
      w.write acct (.grant sid parent (some (sessionExpiry ct c.refreshExpiry)) ct) ct = some w' := by
  obtain ⟨w', hw'⟩ := update_isSome (w := w) id (.grant sid parent (some (sessionExpiry ct c.refreshExpiry)) ct) ct he
  refine ⟨w', ?_, hw'⟩
  unfold generate World.write
  rw [hw']

theorem generate_result {w w' : World} {c : TClient} {ct : Nat} {scopes : List Nat} {parent : Option Nat}
    {sid acct : Nat} {nonce : Option Nat} {r : Resp}
    (h : generate w c ct scopes parent sid acct nonce = (w', .ok r)) :
    r.sid = sid ∧ r.acct = acct ∧ r.parent = parent ∧ r.scopes = scopes ∧
    r.access = .access c.base.uuid ⟨scopes, parent, sid, accessExp ct, acct, asSecs ct⟩ ∧
    r.refresh = some (.refresh c.base.uuid
      ⟨scopes, parent, sid, refreshExp (asSecs ct) c.refreshExpiry, acct, asSecs ct, nonce⟩) ∧
    w.write acct (.grant sid parent (some (sessionExpiry ct c.refreshExpiry)) ct) ct = some w' := by
  unfold generate at h
  cases hw : w.write acct (.grant sid parent (some (sessionExpiry ct c.refreshExpiry)) ct) ct with
  | none => simp [hw] at h
  | some w1 =>
    simp only [hw, Prod.mk.injEq, Except.ok.injEq] at h
    obtain ⟨h1, h2⟩ := h
    subst h1; subst h2
    simp

/-- **First sentence of the property, both directions.** The code grant yields tokens exactly on
the terms `CodeTerms`. -/
theorem exchange_code_ok_iff (hash : Nat → Nat) (w : World) (c : TClient) (t : Tok) (redirect : Nat)
    (verifier : Option Nat) (ct : Nat) :
    (∃ w' r, exchangeCode hash w c t redirect verifier ct = (w', .ok r)) ↔
      ∃ cd e, CodeTerms hash w c t redirect verifier ct cd e := by
  constructor
  · rintro ⟨w', r, h⟩
    unfold exchangeCode at h
    cases t with
    | access _ _ => simp at h
    | garbage => simp at h
    | refresh _ _ => simp at h
    | clientAccess _ _ => simp at h
    | code key cd =>
      simp only at h
      by_cases hk : key = c.base.uuid
      · by_cases hx : codeExpired cd.expiry (asSecs ct) = true
        · simp [hk, hx] at h
        · cases hp : pkceCheck hash c cd verifier with
          | some e => simp [hk, hx, hp] at h
          | none =>
            by_cases hr : redirectDiffers redirect cd.redirectUri = true
            · simp [hk, hx, hp, hr] at h
            · cases ha : w.acct cd.accountUuid with
              | none => simp [hk, hx, hp, hr, ha] at h
              | some e =>
                by_cases hwn : codeOutsideWindow (withinWindow e ct) = true
                · simp [hk, hx, hp, hr, ha, hwn] at h
                · by_cases hd : codeParentDeadOn e cd.sessionId ct = true
                  · simp [hk, hx, hp, hr, ha, hwn, hd] at h
                  · refine ⟨cd, e, ⟨by rw [hk], ?_, (pkce_matrix hash c cd verifier).mp hp, ?_, ha, ?_, ?_⟩⟩
                    · simpa [codeExpired] using hx
                    · simpa [redirectDiffers] using hr
                    · simpa [codeOutsideWindow] using hwn
                    · rw [← codeParentDeadOn_iff]; exact hd
      · simp [hk] at h
  · rintro ⟨cd, e, ht⟩
    obtain ⟨w1, hg, _⟩ := generate_ok w c ct cd.scopes (some cd.sessionId) w.nextSid cd.accountUuid cd.nonce e ht.account
    have hx : codeExpired cd.expiry (asSecs ct) = false := by
      simp [codeExpired]; exact ht.unexpired
    have hp := (pkce_matrix hash c cd verifier).mpr ht.pkce
    have hr : redirectDiffers redirect cd.redirectUri = false := by simp [redirectDiffers, ht.sameRedirect]
    have hwn : codeOutsideWindow (withinWindow e ct) = false := by simp [codeOutsideWindow, ht.window]
    have hd : codeParentDeadOn e cd.sessionId ct = false := by
      rw [← Bool.not_eq_true, codeParentDeadOn_iff]; exact ht.parentLive
    rw [ht.isCode]
    unfold exchangeCode
    simp only [ne_eq, not_true_eq_false, ↓reduceIte, hx, hp, hr, ht.account, hwn, hd, hg, Bool.false_eq_true]
    exact ⟨_, _, rfl⟩

/-- What a successful code exchange hands out: exactly the code's scopes, bound to the code's
account and to the login session that authorised it, under the redeeming client's key, in a fresh
OAuth2 session. -/
theorem exchange_code_grant {hash : Nat → Nat} {w w' : World} {c : TClient} {t : Tok} {redirect : Nat}
    {verifier : Option Nat} {ct : Nat} {r : Resp}
    (h : exchangeCode hash w c t redirect verifier ct = (w', .ok r)) :
    ∃ cd, t = .code c.base.uuid cd ∧ r.scopes = cd.scopes ∧ r.acct = cd.accountUuid ∧
      r.parent = some cd.sessionId ∧ r.sid = w.nextSid ∧
      r.access = .access c.base.uuid ⟨cd.scopes, some cd.sessionId, w.nextSid, accessExp ct, cd.accountUuid, asSecs ct⟩ ∧
      r.refresh = some (.refresh c.base.uuid ⟨cd.scopes, some cd.sessionId, w.nextSid,
        refreshExp (asSecs ct) c.refreshExpiry, cd.accountUuid, asSecs ct, cd.nonce⟩) := by
  obtain ⟨cd, e, ht⟩ := (exchange_code_ok_iff hash w c t redirect verifier ct).mp ⟨w', r, h⟩
  refine ⟨cd, ht.isCode, ?_⟩
  obtain ⟨w1, hg, _⟩ := generate_ok w c ct cd.scopes (some cd.sessionId) w.nextSid cd.accountUuid cd.nonce e ht.account
  have hx : codeExpired cd.expiry (asSecs ct) = false := by
    simp [codeExpired]; exact ht.unexpired
  have hp := (pkce_matrix hash c cd verifier).mpr ht.pkce
  have hr : redirectDiffers redirect cd.redirectUri = false := by simp [redirectDiffers, ht.sameRedirect]
  have hwn : codeOutsideWindow (withinWindow e ct) = false := by simp [codeOutsideWindow, ht.window]
  have hd : codeParentDeadOn e cd.sessionId ct = false := by
    rw [← Bool.not_eq_true, codeParentDeadOn_iff]; exact ht.parentLive
  rw [ht.isCode] at h
  unfold exchangeCode at h
  simp only [ne_eq, not_true_eq_false, ↓reduceIte, hx, hp, hr, ht.account, hwn, hd, hg, Bool.false_eq_true,
    Prod.mk.injEq, Except.ok.injEq] at h
  obtain ⟨_, h2⟩ := h
  subst h2
  simp

/-! ## 3. The refresh grant -/

/-- The terms on which a refresh token is redeemable: it is a refresh token of this very client,
not expired, its account passes `check_oauth2_account_uuid_valid`, its OAuth2 session is on record
and was not re-issued in a later second than the token (= the token was not rotated, as the code
measures it), and requested scopes, if any, are among the token's. -/
structure RefreshTerms (w : World) (c : TClient) (t : Tok) (req : Option (List Nat)) (ct : Nat)
    (rt : RefreshTok) (e : Entry) (s : Sess) : Prop where
  isRefresh : t = .refresh c.base.uuid rt
  unexpired : asSecs ct < rt.exp
  account : w.acct rt.acct = some e
  valid : acctValid e rt.sid rt.parent rt.iat ct = true
  session : lookup e.o2s rt.sid = some s
  notRotated : ¬ rt.iat < asSecs s.issued
  narrow : ∀ rs, req = some rs → ∀ x ∈ rs, x ∈ rt.scopes

theorem exchange_refresh_ok_iff (w : World) (c : TClient) (t : Tok) (req : Option (List Nat)) (ct : Nat) :
    (∃ w' r, exchangeRefresh w c t req ct = (w', .ok r)) ↔ ∃ rt e s, RefreshTerms w c t req ct rt e s := by
  constructor
  · rintro ⟨w', r, h⟩
    unfold exchangeRefresh at h
    cases t with
    | access _ _ => simp at h
    | garbage => simp at h
    | code _ _ => simp at h
    | clientAccess _ _ => simp at h
    | refresh key rt =>
      simp only at h
      by_cases hk : key = c.base.uuid
      · by_cases hx : refreshExpired rt.exp (asSecs ct) = true
        · simp [hk, hx] at h
        · cases ha : w.acct rt.acct with
          | none => simp [hk, hx, ha] at h
          | some e =>
            cases hv : acctValid e rt.sid rt.parent rt.iat ct with
            | false => simp [hk, hx, ha, hv] at h
            | true =>
              cases hs : lookup e.o2s rt.sid with
              | none => simp [hk, hx, ha, hv, hs] at h
              | some s =>
                by_cases hr : refreshReuse rt.iat (asSecs s.issued) = true
                · simp only [hk, ne_eq, not_true_eq_false, ↓reduceIte, hx, ha, hv, Bool.not_true,
                    Bool.false_eq_true, hs, hr] at h
                  split at h <;> simp at h
                · refine ⟨rt, e, s, ⟨by rw [hk], ?_, ha, hv, hs, ?_, ?_⟩⟩
                  · simpa [refreshExpired] using hx
                  · simpa [refreshReuse] using hr
                  · intro rs hrs
                    subst hrs
                    by_cases hall : ∀ x ∈ rs, x ∈ rt.scopes
                    · exact hall
                    · exfalso
                      simp [hk, hx, ha, hv, hs, hr, refreshScopesOk, hall] at h
      · simp [hk] at h
  · rintro ⟨rt, e, s, ht⟩
    have hx : refreshExpired rt.exp (asSecs ct) = false := by
      simp [refreshExpired]; exact ht.unexpired
    have hr : refreshReuse rt.iat (asSecs s.issued) = false := by
      simp [refreshReuse]; exact Nat.le_of_not_lt ht.notRotated
    rw [ht.isRefresh]
    unfold exchangeRefresh
    simp only [ne_eq, not_true_eq_false, ↓reduceIte, hx, ht.account, ht.valid, ht.session, hr,
      Bool.false_eq_true, Bool.not_true]
    cases req with
    | none =>
      obtain ⟨w1, hg, _⟩ := generate_ok w c ct rt.scopes rt.parent rt.sid rt.acct rt.nonce e ht.account
      exact ⟨_, _, hg⟩
    | some rs =>
      have hsub : refreshScopesOk (rs.all fun x => rt.scopes.contains x) = true := by
        simpa [refreshScopesOk] using ht.narrow rs rfl
      obtain ⟨w1, hg, _⟩ := generate_ok w c ct rs rt.parent rt.sid rt.acct rt.nonce e ht.account
      simp only [hsub, ↓reduceIte]
      exact ⟨_, _, hg⟩

/-- **Second sentence, first half.** What a successful refresh hands out: scopes that are all among
the presented token's, the same OAuth2 session, account and parent, under the same client's key. -/
theorem exchange_refresh_grant {w w' : World} {c : TClient} {t : Tok} {req : Option (List Nat)} {ct : Nat}
    {r : Resp} (h : exchangeRefresh w c t req ct = (w', .ok r)) :
    ∃ rt, t = .refresh c.base.uuid rt ∧ (∀ x ∈ r.scopes, x ∈ rt.scopes) ∧
      (∀ rs, req = some rs → r.scopes = rs) ∧ (req = none → r.scopes = rt.scopes) ∧
      r.sid = rt.sid ∧ r.acct = rt.acct ∧ r.parent = rt.parent ∧
      r.access = .access c.base.uuid ⟨r.scopes, rt.parent, rt.sid, accessExp ct, rt.acct, asSecs ct⟩ ∧
      r.refresh = some (.refresh c.base.uuid
        ⟨r.scopes, rt.parent, rt.sid, refreshExp (asSecs ct) c.refreshExpiry, rt.acct, asSecs ct, rt.nonce⟩) := by
  obtain ⟨rt, e, s, ht⟩ := (exchange_refresh_ok_iff w c t req ct).mp ⟨w', r, h⟩
  refine ⟨rt, ht.isRefresh, ?_⟩
  have hx : refreshExpired rt.exp (asSecs ct) = false := by
    simp [refreshExpired]; exact ht.unexpired
  have hr : refreshReuse rt.iat (asSecs s.issued) = false := by
    simp [refreshReuse]; exact Nat.le_of_not_lt ht.notRotated
  rw [ht.isRefresh] at h
  unfold exchangeRefresh at h
  simp only [ne_eq, not_true_eq_false, ↓reduceIte, hx, ht.account, ht.valid, ht.session, hr,
    Bool.false_eq_true, Bool.not_true] at h
  cases req with
  | none =>
    obtain ⟨h1, h2, h3, h4, h5, h6, _⟩ := generate_result h
    refine ⟨?_, ?_, ?_, h1, h2, h3, ?_, ?_⟩
    · intro x hx'; rw [h4] at hx'; exact hx'
    · intro rs hrs; cases hrs
    · intro _; exact h4
    · rw [h5, h4]
    · rw [h6, h4]
  | some rs =>
    have hsub : refreshScopesOk (rs.all fun x => rt.scopes.contains x) = true := by
      simpa [refreshScopesOk] using ht.narrow rs rfl
    simp only [hsub, ↓reduceIte] at h
    obtain ⟨h1, h2, h3, h4, h5, h6, _⟩ := generate_result h
    refine ⟨?_, ?_, ?_, h1, h2, h3, ?_, ?_⟩
    · intro x hx'; rw [h4] at hx'; exact ht.narrow rs rfl x hx'
    · intro rs' hrs; cases hrs; exact h4
    · intro hn; cases hn
    · rw [h5, h4]
    · rw [h6, h4]

/-! ## 4. Revoked or expired means rejected — by exchange, introspection and userinfo -/

/-- What the third sentence of the property names: the account is outside its validity window, or
the token's OAuth2 session (on record) is revoked or expired, or its parent login session (on
record) is revoked or expired.  "On record": the OAuth2 session is written by the transaction that
issues the token; a token whose session is *not* on the entry is, as coded, honoured for the five
minute replication grace window whatever the parent's state (C36's `orphan_…` theorems). -/
def Dead (e : Entry) (sid : Nat) (parent : Option Nat) (ct : Nat) : Prop :=
  withinWindow e ct = false ∨
  ∃ o, lookup e.o2s sid = some o ∧
    ((Revoked o ∨ ExpiredAt o ct) ∨
     ∃ p u, parent = some p ∧ uatOf e p = some u ∧ (Revoked u ∨ ExpiredAt u ct))

theorem not_live_of_dead {s : Sess} {ct : Nat} (h : Revoked s ∨ ExpiredAt s ct) : ¬ LiveAt s ct := by
  intro hl
  rcases h with h | h
  · exact hl.1 h
  · exact hl.2 h

theorem dead_not_valid {e : Entry} {sid : Nat} {parent : Option Nat} {ct : Nat} (iat : Nat)
    (h : Dead e sid parent ct) : acctValid e sid parent iat ct = false := by
  cases hv : acctValid e sid parent iat ct with
  | false => rfl
  | true =>
    obtain ⟨hw, ⟨o, ho, hlo, hp⟩ | ⟨hn, _⟩⟩ := (acctValid_true_iff e sid parent iat ct).mp hv
    · rcases h with h | ⟨o', ho', hd | ⟨p, u, hpp, hu, hd⟩⟩
      · rw [hw] at h; cases h
      · rw [ho] at ho'; cases ho'
        exact absurd hlo (not_live_of_dead hd)
      · rcases hp p hpp with ⟨u', hu', hlu⟩ | ⟨hnone, _⟩
        · rw [hu] at hu'; cases hu'
          exact absurd hlu (not_live_of_dead hd)
        · rw [hu] at hnone; cases hnone
    · rcases h with h | ⟨o', ho', _⟩
      · rw [hw] at h; cases h
      · rw [hn] at ho'; cases ho'

/-- Whatever fails `check_oauth2_account_uuid_valid` is rejected by the refresh grant (state
untouched), is never reported active by introspection, and is refused by userinfo — whichever client
presents it and whatever else the request says. -/
theorem invalid_rejected_everywhere_raw (w : World) (e : Entry) (ct : Nat) :
    (∀ c key (rt : RefreshTok) req, w.acct rt.acct = some e → acctValid e rt.sid rt.parent rt.iat ct = false →
        ∃ err, exchangeRefresh w c (.refresh key rt) req ct = (w, .error err)) ∧
    (∀ key (a : AccessTok), w.acct a.acct = some e → acctValid e a.sid a.parent a.iat ct = false →
        ∀ x, introspect w (.access key a) ct = .ok x → x = .inactive) ∧
    (∀ key (a : ClientAccessTok), w.acct a.acct = some e → acctValid e a.sid none a.iat ct = false →
        ∀ x, introspect w (.clientAccess key a) ct = .ok x → x = .inactive) ∧
    (∀ id key (a : AccessTok), w.acct a.acct = some e → acctValid e a.sid a.parent a.iat ct = false →
        ∃ err, userinfo w id (.access key a) ct = .error err) := by
  refine ⟨?_, ?_, ?_, ?_⟩
  · intro c key rt req ha hv
    unfold exchangeRefresh
    by_cases hk : key = c.base.uuid
    · by_cases hx : refreshExpired rt.exp (asSecs ct) = true
      · exact ⟨refreshExpiredErr, by simp [hk, hx]⟩
      · exact ⟨refreshInvalidErr, by simp [hk, hx, ha, hv]⟩
    · exact ⟨refreshDecryptErr, by simp [hk]⟩
  · intro key a ha hv x hx
    unfold introspect at hx
    cases hc : w.clientByKey key with
    | none => simp [hc] at hx
    | some c =>
      by_cases he : introspectJwtExpired a.exp (asSecs ct) = true
      · simp [hc, he] at hx; exact hx.symm
      · simp [hc, he, ha, hv] at hx; exact hx.symm
  · intro key a ha hv x hx
    unfold introspect at hx
    cases hc : w.clientByKey key with
    | none => simp [hc] at hx
    | some c =>
      by_cases he : introspectJweExpired a.exp (asSecs ct) = true
      · simp [hc, he] at hx; exact hx.symm
      · simp [hc, he, ha, hv] at hx; exact hx.symm
  · intro id key a ha hv
    unfold userinfo
    cases hc : w.client id with
    | none => exact ⟨_, rfl⟩
    | some c =>
      by_cases hk : key = c.base.uuid
      · by_cases he : userinfoExpired a.exp (asSecs ct) = true
        · exact ⟨userinfoExpiredErr, by simp [hk, he]⟩
        · exact ⟨userinfoInvalidErr, by simp [hk, he, ha, hv]⟩
      · exact ⟨userinfoVerifyErr, by simp [hk]⟩

/-- **Third sentence of the property.** A token whose account is outside its validity window, or
whose OAuth2 session or parent login session has been revoked or has expired, is rejected by the
refresh grant (state untouched), is never reported active by introspection, and is refused by
userinfo — whichever client presents it and whatever else the request says. -/
theorem dead_rejected_everywhere_raw (w : World) (e : Entry) (ct : Nat) :
    (∀ c key (rt : RefreshTok) req, w.acct rt.acct = some e → Dead e rt.sid rt.parent ct →
        ∃ err, exchangeRefresh w c (.refresh key rt) req ct = (w, .error err)) ∧
    (∀ key (a : AccessTok), w.acct a.acct = some e → Dead e a.sid a.parent ct →
        ∀ x, introspect w (.access key a) ct = .ok x → x = .inactive) ∧
    (∀ key (a : ClientAccessTok), w.acct a.acct = some e → Dead e a.sid none ct →
        ∀ x, introspect w (.clientAccess key a) ct = .ok x → x = .inactive) ∧
    (∀ id key (a : AccessTok), w.acct a.acct = some e → Dead e a.sid a.parent ct →
        ∃ err, userinfo w id (.access key a) ct = .error err) := by
  obtain ⟨h1, h2, h3, h4⟩ := invalid_rejected_everywhere_raw w e ct
  exact ⟨fun c key rt req ha hd => h1 c key rt req ha (dead_not_valid rt.iat hd),
    fun key a ha hd => h2 key a ha (dead_not_valid a.iat hd),
    fun key a ha hd => h3 key a ha (dead_not_valid a.iat hd),
    fun id key a ha hd => h4 id key a ha (dead_not_valid a.iat hd)⟩

/-- The same for the code grant: an account outside its window, or an authorising login session
that is revoked or expired, and the code yields nothing (D12, and its expiry half). -/
theorem dead_code_rejected_raw (hash : Nat → Nat) (w : World) (c : TClient) (key : Nat) (cd : ExchangeCode)
    (redirect : Nat) (verifier : Option Nat) (ct : Nat) (e : Entry)
    (ha : w.acct cd.accountUuid = some e)
    (hd : withinWindow e ct = false ∨ ParentDead e cd.sessionId ct) :
    ∃ err, exchangeCode hash w c (.code key cd) redirect verifier ct = (w, .error err) := by
  cases hr : exchangeCode hash w c (.code key cd) redirect verifier ct with
  | mk w' x =>
    cases x with
    | error err =>
      refine ⟨err, ?_⟩
      -- every error path leaves the state alone
      unfold exchangeCode at hr
      simp only at hr
      by_cases hk : key = c.base.uuid
      · by_cases hx : codeExpired cd.expiry (asSecs ct) = true
        · simp [hk, hx] at hr; rw [hr.1]
        · cases hp : pkceCheck hash c cd verifier with
          | some e' => simp [hk, hx, hp] at hr; rw [hr.1]
          | none =>
            by_cases hrd : redirectDiffers redirect cd.redirectUri = true
            · simp [hk, hx, hp, hrd] at hr; rw [hr.1]
            · rcases hd with hwin | hpd
              · simp [hk, hx, hp, hrd, ha, hwin, codeOutsideWindow] at hr; rw [hr.1]
              · by_cases hwn : codeOutsideWindow (withinWindow e ct) = true
                · simp [hk, hx, hp, hrd, ha, hwn] at hr; rw [hr.1]
                · have := (codeParentDeadOn_iff e cd.sessionId ct).mpr hpd
                  simp [hk, hx, hp, hrd, ha, hwn, this] at hr; rw [hr.1]
      · simp [hk] at hr; rw [hr.1]
    | ok r =>
      obtain ⟨cd', e', ht⟩ := (exchange_code_ok_iff hash w c (.code key cd) redirect verifier ct).mp ⟨w', r, hr⟩
      have hcd : cd' = cd := by have := ht.isCode; injection this with _ h2; exact h2.symm
      subst hcd
      have hee : e' = e := by have := ht.account; rw [ha] at this; injection this with h; exact h.symm
      subst hee
      rcases hd with hwin | hpd
      · rw [ht.window] at hwin; cases hwin
      · exact absurd hpd ht.parentLive

/-- Every token's own expiry: at or after `exp` (whole seconds) nothing is redeemable. -/
theorem expired_token_rejected_raw (hash : Nat → Nat) (w : World) (ct : Nat) :
    (∀ c key (cd : ExchangeCode) u v, cd.expiry ≤ asSecs ct →
        ∃ err, exchangeCode hash w c (.code key cd) u v ct = (w, .error err)) ∧
    (∀ c key (rt : RefreshTok) req, rt.exp ≤ asSecs ct →
        ∃ err, exchangeRefresh w c (.refresh key rt) req ct = (w, .error err)) ∧
    (∀ key (a : AccessTok), a.exp ≤ asSecs ct →
        ∀ x, introspect w (.access key a) ct = .ok x → x = .inactive) ∧
    (∀ id key (a : AccessTok), a.exp ≤ asSecs ct → ∃ err, userinfo w id (.access key a) ct = .error err) := by
  refine ⟨?_, ?_, ?_, ?_⟩
  · intro c key cd u v h
    unfold exchangeCode
    by_cases hk : key = c.base.uuid
    · exact ⟨codeExpiredErr, by simp [hk, codeExpired, h]⟩
    · exact ⟨codeDecryptErr, by simp [hk]⟩
  · intro c key rt req h
    unfold exchangeRefresh
    by_cases hk : key = c.base.uuid
    · exact ⟨refreshExpiredErr, by simp [hk, refreshExpired, h]⟩
    · exact ⟨refreshDecryptErr, by simp [hk]⟩
  · intro key a h x hx
    unfold introspect at hx
    cases hc : w.clientByKey key with
    | none => simp [hc] at hx
    | some c => simp [hc, introspectJwtExpired, h] at hx; exact hx.symm
  · intro id key a h
    unfold userinfo
    cases hc : w.client id with
    | none => exact ⟨_, rfl⟩
    | some c =>
      by_cases hk : key = c.base.uuid
      · exact ⟨userinfoExpiredErr, by simp [hk, userinfoExpired, h]⟩
      · exact ⟨userinfoVerifyErr, by simp [hk]⟩

/-! ## 5. Reuse of a rotated refresh token revokes the session -/

/-- The OAuth2 session `sid` of account `a` is on record and revoked. -/
def O2Revoked (w : World) (a sid : Nat) : Prop := ∃ e, w.acct a = some e ∧ RevokedIn e.o2s sid

/-- The login session `p` of account `a` is on record and revoked. -/
def LoginRevoked (w : World) (a p : Nat) : Prop := ∃ e, w.acct a = some e ∧ UatRevoked e p

/-- Whatever account `a` has on record under OAuth2 session id `sid` is revoked — "revoked or gone"
(C36's `DeadO2`): every write starts with the `Entry::invalidate` trim, which drops a revocation
once it is older than `CHANGELOG_MAX_AGE`. -/
def O2Dead (w : World) (a sid : Nat) : Prop := ∃ e, w.acct a = some e ∧ DeadO2 e sid

/-- The same for login session id `p` (C36's `DeadUat`; the trim also drops the oldest login
sessions of an account that holds more than `SESSION_MAXIMUM`). -/
def LoginDead (w : World) (a p : Nat) : Prop := ∃ e, w.acct a = some e ∧ DeadUat e p

/-- With distinct session ids (the value sets are `BTreeMap`s) on record and revoked is a case of
revoked or gone. -/
theorem o2Dead_of_revoked {w : World} {a sid : Nat} (h : O2Revoked w a sid)
    (hn : ∀ e, w.acct a = some e → KeysNodup e.o2s) : O2Dead w a sid := by
  obtain ⟨e, he, hr⟩ := h
  exact ⟨e, he, deadO2_of_revokedIn (hn e he) hr⟩

theorem loginDead_of_revoked {w : World} {a p : Nat} (h : LoginRevoked w a p)
    (hn : ∀ e m, w.acct a = some e → e.uats = some m → KeysNodup m) : LoginDead w a p := by
  obtain ⟨e, he, hr⟩ := h
  exact ⟨e, he, deadUat_of_uatRevoked (fun m hm => hn e m he hm) hr⟩

/-- A session that passes the validity test is not revoked. -/
theorem valid_session_not_revoked {e : Entry} {sid : Nat} {parent : Option Nat} {iat ct : Nat} {s : Sess}
    (hv : acctValid e sid parent iat ct = true) (hs : lookup e.o2s sid = some s) : ¬ Revoked s := by
  obtain ⟨_, ⟨o, ho, hlo, _⟩ | ⟨hn, _⟩⟩ := (acctValid_true_iff e sid parent iat ct).mp hv
  · rw [hs] at ho; cases ho; exact hlo.1
  · rw [hs] at hn; cases hn

/-- **Second sentence, second half, as coded.** A refresh token that is otherwise honoured
(unexpired, account and sessions valid) but older, in whole seconds, than the last re-issue of its
session is refused with `invalid_grant`, the session is revoked by that very request (on record and
revoked, and nothing else on record under its id), and the caller commits the revocation. -/
theorem reuse_revokes_session_raw (w : World) (c : TClient) (rt : RefreshTok) (req : Option (List Nat))
    (ct : Nat) (e : Entry) (s : Sess)
    (hexp : asSecs ct < rt.exp) (ha : w.acct rt.acct = some e)
    (hv : acctValid e rt.sid rt.parent rt.iat ct = true)
    (hs : lookup e.o2s rt.sid = some s) (hrot : rt.iat < asSecs s.issued) :
    ∃ w', exchangeRefresh w c (.refresh c.base.uuid rt) req ct = (w', .error .invalidGrant) ∧
      O2Revoked w' rt.acct rt.sid ∧ O2Dead w' rt.acct rt.sid ∧ commitOnErr .invalidGrant = true := by
  obtain ⟨w', hw'⟩ := update_isSome (w := w) id (.revokeO2 rt.sid) ct ha
  have hx : refreshExpired rt.exp (asSecs ct) = false := by simp [refreshExpired]; exact hexp
  have hr : refreshReuse rt.iat (asSecs s.issued) = true := by simp [refreshReuse]; exact hrot
  refine ⟨w', ?_, ?_, ?_, rfl⟩
  · unfold exchangeRefresh World.write
    simp [hx, ha, hv, hs, hr, hw', refreshReuseErr]
  · obtain ⟨e0, he0, he1, _⟩ := write_spec (w := w) (w' := w') hw'
    rw [ha] at he0; cases he0
    refine ⟨_, he1, ?_⟩
    -- the session passed the validity test, so the write's trim keeps it
    have hs' := lookup_trim_o2s (t := trimCidOf w.cid) hs
      (fun c hc => absurd ⟨c, hc⟩ (valid_session_not_revoked hv hs))
    show RevokedIn (plugin ct w.cid (applyMod w.cid (trimEntry (trimCidOf w.cid) e) (.revokeO2 rt.sid))).o2s rt.sid
    apply revokedIn_plugin
    refine ⟨Kanidm.SessionPlugin.revoke w.cid s, ?_, revoke_revoked w.cid s⟩
    simp only [applyMod]
    rw [lookup_revokeKey, hs']; simp
  · obtain ⟨e0, he0, he1, _⟩ := write_spec (w := w) (w' := w') hw'
    exact ⟨_, he1, deadO2_revokeO2_write e0 ct w.cid rt.sid⟩

/-- A successful refresh that extends the session (its new expiry is later than the recorded one:
always so when time has advanced under an unchanged refresh lifetime) stamps the session with the
instant of the refresh. -/
theorem rotation_stamps_session {w w' : World} {c : TClient} {rt : RefreshTok} {req : Option (List Nat)}
    {ct : Nat} {r : Resp} {e : Entry} {s : Sess}
    (h : exchangeRefresh w c (.refresh c.base.uuid rt) req ct = (w', .ok r))
    (ha : w.acct rt.acct = some e) (hs : lookup e.o2s rt.sid = some s)
    (hext : ∀ x, s.state = .expiresAt x → x < sessionExpiry ct c.refreshExpiry) :
    ∃ e' s', w'.acct rt.acct = some e' ∧ lookup e'.o2s rt.sid = some s' ∧ s'.issued = ct := by
  obtain ⟨rt', e0, s0, ht⟩ := (exchange_refresh_ok_iff w c _ req ct).mp ⟨w', r, h⟩
  have hrt : rt' = rt := by have := ht.isRefresh; injection this with _ h2; exact h2.symm
  subst hrt
  have he0 : e0 = e := by have := ht.account; rw [ha] at this; injection this with h; exact h.symm
  subst he0
  have hs0 : s0 = s := by have := ht.session; rw [hs] at this; injection this with h; exact h.symm
  subst hs0
  -- the session is live (it passed the validity test), so the re-issue replaces it
  have hlive : LiveAt s0 ct := by
    obtain ⟨_, ⟨o, ho, hlo, _⟩ | ⟨hn, _⟩⟩ := (acctValid_true_iff e0 rt'.sid rt'.parent rt'.iat ct).mp ht.valid
    · rw [hs] at ho; cases ho; exact hlo
    · rw [hs] at hn; cases hn
  have hwrite : ∃ scopes, w.write rt'.acct (.grant rt'.sid rt'.parent (some (sessionExpiry ct c.refreshExpiry)) ct) ct = some w' ∧ scopes = r.scopes := by
    have hx : refreshExpired rt'.exp (asSecs ct) = false := by simp [refreshExpired]; exact ht.unexpired
    have hr : refreshReuse rt'.iat (asSecs s0.issued) = false := by
      simp [refreshReuse]; exact Nat.le_of_not_lt ht.notRotated
    unfold exchangeRefresh at h
    simp only [ne_eq, not_true_eq_false, ↓reduceIte, hx, ht.account, ht.valid, ht.session, hr,
      Bool.false_eq_true, Bool.not_true] at h
    cases req with
    | none => exact ⟨_, (generate_result h).2.2.2.2.2.2, rfl⟩
    | some rs =>
      have hsub : refreshScopesOk (rs.all fun x => rt'.scopes.contains x) = true := by
        simpa [refreshScopesOk] using ht.narrow rs rfl
      simp only [hsub, ↓reduceIte] at h
      exact ⟨_, (generate_result h).2.2.2.2.2.2, rfl⟩
  obtain ⟨_, hw, _⟩ := hwrite
  obtain ⟨e1, he1, he2, _⟩ := write_spec hw
  rw [ha] at he1; cases he1
  -- … and the write's trim keeps it
  have hs' := lookup_trim_o2s (t := trimCidOf w.cid) hs (fun cc hcc => absurd ⟨cc, hcc⟩ hlive.1)
  have hins : lookup (applyMod w.cid (trimEntry (trimCidOf w.cid) e0)
        (.grant rt'.sid rt'.parent (some (sessionExpiry ct c.refreshExpiry)) ct)).o2s rt'.sid
      = some ⟨.expiresAt (sessionExpiry ct c.refreshExpiry), ct, encParent rt'.parent⟩ := by
    simp only [applyMod, stateOf]
    rw [lookup_insertO2, hs']
    have : Kanidm.Gen.SessionPlugin.o2InsertReplaces
        (SState.cmp (.expiresAt (sessionExpiry ct c.refreshExpiry)) s0.state) = true := by
      cases hst : s0.state with
      | revokedAt cc => exact absurd ⟨cc, hst⟩ hlive.1
      | neverExpires => simp [SState.cmp, Kanidm.Gen.SessionPlugin.o2InsertReplaces]
      | expiresAt x =>
        have hlt := hext x hst
        simp only [SState.cmp, Kanidm.Gen.SessionPlugin.o2InsertReplaces, beq_iff_eq]
        exact Nat.compare_eq_gt.mpr hlt
    simp [this]
  obtain ⟨s', hs', hiss⟩ := plugin_o2s_issued _ ct w.cid rt'.sid _ hins
  exact ⟨_, s', he2, hs', hiss⟩

/-- The full reading — *every* second presentation of a refresh token that was already redeemed
is refused — … -/
def reuse_revokes_full : Prop :=
  ∀ (w w1 w2 : World) (c : TClient) (rt : RefreshTok) (ct1 ct2 : Nat) (r1 : Resp) (x : Except OErr Resp),
    exchangeRefresh w c (.refresh c.base.uuid rt) none ct1 = (w1, .ok r1) → ct1 ≤ ct2 →
    exchangeRefresh w1 c (.refresh c.base.uuid rt) none ct2 = (w2, x) → ∃ err, x = .error err

def isOkB {α : Type} : Except OErr α → Bool
  | .ok _ => true
  | .error _ => false

/-- The witness world of finding D43: one basic client (uuid 400), one person (uuid 200) with a
never-expiring login session 300 and an OAuth2 session 1000 issued at 5.1 s. -/
def witnessClient : TClient := ⟨⟨400, .basic true false, [], [], false, [], []⟩, 7, 57600, [], []⟩
def witnessEntry : Entry :=
  { Entry.fresh (some 500) with
    uats := some [(300, ⟨.neverExpires, 0, 500⟩)],
    o2s := [(1000, ⟨.expiresAt (5100000000 + 57600 * 1000000000), 5100000000, 301⟩)] }
def witnessWorld : World :=
  { reg := [("rs".toList, witnessClient)], accts := [(200, witnessEntry)], nextSid := 1001, cid := 1 }
/-- The refresh token issued with that session: `iat` = second 5. -/
def witnessToken : RefreshTok := ⟨[0], some 300, 1000, 5 + 57600, 200, 5, none⟩

/-- … is false of the code (finding D43 / class `C39-F1:refresh-replay-same-second`): a rotation
inside the second the token was issued in (5.2 s) is invisible to the whole-second comparison, and
the rotated token is honoured again at 9 s. -/
theorem reuse_revokes_full_false : ¬ reuse_revokes_full := by
  intro h
  have h1 : isOkB (exchangeRefresh witnessWorld witnessClient (.refresh 400 witnessToken) none 5200000000).2 = true := by
    decide +kernel
  have h2 : isOkB (exchangeRefresh (exchangeRefresh witnessWorld witnessClient (.refresh 400 witnessToken) none 5200000000).1
      witnessClient (.refresh 400 witnessToken) none 9000000000).2 = true := by
    decide +kernel
  cases hr1 : exchangeRefresh witnessWorld witnessClient (.refresh 400 witnessToken) none 5200000000 with
  | mk w1 x1 =>
    rw [hr1] at h1 h2
    cases x1 with
    | error _ => simp [isOkB] at h1
    | ok r1 =>
      cases hr2 : exchangeRefresh w1 witnessClient (.refresh 400 witnessToken) none 9000000000 with
      | mk w2 x2 =>
        simp only at h2
        rw [hr2] at h2
        obtain ⟨err, herr⟩ := h witnessWorld w1 w2 witnessClient witnessToken 5200000000 9000000000 r1 x2 hr1 (by decide) hr2
        rw [herr] at h2
        simp [isOkB] at h2

/-- The partial statement that *is* true: once the rotation happened in a later second than the
token's `iat` and extended the session, presenting the rotated token again — right after, at any
later instant at which it would otherwise still be honoured — revokes the session. -/
theorem reuse_after_rotation_revokes_raw {w w1 : World} {c : TClient} {rt : RefreshTok} {req1 req2 : Option (List Nat)}
    {ct1 ct2 : Nat} {r1 : Resp} {e : Entry} {s : Sess}
    (hrot : exchangeRefresh w c (.refresh c.base.uuid rt) req1 ct1 = (w1, .ok r1))
    (ha : w.acct rt.acct = some e) (hs : lookup e.o2s rt.sid = some s)
    (hext : ∀ x, s.state = .expiresAt x → x < sessionExpiry ct1 c.refreshExpiry)
    (hlater : rt.iat < asSecs ct1)
    (hexp : asSecs ct2 < rt.exp)
    (hvalid : ∀ e1, w1.acct rt.acct = some e1 → acctValid e1 rt.sid rt.parent rt.iat ct2 = true) :
    ∃ w2, exchangeRefresh w1 c (.refresh c.base.uuid rt) req2 ct2 = (w2, .error .invalidGrant) ∧
      O2Revoked w2 rt.acct rt.sid ∧ O2Dead w2 rt.acct rt.sid := by
  obtain ⟨e1, s1, he1, hs1, hiss⟩ := rotation_stamps_session hrot ha hs hext
  obtain ⟨w2, h2, hrev, hdead, _⟩ := reuse_revokes_session_raw w1 c rt req2 ct2 e1 s1 hexp he1 (hvalid e1 he1) hs1 (by rw [hiss]; exact hlater)
  exact ⟨w2, h2, hrev, hdead⟩

/-! ## 6. Histories: what is revoked stays revoked or is trimmed away — never live again

Every write starts with the `Entry::invalidate` trim (C36's `SessionPlugin.step`): a revocation
older than `CHANGELOG_MAX_AGE` is dropped, and so are the oldest login sessions of an account that
holds more than `SESSION_MAXIMUM`.  So "on record and revoked" is not an invariant of histories;
"revoked or gone" (`O2Dead`, `LoginDead`) is — provided the id is not handed out a second time.  The
endpoints never do that (`EndpointMod`); a plain directory write could (`NoReissue`). -/

/-- The modlist of a write an endpoint makes to an entry `e` in world `w`: it records no login
session, and it grants an OAuth2 session id only if that is the fresh one (code exchange, client
credentials: `Uuid::new_v4`) or is on record and not revoked (refresh re-inserts the session it has
just found valid). -/
def EndpointMod (w : World) (e : Entry) (md : Mod) : Prop :=
  (∀ k c x i, md ≠ .record k c x i) ∧
  (∀ k p x i, md = .grant k p x i → k = w.nextSid ∨ ∃ s, lookup e.o2s k = some s ∧ ¬ Revoked s)

theorem endpointMod_grant_fresh (w : World) (e : Entry) (parent exp : Option Nat) (issued : Nat) :
    EndpointMod w e (.grant w.nextSid parent exp issued) :=
  ⟨fun _ _ _ _ h => (by cases h), fun k p x i h => (by injection h with h1; exact Or.inl h1.symm)⟩

theorem endpointMod_grant_live (w : World) {e : Entry} {sid : Nat} {s : Sess} (hs : lookup e.o2s sid = some s)
    (hl : ¬ Revoked s) (parent exp : Option Nat) (issued : Nat) :
    EndpointMod w e (.grant sid parent exp issued) :=
  ⟨fun _ _ _ _ h => (by cases h), fun k p x i h => (by injection h with h1; subst h1; exact Or.inr ⟨s, hs, hl⟩)⟩

theorem endpointMod_revokeO2 (w : World) (e : Entry) (sid : Nat) : EndpointMod w e (.revokeO2 sid) :=
  ⟨fun _ _ _ _ h => (by cases h), fun _ _ _ _ h => (by cases h)⟩

theorem endpointMod_touch (w : World) (e : Entry) : EndpointMod w e .touch :=
  ⟨fun _ _ _ _ h => (by cases h), fun _ _ _ _ h => (by cases h)⟩

/-- `w'` differs from `w` by at most write transactions on entries that exist (every event of the
model is of this kind); `P a e md` is what is known of the modlist `md` of the write to account `a`
whose entry was `e`.  Session ids already handed out stay handed out. -/
def AcctStep (P : Nat → Entry → Mod → Prop) (w w' : World) : Prop :=
  w.nextSid ≤ w'.nextSid ∧
  ∀ a e, w.acct a = some e →
    ∃ e', w'.acct a = some e' ∧
      (e' = e ∨ ∃ e0 md ct cid, e0.uats = e.uats ∧ e0.o2s = e.o2s ∧ P a e md ∧
        e' = Kanidm.SessionPlugin.step e0 (.write md ct cid))

theorem acctStep_refl (P : Nat → Entry → Mod → Prop) (w : World) : AcctStep P w w :=
  ⟨Nat.le_refl _, fun _ e h => ⟨e, h, Or.inl rfl⟩⟩

theorem acctStep_of_accts {P : Nat → Entry → Mod → Prop} {w w1 w' : World} (h : AcctStep P w w1)
    (ha : w'.accts = w1.accts) (hn : w1.nextSid ≤ w'.nextSid) : AcctStep P w w' := by
  refine ⟨Nat.le_trans h.1 hn, ?_⟩
  intro a e he
  obtain ⟨e', he', hc⟩ := h.2 a e he
  exact ⟨e', by simpa [World.acct, ha] using he', hc⟩

theorem acctStep_update {P : Nat → Entry → Mod → Prop} {w w' : World} {a : Nat} {f : Entry → Entry}
    {m : Mod} {ct : Nat} (hf : ∀ e : Entry, (f e).uats = e.uats ∧ (f e).o2s = e.o2s)
    (hP : ∀ e, w.acct a = some e → P a e m) (h : w.update a f m ct = some w') : AcctStep P w w' := by
  obtain ⟨e0, he0, he1, hoth, _, hsid⟩ := update_spec h
  refine ⟨Nat.le_of_eq hsid.symm, ?_⟩
  intro b e hb
  by_cases hba : b = a
  · subst hba
    rw [he0] at hb; cases hb
    exact ⟨_, he1, Or.inr ⟨f e0, m, ct, w.cid, (hf e0).1, (hf e0).2, hP e0 he0, rfl⟩⟩
  · exact ⟨e, by rw [hoth b hba]; exact hb, Or.inl rfl⟩

theorem acctStep_write {P : Nat → Entry → Mod → Prop} {w w' : World} {a : Nat} {m : Mod} {ct : Nat}
    (hP : ∀ e, w.acct a = some e → P a e m) (h : w.write a m ct = some w') : AcctStep P w w' :=
  acctStep_update (f := id) (fun _ => ⟨rfl, rfl⟩) hP h

theorem generate_acctStep {P : Nat → Entry → Mod → Prop} {w w' : World} {c : TClient} {ct : Nat}
    {scopes : List Nat} {parent : Option Nat} {sid acct : Nat} {nonce : Option Nat} {x : Except OErr Resp}
    (hP : ∀ e, w.acct acct = some e → P acct e (.grant sid parent (some (sessionExpiry ct c.refreshExpiry)) ct))
    (h : generate w c ct scopes parent sid acct nonce = (w', x)) : AcctStep P w w' := by
  unfold generate at h
  cases hw : w.write acct (.grant sid parent (some (sessionExpiry ct c.refreshExpiry)) ct) ct with
  | none => simp [hw] at h; rw [← h.1]; exact acctStep_refl P w
  | some w1 => simp [hw] at h; rw [← h.1]; exact acctStep_write hP hw

theorem exchangeCode_acctStep {hash : Nat → Nat} {w w' : World} {c : TClient} {t : Tok} {u : Nat}
    {v : Option Nat} {ct : Nat} {x : Except OErr Resp}
    (h : exchangeCode hash w c t u v ct = (w', x)) : AcctStep (fun _ e md => EndpointMod w e md) w w' := by
  unfold exchangeCode at h
  cases t with
  | access _ _ => simp at h; rw [← h.1]; exact acctStep_refl _ w
  | garbage => simp at h; rw [← h.1]; exact acctStep_refl _ w
  | refresh _ _ => simp at h; rw [← h.1]; exact acctStep_refl _ w
  | clientAccess _ _ => simp at h; rw [← h.1]; exact acctStep_refl _ w
  | code key cd =>
    simp only at h
    repeat' split at h
    all_goals first
      | (simp only [Prod.mk.injEq] at h; rw [← h.1]; exact acctStep_refl _ w)
      | skip
    all_goals
      rename_i hg
      simp only [Prod.mk.injEq] at h
      first
        | (rw [← h.1]
           exact acctStep_of_accts (generate_acctStep (fun e _ => endpointMod_grant_fresh w e _ _ _) hg) rfl
             (Nat.le_succ _))
        | (rw [← h.1]; exact generate_acctStep (fun e _ => endpointMod_grant_fresh w e _ _ _) hg)

theorem exchangeRefresh_acctStep {w w' : World} {c : TClient} {t : Tok} {req : Option (List Nat)} {ct : Nat}
    {x : Except OErr Resp} (h : exchangeRefresh w c t req ct = (w', x)) :
    AcctStep (fun _ e md => EndpointMod w e md) w w' := by
  unfold exchangeRefresh at h
  cases t with
  | access _ _ => simp at h; rw [← h.1]; exact acctStep_refl _ w
  | garbage => simp at h; rw [← h.1]; exact acctStep_refl _ w
  | code _ _ => simp at h; rw [← h.1]; exact acctStep_refl _ w
  | clientAccess _ _ => simp at h; rw [← h.1]; exact acctStep_refl _ w
  | refresh key rt =>
    simp only at h
    by_cases hk : key = c.base.uuid
    · by_cases hx : refreshExpired rt.exp (asSecs ct) = true
      · simp [hk, hx] at h; rw [← h.1]; exact acctStep_refl _ w
      · cases ha : w.acct rt.acct with
        | none => simp [hk, hx, ha] at h; rw [← h.1]; exact acctStep_refl _ w
        | some e =>
          cases hv : acctValid e rt.sid rt.parent rt.iat ct with
          | false => simp [hk, hx, ha, hv] at h; rw [← h.1]; exact acctStep_refl _ w
          | true =>
            cases hs : lookup e.o2s rt.sid with
            | none => simp [hk, hx, ha, hv, hs] at h; rw [← h.1]; exact acctStep_refl _ w
            | some s =>
              -- the re-issue re-inserts a session that has just passed the validity test
              have hP : ∀ e', w.acct rt.acct = some e' →
                  EndpointMod w e' (.grant rt.sid rt.parent (some (sessionExpiry ct c.refreshExpiry)) ct) := by
                intro e' he'
                rw [ha] at he'; cases he'
                exact endpointMod_grant_live w hs (valid_session_not_revoked hv hs) _ _ _
              simp only [hk, ne_eq, not_true_eq_false, ↓reduceIte, hx, ha, hv, Bool.not_true,
                Bool.false_eq_true, hs] at h
              repeat' split at h
              all_goals first
                | (simp only [Prod.mk.injEq] at h; rw [← h.1]; exact acctStep_refl _ w)
                | exact generate_acctStep hP h
                | (rename_i hw; simp only [Prod.mk.injEq] at h; rw [← h.1]
                   exact acctStep_write (fun e' _ => endpointMod_revokeO2 w e' _) hw)
    · simp [hk] at h; rw [← h.1]; exact acctStep_refl _ w

theorem exchangeCC_acctStep {w w' : World} {c : TClient} {valid : Bool} {req : Option (List Nat)} {ct : Nat}
    {x : Except OErr Resp} (h : exchangeCC w c valid req ct = (w', x)) :
    AcctStep (fun _ e md => EndpointMod w e md) w w' := by
  unfold exchangeCC at h
  split at h
  · simp only [Prod.mk.injEq] at h; rw [← h.1]; exact acctStep_refl _ w
  · simp only at h
    split at h
    · simp only [Prod.mk.injEq] at h; rw [← h.1]; exact acctStep_refl _ w
    · split at h
      · simp only [Prod.mk.injEq] at h; rw [← h.1]; exact acctStep_refl _ w
      · rename_i hw
        simp only [Prod.mk.injEq] at h
        rw [← h.1]
        exact acctStep_of_accts (acctStep_write (fun e _ => endpointMod_grant_fresh w e _ _ _) hw) rfl
          (Nat.le_succ _)

theorem tokenEndpoint_acctStep {hash : Nat → Nat} {w : World} {auth : Option (List Char × Option Nat)}
    {g : Grant} {ct : Nat} :
    AcctStep (fun _ e md => EndpointMod w e md) w (tokenEndpoint hash w auth g ct).1 := by
  unfold tokenEndpoint
  cases ha : authenticate w auth with
  | error e => exact acctStep_refl _ w
  | ok cv =>
    obtain ⟨c, valid⟩ := cv
    simp only
    have hd : ∀ w' x, dispatch hash w c valid g ct = (w', x) →
        AcctStep (fun _ e md => EndpointMod w e md) w w' := by
      intro w' x hx
      unfold dispatch at hx
      cases g with
      | code t u v => exact exchangeCode_acctStep hx
      | refresh t s => exact exchangeRefresh_acctStep hx
      | cc s => exact exchangeCC_acctStep hx
    cases hr : dispatch hash w c valid g ct with
    | mk w' x =>
      cases x with
      | ok r => simp only; split; exact hd _ _ hr; exact acctStep_refl _ w
      | error e => simp only; split; exact hd _ _ hr; exact acctStep_refl _ w

theorem revoke_acctStep (w : World) (t : Tok) (ct : Nat) :
    AcctStep (fun _ e md => EndpointMod w e md) w (revoke w t ct).1 := by
  have core : ∀ sid exp acct, AcctStep (fun _ e md => EndpointMod w e md) w (revokeCore w sid exp acct ct).1 := by
    intro sid exp acct
    unfold revokeCore
    split
    · exact acctStep_refl _ w
    · split
      · rename_i hw; exact acctStep_write (fun e _ => endpointMod_revokeO2 w e _) hw
      · exact acctStep_refl _ w
  unfold revoke
  cases t with
  | garbage => exact acctStep_refl _ w
  | access key a => simp only; split; exact acctStep_refl _ w; exact core _ _ _
  | refresh key r => simp only; split; exact acctStep_refl _ w; exact core _ _ _
  | clientAccess key a => simp only; split; exact acctStep_refl _ w; exact core _ _ _
  | code key cd => simp only; split <;> exact acctStep_refl _ w

/-- What is known of the modlist event `op` applies to account `b`: a directory write applies the
modlist it names, every other event is an endpoint (or a change of the validity window: `touch`). -/
def OpMod (w : World) (op : Op) (b : Nat) (e : Entry) (md : Mod) : Prop :=
  (∃ m ct, op = .dir b m ct ∧ md = m) ∨ EndpointMod w e md

/-- Every event of a history is such a step. -/
theorem step_acctStep (hash : Nat → Nat) (w : World) (op : Op) : AcctStep (OpMod w op) w (step hash w op) := by
  have mono : AcctStep (fun _ e md => EndpointMod w e md) w (step hash w op) → AcctStep (OpMod w op) w (step hash w op) := by
    intro h
    refine ⟨h.1, fun a e he => ?_⟩
    obtain ⟨e', he', hc⟩ := h.2 a e he
    refine ⟨e', he', ?_⟩
    rcases hc with hc | ⟨e0, md, ct, cid, h1, h2, h3, h4⟩
    · exact Or.inl hc
    · exact Or.inr ⟨e0, md, ct, cid, h1, h2, Or.inr h3, h4⟩
  cases op with
  | token auth g ct => apply mono; simp only [step]; exact tokenEndpoint_acctStep
  | revoke t ct => apply mono; simp only [step]; exact revoke_acctStep w t ct
  | dir a m ct =>
    simp only [step]
    cases hw : w.write a m ct with
    | none => exact acctStep_refl _ w
    | some w' => exact acctStep_write (fun _ _ => Or.inl ⟨m, ct, rfl, rfl⟩) hw
  | setExpire a t ct =>
    apply mono
    simp only [step]
    cases hw : w.update a (fun e => { e with expire := t }) .touch ct with
    | none => exact acctStep_refl _ w
    | some w' =>
      exact acctStep_update (f := fun e => { e with expire := t }) (fun _ => ⟨rfl, rfl⟩)
        (fun e _ => endpointMod_touch w e) hw
  | setValidFrom a t ct =>
    apply mono
    simp only [step]
    cases hw : w.update a (fun e => { e with validFrom := t }) .touch ct with
    | none => exact acctStep_refl _ w
    | some w' =>
      exact acctStep_update (f := fun e => { e with validFrom := t }) (fun _ => ⟨rfl, rfl⟩)
        (fun e _ => endpointMod_touch w e) hw

/-- One step keeps "revoked or gone", as long as its modlist does not hand the id out again (C36's
`dead_oauth2_stays_dead_write`, `dead_stays_dead_write`). -/
theorem acctStep_keeps_dead {P : Nat → Entry → Mod → Prop} {w w' : World} (h : AcctStep P w w') (a k : Nat) :
    ((∀ e md, P a e md → ∀ p x i, md = .grant k p x i → ∃ s, lookup e.o2s k = some s ∧ ¬ Revoked s) →
        O2Dead w a k → O2Dead w' a k) ∧
    ((∀ e md, P a e md → ∀ c x i, md ≠ .record k c x i) → LoginDead w a k → LoginDead w' a k) := by
  constructor
  · rintro hP ⟨e, he, hd⟩
    obtain ⟨e', he', hc⟩ := h.2 a e he
    refine ⟨e', he', ?_⟩
    rcases hc with rfl | ⟨e0, md, ct, cid, _, ho, hp, rfl⟩
    · exact hd
    · have hd0 : DeadO2 e0 k := by unfold DeadO2; rw [ho]; exact hd
      refine dead_oauth2_stays_dead_write e0 md ct cid k hd0 ?_
      intro p x i hmd
      obtain ⟨s, hs, hl⟩ := hP e md hp p x i hmd
      exact absurd (deadO2_lookup hd hs) hl
  · rintro hP ⟨e, he, hd⟩
    obtain ⟨e', he', hc⟩ := h.2 a e he
    refine ⟨e', he', ?_⟩
    rcases hc with rfl | ⟨e0, md, ct, cid, hu, _, hp, rfl⟩
    · exact hd
    · have hd0 : DeadUat e0 k := by unfold DeadUat UatAt; rw [hu]; exact hd
      exact dead_stays_dead_write e0 md ct cid k hd0 (fun c x i hmd => absurd hmd (hP e md hp c x i))

/-- No directory write of the history puts session id `k` on account `a` again (session ids are
fresh uuids, recorded once; the endpoints never re-use one: `EndpointMod`). -/
def NoReissue (a k : Nat) (ops : List Op) : Prop :=
  ∀ op ∈ ops, ∀ m ct, op = .dir a m ct → (∀ c x i, m ≠ .record k c x i) ∧ (∀ p x i, m ≠ .grant k p x i)

/-- **Never after the session became invalid.** Once everything on record under an OAuth2 session
id (one already handed out) or a login session id is revoked, it stays so — revoked, or trimmed
away, never live again — after every continuation of the history: exchanges, refreshes, client
credentials, revocations, directory writes (not re-creating that very id), changes of the validity
window, at any instants, by any clients. -/
theorem revocation_is_permanent (hash : Nat → Nat) (ops : List Op) (w : World) (a k : Nat)
    (hno : NoReissue a k ops) :
    (k < w.nextSid → O2Dead w a k → O2Dead (run hash w ops) a k) ∧
    (LoginDead w a k → LoginDead (run hash w ops) a k) := by
  induction ops generalizing w with
  | nil => exact ⟨fun _ => id, id⟩
  | cons op tl ih =>
    have hs := step_acctStep hash w op
    have h1 := acctStep_keeps_dead hs a k
    have h2 := ih (step hash w op) (fun o ho => hno o (List.mem_cons_of_mem _ ho))
    have hdir : ∀ m ct, op = .dir a m ct → (∀ c x i, m ≠ .record k c x i) ∧ (∀ p x i, m ≠ .grant k p x i) :=
      hno op (List.mem_cons_self ..)
    constructor
    · intro hk hd
      refine h2.1 (Nat.lt_of_lt_of_le hk hs.1) (h1.1 ?_ hd)
      rintro e md (⟨m, ct, hop, rfl⟩ | hp) p x i hmd
      · exact absurd hmd ((hdir md ct hop).2 p x i)
      · rcases hp.2 k p x i hmd with hfresh | hlive
        · omega
        · exact hlive
    · intro hd
      refine h2.2 (h1.2 ?_ hd)
      rintro e md (⟨m, ct, hop, rfl⟩ | hp) c x i
      · exact (hdir md ct hop).1 c x i
      · exact hp.1 k c x i

/-- Put together: after a revocation, in every later state of every history, the session is
revoked or trimmed away, and every token of it fails the validity test — at once while the
revocation is on record (`Dead`), and like any token whose session is not on record, i.e. from the
end of its own five-minute grace window on, once the trim has dropped it
(`invalid_rejected_everywhere`: refused by refresh, introspection and userinfo). -/
theorem revoked_session_refused_forever (hash : Nat → Nat) (ops : List Op) (w : World) (a sid : Nat)
    (h : O2Dead w a sid) (hsid : sid < w.nextSid) (hno : NoReissue a sid ops) (ct : Nat) :
    ∃ e, (run hash w ops).acct a = some e ∧
      (∀ parent, Dead e sid parent ct ∨ lookup e.o2s sid = none) ∧
      (∀ parent iat, iat * 1000000000 + fiveMinutesNs ≤ ct → acctValid e sid parent iat ct = false) := by
  obtain ⟨e, he, hd⟩ := (revocation_is_permanent hash ops w a sid hno).1 hsid h
  refine ⟨e, he, fun _ => ?_, fun parent iat hg => deadO2_not_valid hd parent hg⟩
  cases hs : lookup e.o2s sid with
  | none => exact Or.inr rfl
  | some s => exact Or.inl (Or.inr ⟨s, hs, Or.inl (Or.inl (deadO2_lookup hd hs))⟩)

/-- The same for the tokens under a revoked login session `p` (not an api token of the account):
in every later state the login session is revoked or trimmed away, and a token naming it as its
parent fails the validity test from the end of its grace window on — at once (`Dead`) while both
the login session and the token's own session are on record. -/
theorem revoked_login_refused_forever (hash : Nat → Nat) (ops : List Op) (w : World) (a p : Nat)
    (h : LoginDead w a p) (hno : NoReissue a p ops) (ct : Nat) :
    ∃ e, (run hash w ops).acct a = some e ∧
      (∀ sid o u, lookup e.o2s sid = some o → uatOf e p = some u → Dead e sid (some p) ct) ∧
      (p ∉ e.apis → ∀ sid iat, iat * 1000000000 + fiveMinutesNs ≤ ct →
        acctValid e sid (some p) iat ct = false) := by
  obtain ⟨e, he, hd⟩ := (revocation_is_permanent hash ops w a p hno).2 h
  refine ⟨e, he, fun sid o u ho hu => ?_, fun hapi sid iat hg => deadUat_not_valid hd hapi sid hg⟩
  exact Or.inr ⟨o, ho, Or.inr ⟨p, u, rfl, hu, Or.inl (deadUat_lookup hd hu)⟩⟩

/-! ## 7. Only the client it was issued to; never broader than issued — along every chain of redemptions -/

/-- The client key a token was made under, its scopes, its account. -/
def tokKey : Tok → Option Nat
  | .code k _ => some k
  | .refresh k _ => some k
  | .clientAccess k _ => some k
  | .access k _ => some k
  | .garbage => none

def tokScopes : Tok → List Nat
  | .code _ c => c.scopes
  | .refresh _ r => r.scopes
  | .clientAccess _ a => a.scopes
  | .access _ a => a.scopes
  | .garbage => []

def tokAcct : Tok → Option Nat
  | .code _ c => some c.accountUuid
  | .refresh _ r => some r.acct
  | .clientAccess _ a => some a.acct
  | .access _ a => some a.acct
  | .garbage => none

/-- `t'` is one of the tokens of the response `r`. -/
def InResp (r : Resp) (t' : Tok) : Prop := t' = r.access ∨ r.refresh = some t'

/-- `t'` was minted by redeeming `t` — at some client, in some state, at some instant. -/
inductive Minted (hash : Nat → Nat) : Tok → Tok → Prop where
  | byCode {w w' : World} {c : TClient} {t t' : Tok} {u : Nat} {v : Option Nat} {ct : Nat} {r : Resp} :
      exchangeCode hash w c t u v ct = (w', .ok r) → InResp r t' → Minted hash t t'
  | byRefresh {w w' : World} {c : TClient} {t t' : Tok} {req : Option (List Nat)} {ct : Nat} {r : Resp} :
      exchangeRefresh w c t req ct = (w', .ok r) → InResp r t' → Minted hash t t'

/-- Any chain of redemptions, across any states. -/
inductive Lineage (hash : Nat → Nat) : Tok → Tok → Prop where
  | one {a b : Tok} : Minted hash a b → Lineage hash a b
  | more {a b c : Tok} : Lineage hash a b → Minted hash b c → Lineage hash a c

/-- What is preserved: same client key, same account, scopes not broader. -/
def Narrower (t t' : Tok) : Prop :=
  tokKey t' = tokKey t ∧ tokAcct t' = tokAcct t ∧ ∀ x ∈ tokScopes t', x ∈ tokScopes t

theorem minted_narrower {hash : Nat → Nat} {t t' : Tok} (h : Minted hash t t') : Narrower t t' := by
  cases h with
  | byCode hx hin =>
    obtain ⟨cd, ht, _, _, _, _, hacc, href⟩ := exchange_code_grant hx
    subst ht
    rcases hin with h1 | h1
    · rw [h1, hacc]; exact ⟨rfl, rfl, fun x hx => hx⟩
    · rw [href] at h1; injection h1 with h1; rw [← h1]; exact ⟨rfl, rfl, fun x hx => hx⟩
  | byRefresh hx hin =>
    obtain ⟨rt, ht, hsub, _, _, _, _, _, hacc, href⟩ := exchange_refresh_grant hx
    subst ht
    rcases hin with h1 | h1
    · rw [h1, hacc]; exact ⟨rfl, rfl, hsub⟩
    · rw [href] at h1; injection h1 with h1; rw [← h1]; exact ⟨rfl, rfl, hsub⟩

/-- **A refresh never grants scopes beyond the original grant; tokens stay with their client and
account** — for every chain of redemptions starting from any token, through any sequence of
states. -/
theorem lineage_never_broadens {hash : Nat → Nat} {t t' : Tok} (h : Lineage hash t t') : Narrower t t' := by
  induction h with
  | one hm => exact minted_narrower hm
  | more _ hm ih =>
    obtain ⟨k1, a1, s1⟩ := ih
    obtain ⟨k2, a2, s2⟩ := minted_narrower hm
    exact ⟨k2.trans k1, a2.trans a1, fun x hx => s1 x (s2 x hx)⟩

/-- **Only at the client it was issued for.** Whatever the token endpoint grants, it grants to a
registered client named by the request, which (if confidential) presented its own secret, and the
redeemed code / refresh token was made under that client's key; the tokens handed out are under
the same key. Client credentials need a confidential client. -/
theorem token_endpoint_only_own_client {hash : Nat → Nat} {w w' : World}
    {auth : Option (List Char × Option Nat)} {g : Grant} {ct : Nat} {r : Resp}
    (h : tokenEndpoint hash w auth g ct = (w', .ok r)) :
    ∃ id sec c, auth = some (id, sec) ∧ w.client id = some c ∧
      (c.base.isBasic = true → sec = some c.secret) ∧
      (∀ t u v, g = .code t u v → ∃ cd, t = .code c.base.uuid cd) ∧
      (∀ t s, g = .refresh t s → ∃ rt, t = .refresh c.base.uuid rt) ∧
      (∀ s, g = .cc s → c.base.isBasic = true) ∧
      tokKey r.access = some c.base.uuid := by
  unfold tokenEndpoint at h
  cases ha : authenticate w auth with
  | error e => simp [ha] at h
  | ok cv =>
    obtain ⟨c, valid⟩ := cv
    simp only [ha] at h
    -- what authentication established
    have hauth : ∃ id sec, auth = some (id, sec) ∧ w.client id = some c ∧
        (c.base.isBasic = true → sec = some c.secret) ∧ (valid = true → c.base.isBasic = true) := by
      unfold authenticate at ha
      cases auth with
      | none => simp at ha
      | some p =>
        obtain ⟨id, sec⟩ := p
        simp only at ha
        cases hc : w.client id with
        | none => simp [hc] at ha
        | some c' =>
          simp only [hc] at ha
          cases hb : c'.base.isBasic with
          | true =>
            simp only [hb, ↓reduceIte] at ha
            cases sec with
            | none => simp at ha
            | some s' =>
              simp only at ha
              by_cases hs : authSecretOk (s' == c'.secret) = true
              · simp only [hs, ↓reduceIte, Except.ok.injEq, Prod.mk.injEq] at ha
                obtain ⟨h1, _⟩ := ha
                subst h1
                refine ⟨id, some s', rfl, hc, ?_, fun _ => hb⟩
                intro _
                have : s' = c'.secret := by simpa [authSecretOk] using hs
                rw [this]
              · simp [hs] at ha
          | false =>
            simp only [hb, Bool.false_eq_true, ↓reduceIte, Except.ok.injEq, Prod.mk.injEq] at ha
            obtain ⟨h1, h2⟩ := ha
            subst h1
            refine ⟨id, sec, rfl, hc, ?_, ?_⟩
            · intro hx; rw [hb] at hx; cases hx
            · intro hx; rw [← h2] at hx; simp [authPublicValid] at hx
    obtain ⟨id, sec, h1, h2, h3, h4⟩ := hauth
    cases hd : dispatch hash w c valid g ct with
    | mk w1 x =>
      cases x with
      | error e => simp [hd] at h
      | ok r1 =>
        simp only [hd, Prod.mk.injEq, Except.ok.injEq] at h
        obtain ⟨_, hr⟩ := h
        subst hr
        refine ⟨id, sec, c, h1, h2, h3, ?_, ?_, ?_, ?_⟩
        · intro t u v hg; subst hg
          obtain ⟨cd, ht, _⟩ := exchange_code_grant (by simpa [dispatch] using hd)
          exact ⟨cd, ht⟩
        · intro t s hg; subst hg
          obtain ⟨rt, ht, _⟩ := exchange_refresh_grant (by simpa [dispatch] using hd)
          exact ⟨rt, ht⟩
        · intro s hg; subst hg
          simp only [dispatch] at hd
          apply h4
          cases hv : valid with
          | true => rfl
          | false => simp [exchangeCC, hv, ccAuthOk] at hd
        · cases g with
          | code t u v =>
            obtain ⟨cd, _, _, _, _, _, hacc, _⟩ := exchange_code_grant (by simpa [dispatch] using hd)
            rw [hacc]; rfl
          | refresh t s =>
            obtain ⟨rt, _, _, _, _, _, _, _, hacc, _⟩ := exchange_refresh_grant (by simpa [dispatch] using hd)
            rw [hacc]; rfl
          | cc s =>
            simp only [dispatch, exchangeCC] at hd
            repeat' split at hd
            all_goals first
              | (simp at hd; done)
              | (simp only [Prod.mk.injEq, Except.ok.injEq] at hd; rw [← hd.2]; rfl)

/-- Userinfo answers only at the client whose key signed the access token; introspection reports
the client the token was made for. -/
theorem access_token_only_at_its_client (w : World) (id : List Char) (t : Tok) (ct : Nat) (x : Nat × Nat)
    (h : userinfo w id t ct = .ok x) :
    ∃ c a, w.client id = some c ∧ t = .access c.base.uuid a ∧ asSecs ct < a.exp ∧
      ∃ e, w.acct a.acct = some e ∧ acctValid e a.sid a.parent a.iat ct = true := by
  unfold userinfo at h
  cases hc : w.client id with
  | none => simp [hc] at h
  | some c =>
    simp only [hc] at h
    cases t with
    | access key a =>
      simp only at h
      by_cases hk : key = c.base.uuid
      · by_cases he : userinfoExpired a.exp (asSecs ct) = true
        · simp [hk, he] at h
        · cases ha : w.acct a.acct with
          | none => simp [hk, he, ha] at h
          | some e =>
            cases hv : acctValid e a.sid a.parent a.iat ct with
            | false => simp [hk, he, ha, hv] at h
            | true =>
              refine ⟨c, a, rfl, by rw [hk], ?_, e, ha, hv⟩
              simpa [userinfoExpired] using he
      · simp [hk] at h
    | code _ _ => simp at h
    | refresh _ _ => simp at h
    | clientAccess _ _ => simp at h
    | garbage => simp at h

/-- An active introspection answer: exactly an unexpired access token whose account passes the
validity test (and hence, by `dead_not_valid`, is not `Dead`). -/
theorem introspect_active_only_if (w : World) (t : Tok) (ct sid acct : Nat) (scopes : List Nat)
    (iat exp client : Nat) (h : introspect w t ct = .ok (.active sid acct scopes iat exp client)) :
    (∃ key a, t = .access key a ∧ asSecs ct < a.exp ∧ a.sid = sid ∧ a.acct = acct ∧ a.scopes = scopes ∧
      ∃ e, w.acct a.acct = some e ∧ acctValid e a.sid a.parent a.iat ct = true) ∨
    (∃ key a, t = .clientAccess key a ∧ asSecs ct < a.exp ∧ a.sid = sid ∧ a.acct = acct ∧ a.scopes = scopes ∧
      ∃ e, w.acct a.acct = some e ∧ acctValid e a.sid none a.iat ct = true) := by
  unfold introspect at h
  cases t with
  | garbage => simp at h
  | code key _ => simp only at h; split at h <;> simp at h
  | refresh key _ => simp only at h; split at h <;> simp at h
  | access key a =>
    left
    simp only at h
    cases hc : w.clientByKey key with
    | none => simp [hc] at h
    | some c =>
      by_cases he : introspectJwtExpired a.exp (asSecs ct) = true
      · simp [hc, he] at h
      · cases ha : w.acct a.acct with
        | none => simp [hc, he, ha] at h
        | some e =>
          cases hv : acctValid e a.sid a.parent a.iat ct with
          | false => simp [hc, he, ha, hv] at h
          | true =>
            simp [hc, he, ha, hv] at h
            exact ⟨key, a, rfl, by simpa [introspectJwtExpired] using he, h.1, h.2.1, h.2.2.1, e, ha, hv⟩
  | clientAccess key a =>
    right
    simp only at h
    cases hc : w.clientByKey key with
    | none => simp [hc] at h
    | some c =>
      by_cases he : introspectJweExpired a.exp (asSecs ct) = true
      · simp [hc, he] at h
      · cases ha : w.acct a.acct with
        | none => simp [hc, he, ha] at h
        | some e =>
          cases hv : acctValid e a.sid none a.iat ct with
          | false => simp [hc, he, ha, hv] at h
          | true =>
            simp [hc, he, ha, hv] at h
            exact ⟨key, a, rfl, by simpa [introspectJweExpired] using he, h.1, h.2.1, h.2.2.1, e, ha, hv⟩

/-- The revocation endpoint: an unexpired token of a registered client revokes its session — after
it nothing on record under the session id is live; the session is on record and revoked unless it
already was revoked so long ago that this write's trim drops it. -/
theorem revoke_endpoint_revokes (w : World) (key : Nat) (rt : RefreshTok) (ct : Nat) (c : TClient) (e : Entry) (s : Sess)
    (hc : w.clientByKey key = some c) (hexp : asSecs ct < rt.exp) (ha : w.acct rt.acct = some e)
    (hs : lookup e.o2s rt.sid = some s) :
    O2Dead (revoke w (.refresh key rt) ct).1 rt.acct rt.sid ∧
    ((∀ c', s.state = .revokedAt c' → ¬ c' < trimCidOf w.cid) →
      O2Revoked (revoke w (.refresh key rt) ct).1 rt.acct rt.sid) := by
  obtain ⟨w', hw'⟩ := update_isSome (w := w) id (.revokeO2 rt.sid) ct ha
  have hx : revokeExpired rt.exp (asSecs ct) = false := by simp [revokeExpired]; exact hexp
  have : (revoke w (.refresh key rt) ct).1 = w' := by
    simp [revoke, hc, revokeCore, hx, World.write, hw']
  rw [this]
  obtain ⟨e0, he0, he1, _⟩ := write_spec (w := w) (w' := w') hw'
  rw [ha] at he0; cases he0
  refine ⟨⟨_, he1, deadO2_revokeO2_write e ct w.cid rt.sid⟩, fun hkeep => ⟨_, he1, ?_⟩⟩
  have hs' := lookup_trim_o2s (t := trimCidOf w.cid) hs hkeep
  show RevokedIn (plugin ct w.cid (applyMod w.cid (trimEntry (trimCidOf w.cid) e) (.revokeO2 rt.sid))).o2s rt.sid
  apply revokedIn_plugin
  refine ⟨Kanidm.SessionPlugin.revoke w.cid s, ?_, revoke_revoked w.cid s⟩
  simp only [applyMod]
  rw [lookup_revokeKey, hs']; simp

/-! ## 8. The hypotheses are satisfiable -/

/-- A code of the witness client for the witness person, exchanged at 6 s with the right verifier:
all of `CodeTerms` hold, so tokens are issued … -/
def witnessCode : ExchangeCode := ⟨200, 300, 65, some 7, 5, [0, 3], none, none⟩

example : ∃ cd e, CodeTerms id witnessWorld witnessClient (.code 400 witnessCode) 5 (some 7) 6000000000 cd e := by
  refine ⟨witnessCode, witnessEntry, ⟨rfl, by decide, Or.inl ⟨7, 7, rfl, rfl, rfl⟩, rfl, rfl, by decide, ?_⟩⟩
  rw [← codeParentDeadOn_iff]
  decide

/-- … and with a wrong verifier, another client's key, a changed redirect URI or one second after
its expiry they are not. -/
example : isOkB (exchangeCode id witnessWorld witnessClient (.code 400 witnessCode) 5 (some 7) 6000000000).2 = true ∧
    isOkB (exchangeCode id witnessWorld witnessClient (.code 400 witnessCode) 5 (some 8) 6000000000).2 = false ∧
    isOkB (exchangeCode id witnessWorld witnessClient (.code 401 witnessCode) 5 (some 7) 6000000000).2 = false ∧
    isOkB (exchangeCode id witnessWorld witnessClient (.code 400 witnessCode) 6 (some 7) 6000000000).2 = false ∧
    isOkB (exchangeCode id witnessWorld witnessClient (.code 400 witnessCode) 5 (some 7) 65000000000).2 = false := by
  decide +kernel

/-- The witness refresh token is redeemable at 7 s (all of `RefreshTerms`), its session then
carries that instant, and presenting it again at 9 s revokes the session; the revoked session is
`Dead`. -/
example : isOkB (exchangeRefresh witnessWorld witnessClient (.refresh 400 witnessToken) (some [0]) 7000000000).2 = true ∧
    isOkB (exchangeRefresh witnessWorld witnessClient (.refresh 400 witnessToken) (some [0, 3]) 7000000000).2 = false ∧
    isOkB (exchangeRefresh (exchangeRefresh witnessWorld witnessClient (.refresh 400 witnessToken) none 7000000000).1
      witnessClient (.refresh 400 witnessToken) none 9000000000).2 = false := by
  decide +kernel

example : Dead { Entry.fresh (some 500) with o2s := [(1000, ⟨.revokedAt 3, 0, 0⟩)] } 1000 none 5 :=
  Or.inr ⟨_, rfl, Or.inl (Or.inl ⟨3, rfl⟩)⟩

/-- Why "revoked" reads "revoked or gone" in section 6: a write whose change id lies more than
`CHANGELOG_MAX_AGE` (7 days, in ns) after a revocation starts by trimming the revoked session away
(`Entry::invalidate`); from then on its tokens are those of a session not on record — honoured inside
their own five-minute grace window, refused after it. -/
example :
    let e : Entry := { Entry.fresh (some 500) with o2s := [(1000, ⟨.revokedAt 3, 0, 0⟩)] }
    let w : World := { reg := [], accts := [(200, e)], nextSid := 1001, cid := 700000000000000 }
    let w' := step id w (.dir 200 .touch 5)
    O2Revoked w 200 1000 ∧ O2Dead w 200 1000 ∧ NoReissue 200 1000 [.dir 200 .touch 5] ∧
    (w'.acct 200).map (·.o2s) = some [] ∧
    (w'.acct 200).map (fun e' => (acctValid e' 1000 none 0 299999999999, acctValid e' 1000 none 0 300000000000))
      = some (true, false) := by
  refine ⟨⟨_, rfl, _, rfl, 3, rfl⟩, ⟨_, rfl, ?_⟩, ?_, by decide, by decide⟩
  · intro s hs
    simp only [List.mem_singleton, Prod.mk.injEq, true_and] at hs
    exact ⟨3, by rw [hs]⟩
  · intro op hop m ct h
    simp only [List.mem_singleton] at hop
    rw [hop] at h
    injection h with _ h2 _
    subst h2
    exact ⟨fun _ _ _ h => (by cases h), fun _ _ _ h => (by cases h)⟩

/-! ## 9. The refusal theorems, stated through `Refused` / `Fails`

(The same statements as the `_raw` versions above, with "the endpoint answers some `Oauth2Error`
and leaves / moves the state to `w'`" folded into two words.) -/

/-- The token endpoint's grant function refuses the request with `e`, the state becoming `w'`. -/
def RefusedWith {α : Type} (x : World × Except OErr α) (w' : World) (e : OErr) : Prop := x = (w', Except.error e)

/-- … refuses it with some `Oauth2Error`. -/
def Refused {α : Type} (x : World × Except OErr α) (w' : World) : Prop := ∃ e, RefusedWith x w' e

/-- A read endpoint answers some `Oauth2Error`. -/
def Fails {α : Type} (x : Except OErr α) : Prop := ∃ e, x = Except.error e

/-- Whatever fails the validity test is refused everywhere (see `invalid_rejected_everywhere_raw`);
with `revoked_session_refused_forever`: the tokens of a revoked session, for good. -/
theorem invalid_rejected_everywhere (w : World) (e : Entry) (ct : Nat) :
    (∀ c key (rt : RefreshTok) req, w.acct rt.acct = some e → acctValid e rt.sid rt.parent rt.iat ct = false →
        Refused (exchangeRefresh w c (.refresh key rt) req ct) w) ∧
    (∀ key (a : AccessTok), w.acct a.acct = some e → acctValid e a.sid a.parent a.iat ct = false →
        ∀ x, introspect w (.access key a) ct = .ok x → x = .inactive) ∧
    (∀ key (a : ClientAccessTok), w.acct a.acct = some e → acctValid e a.sid none a.iat ct = false →
        ∀ x, introspect w (.clientAccess key a) ct = .ok x → x = .inactive) ∧
    (∀ id key (a : AccessTok), w.acct a.acct = some e → acctValid e a.sid a.parent a.iat ct = false →
        Fails (userinfo w id (.access key a) ct)) :=
  invalid_rejected_everywhere_raw w e ct

/-- **Third sentence of the property** (see `dead_rejected_everywhere_raw`). -/
theorem dead_rejected_everywhere (w : World) (e : Entry) (ct : Nat) :
    (∀ c key (rt : RefreshTok) req, w.acct rt.acct = some e → Dead e rt.sid rt.parent ct →
        Refused (exchangeRefresh w c (.refresh key rt) req ct) w) ∧
    (∀ key (a : AccessTok), w.acct a.acct = some e → Dead e a.sid a.parent ct →
        ∀ x, introspect w (.access key a) ct = .ok x → x = .inactive) ∧
    (∀ key (a : ClientAccessTok), w.acct a.acct = some e → Dead e a.sid none ct →
        ∀ x, introspect w (.clientAccess key a) ct = .ok x → x = .inactive) ∧
    (∀ id key (a : AccessTok), w.acct a.acct = some e → Dead e a.sid a.parent ct →
        Fails (userinfo w id (.access key a) ct)) :=
  dead_rejected_everywhere_raw w e ct

theorem dead_code_rejected (hash : Nat → Nat) (w : World) (c : TClient) (key : Nat) (cd : ExchangeCode)
    (redirect : Nat) (verifier : Option Nat) (ct : Nat) (e : Entry)
    (ha : w.acct cd.accountUuid = some e)
    (hd : withinWindow e ct = false ∨ ParentDead e cd.sessionId ct) :
    Refused (exchangeCode hash w c (.code key cd) redirect verifier ct) w :=
  dead_code_rejected_raw hash w c key cd redirect verifier ct e ha hd

theorem expired_token_rejected (hash : Nat → Nat) (w : World) (ct : Nat) :
    (∀ c key (cd : ExchangeCode) u v, cd.expiry ≤ asSecs ct →
        Refused (exchangeCode hash w c (.code key cd) u v ct) w) ∧
    (∀ c key (rt : RefreshTok) req, rt.exp ≤ asSecs ct →
        Refused (exchangeRefresh w c (.refresh key rt) req ct) w) ∧
    (∀ key (a : AccessTok), a.exp ≤ asSecs ct →
        ∀ x, introspect w (.access key a) ct = .ok x → x = .inactive) ∧
    (∀ id key (a : AccessTok), a.exp ≤ asSecs ct → Fails (userinfo w id (.access key a) ct)) :=
  expired_token_rejected_raw hash w ct

theorem reuse_revokes_session (w : World) (c : TClient) (rt : RefreshTok) (req : Option (List Nat))
    (ct : Nat) (e : Entry) (s : Sess)
    (hexp : asSecs ct < rt.exp) (ha : w.acct rt.acct = some e)
    (hv : acctValid e rt.sid rt.parent rt.iat ct = true)
    (hs : lookup e.o2s rt.sid = some s) (hrot : rt.iat < asSecs s.issued) :
    ∃ w', RefusedWith (exchangeRefresh w c (.refresh c.base.uuid rt) req ct) w' .invalidGrant ∧
      O2Revoked w' rt.acct rt.sid ∧ O2Dead w' rt.acct rt.sid ∧ commitOnErr .invalidGrant = true :=
  reuse_revokes_session_raw w c rt req ct e s hexp ha hv hs hrot

theorem reuse_after_rotation_revokes {w w1 : World} {c : TClient} {rt : RefreshTok} {req1 req2 : Option (List Nat)}
    {ct1 ct2 : Nat} {r1 : Resp} {e : Entry} {s : Sess}
    (hrot : exchangeRefresh w c (.refresh c.base.uuid rt) req1 ct1 = (w1, .ok r1))
    (ha : w.acct rt.acct = some e) (hs : lookup e.o2s rt.sid = some s)
    (hext : ∀ x, s.state = .expiresAt x → x < sessionExpiry ct1 c.refreshExpiry)
    (hlater : rt.iat < asSecs ct1)
    (hexp : asSecs ct2 < rt.exp)
    (hvalid : ∀ e1, w1.acct rt.acct = some e1 → acctValid e1 rt.sid rt.parent rt.iat ct2 = true) :
    ∃ w2, RefusedWith (exchangeRefresh w1 c (.refresh c.base.uuid rt) req2 ct2) w2 .invalidGrant ∧
      O2Revoked w2 rt.acct rt.sid ∧ O2Dead w2 rt.acct rt.sid :=
  reuse_after_rotation_revokes_raw hrot ha hs hext hlater hexp hvalid

end Kanidm.OAuth2.Token
