import KanidmProofs.Lemmas.TxnCommit
/-!
# C04 — failed or abandoned write transactions leave no trace

All statements are about `Kanidm.TxnCommit` (the functions the driver `km_c04` runs) over the
commit order regenerated from the source (`Kanidm.Gen.CommitOrder`).

The full statement ("whatever step of `commit()` fails, nothing is visible afterwards") is FALSE
of the generated order (D5): `commit_failure_no_trace_full_false`.  What holds:
`abort_leaves_no_trace` (drop at any point), `commit_failure_db_unchanged` (the stored data never
keeps a trace), `commit_failure_no_trace_partial` (failures before the first publication),
`commit_failure_trace_exact` (exactly which cells keep a trace otherwise), `atomic_if_ordered`
(any order without a publication before a fallible step is traceless — re-instantiates when the
source is reordered), and `commit_ok_publishes_all`.
-/
namespace Kanidm.TxnCommit
open Kanidm.Gen.CommitOrder

/-! ## abandon -/

/-- Dropping the write transaction at any point — after any sequence of writes to the write copies
and to the open SQLite transaction — restores every cell and the database exactly. -/
theorem abort_leaves_no_trace (s : St) (hs : Clean s) (ops : List Op) :
    dropTxn (applyOps s ops) = s :=
  dropTxn_of_committed_eq hs (applyOps_committed ops s).1 (applyOps_committed ops s).2

example : dropTxn (applyOps zero [.stage .schema 1, .dbStage 7, .stage .dInfo 2, .stage .schema 3]) = zero :=
  abort_leaves_no_trace zero ⟨fun _ => rfl, rfl⟩ _

/-! ## facts about the generated order (re-checked whenever the source order changes) -/

/-- The flattened commit contains no unexpanded nested call. -/
theorem flat_no_call : flatSteps.all (fun st => !isCall st) = true := by decide

/-- Every transactional cell is published by a successful commit, and the database is committed. -/
theorem flat_publishes_everything :
    Cell.all.all (fun c => decide (c ∈ publishedCells flatSteps)) = true ∧ flatSteps.any isDbCommit = true := by
  decide

/-- `db.commit()?` precedes every step that cannot be undone inside `IdlArcSqliteWriteTransaction::commit`
and nothing after it can fail — in the whole flattened commit. -/
theorem flat_nothing_fails_after_db_commit : noFallibleAfterDbCommit flatSteps = true := by decide

/-- `IdlArcSqliteWriteTransaction::commit` alone is in the safe order. -/
theorem idl_commit_ordered : Ordered (flatOf .idl) = true := by decide

/-- `BackendWriteTransaction::commit` (with the idl commit inlined) is in the safe order. -/
theorem be_commit_ordered : Ordered (flatOf .be) = true := by decide

/-- D5: `QueryServerWriteTransaction::commit` publishes before steps that can still fail. -/
theorem qs_commit_not_ordered : Ordered (flatOf .qs) = false := by decide

/-- D5: so does `IdmServerProxyWriteTransaction::commit`. -/
theorem idm_commit_not_ordered : Ordered flatSteps = false := by decide

/-! ## commit -/

/-- The result of `commit()` with an arbitrary failing step, cell by cell: the cells whose
publication step was executed carry the transaction's value, all others and — unless `COMMIT` was
executed — the database carry the old one; nothing stays pending. -/
theorem commit_failure_trace_exact (s : St) (hs : Clean s) (ops : List Op) (fail : Option Nat) :
    let t := applyOps s ops
    let done := flatSteps.take (execCount flatSteps 0 fail)
    (∀ c, ((commit t fail).1.cells c) =
        ⟨if c ∈ publishedCells done then ((t.cells c).publish).committed else (s.cells c).committed, none⟩) ∧
    (commit t fail).1.db =
        ⟨if done.any isDbCommit then (t.db.publish).committed else s.db.committed, none⟩ ∧
    (commit t fail).2 = okOf flatSteps 0 fail := by
  intro t done
  have hr : commit t fail = (dropTxn (applyAll done t), okOf flatSteps 0 fail) := by
    show (dropTxn (runSteps flatSteps 0 fail t).1, (runSteps flatSteps 0 fail t).2) = _
    rw [runSteps_eq]
  have hc := applyOps_committed ops s
  refine ⟨fun c => ?_, ?_, ?_⟩
  · rw [hr]
    show ((applyAll done t).cells c).discard = _
    rw [applyAll_cell]
    split
    · rfl
    · simp only [CellSt.discard, CellSt.mk.injEq, and_true]
      exact hc.1 c
  · rw [hr]
    show (applyAll done t).db.discard = _
    rw [applyAll_db]
    split
    · rfl
    · simp only [CellSt.discard, CellSt.mk.injEq, and_true]
      exact hc.2
  · rw [hr]

/-- **Stored data**: whenever `commit()` reports failure the database is exactly as before —
for every failing step (holds in full; uses `flat_nothing_fails_after_db_commit`). -/
theorem commit_failure_db_unchanged (s : St) (hs : Clean s) (ops : List Op) (fail : Option Nat)
    (hf : (commit (applyOps s ops) fail).2 = false) : (commit (applyOps s ops) fail).1.db = s.db := by
  have h := commit_failure_trace_exact s hs ops fail
  simp only at h
  rw [h.2.2] at hf
  rw [h.2.1, fail_no_dbCommit flatSteps flat_nothing_fails_after_db_commit 0 fail hf]
  have := hs.2
  cases hd : s.db with
  | mk cm pd =>
    rw [hd] at this
    simp only at this
    simp [this]

/-- Index of the first publication in the flattened commit: every failure strictly before it is
traceless.  (With today's order: the four `reload` steps of the IDM commit.) -/
def tracelessBound : Nat := firstPublish flatSteps

/-- **Partial no-trace**: a commit that fails at a step before the first publication leaves every
cell and the database exactly as they were. -/
theorem commit_failure_no_trace_partial (s : St) (hs : Clean s) (ops : List Op) (i : Nat)
    (hi : i < tracelessBound) (hf : (commit (applyOps s ops) (some i)).2 = false) :
    (commit (applyOps s ops) (some i)).1 = s := by
  have hr : commit (applyOps s ops) (some i) =
      (dropTxn (applyAll (flatSteps.take (execCount flatSteps 0 (some i))) (applyOps s ops)), okOf flatSteps 0 (some i)) := by
    show (dropTxn (runSteps flatSteps 0 (some i) (applyOps s ops)).1, (runSteps flatSteps 0 (some i) (applyOps s ops)).2) = _
    rw [runSteps_eq]
  rw [hr] at hf ⊢
  have hk := (okOf_false_execCount flatSteps 0 i hf).2
  show dropTxn _ = s
  rw [applyAll_nopublish _ (take_firstPublish_nopublish flatSteps _ (by rw [hk]; unfold tracelessBound at hi; omega))]
  exact abort_leaves_no_trace s hs ops

/-- The failing steps covered by the partial theorem exist and are fallible (non-vacuity): step 0
(`qs_write.reload()`) fails a commit that staged a schema and a database change, tracelessly. -/
example : (commit (applyOps zero [.stage .schema 1, .dbStage 1]) (some 0)).2 = false ∧ 0 < tracelessBound := by decide

/-- **Generic atomicity**: for *any* step list in the safe order, a failing commit leaves no trace
at all.  (The theorem a repaired `commit()` would instantiate.) -/
theorem atomic_if_ordered (steps : List CStep) (ho : Ordered steps = true) (s : St) (hs : Clean s)
    (ops : List Op) (fail : Option Nat) (hf : (commitWith steps (applyOps s ops) fail).2 = false) :
    (commitWith steps (applyOps s ops) fail).1 = s := by
  have hr : commitWith steps (applyOps s ops) fail =
      (dropTxn (applyAll (steps.take (execCount steps 0 fail)) (applyOps s ops)), okOf steps 0 fail) := by
    show (dropTxn (runSteps steps 0 fail (applyOps s ops)).1, (runSteps steps 0 fail (applyOps s ops)).2) = _
    rw [runSteps_eq]
  rw [hr] at hf ⊢
  show dropTxn _ = s
  rw [applyAll_nopublish _ (ordered_fail_nopublish steps ho 0 fail hf)]
  exact abort_leaves_no_trace s hs ops

/-- `atomic_if_ordered` is not vacuous: the backend commit is ordered and can fail. -/
example : Ordered (flatOf .be) = true ∧ okOf (flatOf .be) 0 (some 0) = false := by decide

/-- For every step of the flattened commit that can fail: the cells already published when it does. -/
def failureTraces : List (Nat × List Cell) :=
  ((List.zipIdx flatSteps).filter (fun p => p.1.fallible)).map (fun p => (p.2, publishedCells (flatSteps.take p.2)))

/-- **The exact extent of D5 today** (pinned, so that a change of the publication order — e.g. a
publication moved even earlier — shows up as a broken obligation and triggers the search): failures
of the four IDM reloads are traceless; a failing `qs.reload` / `set_db_ts_max` leaves the four IDM
cells; every failure inside `be_txn.commit()` (ruv write, the three cache flushes, `COMMIT`) leaves
all fourteen IDM + QS cells; nothing stored is ever left. -/
theorem d5_extent :
    failureTraces =
      [(0, []), (1, []), (2, []), (3, []),
       (8, [.applications, .oauth2rs, .credUpdateSessions, .oauth2ClientProviders]),
       (9, [.applications, .oauth2rs, .credUpdateSessions, .oauth2ClientProviders])] ++
      ([20, 21, 22, 23, 24].map fun i =>
        (i, [.applications, .oauth2rs, .credUpdateSessions, .oauth2ClientProviders, .cid, .resolveFilterCacheWrite,
             .schema, .dInfo, .systemConfig, .featureConfig, .phase, .dyngroupCache, .keyProviders, .accesscontrols])) := by
  decide

/-- The full property for `commit()`: a failing commit leaves no trace, whatever step fails. -/
def commit_failure_no_trace_full : Prop :=
  ∀ (s : St), Clean s → ∀ (ops : List Op) (i : Nat),
    (commit (applyOps s ops) (some i)).2 = false → (commit (applyOps s ops) (some i)).1 = s

/-- Index of `COMMIT TRANSACTION` in the flattened commit. -/
def dbCommitIdx : Nat := flatSteps.findIdx isDbCommit

/-- **D5**: the full property is false of the generated order.  Witness: a transaction that changed
the schema; the SQLite `COMMIT` fails; the new schema is visible afterwards. -/
theorem commit_failure_no_trace_full_false : ¬ commit_failure_no_trace_full := by
  intro h
  have h1 := h zero ⟨fun _ => rfl, rfl⟩ [.stage .schema 1, .dbStage 1] dbCommitIdx (by decide)
  have h2 : ((commit (applyOps zero [.stage .schema 1, .dbStage 1]) (some dbCommitIdx)).1.cells .schema).committed = 1 := by
    decide
  rw [h1] at h2
  exact absurd h2 (by decide)

/-- A successful commit makes every staged value visible, in every cell and in the database, and
leaves nothing pending ("only a transaction whose commit reports success becomes visible" — the
positive half). -/
theorem commit_ok_publishes_all (s : St) (hs : Clean s) (ops : List Op) (fail : Option Nat)
    (hok : (commit (applyOps s ops) fail).2 = true) :
    (∀ c, (commit (applyOps s ops) fail).1.cells c = ⟨(((applyOps s ops).cells c).publish).committed, none⟩) ∧
    (commit (applyOps s ops) fail).1.db = ⟨((applyOps s ops).db.publish).committed, none⟩ := by
  have h := commit_failure_trace_exact s hs ops fail
  simp only at h
  rw [h.2.2] at hok
  have hk := okOf_true_execCount flatSteps 0 fail hok
  have hall := flat_publishes_everything
  refine ⟨fun c => ?_, ?_⟩
  · rw [h.1 c, hk, List.take_length]
    have : c ∈ publishedCells flatSteps := by
      have := List.all_eq_true.mp hall.1 c (Cell.mem_all c)
      simpa using this
    simp [this]
  · rw [h.2.1, hk, List.take_length, hall.2]
    simp

example : (commit (applyOps zero [.stage .schema 1, .dbStage 1]) none).2 = true := by decide

/-! ## histories -/

theorem runTxn_clean (s : St) (t : TxnRun) : Clean (runTxn s t).1 := by
  unfold runTxn
  split
  · exact dropTxn_clean _
  · exact dropTxn_clean _

/-- A transaction that did not succeed ended traceless-ly: dropped, or failed before the first
publication. -/
def tracelessFinish (t : TxnRun) : Prop :=
  t.finish = none ∨ ∃ i, t.finish = some (some i) ∧ i < tracelessBound

theorem runTxn_failed_traceless (s : St) (hs : Clean s) (t : TxnRun) (hf : succeeded t = false)
    (ht : tracelessFinish t) : (runTxn s t).1 = s := by
  rcases ht with h | ⟨i, h, hi⟩
  · simp only [runTxn, h]
    exact abort_leaves_no_trace s hs t.ops
  · simp only [runTxn, h]
    apply commit_failure_no_trace_partial s hs t.ops i hi
    have := (commit_failure_trace_exact s hs t.ops (some i)).2.2
    rw [this]
    simpa [succeeded, h] using hf

/-- **Histories**: over any sequence of write transactions in which every unsuccessful one was
dropped or failed before the first publication, the final state is exactly the state reached by
running only the successful transactions: only a transaction whose commit reports success becomes
visible. -/
theorem only_successful_visible_partial (ts : List TxnRun) : ∀ (s : St), Clean s →
    (∀ t ∈ ts, succeeded t = false → tracelessFinish t) →
    runHist s ts = runHist s (ts.filter succeeded) := by
  induction ts with
  | nil => intro s _ _; rfl
  | cons t rest ih =>
    intro s hs h
    have hrest : ∀ t' ∈ rest, succeeded t' = false → tracelessFinish t' :=
      fun t' ht' => h t' (List.mem_cons_of_mem _ ht')
    cases hsucc : succeeded t with
    | true =>
      simp only [List.filter_cons, hsucc, if_true]
      show runHist (runTxn s t).1 rest = runHist (runTxn s t).1 (rest.filter succeeded)
      exact ih _ (runTxn_clean s t) hrest
    | false =>
      simp only [List.filter_cons, hsucc]
      show runHist (runTxn s t).1 rest = _
      rw [runTxn_failed_traceless s hs t hsucc (h t (List.mem_cons_self ..) hsucc)]
      exact ih s hs hrest

/-- Non-vacuity: a history with a dropped transaction, a failing reload and two successes. -/
example :
    let ts : List TxnRun := [⟨[.stage .schema 1, .dbStage 1], some none⟩, ⟨[.stage .dInfo 5], none⟩,
      ⟨[.stage .accesscontrols 9, .dbStage 2], some (some 0)⟩, ⟨[.dbStage 3], some none⟩]
    (ts.map succeeded = [true, false, false, true]) ∧
    ((runHist zero ts).cells .schema).committed = 1 ∧ ((runHist zero ts).cells .dInfo).committed = 0 ∧
    ((runHist zero ts).cells .accesscontrols).committed = 0 ∧ (runHist zero ts).db.committed = 3 := by
  decide

end Kanidm.TxnCommit
