import KanidmProofs.C23
import KanidmModel.Access.Effective
/-
C23 (extension) — the effective search access reported with a search result
(`SearchEvent.effective_access_check`, rendered as SCIM `ext_access_check.search`) is exactly what
the search discloses, and reports nothing the grants do not cover.
-/
namespace Kanidm.Access
open Kanidm.Filter
open Kanidm.Gen

/-- Asking for the effective-access report does not change what the search discloses. -/
theorem effective_flag_discloses_same (db : List DbEntry) (acps : List SearchAcp) (id : Identity)
    (f fo : FC) (req : Option (List Nat)) :
    (searchExtEff db acps id f fo req).map (fun l => l.map Prod.fst) = searchExt db acps id f fo req := by
  unfold searchExtEff searchExt
  cases search db acps id f fo with
  | none => rfl
  | some ents =>
    simp only
    unfold searchFilterEntryAttributesEff searchFilterEntryAttributes
    cases id.origin with
    | internal role => rfl
    | synch u => rfl
    | user ue =>
      simp only [Option.map_some, List.map_filterMap, Option.some.injEq]
      congr 1
      funext e
      cases applySearchAccess id (searchRelatedAcp id acps req) e <;> rfl

/-- The report attached to a returned entry is `Allow al` where every `a ∈ al` is covered by a read
grant for this identity and this (stored) entry; without a requested-attribute list `al` is exactly
the granted set; and the attributes the entry discloses are exactly `al ∩ requested ∩ stored`. -/
theorem effective_search_is_exact_disclosure (db : List DbEntry) (acps : List SearchAcp)
    (id : Identity) (f fo : FC) (req : Option (List Nat)) (res : List (DbEntry × SearchResult))
    (r : DbEntry) (eff : SearchResult)
    (h : searchExtEff db acps id f fo req = some res) (hr : (r, eff) ∈ res) :
    ∃ e, e ∈ db ∧ e.uuid = r.uuid ∧ ∃ al, eff = .allow al ∧
      (∀ a, a ∈ al → MayRead acps id e a) ∧
      (req = none → ∀ a, MayRead acps id e a → a ∈ al) ∧
      (∀ a, r.attrs a ≠ [] ↔ (a ∈ al ∧ (∀ rq, req = some rq → a ∈ rq) ∧ e.attrs a ≠ [])) := by
  unfold searchExtEff at h
  cases hsr : search db acps id f fo with
  | none => simp [hsr] at h
  | some ents =>
    simp only [hsr] at h
    unfold searchFilterEntryAttributesEff at h
    cases ho : id.origin with
    | internal role => simp [ho] at h
    | synch u => simp [ho] at h
    | user ue =>
      simp only [ho, Option.some.injEq] at h
      subst h
      simp only [List.mem_filterMap] at hr
      obtain ⟨e, he, hred⟩ := hr
      have hni : id.isInternal = false := by simp [Identity.isInternal, ho]
      obtain ⟨h1, _, _, _⟩ := search_reveals_only_readable db acps id f fo ents e hni hsr he
      by_cases hs : id.scope = .synchronise
      · rw [deny_of_sync id _ e (Or.inr ⟨ue, ho, hs⟩)] at hred
        simp at hred
      · obtain ⟨al, hal, hsound⟩ := allowed_requested_sound id ue acps req e ho hs
        simp only [entryEffectiveSearch, hal, Option.some.injEq, Prod.mk.injEq] at hred
        obtain ⟨hr1, hr2⟩ := hred
        subst hr1
        subst hr2
        refine ⟨e, h1, rfl, al, rfl, hsound, ?_, ?_⟩
        · intro hreq a hm
          subst hreq
          obtain ⟨al', hal', hiff⟩ := allowed_iff_mayRead id ue acps e ho hs
          rw [hal] at hal'
          cases hal'
          exact (hiff a).2 hm
        · intro a
          cases req with
          | none =>
            by_cases hm : a ∈ al <;> simp [reduceAttributes, AccessSearch.reduceAttrs, hm]
          | some rq =>
            by_cases hm : a ∈ al <;> by_cases hq : a ∈ rq <;>
              simp [reduceAttributes, AccessSearch.reduceAttrs, mem_inter, hm, hq]

section Examples
/-- uuid and the `Allow` list of each row. -/
def exShowEff (r : Option (List (DbEntry × SearchResult))) : Option (List (Val × List Nat)) :=
  r.map (fun l => l.map (fun p => (p.1.uuid, match p.2 with | .allow al => al | _ => [])))

/-- Non-vacuity: two rows with different reports (entry 2 also through the entry-manager profile). -/
example : exShowEff (searchExtEff exDb exAcps exId (AccessSearch.ignoreHidden (.pres Attr.Class))
    (.pres Attr.Class) none) =
    some [(.num 1, [Attr.Class, Attr.Name]),
          (.num 2, [Attr.Class, Attr.Name, Attr.DisplayName, Attr.Uuid])] := by
  decide

/-- With a requested list the report is that of the ACPs still related (entry-manager profile kept
through `displayname`, so `uuid` is reported although it was not requested and is not disclosed). -/
example : exShowEff (searchExtEff exDb exAcps exId (AccessSearch.ignoreHidden (.pres Attr.Class))
    (.pres Attr.Class) (some [Attr.Name, Attr.DisplayName])) =
    some [(.num 1, [Attr.Class, Attr.Name]),
          (.num 2, [Attr.Class, Attr.Name, Attr.DisplayName, Attr.Uuid])] := by
  decide
end Examples

end Kanidm.Access
