import KanidmProofs.Lemmas.Filter
/-
C02 — Filter rewriting preserves meaning.

For every filter, every entry, every per-value comparison semantics `S` and every pair of sort
procedures that return a permutation of their input (Rust's `sort_unstable` is only known to do
that), resolving / optimising / fast-optimising a filter never changes `matches`
(= `entry_match_no_index_inner`). See `KanidmModel/Filter/*.lean` for the transcription.
-/
namespace Kanidm.Filter

/-- The only thing assumed of `sort_unstable`: the result is a permutation of the input. -/
def IsPerm (sort : List F → List F) : Prop := ∀ l, (sort l).Perm l

/-! ## 1. What makes `dedup` safe -/

/-- Two terms the coded `PartialEq` (which ignores slopes) calls equal match the same entries. -/
theorem eq_implies_matches_eq (S : ValSem) (e : Entry) (x y : F) (h : x.beq y = true) :
    x.matches S e = y.matches S e :=
  F.beq_sound S e x y h

/-- `Stw`, `Enw` and `Invalid` are never `==` to anything — not even to themselves — so they are
never de-duplicated (harmless: a duplicate changes no match result). -/
theorem stw_enw_invalid_never_eq (a : Nat) (v : Val) (s : Option Nat) (y : F) :
    (F.stw a v s).beq y = false ∧ (F.enw a v s).beq y = false ∧ (F.invalid a).beq y = false := by
  refine ⟨?_, ?_, ?_⟩ <;> cases y <;> simp [F.beq]

example : (F.eq 1 (.num 2) (some 3)).beq (F.eq 1 (.num 2) none) = true := by decide
example : (F.and [.eq 1 (.num 2) (some 3), .pres 0 none] none).beq
    (F.and [.eq 1 (.num 2) none, .pres 0 (some 9)] (some 1)) = true := by decide

/-! ## 2. The sort contract: `cmp` is a total preorder -/

def valKey : Val → List Nat
  | .str s => 0 :: s
  | .num n => [1, n]

def slopeKey : Option Nat → List Nat
  | some n => [0, n]
  | none => [1, 0]

def kindKey : F → List Nat
  | .eq a v _ => 0 :: a :: valKey v
  | .pres a _ => [1, a]
  | .lessThan a v _ => 2 :: a :: valKey v
  | .cnt a v _ => 3 :: a :: valKey v
  | _ => [4]

/-- The sort key `cmp` really compares by: slope (`Some < None`), kind rank
(Eq < Pres < LessThan < Cnt < everything else), attribute, value. -/
def sortKey (x : F) : List Nat := slopeKey x.slope ++ kindKey x

theorem Val.cmp_eq_key (a b : Val) : a.cmp b = cmpNatList (valKey a) (valKey b) := by
  cases a <;> cases b <;> simp [Val.cmp, valKey, cmpNatList]

theorem avCmp_eq_key (a1 : Nat) (v1 : Val) (a2 : Nat) (v2 : Val) :
    avCmp a1 v1 a2 v2 = cmpNatList (a1 :: valKey v1) (a2 :: valKey v2) := by
  simp only [avCmp, natCmp, cmpNatList, Val.cmp_eq_key]
  by_cases h1 : a1 < a2
  · simp [h1]
  · by_cases h2 : a2 < a1 <;> simp [h1, h2]

theorem kindCmp_eq_key (x y : F) : F.kindCmp x y = cmpNatList (kindKey x) (kindKey y) := by
  cases x <;> cases y <;>
    simp [F.kindCmp, kindKey, avCmp_eq_key, cmpNatList, natCmp] <;>
    (split <;> simp_all)

theorem slopeCmp_eq_key (s t : Option Nat) : slopeCmp s t = cmpNatList (slopeKey s) (slopeKey t) := by
  cases s <;> cases t <;> simp [slopeCmp, slopeKey, cmpNatList, natCmp]

theorem cmpNatList_append2 (a b c d : Nat) (r1 r2 : List Nat) :
    cmpNatList ([a, b] ++ r1) ([c, d] ++ r2) =
      match cmpNatList [a, b] [c, d] with
      | .eq => cmpNatList r1 r2
      | r => r := by
  simp only [List.cons_append, List.nil_append, cmpNatList]
  by_cases h1 : a < c
  · simp [h1]
  · by_cases h2 : c < a
    · simp [h1, h2]
    · by_cases h3 : b < d
      · simp [h1, h2, h3]
      · by_cases h4 : d < b <;> simp [h1, h2, h3, h4]

/-- `cmp`, as coded arm by arm, is the lexicographic comparison of `sortKey`. -/
theorem cmp_eq_sortKey (x y : F) : x.cmp y = cmpNatList (sortKey x) (sortKey y) := by
  unfold F.cmp sortKey
  rw [slopeCmp_eq_key, kindCmp_eq_key]
  obtain ⟨a, b, hs⟩ : ∃ a b, slopeKey x.slope = [a, b] := by
    cases x.slope <;> simp [slopeKey]
  obtain ⟨c, d, ht⟩ : ∃ c d, slopeKey y.slope = [c, d] := by
    cases y.slope <;> simp [slopeKey]
  rw [hs, ht, cmpNatList_append2]
  cases cmpNatList [a, b] [c, d] <;> rfl

/-- `cmp` is a total preorder, and `b.cmp(a)` is the mirror image of `a.cmp(b)`: exactly the
contract `sort_unstable` / `sort_unstable_by` require (no panic, no unspecified order beyond ties). -/
theorem cmp_total_preorder :
    (∀ x : F, x.cmp x = .eq) ∧
    (∀ x y : F, y.cmp x = (x.cmp y).swap) ∧
    (∀ x y : F, x.cmp y ≠ .gt ∨ y.cmp x ≠ .gt) ∧
    (∀ x y z : F, x.cmp y ≠ .gt → y.cmp z ≠ .gt → x.cmp z ≠ .gt) ∧
    (∀ x y z : F, x.cmp y = .eq → y.cmp z = .eq → x.cmp z = .eq) := by
  refine ⟨?_, ?_, ?_, ?_, ?_⟩
  · intro x; rw [cmp_eq_sortKey]; exact cmpNatList_refl _
  · intro x y; rw [cmp_eq_sortKey, cmp_eq_sortKey]; exact cmpNatList_swap _ _
  · intro x y
    rw [cmp_eq_sortKey y x, cmpNatList_swap (sortKey x) (sortKey y), cmp_eq_sortKey]
    cases cmpNatList (sortKey x) (sortKey y) <;> simp [Ordering.swap]
  · intro x y z h1 h2
    rw [cmp_eq_sortKey] at h1 h2 ⊢
    exact (cmpNatList_trans _ _ _ h1 h2).1
  · intro x y z h1 h2
    rw [cmp_eq_sortKey] at h1 h2 ⊢
    have hyx : cmpNatList (sortKey y) (sortKey x) = .eq := by
      rw [cmpNatList_swap (sortKey x) (sortKey y), h1]; rfl
    have hzy : cmpNatList (sortKey z) (sortKey y) = .eq := by
      rw [cmpNatList_swap (sortKey y) (sortKey z), h2]; rfl
    have a := (cmpNatList_trans _ _ _ (by rw [h1]; decide) (by rw [h2]; decide)).1
    have b := (cmpNatList_trans _ _ _ (by rw [hzy]; decide) (by rw [hyx]; decide)).1
    rw [cmpNatList_swap (sortKey x) (sortKey z)] at b
    cases h : cmpNatList (sortKey x) (sortKey z) <;> simp_all [Ordering.swap]

/-- The order is not an artefact of equal keys: a cheap indexed term sorts before an expensive
one, which sorts before an unindexed one; with equal slopes Eq < Pres < LessThan < Cnt < rest. -/
example : (F.cnt 0 (.str [1]) (some 2)).cmp (F.eq 0 (.str [1]) (some 5)) = .lt ∧
    (F.eq 0 (.str [1]) (some 5)).cmp (F.eq 0 (.str [1]) none) = .lt ∧
    (F.eq 3 (.num 9) none).cmp (F.pres 0 none) = .lt ∧
    (F.pres 7 none).cmp (F.lessThan 0 (.num 0) none) = .lt ∧
    (F.lessThan 7 (.num 1) none).cmp (F.cnt 0 (.str []) none) = .lt ∧
    (F.cnt 7 (.str [1]) none).cmp (F.andnot (.pres 0 none) none) = .lt ∧
    (F.stw 7 (.str [1]) none).cmp (F.or [] none) = .eq := by decide

/-! ## 3. Optimisation preserves meaning -/

section
variable (S : ValSem) (e : Entry)

private theorem and_kids (f : F) (h : f.isAnd = true) :
    f.matches S e = (f.andChildren).all (fun g => g.matches S e) := by
  cases f <;> simp [F.isAnd] at h
  simp [F.andChildren]

private theorem or_kids (f : F) (h : f.isOr = true) :
    f.matches S e = (f.orChildren).any (fun g => g.matches S e) := by
  cases f <;> simp [F.isOr] at h
  simp [F.orChildren]

/-- `optimise` (recursive flatten, singleton unwrap, sort, dedup, slope bookkeeping) never
changes which entries a filter matches — for all filters, entries and permutation-returning sorts. -/
theorem optimise_preserves (sa sd : List F → List F) (hsa : IsPerm sa) (hsd : IsPerm sd) :
    ∀ (f : F), (f.optimise sa sd).matches S e = f.matches S e := by
  have hb : ∀ x y, F.beq x y = true → x.matches S e = y.matches S e := F.beq_sound S e
  have hmap : ∀ l : List F, (∀ f ∈ l, (f.optimise sa sd).matches S e = f.matches S e) →
      (F.optimiseList sa sd l).all (fun g => g.matches S e) = l.all (fun g => g.matches S e) ∧
      (F.optimiseList sa sd l).any (fun g => g.matches S e) = l.any (fun g => g.matches S e) := by
    intro l ih
    rw [F.optimiseList_eq_map, List.all_map, List.any_map]
    exact ⟨all_congr_mem (fun a ha => ih a ha), any_congr_mem (fun a ha => ih a ha)⟩
  intro f
  induction f using F.ind with
  | heq a v s => simp [F.optimise]
  | hcnt a v s => simp [F.optimise]
  | hstw a v s => simp [F.optimise]
  | henw a v s => simp [F.optimise]
  | hpres a s => simp [F.optimise]
  | hlt a v s => simp [F.optimise]
  | hinv a => simp [F.optimise]
  | hnot f s _ => simp [F.optimise]
  | hinc l s _ => simp [F.optimise]
  | hand l s ih =>
    have hfold := foldSame_all (p := fun g => g.matches S e) (and_kids S e) (F.optimiseList sa sd l)
    rw [(hmap l ih).1] at hfold
    simp only [F.optimise]
    split
    · rename_i x hx
      rw [hx] at hfold
      simp only [List.all_cons, List.all_nil, Bool.and_true] at hfold
      simp only [F.matches_and]; exact hfold
    · simp only [F.matches_and]
      rw [dedup_all hb, (hsa _).all_eq, hfold]
  | hor l s ih =>
    have hfold := foldSame_any (p := fun g => g.matches S e) (or_kids S e) (F.optimiseList sa sd l)
    rw [(hmap l ih).2] at hfold
    simp only [F.optimise]
    split
    · rename_i x hx
      rw [hx] at hfold
      simp only [List.any_cons, List.any_nil, Bool.or_false] at hfold
      simp only [F.matches_or]; exact hfold
    · simp only [F.matches_or]
      rw [dedup_any hb, (hsd _).any_eq, hfold]

/-- `fast_optimise` (outermost And / Inclusion only) never changes which entries a filter matches. -/
theorem fastOptimise_preserves (sa : List F → List F) (hsa : IsPerm sa) (f : F) :
    (f.fastOptimise sa).matches S e = f.matches S e := by
  have hb : ∀ x y, F.beq x y = true → x.matches S e = y.matches S e := F.beq_sound S e
  cases f <;> simp only [F.fastOptimise, F.matches_inclusion, F.matches_and]
  rw [dedup_all hb, (hsa _).all_eq]

end

/-- Non-vacuity: nested Ands are flattened, the duplicate is dropped, the Or singleton is unwrapped,
the indexed term moves first — and the theorem's hypotheses hold for the driver's sorts. -/
example : (F.and [.pres 0 none, .and [.eq 1 (.num 2) (some 1), .or [.pres 0 none] none] none] none).optimise
    sortAsc sortDesc = .and [.eq 1 (.num 2) (some 1), .pres 0 none] (some 1) := by rfl

/-! ## 4. Resolution preserves meaning -/

section
variable (S : ValSem) (e : Entry) (c : AttrConsts) (self : Val)

private theorem resolveList_aux (res : FC → Option F) (resL : List FC → Option (List F))
    (hnil : resL [] = some [])
    (hcons : ∀ f fs gs', resL (f :: fs) = some gs' →
      ∃ g gs, res f = some g ∧ resL fs = some gs ∧ gs' = g :: gs) :
    ∀ (l : List FC),
    (∀ f ∈ l, ∀ g, res f = some g → g.matches S e = f.matches S self c.uuidA e) →
    ∀ gs, resL l = some gs →
      gs.all (fun g => g.matches S e) = FC.matchesAll S self c.uuidA e l ∧
      gs.any (fun g => g.matches S e) = FC.matchesAny S self c.uuidA e l
  | [], _, gs, h => by
    rw [hnil] at h; cases h; simp [FC.matchesAll, FC.matchesAny]
  | f :: fs, ih, gs, h => by
    obtain ⟨g, gs', hg, hgs, rfl⟩ := hcons f fs gs h
    have h1 := ih f (by simp) g hg
    have h2 := resolveList_aux res resL hnil hcons fs (fun f hf => ih f (by simp [hf])) gs' hgs
    simp [FC.matchesAll, FC.matchesAny, h1, h2.1, h2.2]

/-- `resolve_idx`: whatever the index metadata, the resolved filter means what the filter meant
(`SelfUuid` ↦ equality on the uuid attribute with the caller's uuid; no arm confuses term kinds). -/
theorem resolveIdx_preserves (m : Nat → IType → Option Nat) :
    ∀ (fc : FC) (g : F), fc.resolveIdx c self m = some g →
      g.matches S e = fc.matches S self c.uuidA e := by
  intro fc
  induction fc using FC.ind with
  | heq a v => intro g h; cases h; simp [F.matches, FC.matches]
  | hcnt a v => intro g h; cases h; simp [F.matches, FC.matches]
  | hstw a v => intro g h; cases h; simp [F.matches, FC.matches]
  | henw a v => intro g h; cases h; simp [F.matches, FC.matches]
  | hpres a => intro g h; cases h; simp [F.matches, FC.matches]
  | hlt a v => intro g h; cases h; simp [F.matches, FC.matches]
  | hself => intro g h; cases h; simp [F.matches, FC.matches]
  | hinv a => intro g h; cases h; simp [F.matches, FC.matches]
  | hnot f ih =>
    intro g h
    simp only [FC.resolveIdx, Option.map_eq_some_iff] at h
    obtain ⟨fi, hfi, rfl⟩ := h
    simp [FC.matches, ih fi hfi]
  | hor l ih =>
    intro g h
    simp only [FC.resolveIdx, Option.map_eq_some_iff] at h
    obtain ⟨fi, hfi, rfl⟩ := h
    have := resolveList_aux S e c self (FC.resolveIdx c self m) (FC.resolveIdxList c self m)
      (by simp [FC.resolveIdxList]) (by intro f fs gs' h; simp only [FC.resolveIdxList] at h; split at h <;> simp_all) l ih fi hfi
    simp [FC.matches, this.2]
  | hand l ih =>
    intro g h
    simp only [FC.resolveIdx, Option.map_eq_some_iff] at h
    obtain ⟨fi, hfi, rfl⟩ := h
    have := resolveList_aux S e c self (FC.resolveIdx c self m) (FC.resolveIdxList c self m)
      (by simp [FC.resolveIdxList]) (by intro f fs gs' h; simp only [FC.resolveIdxList] at h; split at h <;> simp_all) l ih fi hfi
    simp [FC.matches, this.1]
  | hinc l ih =>
    intro g h
    simp only [FC.resolveIdx, Option.map_eq_some_iff] at h
    obtain ⟨fi, hfi, rfl⟩ := h
    simp [FC.matches]

/-- `resolve_no_idx` likewise. -/
theorem resolveNoIdx_preserves :
    ∀ (fc : FC) (g : F), fc.resolveNoIdx c self = some g →
      g.matches S e = fc.matches S self c.uuidA e := by
  intro fc
  induction fc using FC.ind with
  | heq a v => intro g h; cases h; simp [F.matches, FC.matches]
  | hcnt a v => intro g h; cases h; simp [F.matches, FC.matches]
  | hstw a v => intro g h; cases h; simp [F.matches, FC.matches]
  | henw a v => intro g h; cases h; simp [F.matches, FC.matches]
  | hpres a => intro g h; cases h; simp [F.matches, FC.matches]
  | hlt a v => intro g h; cases h; simp [F.matches, FC.matches]
  | hself => intro g h; cases h; simp [F.matches, FC.matches]
  | hinv a => intro g h; cases h; simp [F.matches, FC.matches]
  | hnot f ih =>
    intro g h
    simp only [FC.resolveNoIdx, Option.map_eq_some_iff] at h
    obtain ⟨fi, hfi, rfl⟩ := h
    simp [FC.matches, ih fi hfi]
  | hor l ih =>
    intro g h
    simp only [FC.resolveNoIdx, Option.map_eq_some_iff] at h
    obtain ⟨fi, hfi, rfl⟩ := h
    have := resolveList_aux S e c self (FC.resolveNoIdx c self) (FC.resolveNoIdxList c self)
      (by simp [FC.resolveNoIdxList]) (by intro f fs gs' h; simp only [FC.resolveNoIdxList] at h; split at h <;> simp_all) l ih fi hfi
    simp [FC.matches, this.2]
  | hand l ih =>
    intro g h
    simp only [FC.resolveNoIdx, Option.map_eq_some_iff] at h
    obtain ⟨fi, hfi, rfl⟩ := h
    have := resolveList_aux S e c self (FC.resolveNoIdx c self) (FC.resolveNoIdxList c self)
      (by simp [FC.resolveNoIdxList]) (by intro f fs gs' h; simp only [FC.resolveNoIdxList] at h; split at h <;> simp_all) l ih fi hfi
    simp [FC.matches, this.1]
  | hinc l ih =>
    intro g h
    simp only [FC.resolveNoIdx, Option.map_eq_some_iff] at h
    obtain ⟨fi, hfi, rfl⟩ := h
    simp [FC.matches]

/-- `from_invalid` (test-only constructor) likewise, where it does not panic. -/
theorem fromInvalid_preserves (m : Nat → IType → Bool) :
    ∀ (fc : FC) (g : F), fc.fromInvalid m = some g →
      g.matches S e = fc.matches S self c.uuidA e := by
  intro fc
  induction fc using FC.ind with
  | heq a v => intro g h; cases h; simp [F.matches, FC.matches]
  | hcnt a v => intro g h; cases h; simp [F.matches, FC.matches]
  | hstw a v => intro g h; cases h; simp [F.matches, FC.matches]
  | henw a v => intro g h; cases h; simp [F.matches, FC.matches]
  | hpres a => intro g h; cases h; simp [F.matches, FC.matches]
  | hlt a v => intro g h; cases h; simp [F.matches, FC.matches]
  | hself => intro g h; simp [FC.fromInvalid] at h
  | hinv a => intro g h; cases h; simp [F.matches, FC.matches]
  | hnot f ih =>
    intro g h
    simp only [FC.fromInvalid, Option.map_eq_some_iff] at h
    obtain ⟨fi, hfi, rfl⟩ := h
    simp [FC.matches, ih fi hfi]
  | hor l ih =>
    intro g h
    simp only [FC.fromInvalid, Option.map_eq_some_iff] at h
    obtain ⟨fi, hfi, rfl⟩ := h
    have := resolveList_aux S e c self (FC.fromInvalid m) (FC.fromInvalidList m)
      (by simp [FC.fromInvalidList]) (by intro f fs gs' h; simp only [FC.fromInvalidList] at h; split at h <;> simp_all) l ih fi hfi
    simp [FC.matches, this.2]
  | hand l ih =>
    intro g h
    simp only [FC.fromInvalid, Option.map_eq_some_iff] at h
    obtain ⟨fi, hfi, rfl⟩ := h
    have := resolveList_aux S e c self (FC.fromInvalid m) (FC.fromInvalidList m)
      (by simp [FC.fromInvalidList]) (by intro f fs gs' h; simp only [FC.fromInvalidList] at h; split at h <;> simp_all) l ih fi hfi
    simp [FC.matches, this.1]
  | hinc l ih =>
    intro g h
    simp only [FC.fromInvalid, Option.map_eq_some_iff] at h
    obtain ⟨fi, hfi, rfl⟩ := h
    simp [FC.matches]

end

/-- Resolution never fails (`Identity::get_uuid` is total), so the statements above are not vacuous. -/
theorem resolve_total (c : AttrConsts) (self : Val) (m : Nat → IType → Option Nat) :
    ∀ fc : FC, (∃ g, fc.resolveIdx c self m = some g) ∧ (∃ g, fc.resolveNoIdx c self = some g) := by
  have hl : ∀ l : List FC,
      (∀ f ∈ l, (∃ g, f.resolveIdx c self m = some g) ∧ (∃ g, f.resolveNoIdx c self = some g)) →
      (∃ gs, FC.resolveIdxList c self m l = some gs) ∧ (∃ gs, FC.resolveNoIdxList c self l = some gs) := by
    intro l
    induction l with
    | nil => intro _; exact ⟨⟨[], rfl⟩, ⟨[], rfl⟩⟩
    | cons x xs ihl =>
      intro ih
      obtain ⟨⟨g1, h1⟩, ⟨g2, h2⟩⟩ := ih x (by simp)
      obtain ⟨⟨gs1, hs1⟩, ⟨gs2, hs2⟩⟩ := ihl (fun f hf => ih f (by simp [hf]))
      exact ⟨⟨g1 :: gs1, by simp [FC.resolveIdxList, h1, hs1]⟩,
        ⟨g2 :: gs2, by simp [FC.resolveNoIdxList, h2, hs2]⟩⟩
  intro fc
  induction fc using FC.ind with
  | heq a v => exact ⟨⟨_, rfl⟩, ⟨_, rfl⟩⟩
  | hcnt a v => exact ⟨⟨_, rfl⟩, ⟨_, rfl⟩⟩
  | hstw a v => exact ⟨⟨_, rfl⟩, ⟨_, rfl⟩⟩
  | henw a v => exact ⟨⟨_, rfl⟩, ⟨_, rfl⟩⟩
  | hpres a => exact ⟨⟨_, rfl⟩, ⟨_, rfl⟩⟩
  | hlt a v => exact ⟨⟨_, rfl⟩, ⟨_, rfl⟩⟩
  | hself => exact ⟨⟨_, rfl⟩, ⟨_, rfl⟩⟩
  | hinv a => exact ⟨⟨_, rfl⟩, ⟨_, rfl⟩⟩
  | hnot f ih =>
    obtain ⟨⟨g1, h1⟩, ⟨g2, h2⟩⟩ := ih
    exact ⟨⟨.andnot g1 none, by simp [FC.resolveIdx, h1]⟩, ⟨.andnot g2 none, by simp [FC.resolveNoIdx, h2]⟩⟩
  | hor l ih =>
    obtain ⟨⟨g1, h1⟩, ⟨g2, h2⟩⟩ := hl l ih
    exact ⟨⟨.or g1 none, by simp [FC.resolveIdx, h1]⟩, ⟨.or g2 none, by simp [FC.resolveNoIdx, h2]⟩⟩
  | hand l ih =>
    obtain ⟨⟨g1, h1⟩, ⟨g2, h2⟩⟩ := hl l ih
    exact ⟨⟨.and g1 none, by simp [FC.resolveIdx, h1]⟩, ⟨.and g2 none, by simp [FC.resolveNoIdx, h2]⟩⟩
  | hinc l ih =>
    obtain ⟨⟨g1, h1⟩, ⟨g2, h2⟩⟩ := hl l ih
    exact ⟨⟨.inclusion g1 none, by simp [FC.resolveIdx, h1]⟩, ⟨.inclusion g2 none, by simp [FC.resolveNoIdx, h2]⟩⟩

/-- Non-vacuity: `SelfUuid` under an Or, with `uuid` equality indexed at slope 3. -/
example : (FC.or [.selfUuid, .pres 2]).resolveIdx ⟨7, 1⟩ (.num 42)
    (fun a t => if a = 7 ∧ t = .equality then some 3 else none) =
    some (.or [.eq 7 (.num 42) (some 3), .pres 2 none] none) := by rfl

/-! ## 5. The certificate checker -/

theorem insertBy_perm (le : F → F → Bool) (x : F) (l : List F) : (insertBy le x l).Perm (x :: l) := by
  induction l with
  | nil => exact List.Perm.refl _
  | cons y ys ih =>
    simp only [insertBy]
    split
    · exact List.Perm.refl _
    · exact ((List.Perm.cons y ih).trans (List.Perm.swap x y ys))

theorem isortBy_perm (le : F → F → Bool) (l : List F) : (isortBy le l).Perm l := by
  induction l with
  | nil => exact List.Perm.refl _
  | cons x xs ih =>
    show (insertBy le x (isortBy le xs)).Perm (x :: xs)
    exact (insertBy_perm le x _).trans (List.Perm.cons x ih)

/-- The sorts the driver runs satisfy the hypothesis of `optimise_preserves`. -/
theorem sortAsc_perm : IsPerm sortAsc := isortBy_perm _
theorem sortDesc_perm : IsPerm sortDesc := isortBy_perm _

section
variable (S : ValSem) (e : Entry)

private theorem subEquiv_iff (l1 l2 : List F) :
    F.subEquiv l1 l2 = true ↔ ∀ x ∈ l1, ∃ y ∈ l2, F.equiv x y = true := by
  induction l1 with
  | nil => simp [F.subEquiv]
  | cons x xs ih => simp [F.subEquiv, ih]

private theorem anyEquiv_iff (l1 : List F) (y : F) :
    F.anyEquiv l1 y = true ↔ ∃ x ∈ l1, F.equiv x y = true := by
  induction l1 with
  | nil => simp [F.anyEquiv]
  | cons x xs ih => simp [F.anyEquiv, ih]

private theorem equiv_lists (l1 l2 : List F)
    (ih : ∀ f ∈ l1, ∀ y, f.equiv y = true → f.matches S e = y.matches S e)
    (h : (F.subEquiv l1 l2 && l2.all (fun y => F.anyEquiv l1 y)) = true) :
    l1.all (fun f => f.matches S e) = l2.all (fun f => f.matches S e) ∧
    l1.any (fun f => f.matches S e) = l2.any (fun f => f.matches S e) := by
  simp only [Bool.and_eq_true, subEquiv_iff, List.all_eq_true, anyEquiv_iff] at h
  have h12 : ∀ x ∈ l1, ∃ y ∈ l2, x.matches S e = y.matches S e := by
    intro x hx
    obtain ⟨y, hy, hxy⟩ := h.1 x hx
    exact ⟨y, hy, ih x hx y hxy⟩
  have h21 : ∀ y ∈ l2, ∃ x ∈ l1, x.matches S e = y.matches S e := by
    intro y hy
    obtain ⟨x, hx, hxy⟩ := h.2 y hy
    exact ⟨x, hx, ih x hx y hxy⟩
  exact ⟨all_eq_of_mutual h12 h21, any_eq_of_mutual h12 h21⟩

/-- Terms equal up to slopes and up to the *set* of children match the same entries. -/
theorem equiv_sound : ∀ (x y : F), x.equiv y = true → x.matches S e = y.matches S e := by
  intro x
  induction x using F.ind with
  | heq a v s =>
    intro y h; cases y <;> simp [F.equiv] at h
    obtain ⟨rfl, rfl⟩ := h; simp [F.matches]
  | hcnt a v s =>
    intro y h; cases y <;> simp [F.equiv] at h
    obtain ⟨rfl, rfl⟩ := h; simp [F.matches]
  | hstw a v s =>
    intro y h; cases y <;> simp [F.equiv] at h
    obtain ⟨rfl, rfl⟩ := h; simp [F.matches]
  | henw a v s =>
    intro y h; cases y <;> simp [F.equiv] at h
    obtain ⟨rfl, rfl⟩ := h; simp [F.matches]
  | hpres a s =>
    intro y h; cases y <;> simp [F.equiv] at h
    subst h; simp [F.matches]
  | hlt a v s =>
    intro y h; cases y <;> simp [F.equiv] at h
    obtain ⟨rfl, rfl⟩ := h; simp [F.matches]
  | hinv a =>
    intro y h; cases y <;> simp [F.equiv] at h
    simp
  | hor l s ih =>
    intro y h; cases y <;> try (simp [F.equiv] at h; done)
    simp only [F.equiv] at h
    simp only [F.matches_or]
    exact (equiv_lists S e l _ ih h).2
  | hand l s ih =>
    intro y h; cases y <;> try (simp [F.equiv] at h; done)
    simp only [F.equiv] at h
    simp only [F.matches_and]
    exact (equiv_lists S e l _ ih h).1
  | hinc l s ih =>
    intro y h; cases y <;> try (simp [F.equiv] at h; done)
    simp only [F.matches_inclusion]
  | hnot f s ih =>
    intro y h; cases y <;> try (simp [F.equiv] at h; done)
    simp only [F.equiv] at h
    simp only [F.matches_andnot, ih _ h]

theorem optIter_preserves : ∀ (n : Nat) (f : F), (optIter n f).matches S e = f.matches S e := by
  intro n
  induction n with
  | zero => intro f; rfl
  | succ n ih =>
    intro f
    simp only [optIter]
    split
    · exact optimise_preserves S e _ _ sortAsc_perm sortDesc_perm f
    · rw [ih, optimise_preserves S e _ _ sortAsc_perm sortDesc_perm f]

/-- Every pair (original, rewritten) the checker accepts is a proved instance of the property:
the rewritten filter matches exactly the entries the original matches. -/
theorem isOptimiseOf_sound (f g : F) (h : isOptimiseOf f g = true) :
    ∀ (S : ValSem) (e : Entry), g.matches S e = f.matches S e := by
  intro S e
  have := equiv_sound S e _ _ h
  unfold optFix at this
  rw [optIter_preserves, optIter_preserves] at this
  exact this.symm

end

/-- Non-vacuity: the checker accepts a genuine rewriting (any tie order, duplicate dropped) and
rejects a rewriting that loses a term. -/
example : isOptimiseOf
    (.and [.pres 0 none, .and [.eq 1 (.num 2) (some 1), .pres 0 none] none] none)
    (.and [.eq 1 (.num 2) (some 1), .pres 0 none] (some 1)) = true := by decide
example : isOptimiseOf
    (.and [.pres 0 none, .and [.eq 1 (.num 2) (some 1), .pres 0 none] none] none)
    (.pres 0 none) = false := by decide
/-- one optimiser pass is not idempotent (`And[x, x]` ↦ `And[x]` ↦ `x`); the checker copes -/
example : isOptimiseOf (.and [.pres 0 none, .pres 0 none] none) (.and [.pres 0 none] none) = true := by decide

end Kanidm.Filter
