import KanidmProofs.Lemmas.OAuth2Authorise
/-!
C38 — OAuth2 authorisation happens only on registered terms.

`authorise` is `check_oauth2_authorisation`, `permit` is `check_oauth2_authorise_permit`,
`Client.ofConf` is the client-building part of `reload` (`KanidmModel/OAuth2/Authorise.lean`);
every operator in them is regenerated from `server/lib/src/idm/oauth2.rs` on each run.
-/
namespace Kanidm.OAuth2
open Kanidm.Gen.OAuth2Authz

/-- The property's terms for a grant that carries PKCE challenge `chal`, redirect URI `uri` and
scopes `scopes`, issued for request `req` by identity `ident` against the loaded clients `reg`. -/
def Terms (scopeOk : Nat → Bool) (reg : Registry) (ident : Option Ident) (req : Request)
    (c : Client) (i : Ident) (chal : Option Nat) (uri : Nat) (scopes : List Nat) : Prop :=
  -- the client id (lower-cased) names a registered client
  rsSetGet reg req.clientId = some c ∧ (req.clientId.map Char.toLower, c) ∈ reg ∧
  req.responseType = .code ∧
  -- the redirect URI is one of the client's redirect URIs, or one of its opaque (app) URIs, or a
  -- loopback URI while the client is public with localhost redirects allowed
  (req.redirectUri.atom ∈ c.redirectUris ∨ req.redirectUri.atom ∈ c.opaqueOrigins ∨
    (checkIsLoopback req.redirectUri = true ∧ c.ctype = .pub true)) ∧
  -- a client with an https URI accepts only https, loopback or its opaque URIs
  (c.originSecureRequired = true →
    req.redirectUri.atom ∈ c.opaqueOrigins ∨ checkIsLoopback req.redirectUri = true ∨
      req.redirectUri.https = true) ∧
  -- there is an identity, it is a user, and not anonymous
  ident = some i ∧ i.kind = .user ∧ i.uuid ≠ uuidAnonymous ∧
  -- every requested scope is well-formed and held through a scope map of a group of the user
  req.scope ≠ [] ∧
  (∀ s ∈ req.scope, scopeOk s = true ∧ ∃ g m, (g, m) ∈ c.scopeMaps ∧ g ∈ i.memberOf ∧ s ∈ m) ∧
  -- a supplied PKCE request is S256; none is supplied only to a basic client with PKCE disabled
  (∀ pk, req.pkce = some pk → pk.isS256 = true) ∧
  (req.pkce = none → ∃ q, c.ctype = .basic false q) ∧
  -- the grant carries the request's challenge and redirect URI
  chal = req.pkce.map (·.challenge) ∧ uri = req.redirectUri.atom ∧
  -- and exactly the requested scopes plus the supplementary scopes the user holds
  (∀ s, s ∈ scopes ↔
    s ∈ req.scope ∨ ∃ g m, (g, m) ∈ c.supScopeMaps ∧ g ∈ i.memberOf ∧ s ∈ m)

/-- `Terms`, spelled out (so that the audited statement hash covers its content). -/
theorem terms_def (scopeOk : Nat → Bool) (reg : Registry) (ident : Option Ident) (req : Request)
    (c : Client) (i : Ident) (chal : Option Nat) (uri : Nat) (scopes : List Nat) :
    Terms scopeOk reg ident req c i chal uri scopes ↔
      (rsSetGet reg req.clientId = some c ∧ (req.clientId.map Char.toLower, c) ∈ reg ∧
      req.responseType = .code ∧
      (req.redirectUri.atom ∈ c.redirectUris ∨ req.redirectUri.atom ∈ c.opaqueOrigins ∨
        (checkIsLoopback req.redirectUri = true ∧ c.ctype = .pub true)) ∧
      (c.originSecureRequired = true →
        req.redirectUri.atom ∈ c.opaqueOrigins ∨ checkIsLoopback req.redirectUri = true ∨
          req.redirectUri.https = true) ∧
      ident = some i ∧ i.kind = .user ∧ i.uuid ≠ uuidAnonymous ∧
      req.scope ≠ [] ∧
      (∀ s ∈ req.scope, scopeOk s = true ∧ ∃ g m, (g, m) ∈ c.scopeMaps ∧ g ∈ i.memberOf ∧ s ∈ m) ∧
      (∀ pk, req.pkce = some pk → pk.isS256 = true) ∧
      (req.pkce = none → ∃ q, c.ctype = .basic false q) ∧
      chal = req.pkce.map (·.challenge) ∧ uri = req.redirectUri.atom ∧
      (∀ s, s ∈ scopes ↔
        s ∈ req.scope ∨ ∃ g m, (g, m) ∈ c.supScopeMaps ∧ g ∈ i.memberOf ∧ s ∈ m)) :=
  Iff.rfl

/-- Whatever `finishStage` grants carries the challenge, URI and granted scopes it was given, for
the identity it was given. -/
theorem finishStage_grant {c : Client} {i : Ident} {req : Request} {mode : SupportedResponseMode}
    {lb : Bool} {ch : Option Nat} {rs g : List Nat} {ct : Nat} :
    (∀ code st m, finishStage c i req mode lb ch rs g ct = .permitted code st m →
      code = { accountUuid := i.uuid, sessionId := i.sessionId, expiry := asSecs ct + codeExpirySecs,
               codeChallenge := ch, redirectUri := req.redirectUri.atom, scopes := g,
               nonce := req.nonce, authTime := i.lastVerifiedAt } ∧ st = req.state ∧ m = mode) ∧
    (∀ tok pii, finishStage c i req mode lb ch rs g ct = .consentRequested tok pii →
      tok = { clientId := req.clientId, sessionId := i.sessionId,
              expiry := asSecs ct + consentExpirySecs, identId := i.originId, state := req.state,
              codeChallenge := ch, redirectUri := req.redirectUri.atom, scopes := g,
              nonce := req.nonce, responseMode := mode }) := by
  unfold finishStage
  constructor
  · intro code st m h
    simp only at h
    split at h
    · simp only [Outcome.permitted.injEq] at h
      exact ⟨h.1.symm, h.2.1.symm, h.2.2.symm⟩
    · split at h <;> simp at h
  · intro tok pii h
    simp only at h
    split at h
    · simp at h
    · split at h
      · simp at h
      · simp only [Outcome.consentRequested.injEq] at h
        exact h.1.symm

/-- Core: any grant of `authorise` satisfies the terms for what `finishStage` was given. -/
theorem grant_terms {scopeOk : Nat → Bool} {reg : Registry} {ident : Option Ident}
    {req : Request} {resumed : Bool} {ct : Nat} {o : Outcome}
    (h : authorise scopeOk reg ident req resumed ct = o) (hg : o.isGrant = true) :
    ∃ mode c lb ch i g,
      o = finishStage c i req mode lb ch req.scope g ct ∧
      Terms scopeOk reg ident req c i ch req.redirectUri.atom g := by
  obtain ⟨mode, c, lb, ch, i, g, hshape, hc, hred, hpk, hid, _, han, hps, ho⟩ :=
    authorise_grant_inv h hg
  refine ⟨mode, c, lb, ch, i, g, ho, ?_⟩
  have hs := shapeStage_ok hshape
  have hr := redirectStage_ok hred
  have hp := pkceStage_ok hpk
  have hq := processRequestedScopes_ok hps
  have hne : req.scope ≠ [] := hq.2.1
  -- the identity is a user because it holds at least one scope
  have hheld : ∀ s ∈ req.scope, ∃ g m, (g, m) ∈ c.scopeMaps ∧ i.kind = .user ∧ g ∈ i.memberOf ∧ s ∈ m :=
    fun s hs => heldScopes_mem.mp (hq.2.2.2.1 s hs)
  have huser : i.kind = .user := by
    cases hsc : req.scope with
    | nil => exact absurd hsc hne
    | cons s _ =>
      obtain ⟨_, _, _, hk, _, _⟩ := hheld s (by simp [hsc])
      exact hk
  refine ⟨hc, rsSetGet_mem hc, hs.1, ?_, hr.2.2, hid, huser, ?_, hne, ?_, hp.2.1, ?_, hp.1, rfl, ?_⟩
  · rcases hr.2.1 with hlb | hstrict | hop
    · have hl := hr.1
      rw [hlb] at hl
      have hl' := hl.symm
      simp only [Bool.and_eq_true] at hl'
      exact Or.inr (Or.inr ⟨hl'.1, allowLocalhost_iff.mp hl'.2⟩)
    · exact Or.inl hstrict
    · exact Or.inr (Or.inl hop)
  · simpa [isAnonymous] using han
  · intro s hs'
    obtain ⟨g', m, hm, _, hg', hsm⟩ := hheld s hs'
    exact ⟨hq.2.2.1 s hs', g', m, hm, hg', hsm⟩
  · intro hnone
    cases hrp : c.requirePkce with
    | false => exact requirePkce_false_iff.mp hrp
    | true =>
      obtain ⟨pk, hpk', _⟩ := hp.2.2 hrp
      rw [hnone] at hpk'
      exact absurd hpk' (by simp)
  · intro s
    rw [hq.2.2.2.2, List.mem_append, heldScopes_mem]
    constructor
    · rintro (⟨g', m, hm, _, hg', hsm⟩ | hreq)
      · exact Or.inr ⟨g', m, hm, hg', hsm⟩
      · exact Or.inl hreq
    · rintro (hreq | ⟨g', m, hm, hg', hsm⟩)
      · exact Or.inr hreq
      · exact Or.inl ⟨g', m, hm, huser, hg', hsm⟩

/-! ## The property -/

/-- **C38 (code)**: a code issued directly by the authorisation request satisfies the registered
terms, is bound to the requesting account and session, and lives `codeExpirySecs`. -/
theorem code_implies_terms {scopeOk : Nat → Bool} {reg : Registry} {ident : Option Ident}
    {req : Request} {resumed : Bool} {ct : Nat} {code : ExchangeCode} {st : Option Nat}
    {mode : SupportedResponseMode}
    (h : authorise scopeOk reg ident req resumed ct = .permitted code st mode) :
    ∃ c i, Terms scopeOk reg ident req c i code.codeChallenge code.redirectUri code.scopes ∧
      code.accountUuid = i.uuid ∧ code.sessionId = i.sessionId ∧
      code.expiry = asSecs ct + codeExpirySecs ∧ st = req.state := by
  obtain ⟨m, c, lb, ch, i, g, ho, ht⟩ := grant_terms h (by simp [Outcome.isGrant])
  obtain ⟨hcode, hst, _⟩ := finishStage_grant.1 code st mode ho.symm
  subst hcode
  exact ⟨c, i, ht, rfl, rfl, rfl, hst⟩

/-- **C38 (consent request)**: a consent token is produced only on the same terms, and it records
the request's client id, the requester's identity and session. -/
theorem consent_implies_terms {scopeOk : Nat → Bool} {reg : Registry} {ident : Option Ident}
    {req : Request} {resumed : Bool} {ct : Nat} {tok : ConsentToken} {pii : List Nat}
    (h : authorise scopeOk reg ident req resumed ct = .consentRequested tok pii) :
    ∃ c i, Terms scopeOk reg ident req c i tok.codeChallenge tok.redirectUri tok.scopes ∧
      tok.clientId = req.clientId ∧ tok.identId = i.originId ∧ tok.sessionId = i.sessionId ∧
      tok.expiry = asSecs ct + consentExpirySecs := by
  obtain ⟨m, c, lb, ch, i, g, ho, ht⟩ := grant_terms h (by simp [Outcome.isGrant])
  have htok := finishStage_grant.2 tok pii ho.symm
  subst htok
  exact ⟨c, i, ht, rfl, rfl, rfl, rfl⟩

/-- `permit` copies the token: the code carries the token's challenge, URI and scopes, is bound to
the presenter, who must be the identity and session the token was issued to, before its expiry;
the recorded consent is the token's scopes. -/
theorem permit_copies_token {reg : Registry} {tok : ConsentToken} {i : Ident} {ct : Nat} {p : Permit}
    (h : permit reg tok i ct = .ok p) :
    p.code.codeChallenge = tok.codeChallenge ∧ p.code.redirectUri = tok.redirectUri ∧
    p.code.scopes = tok.scopes ∧ p.code.accountUuid = i.uuid ∧ p.code.sessionId = i.sessionId ∧
    p.code.expiry = asSecs ct + permitCodeExpirySecs ∧
    tok.identId = i.originId ∧ tok.sessionId = i.sessionId ∧ asSecs ct < tok.expiry ∧
    p.redirectUri = tok.redirectUri ∧ p.state = tok.state ∧ p.responseMode = tok.responseMode ∧
    p.consentScopes = tok.scopes ∧ (∃ c, rsSetGet reg tok.clientId = some c ∧ p.consentClient = c.uuid) := by
  unfold permit at h
  split at h
  · simp at h
  · rename_i h1
    split at h
    · simp at h
    · rename_i h2
      split at h
      · simp at h
      · rename_i h3
        split at h
        · simp at h
        · rename_i c hc
          simp only [Except.ok.injEq] at h
          subst h
          simp only [consentTokenExpired, decide_eq_true_eq, Nat.not_le] at h3
          refine ⟨rfl, rfl, rfl, rfl, rfl, rfl, ?_, ?_, h3, rfl, rfl, rfl, rfl, c, hc, rfl⟩
          · simpa using h1
          · simpa using h2

/-- **C38 (code after consent)**: a code obtained by permitting a consent token that `authorise`
issued satisfies the terms of the original request (against the clients registered at request
time), belongs to the account that made the request, and was permitted within
`consentExpirySecs` of the request. -/
theorem permit_code_implies_terms {scopeOk : Nat → Bool} {reg reg' : Registry} {ident : Option Ident}
    {req : Request} {resumed : Bool} {ct ct' : Nat} {tok : ConsentToken} {pii : List Nat}
    {i' : Ident} {p : Permit}
    (ha : authorise scopeOk reg ident req resumed ct = .consentRequested tok pii)
    (hp : permit reg' tok i' ct' = .ok p) :
    ∃ c i, Terms scopeOk reg ident req c i p.code.codeChallenge p.code.redirectUri p.code.scopes ∧
      p.code.accountUuid = i.uuid ∧ i'.kind = i.kind ∧ i'.sessionId = i.sessionId ∧
      p.code.sessionId = i.sessionId ∧ asSecs ct' < asSecs ct + consentExpirySecs ∧
      p.consentScopes = p.code.scopes := by
  obtain ⟨c, i, ht, _, hid, hsess, hexp⟩ := consent_implies_terms ha
  have hc := permit_copies_token hp
  obtain ⟨h1, h2, h3, h4, h5, _, h7, h8, h9, _, _, _, h13, _⟩ := hc
  have hident : i'.originId = i.originId := by rw [← h7, hid]
  simp only [Ident.originId, Prod.mk.injEq] at hident
  refine ⟨c, i, ?_, ?_, hident.1, ?_, ?_, ?_, ?_⟩
  · rw [h1, h2, h3]; exact ht
  · rw [h4]; exact hident.2
  · rw [← h8, hsess]
  · rw [h5, ← h8, hsess]
  · rw [← hexp]; exact h9
  · rw [h13, h3]

/-- **C38 (who never gets a grant)**: without an identity, or as anonymous, or as a non-user
identity, no code and no consent token is produced, whatever the client and request. -/
theorem no_grant_without_user {scopeOk : Nat → Bool} {reg : Registry} {ident : Option Ident}
    {req : Request} {resumed : Bool} {ct : Nat}
    (h : ident = none ∨ ∃ i, ident = some i ∧ (i.uuid = uuidAnonymous ∨ i.kind ≠ .user)) :
    (authorise scopeOk reg ident req resumed ct).isGrant = false := by
  cases hg : (authorise scopeOk reg ident req resumed ct).isGrant with
  | false => rfl
  | true =>
    obtain ⟨_, c, _, ch, i, g, _, ht⟩ := grant_terms rfl hg
    obtain ⟨_, _, _, _, _, hid, huser, hanon, _⟩ := ht
    rcases h with hn | ⟨j, hj, hbad⟩
    · rw [hn] at hid; simp at hid
    · rw [hj] at hid
      simp only [Option.some.injEq] at hid
      subst hid
      rcases hbad with hb | hb
      · exact absurd hb hanon
      · exact absurd huser hb

/-- **C38 (requested scope not held ⇒ no grant)**. -/
theorem no_grant_for_unheld_scope {scopeOk : Nat → Bool} {reg : Registry} {i : Ident} {c : Client}
    {req : Request} {resumed : Bool} {ct : Nat} {s : Nat}
    (hc : rsSetGet reg req.clientId = some c) (hs : s ∈ req.scope)
    (hun : ∀ g m, (g, m) ∈ c.scopeMaps → g ∈ i.memberOf → s ∉ m) :
    (authorise scopeOk reg (some i) req resumed ct).isGrant = false := by
  cases hg : (authorise scopeOk reg (some i) req resumed ct).isGrant with
  | false => rfl
  | true =>
    obtain ⟨_, c', _, ch, i', g, _, ht⟩ := grant_terms rfl hg
    obtain ⟨hc', _, _, _, _, hid, _, _, _, hheld, _⟩ := ht
    rw [hc] at hc'
    simp only [Option.some.injEq] at hc' hid
    subst hc'; subst hid
    obtain ⟨_, g', m, hm, hg', hsm⟩ := hheld s hs
    exact absurd hsm (hun g' m hm hg')

/-- **Response type / mode**: a request passes the shape checks only with `response_type=code` and
a response mode absent, `query`, `fragment` or `form_post` (remapped to query). -/
theorem shape_allows {req : Request} {mode : SupportedResponseMode}
    (h : shapeStage req = .ok mode) :
    req.responseType = .code ∧
    (req.responseMode, mode) ∈
      [(none, SupportedResponseMode.query), (some .query, .query), (some .fragment, .fragment),
       (some .formPost, .query)] := by
  obtain ⟨hrt, ⟨rm, hrm, hm⟩, _⟩ := shapeStage_ok h
  refine ⟨hrt, ?_⟩
  rw [hrt] at hrm
  cases hmode : req.responseMode with
  | none =>
    rw [hmode] at hrm
    have : rm = .query := by
      have : getResponseMode none .code = some .query := by decide
      rw [this] at hrm; exact (Option.some.inj hrm).symm
    subst this
    have : supportedMode .query = some .query := by decide
    rw [this] at hm; cases hm; simp
  | some m0 =>
    rw [hmode] at hrm
    cases m0 with
    | query =>
      have : getResponseMode (some .query) .code = some .query := by decide
      rw [this] at hrm; cases hrm
      have : supportedMode .query = some .query := by decide
      rw [this] at hm; cases hm; simp
    | fragment =>
      have : getResponseMode (some .fragment) .code = some .fragment := by decide
      rw [this] at hrm; cases hrm
      have : supportedMode .fragment = some .fragment := by decide
      rw [this] at hm; cases hm; simp
    | formPost =>
      have : getResponseMode (some .formPost) .code = some .formPost := by decide
      rw [this] at hrm; cases hrm
      have : supportedMode .formPost = some .query := by decide
      rw [this] at hm; cases hm; simp
    | invalid =>
      have : getResponseMode (some .invalid) .code = some .invalid := by decide
      rw [this] at hrm; cases hrm
      have : supportedMode .invalid = none := by decide
      rw [this] at hm; cases hm

/-! ## What "registered" means: the loaded client against its configuration (`reload`) -/

/-- A URI atom is in one of the loaded client's two sets iff it is one of the configured URLs
(landing or extra, fragment removed); it is opaque iff that URL is neither http nor https. -/
theorem registered_iff_configured (cf : ClientConf) (a : Nat) :
    ((a ∈ (Client.ofConf cf).redirectUris ∨ a ∈ (Client.ofConf cf).opaqueOrigins) ↔
      ∃ u ∈ cf.urls, u.atom = a) ∧
    (a ∈ (Client.ofConf cf).opaqueOrigins ↔ ∃ u ∈ cf.urls, u.atom = a ∧ u.scheme = .other) ∧
    (a ∈ (Client.ofConf cf).redirectUris ↔
      ∃ u ∈ cf.urls, u.atom = a ∧ (u.scheme = .https ∨ u.scheme = .http)) := by
  simp only [Client.ofConf, List.mem_map, List.mem_filter]
  refine ⟨⟨?_, ?_⟩, ⟨?_, ?_⟩, ⟨?_, ?_⟩⟩
  · rintro (⟨u, ⟨hu, _⟩, ha⟩ | ⟨u, ⟨hu, _⟩, ha⟩) <;> exact ⟨u, hu, ha⟩
  · rintro ⟨u, hu, ha⟩
    cases hs : u.scheme
    · exact Or.inl ⟨u, ⟨hu, by simp [hs]⟩, ha⟩
    · exact Or.inl ⟨u, ⟨hu, by simp [hs]⟩, ha⟩
    · exact Or.inr ⟨u, ⟨hu, by simp [hs]⟩, ha⟩
  · rintro ⟨u, ⟨hu, hsch⟩, ha⟩
    refine ⟨u, hu, ha, ?_⟩
    cases hs : u.scheme <;> simp [hs] at hsch ⊢
  · rintro ⟨u, hu, ha, hs⟩
    exact ⟨u, ⟨hu, by simp [hs]⟩, ha⟩
  · rintro ⟨u, ⟨hu, hsch⟩, ha⟩
    refine ⟨u, hu, ha, ?_⟩
    cases hs : u.scheme <;> simp [hs] at hsch ⊢
  · rintro ⟨u, hu, ha, hs | hs⟩ <;> exact ⟨u, ⟨hu, by simp [hs]⟩, ha⟩

/-- Secure origins are required iff some configured URL is https; PKCE is off only for a basic
client whose disable-PKCE flag is set to true; localhost redirects are on only for a public client
whose flag is set to true. -/
theorem configured_flags (cf : ClientConf) :
    ((Client.ofConf cf).originSecureRequired = true ↔ ∃ u ∈ cf.urls, u.scheme = .https) ∧
    ((Client.ofConf cf).requirePkce = false ↔ ∃ p, cf.ctype = .basic (some true) p) ∧
    ((Client.ofConf cf).ctype = .pub true ↔ cf.ctype = .pub (some true)) := by
  refine ⟨?_, ?_, ?_⟩
  · simp [Client.ofConf]
  · rw [requirePkce_false_iff]
    simp only [Client.ofConf]
    cases hct : cf.ctype with
    | basic d p =>
      cases d with
      | none => simp [enablePkceOfFlag]
      | some b => cases b <;> simp [enablePkceOfFlag]
    | pub l => simp
  · simp only [Client.ofConf]
    cases hct : cf.ctype with
    | basic d p => simp
    | pub l =>
      cases l with
      | none => simp [allowLocalhostRedirectOfFlag]
      | some b => cases b <;> simp [allowLocalhostRedirectOfFlag]

/-- The loopback test: `127.0.0.0/8`, `::1`, or the name `localhost`. -/
theorem loopback_iff (u : Uri) :
    checkIsLoopback u = true ↔
      (∃ b c d, u.host = some (.ipv4 127 b c d)) ∨ u.host = some (.ipv6 [0, 0, 0, 0, 0, 0, 0, 1]) ∨
      u.host = some (.domain ['l', 'o', 'c', 'a', 'l', 'h', 'o', 's', 't']) := by
  unfold checkIsLoopback
  cases hh : u.host with
  | none => simp
  | some h =>
    cases h with
    | ipv4 a b c d => simp [hostIsLocal]
    | ipv6 segs => simp [hostIsLocal]
    | domain name => simp [hostIsLocal, localhostName]

/-! ## Non-vacuity: concrete worlds in which the hypotheses hold -/

section Examples

def exClient : Client :=
  Client.ofConf
    { uuid := 70, ctype := .pub (some true)
      landing := ⟨10, .https⟩, extra := [⟨11, .https⟩, ⟨12, .other⟩]
      scopeMaps := [(5, [0, 1]), (6, [7])], supScopeMaps := [(5, [9]), (6, [8])] }

def exBasic : Client :=
  Client.ofConf
    { uuid := 71, ctype := .basic (some true) (some false)
      landing := ⟨20, .http⟩, extra := []
      scopeMaps := [(5, [0])], supScopeMaps := [] }

def exReg : Registry := [(['a', 'p', 'p'], exClient), (['r', 's'], exBasic)]

def exUser : Ident :=
  { kind := .user, uuid := 40, sessionId := 41, lastVerifiedAt := some 1000, memberOf := [5], consent := [] }

def exReq : Request :=
  { responseType := .code, responseMode := none, clientId := ['A', 'p', 'p'], state := some 3,
    pkce := some ⟨77, true⟩, redirectUri := ⟨11, true, some (.domain ['x'])⟩, scope := [0, 1],
    nonce := none, maxAge := none, prompt := [] }

/-- A consent request is produced (first contact), carrying requested + supplementary scopes. -/
example :
    authorise (fun _ => true) exReg (some exUser) exReq false 5000000000 =
      .consentRequested
        { clientId := ['A', 'p', 'p'], sessionId := 41, expiry := 305, identId := (.user, 40),
          state := some 3, codeChallenge := some 77, redirectUri := 11, scopes := [9, 0, 1],
          nonce := none, responseMode := .query } [1, 3] := by decide

/-- …and permitting it yields a code with the same content. -/
example :
    (permit exReg
        { clientId := ['A', 'p', 'p'], sessionId := 41, expiry := 305, identId := (.user, 40),
          state := some 3, codeChallenge := some 77, redirectUri := 11, scopes := [9, 0, 1],
          nonce := none, responseMode := .query } exUser 304999999999).toOption.map (·.code.scopes) =
      some [9, 0, 1] := by decide

/-- With the consent recorded, the same request is permitted directly. -/
example :
    ((authorise (fun _ => true) exReg (some { exUser with consent := [(70, [0, 1, 9])] }) exReq false
        5000000000).code?.map (fun c => (c.scopes, c.codeChallenge, c.redirectUri, c.expiry))) =
      some ([9, 0, 1], some 77, 11, 65) := by
  decide

/-- A basic client with PKCE disabled and the consent prompt off: code without a challenge. -/
example :
    ((authorise (fun _ => true) exReg (some exUser)
        { exReq with clientId := ['r', 's'], pkce := none, redirectUri := ⟨20, false, none⟩, scope := [0] }
        false 5000000000).code?.map (fun c => (c.scopes, c.codeChallenge))) = some ([0], none) := by
  decide

/-- Loopback redirect for the public client that allows it (not registered, http). -/
example :
    (authorise (fun _ => true) exReg (some exUser)
        { exReq with redirectUri := ⟨99, false, some (.ipv4 127 0 0 1)⟩ } false 5000000000).isGrant = true := by
  decide

/-- Near misses are refused: unregistered URI, http on a secure client, anonymous, unheld scope,
missing PKCE. -/
example :
    authorise (fun _ => true) exReg (some exUser) { exReq with redirectUri := ⟨13, true, none⟩ } false 0
      = .err .invalidOrigin ∧
    authorise (fun _ => true) exReg (some { exUser with uuid := 0 }) exReq false 0 = .err .accessDenied ∧
    authorise (fun _ => true) exReg (some exUser) { exReq with scope := [0, 7] } false 0 = .err .accessDenied ∧
    authorise (fun _ => true) exReg (some exUser) { exReq with pkce := none } false 0 = .err .invalidRequest ∧
    authorise (fun _ => true) exReg none exReq false 0 = .authenticationRequired := by
  decide

end Examples

end Kanidm.OAuth2
