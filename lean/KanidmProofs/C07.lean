import KanidmProofs.Lemmas.Cid
/-!
# C07 — Change identifiers strictly increase

Property theorems only (helpers: `Lemmas/Cid.lean`).  The model (`KanidmModel/Cid.lean`) is an
event machine over `begin ts | commit fail? | abort | restart ts | resetUuid u`.  The lamport
comparison and branches, the field order of the derived `Ord for Cid`, the order of persistence
steps in `QueryServerWriteTransaction::commit` and the seeds used by `QueryServer::new`/`write` are
regenerated from the source on every run; every theorem below is stated over those generated
definitions, so editing the source re-states the theorems.
-/
namespace Kanidm.Cid
open Kanidm.Gen.Cid Kanidm.Gen.CidCommit

/-- The lamport step always lands strictly above the previous maximum, whatever the clock says
(`ts` equal to, below or above `max`).  Fails for `>=`: witness `ts = max`. -/
theorem lamport_gt (ts max : Nat) : max < lamportTs ts max := by
  unfold lamportTs keepTs
  split <;> simp_all

/-- … and never lags the clock when the clock is ahead. -/
theorem lamport_ge_clock (ts max : Nat) : ts ≤ lamportTs ts max := by
  unfold lamportTs keepTs
  split <;> simp_all <;> omega

example : lamportTs 5 5 = 6 ∧ lamportTs 3 5 = 6 ∧ lamportTs 9 5 = 9 := by decide

/-- The derived order on `Cid` compares the timestamp first: a larger timestamp is a larger cid
whatever the server uuids are (needed because `reset_server_uuid` may change the uuid). -/
theorem ts_lt_cidLt (a b : Cid) (h : a.ts < b.ts) : cidLt a b = true := by
  simp [cidLt, ordFields, lexLt, fieldVal, h]

example : cidLt ⟨5, 9⟩ ⟨6, 1⟩ = true ∧ cidLt ⟨6, 1⟩ ⟨6, 2⟩ = true ∧ cidLt ⟨6, 2⟩ ⟨6, 2⟩ = false := by
  decide

/-- `cidLt` is irreflexive: "strictly" greater is meaningful. -/
theorem cidLt_irrefl (a : Cid) : cidLt a a = false := by
  simp [cidLt, ordFields, lexLt, fieldVal]

/-- In the order the source has now, `set_db_ts_max(cid.ts)` (inside the backend transaction) and
the in-memory `cid.commit()` both precede `be_txn.commit()`. -/
theorem commit_order_ok : orderOk commitSteps = true := by decide

/-- A commit that returns `Ok` makes the transaction durable with `persisted ts_max = committed
in-memory maximum = the transaction's cid`. -/
theorem commit_ok_persists (s : Server) (t : Txn) (fail : Option Nat)
    (hok : (commitTxn s t fail).2 = true) :
    (commitTxn s t fail).1.dbTs = some t.cid.ts ∧ (commitTxn s t fail).1.mem = t.cid ∧
    (commitTxn s t fail).1.hist = s.hist ++ [t.cid] := by
  revert hok
  simp only [commitTxn, commitSteps, runSteps, applyStep]
  repeat' split
  all_goals simp_all

example : (commitTxn ⟨⟨5, 1⟩, some 5, 1, none, [⟨5, 1⟩]⟩ ⟨⟨6, 1⟩, none⟩ none).2 = true := by decide

/-- Whatever step of `commit()` fails, the cid is in the history only if it is durable, the
durable maximum then equals it, and the in-memory maximum never goes below its old value. -/
theorem commit_any_failure (s : Server) (t : Txn) (fail : Option Nat) :
    let s' := (commitTxn s t fail).1
    (s'.mem = t.cid ∨ s'.mem = s.mem) ∧
    ((s'.hist = s.hist ++ [t.cid] ∧ s'.dbTs = some t.cid.ts ∧ s'.mem = t.cid) ∨
     (s'.hist = s.hist ∧ s'.dbTs = s.dbTs)) := by
  have h := runSteps_post t.cid s.mem s.dbTs fail commitSteps 0 false false
    { mem := s.mem, dbTs := s.dbTs, dbUuid := s.dbUuid, pendingTs := none,
      pendingUuid := t.pendingUuid, durable := false }
    commit_order_ok
    ⟨by simp, by simp, Or.inr rfl, by simp, by simp⟩
  simp only [commitTxn]
  refine ⟨h.memEither, ?_⟩
  cases hd : (runSteps t.cid commitSteps 0 fail
    { mem := s.mem, dbTs := s.dbTs, dbUuid := s.dbUuid, pendingTs := none,
      pendingUuid := t.pendingUuid, durable := false }).1.durable
  · right; simp [h.notDur hd]
  · left; simp [h.dur hd]

/-- Every event preserves the invariant. -/
theorem step_preserves_inv (s : Server) (e : Event) (h : Inv s) : Inv (step s e) := by
  cases e with
  | «begin» ts =>
    cases htx : s.txn with
    | some t => simpa [step, stepR, htx] using h
    | none =>
      refine ⟨?_, ?_, ?_, ?_⟩
      · simpa [step, stepR, htx] using h.memDom
      · simpa [step, stepR, htx] using h.dbDom
      · intro t ht
        have : t.cid = newLamport s.mem.sUuid ts (seedVal seedAtWrite s ts) := by
          simp [step, stepR, htx] at ht; rw [← ht]
        rw [this]
        simpa [step, stepR, htx, newLamport, seedVal, seedAtWrite] using lamport_gt ts s.mem.ts
      · simpa [step, stepR, htx] using h.sorted
  | commit fail =>
    cases htx : s.txn with
    | none => simpa [step, stepR, htx] using h
    | some t =>
      have hab := h.txnAbove t htx
      have hc := commit_any_failure s t fail
      simp only at hc
      obtain ⟨hmem, hcase⟩ := hc
      have hstep : step s (.commit fail) = (commitTxn s t fail).1 := by simp [step, stepR, htx]
      rw [hstep]
      have htxn : (commitTxn s t fail).1.txn = none := by simp [commitTxn]
      rcases hcase with ⟨hh, hdb, hm⟩ | ⟨hh, hdb⟩
      · refine ⟨?_, ?_, ?_, ?_⟩
        · intro c hcm
          rw [hh] at hcm
          rw [hm]
          rcases List.mem_append.mp hcm with hin | hin
          · have := h.memDom c hin; omega
          · simp at hin; rw [hin]; exact Nat.le_refl _
        · intro c hcm
          rw [hh] at hcm
          refine ⟨t.cid.ts, hdb, ?_⟩
          rcases List.mem_append.mp hcm with hin | hin
          · have := h.memDom c hin; omega
          · simp at hin; rw [hin]; exact Nat.le_refl _
        · intro t' ht'; rw [htxn] at ht'; cases ht'
        · rw [hh, List.pairwise_append]
          refine ⟨h.sorted, by simp, ?_⟩
          intro a ha b hb
          simp at hb; rw [hb]
          have := h.memDom a ha
          exact ts_lt_cidLt a t.cid (by omega)
      · refine ⟨?_, ?_, ?_, ?_⟩
        · intro c hcm
          rw [hh] at hcm
          have := h.memDom c hcm
          rcases hmem with hm | hm <;> rw [hm] <;> omega
        · intro c hcm
          rw [hh] at hcm
          rw [hdb]; exact h.dbDom c hcm
        · intro t' ht'; rw [htxn] at ht'; cases ht'
        · rw [hh]; exact h.sorted
  | abort =>
    cases htx : s.txn with
    | none => simpa [step, stepR, htx] using h
    | some t =>
      exact ⟨by simpa [step, stepR, htx] using h.memDom, by simpa [step, stepR, htx] using h.dbDom,
        by simp [step, stepR, htx], by simpa [step, stepR, htx] using h.sorted⟩
  | restart ts =>
    refine ⟨?_, by simpa [step, stepR] using h.dbDom, by simp [step, stepR],
      by simpa [step, stepR] using h.sorted⟩
    intro c hcm
    have hcm' : c ∈ s.hist := by simpa [step, stepR] using hcm
    obtain ⟨d, hd, hle⟩ := h.dbDom c hcm'
    have := lamport_gt ts d
    simp [step, stepR, newLamport, seedVal, seedAtStart, hd]
    omega
  | resetUuid u =>
    cases htx : s.txn with
    | none => simpa [step, stepR, htx] using h
    | some t =>
      refine ⟨by simpa [step, stepR, htx] using h.memDom, by simpa [step, stepR, htx] using h.dbDom,
        ?_, by simpa [step, stepR, htx] using h.sorted⟩
      intro t' ht'
      have : t'.cid.ts = t.cid.ts := by
        simp [step, stepR, htx] at ht'; rw [← ht']
      rw [this]
      simpa [step, stepR, htx] using h.txnAbove t htx

theorem run_preserves_inv (evs : List Event) : ∀ s, Inv s → Inv (run s evs) := by
  induction evs with
  | nil => intro s h; exact h
  | cons e rest ih => intro s h; exact ih (step s e) (step_preserves_inv s e h)

/-- A server started on any database whose durable `ts_max` dominates what it committed. -/
theorem boot_inv (u ts : Nat) : Inv (boot u ts) := by
  refine ⟨?_, ?_, ?_, ?_⟩ <;> simp [boot, step, stepR]

/-- **C07.** For every finite sequence of transaction starts at arbitrary clock readings
(repeats and regressions included), commits (succeeding or failing at any step), aborts, restarts
at arbitrary clock readings and server-uuid resets: the cids of the committed transactions
strictly increase in commit order, i.e. each is strictly greater than every earlier one. -/
theorem committed_strictly_increasing (s0 : Server) (h0 : Inv s0) (evs : List Event) :
    (run s0 evs).hist.Pairwise (fun a b => cidLt a b = true) :=
  (run_preserves_inv evs s0 h0).sorted

/-- The same from a freshly created database. -/
theorem committed_strictly_increasing_from_boot (u ts0 : Nat) (evs : List Event) :
    (run (boot u ts0) evs).hist.Pairwise (fun a b => cidLt a b = true) :=
  committed_strictly_increasing _ (boot_inv u ts0) evs

/-- The property in the words of its statement: after any history, the cid stamped on the open
write transaction is strictly greater than the cid of every transaction committed before
(whether or not this transaction will itself be committed). -/
theorem stamped_gt_all_committed (s0 : Server) (h0 : Inv s0) (evs : List Event) (t : Txn)
    (ht : (run s0 evs).txn = some t) : ∀ c ∈ (run s0 evs).hist, cidLt c t.cid = true := by
  intro c hc
  have h := run_preserves_inv evs s0 h0
  have h1 := h.memDom c hc
  have h2 := h.txnAbove t ht
  exact ts_lt_cidLt c t.cid (by omega)

/-- After every commit that returned `Ok` the persisted maximum equals the committed in-memory
maximum (so a restart can never re-seed below a committed transaction). -/
theorem persisted_eq_committed_after_commit (s : Server) (t : Txn) (fail : Option Nat)
    (htx : s.txn = some t) (hok : (stepR s (.commit fail)).2 = .ok) :
    (step s (.commit fail)).dbTs = some (step s (.commit fail)).mem.ts := by
  have hr : (commitTxn s t fail).2 = true := by
    cases hb : (commitTxn s t fail).2
    · simp [stepR, htx, hb] at hok
    · rfl
  have := commit_ok_persists s t fail hr
  simp [step, stepR, htx, this.1, this.2.1]

/-! ### Non-vacuity: a concrete history with a repeated clock, a regression, an abort, a failed
commit, a crash with an open transaction, a restart at an earlier clock and a uuid reset. -/
def demo : List Event :=
  [.begin 100, .commit none, .begin 100, .commit none, .begin 50, .abort, .begin 50, .commit (some 6),
   .begin 40, .commit none, .begin 500, .restart 10, .begin 10, .resetUuid 3, .commit none,
   .restart 7, .begin 7, .commit none]

example : (run (boot 7 100) demo).hist = [⟨102, 7⟩, ⟨103, 7⟩, ⟨105, 7⟩, ⟨107, 3⟩, ⟨109, 3⟩] := by
  decide

example : Inv (boot 7 100) := boot_inv 7 100

end Kanidm.Cid
