import KanidmProofs.Lemmas.PwFormat
/-!
# C30 — Password checks agree with independent implementations (format layer + verify wrapper)

Level `translation_validation`: whether a stored hash accepts a cleartext exactly when an independent
implementation does is decided differentially (harness `hcrypto/c30`, python/aws-lc oracles). The
theorems here are about the part that is logic rather than arithmetic:

* the import-format layer (`parse` = `impl TryFrom<&str> for Password`): for every well-formed format
  record, parsing what the producing system writes gives back exactly the record (`parse_render_*`),
  with the length / cost guards as the *only* refusals (the `if … then .error …` sides), and malformed
  strings are refused (`parse_no_prefix`, `parse_unlisted_tag`, `parse_unclosed_brace`,
  `parse_pbkdf2_two_fields`, `parseU32_natDigits_iff`);
* `ab64_to_b64_correct` (Lemmas): the `ab64_to_b64!` macro turns passlib's adapted base64 into the
  padded standard encoding of the same bytes;
* the verify wrapper: every `Kdf` variant is checked with the primitive of its own format
  (`verify_dispatch_is_spec`, over the table regenerated from `verify_ctx`), the storage round trip
  keeps the variant (`db_round_trip`, D2), and `verify` agrees with the format's reference up to the
  length guard (`verify_agrees_partial`); beyond it the full statement is false (`verify_agrees_full_false`, D15).

Prefix chain, tag table, PBKDF2 table, crypt table, constants, the guard operator and the verify /
storage tables are regenerated from libs/crypto/src/lib.rs on every run (`Generated/PwFormatTables.lean`).
-/
namespace Kanidm.PwFormat
open Kanidm.Gen.PwFormat
set_option linter.unusedSimpArgs false

/-- The format definitions, written by hand from the producers' documentation (RFC 2307 / 389-DS
`{SHA}`…`{SSHA512}` = digest ‖ salt with the digest sizes of FIPS 180; passlib `ldap_pbkdf2_*`:
`{PBKDF2}` = `{PBKDF2-SHA1}`; crypt(3) ids 1 / 5 / 6; Django `pbkdf2_sha256$`; FreeIPA `ipaNTHash`,
Samba `sambaNTPassword`). The tables regenerated from the source must be these. -/
theorem import_tables_are_spec :
    prefixTable.map (fun e => (String.ofList e.1, e.2)) =
      [("pbkdf2_sha256$", false, .parse_django_password), ("ipaNTHash: ", true, .parse_ipanthash),
       ("sambaNTPassword: ", true, .parse_sambantpassword), ("{", false, .braced)] ∧
    tagTable.map (fun e => (String.ofList e.1, e.2)) =
      [("pbkdf2", .pbkdf2), ("pbkdf2-sha1", .pbkdf2), ("pbkdf2-sha256", .pbkdf2), ("pbkdf2-sha512", .pbkdf2),
       ("pbkdf2_sha256", .invalidFormat), ("argon2", .argon), ("crypt", .crypt),
       ("sha", .ds 20 .SHA1), ("ssha", .dss 20 false .SSHA1),
       ("sha256", .ds 32 .SHA256), ("ssha256", .dss 32 false .SSHA256),
       ("sha512", .ds 64 .SHA512), ("ssha512", .dss 64 true .SSHA512)] ∧
    pbkdf2Table.map (fun e => (String.ofList e.1, e.2)) =
      [("pbkdf2", 19, .PBKDF2_SHA1), ("pbkdf2-sha1", 19, .PBKDF2_SHA1), ("pbkdf2-sha256", 32, .PBKDF2),
       ("pbkdf2-sha512", 32, .PBKDF2_SHA512)] ∧
    cryptTable.map (fun e => (String.ofList e.1, e.2)) =
      [("$1$", .CRYPT_MD5), ("$5$", .CRYPT_SHA256), ("$6$", .CRYPT_SHA512)] ∧
    (pwMaxLengthCheck, pbkdf2MinNistKeyLen, argon2Version) = (512, 32, 19) := by
  decide

theorem parse_braced (tag value : List Char) (hbr : '}' ∉ tag) :
    parse (renderBraced tag value) = parseTagged (lower tag) value := by
  have hbr' : '}' ∉ '{' :: tag := by
    intro h; rcases List.mem_cons.mp h with h | h
    · exact absurd h (by decide)
    · exact hbr h
  have hs := splitOnce_field '}' ('{' :: tag) value hbr'
  simp only [List.cons_append] at hs
  simp [parse, renderBraced, firstPrefix, prefixTable, stripPrefix, parseBraced, hs]

/-- every tag `parse_pbkdf2` knows is routed to it by the outer match -/
theorem pbkdf2_tags_routed : ∀ e ∈ pbkdf2Table, lookup e.1 tagTable = some .pbkdf2 := by decide

theorem parse_render_django (cost : Nat) (salt : List Char) (hash : Bytes)
    (hc : cost < 2 ^ 32) (hs : '$' ∉ salt) (hb : ∀ b ∈ hash, b < 256) :
    parse (renderDjango cost salt hash) =
      if hash.length < pbkdf2MinNistKeyLen then refused .InvalidLength
      else stored { tag := .PBKDF2, cost := cost, salt := utf8 salt, hash := hash } := by
  simp only [refused, stored]
  have h1 := natDigits_no_sep cost '$' (by decide)
  have h2 := b64Encode_no_dollar (a := .standard) (Or.inl rfl) (pad := true) hash hb
  have s0 : splitChar '$' (renderDjango cost salt hash) =
      [['p','b','k','d','f','2','_','s','h','a','2','5','6'], natDigits cost, salt, b64Encode .standard true hash] := by
    unfold renderDjango dollar dollar dollar dollar
    rw [splitChar_field _ _ _ (by decide), splitChar_field _ _ _ h1, splitChar_field _ _ _ hs, splitChar_last _ _ h2]
  have hd : decodeStd (b64Encode .standard true hash) = some hash := b64Decode_b64Encode_pad (Or.inl rfl) false hash hb
  have hp : firstPrefix prefixTable (renderDjango cost salt hash) = some (.parse_django_password, renderDjango cost salt hash) := by
    simp [renderDjango, dollar, firstPrefix, prefixTable, stripPrefix]
  simp only [parse, hp, parseDjango, s0, parseU32_natDigits cost hc, hd, djangoKeyTooShort]
  by_cases hl : hash.length < pbkdf2MinNistKeyLen <;> simp [hl]
theorem parse_render_pbkdf2 (tag : List Char) (minLen : Nat) (k : KdfTag) (cost : Nat) (salt hash : Bytes)
    (hbr : '}' ∉ tag) (hentry : lookup (lower tag) pbkdf2Table = some (minLen, k))
    (hc : cost < 2 ^ 32) (hsb : ∀ b ∈ salt, b < 256) (hb : ∀ b ∈ hash, b < 256) :
    parse (renderPbkdf2 tag cost salt hash) =
      if hash.length < minLen then refused .InvalidKeyLength
      else stored { tag := k, cost := cost, salt := salt, hash := hash } := by
  simp only [refused, stored]
  have hroute := pbkdf2_tags_routed _ (lookup_mem hentry)
  simp only at hroute
  have h1 := natDigits_no_sep cost '$' (by decide)
  have h2 := ab64Encode_no_dollar salt hsb
  have h3 := ab64Encode_no_dollar hash hb
  have s0 : splitChar '$' (dollar [natDigits cost, ab64Encode salt, ab64Encode hash]) =
      [natDigits cost, ab64Encode salt, ab64Encode hash] := by
    unfold dollar dollar dollar
    rw [splitChar_field _ _ _ h1, splitChar_field _ _ _ h2, splitChar_last _ _ h3]
  unfold renderPbkdf2
  rw [parse_braced _ _ hbr]
  simp only [parseTagged, hroute, parsePbkdf2, s0, parseU32_natDigits cost hc, decodeAb64_ab64Encode salt hsb,
    decodeAb64_ab64Encode hash hb, hentry]

theorem parse_render_ds (tag : List Char) (n : Nat) (k : KdfTag) (hash : Bytes)
    (hbr : '}' ∉ tag) (hentry : lookup (lower tag) tagTable = some (.ds n k)) (hb : ∀ b ∈ hash, b < 256) :
    parse (renderDs tag hash []) =
      if hash.length ≠ n then refused .InvalidSaltLength else stored { tag := k, hash := hash } := by
  simp only [refused, stored]
  have hd : decodeStd (b64Encode .standard true hash) = some hash := b64Decode_b64Encode_pad (Or.inl rfl) false hash hb
  unfold renderDs
  rw [parse_braced _ _ hbr]
  simp only [parseTagged, hentry, List.append_nil, hd]

theorem parse_render_dss (tag : List Char) (n : Nat) (strict : Bool) (k : KdfTag) (hash salt : Bytes)
    (hbr : '}' ∉ tag) (hentry : lookup (lower tag) tagTable = some (.dss n strict k))
    (hb : ∀ b ∈ hash, b < 256) (hsb : ∀ b ∈ salt, b < 256) (hlen : hash.length = n)
    (hsalt : strict = true → salt ≠ []) :
    parse (renderDs tag hash salt) = stored { tag := k, salt := salt, hash := hash } := by
  simp only [refused, stored]
  have hall : ∀ b ∈ hash ++ salt, b < 256 := by
    intro b hm; rcases List.mem_append.mp hm with h | h
    · exact hb b h
    · exact hsb b h
  have hd : decodeStd (b64Encode .standard true (hash ++ salt)) = some (hash ++ salt) :=
    b64Decode_b64Encode_pad (Or.inl rfl) false _ hall
  unfold renderDs
  rw [parse_braced _ _ hbr]
  simp only [parseTagged, hentry, hd]
  have h1 : ¬ ((strict && decide ((hash ++ salt).length ≤ n)) = true) := by
    cases strict with
    | false => simp
    | true =>
      have := hsalt rfl
      have hpos : 0 < salt.length := List.length_pos_iff.mpr this
      simp [hlen]; omega
  have h2 : ¬ (hash ++ salt).length < n := by simp [hlen]
  rw [if_neg h1, if_neg h2]
  simp [← hlen]

theorem parse_render_samba (upper : Bool) (hash : Bytes) (hb : ∀ b ∈ hash, b < 256) :
    parse (renderSambaNt upper hash) = stored { tag := .NT_MD4, hash := hash } := by
  simp only [refused, stored]
  simp [parse, renderSambaNt, firstPrefix, prefixTable, stripPrefix, parseSambaNt, hexDecode_hexEncode upper hash hb]

theorem parse_render_ipa (pad : Bool) (hash : Bytes) (hb : ∀ b ∈ hash, b < 256) :
    parse (renderIpaNtHash pad hash) = stored { tag := .NT_MD4, hash := hash } := by
  simp only [refused, stored]
  have hp : firstPrefix prefixTable (renderIpaNtHash pad hash) = some (.parse_ipanthash, b64Encode .urlSafe pad hash) := by
    simp [renderIpaNtHash, firstPrefix, prefixTable, stripPrefix]
  simp only [parse, hp, parseIpaNtHash]
  cases pad with
  | false => rw [b64Decode_b64Encode_nopad (Or.inr rfl) false hash hb]
  | true =>
    rcases b64Decode_nopad_of_padded (a := .urlSafe) (Or.inr rfl) false hash hb with h | h
    · rw [h]
    · rw [h]; simp only; rw [b64Decode_b64Encode_pad (Or.inr rfl) false hash hb]

theorem parse_render_crypt_md5 (tag salt hash : List Char) (hbr : '}' ∉ tag)
    (htag : lower tag = ['c','r','y','p','t']) (hs : '$' ∉ salt) :
    parse (renderCryptMd5 tag salt hash) = stored { tag := .CRYPT_MD5, salt := utf8 salt, hash := utf8 hash } := by
  simp only [refused, stored]
  unfold renderCryptMd5
  rw [parse_braced _ _ hbr, htag]
  have hl : lookup ['c','r','y','p','t'] tagTable = some .crypt := by decide
  have hso := splitOnce_field '$' salt hash hs
  simp [parseTagged, hl, parseCrypt, cryptPrefix, cryptTable, stripPrefix, hso]

theorem parse_crypt_sha (tag rest : List Char) (id : Char) (k : KdfTag) (hbr : '}' ∉ tag)
    (htag : lower tag = ['c','r','y','p','t'])
    (hid : (id = '5' ∧ k = .CRYPT_SHA256) ∨ (id = '6' ∧ k = .CRYPT_SHA512)) :
    parse (renderBraced tag ('$' :: id :: '$' :: rest)) = stored { tag := k, text := '$' :: id :: '$' :: rest } := by
  simp only [refused, stored]
  rw [parse_braced _ _ hbr, htag]
  have hl : lookup ['c','r','y','p','t'] tagTable = some .crypt := by decide
  rcases hid with ⟨rfl, rfl⟩ | ⟨rfl, rfl⟩ <;>
    simp [parseTagged, hl, parseCrypt, cryptPrefix, cryptTable, stripPrefix]
theorem parse_no_prefix (v : List Char) (h : ∀ e ∈ prefixTable, stripPrefix e.1 v = none) :
    parse v = refused .NoDecoderFound := by
  simp only [refused, stored]
  simp only [parse, firstPrefix_none prefixTable v h]

theorem parse_unlisted_tag (tag value : List Char) (hbr : '}' ∉ tag) (h : lookup (lower tag) tagTable = none) :
    parse (renderBraced tag value) = refused .NoDecoderFound := by
  simp only [refused, stored]
  rw [parse_braced _ _ hbr]
  simp only [parseTagged, h]

theorem parse_unclosed_brace (rest : List Char) (h : '}' ∉ rest) : parse ('{' :: rest) = refused .InvalidFormat := by
  simp only [refused, stored]
  have h' : '}' ∉ '{' :: rest := by
    intro hm; rcases List.mem_cons.mp hm with hm | hm
    · exact absurd hm (by decide)
    · exact h hm
  simp [parse, firstPrefix, prefixTable, stripPrefix, parseBraced, splitOnce_none _ _ h']

theorem parse_pbkdf2_two_fields (tag a b : List Char) (hbr : '}' ∉ tag)
    (hroute : lookup (lower tag) tagTable = some .pbkdf2) (ha : '$' ∉ a) (hb : '$' ∉ b) :
    parse (renderBraced tag (a ++ '$' :: b)) = refused .InvalidLength := by
  simp only [refused, stored]
  rw [parse_braced _ _ hbr]
  simp only [parseTagged, hroute, parsePbkdf2, splitChar_field _ _ _ ha, splitChar_last _ _ hb]

theorem parseU32_natDigits_iff (n : Nat) : parseU32 (natDigits n) = if n < 2 ^ 32 then some n else none := by
  by_cases h : n < 2 ^ 32
  · rw [if_pos h]; exact parseU32_natDigits n h
  · rw [if_neg h]
    obtain ⟨pre, he, hne, hall, hval⟩ := natDigitsAux_spec (n + 1) n [] (by omega)
    simp only [List.append_nil] at he
    unfold natDigits
    rw [he]
    have hv : digitsVal pre = n := by
      have := hval 0
      have hf : dstep = fun acc c => acc * 10 + (c.toNat - 48) := rfl
      unfold digitsVal
      rw [← hf, this]
      omega
    cases pre with
    | nil => exact absurd rfl hne
    | cons c cs =>
      have hc : isDigit c = true := by simp at hall; exact hall.1
      have hplus : c ≠ '+' := by
        intro hcp; subst hcp; revert hc; decide
      unfold parseU32 parseUnsigned
      split
      · rename_i heq; cases heq; exact absurd rfl hplus
      · simp [parseDigits, hall, hv, h]

/-! ## alphabet selection: a character of another base64 dialect is refused -/

theorem parse_ds_bad_char (tag value : List Char) (n : Nat) (k : KdfTag) (c : Char) (hbr : '}' ∉ tag)
    (hentry : lookup (lower tag) tagTable = some (.ds n k)) (hm : c ∈ value)
    (hc : symVal .standard c = none) (hp : c ≠ '=') :
    parse (renderBraced tag value) = refused .Base64Decoding := by
  simp only [refused]
  rw [parse_braced _ _ hbr]
  simp only [parseTagged, hentry, decodeStd, b64Decode_bad_char _ _ _ c hc hp value hm]

theorem parse_dss_bad_char (tag value : List Char) (n : Nat) (strict : Bool) (k : KdfTag) (c : Char) (hbr : '}' ∉ tag)
    (hentry : lookup (lower tag) tagTable = some (.dss n strict k)) (hm : c ∈ value)
    (hc : symVal .standard c = none) (hp : c ≠ '=') :
    parse (renderBraced tag value) = refused .Base64Decoding := by
  simp only [refused]
  rw [parse_braced _ _ hbr]
  simp only [parseTagged, hentry, decodeStd, b64Decode_bad_char _ _ _ c hc hp value hm]

theorem parse_ipa_bad_char (value : List Char) (c : Char) (hm : c ∈ value)
    (hc : symVal .urlSafe c = none) (hp : c ≠ '=') :
    parse (['i','p','a','N','T','H','a','s','h',':',' '] ++ value) = refused .Base64Decoding := by
  simp only [refused]
  have hpre : firstPrefix prefixTable (['i','p','a','N','T','H','a','s','h',':',' '] ++ value) = some (.parse_ipanthash, value) := by
    simp [firstPrefix, prefixTable, stripPrefix]
  simp only [parse, hpre, parseIpaNtHash, b64Decode_bad_char _ _ _ c hc hp value hm]

/-! ## `$5$` / `$6$` strings as read at verify time (`sha_crypt::sha{256,512}_check`) -/

theorem shaCryptRead_rounds (id : Char) (rounds : Nat) (salt hash : List Char)
    (hid : id = '5' ∨ id = '6') (hs : '$' ∉ salt) (hh : '$' ∉ hash) (hr : rounds < 2 ^ 64) :
    shaCryptRead id ('$' :: id :: '$' :: (['r','o','u','n','d','s','='] ++ natDigits rounds) ++ '$' :: (salt ++ '$' :: hash)) =
      if shaCryptRoundsMin ≤ rounds ∧ rounds ≤ shaCryptRoundsMax then some ⟨rounds, salt.take 16, hash⟩ else none := by
  have hidd : id ≠ '$' := by rcases hid with rfl | rfl <;> decide
  have hnd : '$' ∉ (['r','o','u','n','d','s','='] ++ natDigits rounds) := by
    intro hm
    rcases List.mem_append.mp hm with h | h
    · revert h; decide
    · exact natDigits_no_sep rounds '$' (by decide) h
  have s0 : splitChar '$' ('$' :: id :: '$' :: (['r','o','u','n','d','s','='] ++ natDigits rounds) ++ '$' :: (salt ++ '$' :: hash)) =
      [[], [id], ['r','o','u','n','d','s','='] ++ natDigits rounds, salt, hash] := by
    have h1 : splitChar '$' ([id] ++ '$' :: ((['r','o','u','n','d','s','='] ++ natDigits rounds) ++ '$' :: (salt ++ '$' :: hash))) =
        [id] :: splitChar '$' ((['r','o','u','n','d','s','='] ++ natDigits rounds) ++ '$' :: (salt ++ '$' :: hash)) :=
      splitChar_field _ _ _ (by simp; exact fun h => hidd h.symm)
    rw [splitChar_field _ _ _ hnd, splitChar_field _ _ _ hs, splitChar_last _ _ hh] at h1
    simp only [List.cons_append, List.nil_append] at h1 ⊢
    rw [splitChar, if_pos rfl, h1]
  have hsw : startsWith ['r','o','u','n','d','s','='] (['r','o','u','n','d','s','='] ++ natDigits rounds) = true := by
    unfold startsWith
    rw [stripPrefix_append]
    rfl
  have hdrop : (['r','o','u','n','d','s','='] ++ natDigits rounds).drop 7 = natDigits rounds := by simp
  unfold shaCryptRead
  rw [s0]
  simp only [hsw, hdrop, parseUnsigned_natDigits, hr, if_true, ne_eq, not_true_eq_false, if_false]

theorem shaCryptRead_default (id : Char) (salt hash : List Char)
    (hid : id = '5' ∨ id = '6') (hs : '$' ∉ salt) (hh : '$' ∉ hash)
    (hnr : startsWith ['r','o','u','n','d','s','='] salt = false) :
    shaCryptRead id ('$' :: id :: '$' :: salt ++ '$' :: hash) = some ⟨shaCryptRoundsDefault, salt.take 16, hash⟩ := by
  have hidd : id ≠ '$' := by rcases hid with rfl | rfl <;> decide
  have s0 : splitChar '$' ('$' :: id :: '$' :: salt ++ '$' :: hash) = [[], [id], salt, hash] := by
    have h1 : splitChar '$' ([id] ++ '$' :: (salt ++ '$' :: hash)) = [id] :: splitChar '$' (salt ++ '$' :: hash) :=
      splitChar_field _ _ _ (by simp; exact fun h => hidd h.symm)
    rw [splitChar_field _ _ _ hs, splitChar_last _ _ hh] at h1
    simp only [List.cons_append, List.nil_append] at h1 ⊢
    rw [splitChar, if_pos rfl, h1]
  unfold shaCryptRead
  rw [s0]
  simp [hnr, shaCryptRoundsDefault, shaCryptRoundsMin, shaCryptRoundsMax]

/-! ## the verify wrapper -/

theorem verify_dispatch_is_spec (t : KdfTag) : lookupTag t verifyTable = some (specPrim t) :=
  lookupTag_verifyTable t

theorem verify_too_long_rejected (P : Prims) (k : Kdf) (ct : Bytes) (h : pwMaxLengthCheck < ct.length) :
    verify P k ct = .ok false := by
  simp [verify, tooLong, h]

theorem verify_agrees_partial (P : Prims) (k : Kdf) (ct : Bytes) (h : ct.length ≤ pwMaxLengthCheck) :
    verify P k ct = refAccepts P k ct := by
  have : ¬ (ct.length > pwMaxLengthCheck) := by omega
  simp [verify, tooLong, this, lookupTag_verifyTable, refAccepts]

def verify_agrees_full : Prop := ∀ (P : Prims) (k : Kdf) (ct : Bytes), verify P k ct = refAccepts P k ct

def d15Prims : Prims where
  digest := fun _ _ => []
  pbkdf2 := fun _ _ _ _ _ => []
  md4 := fun _ => []
  utf16le := fun b => b
  md5Crypt := fun _ _ => []
  shaCryptCheck := fun _ _ _ => false
  argon2id := fun _ _ _ _ _ _ _ => none

theorem verify_agrees_full_false : ¬ verify_agrees_full := by
  intro h
  have hfull := h d15Prims { tag := .SHA1 } (List.replicate 513 0)
  have hv : verify d15Prims { tag := .SHA1 } (List.replicate 513 0) = .ok false :=
    verify_too_long_rejected _ _ _ (by rw [List.length_replicate]; decide)
  have hr' : ∀ ct : Bytes, refAccepts d15Prims { tag := .SHA1 } ct = .ok true := by
    intro ct
    simp [refAccepts, specPrim, runPrim, d15Prims]
  have hr := hr' (List.replicate 513 0)
  rw [hv, hr] at hfull
  cases hfull

theorem db_round_trip (t : KdfTag) : dbRoundTrip t = some t := by
  cases t <;> decide


/-! ## non-vacuity: the hypotheses are satisfiable by concrete, non-trivial records -/

example : parse (renderDjango 36000 ['x','I','E','o'] (List.replicate 32 7)) =
    stored { tag := .PBKDF2, cost := 36000, salt := utf8 ['x','I','E','o'], hash := List.replicate 32 7 } := by
  rw [parse_render_django 36000 ['x','I','E','o'] (List.replicate 32 7) (by decide) (by decide) (by decide)]
  simp [pbkdf2MinNistKeyLen]

example : parse (renderDjango 1 [] (List.replicate 31 7)) = refused .InvalidLength := by
  rw [parse_render_django 1 [] (List.replicate 31 7) (by decide) (by decide) (by decide)]
  simp [pbkdf2MinNistKeyLen]

example : parse (renderPbkdf2 ['P','b','K','D','F','2','-','s','h','a','5','1','2'] 10000 [1, 2, 255] (List.replicate 64 200)) =
    stored { tag := .PBKDF2_SHA512, cost := 10000, salt := [1, 2, 255], hash := List.replicate 64 200 } := by
  rw [parse_render_pbkdf2 ['P','b','K','D','F','2','-','s','h','a','5','1','2'] 32 .PBKDF2_SHA512 10000 [1, 2, 255]
    (List.replicate 64 200) (by decide) (by decide) (by decide) (by decide) (by decide)]
  simp

example : parse (renderPbkdf2 ['P','B','K','D','F','2'] 1 [9] (List.replicate 18 3)) = refused .InvalidKeyLength := by
  rw [parse_render_pbkdf2 ['P','B','K','D','F','2'] 19 .PBKDF2_SHA1 1 [9] (List.replicate 18 3)
    (by decide) (by decide) (by decide) (by decide) (by decide)]
  simp

example : parse (renderDs ['S','h','A'] (List.replicate 20 9) []) = stored { tag := .SHA1, hash := List.replicate 20 9 } := by
  rw [parse_render_ds ['S','h','A'] 20 .SHA1 (List.replicate 20 9) (by decide) (by decide) (by decide)]
  simp

example : parse (renderDs ['S','S','H','A','5','1','2'] (List.replicate 64 9) [1, 2, 3]) =
    stored { tag := .SSHA512, salt := [1, 2, 3], hash := List.replicate 64 9 } :=
  parse_render_dss ['S','S','H','A','5','1','2'] 64 true .SSHA512 (List.replicate 64 9) [1, 2, 3]
    (by decide) (by decide) (by decide) (by decide) (by decide) (by decide)

example : parse (renderSambaNt true [0x88, 0x46, 0xF7, 0xEA]) = stored { tag := .NT_MD4, hash := [0x88, 0x46, 0xF7, 0xEA] } :=
  parse_render_samba true _ (by decide)

example : parse (renderIpaNtHash true (List.replicate 16 251)) = stored { tag := .NT_MD4, hash := List.replicate 16 251 } :=
  parse_render_ipa true _ (by decide)

example : parse (renderCryptMd5 ['C','r','y','p','t'] ['z','a','R','I'] ['7','8','8','7']) =
    stored { tag := .CRYPT_MD5, salt := utf8 ['z','a','R','I'], hash := utf8 ['7','8','8','7'] } :=
  parse_render_crypt_md5 _ _ _ (by decide) (by decide) (by decide)

example : parse (renderBraced ['c','r','y','p','t'] ['$','6','$','r','o','u','n','d','s','=','1','$','a','$','b']) =
    stored { tag := .CRYPT_SHA512, text := ['$','6','$','r','o','u','n','d','s','=','1','$','a','$','b'] } :=
  parse_crypt_sha _ _ '6' .CRYPT_SHA512 (by decide) (by decide) (Or.inr ⟨rfl, rfl⟩)

example : parse ['p','a','s','s','w','o','r','d'] = refused .NoDecoderFound :=
  parse_no_prefix _ (by decide)

example : parse (renderBraced ['M','D','5'] ['x']) = refused .NoDecoderFound :=
  parse_unlisted_tag _ _ (by decide) (by decide)

/-- D15 in the model: a cleartext of 513 bytes whose SHA-1 reference accepts is refused. -/
example : verify d15Prims { tag := .SHA1 } (List.replicate 513 0) = .ok false ∧
    refAccepts d15Prims { tag := .SHA1 } (List.replicate 513 0) = .ok true := by
  constructor
  · exact verify_too_long_rejected _ _ _ (by rw [List.length_replicate]; decide)
  · have h : ∀ ct : Bytes, refAccepts d15Prims { tag := .SHA1 } ct = .ok true := by
      intro ct; simp [refAccepts, specPrim, runPrim, d15Prims]
    exact h _

/-- at the guard the hash is still computed -/
example : verify d15Prims { tag := .SSHA256, salt := [1] } (List.replicate 512 0) = .ok true := by
  rw [verify_agrees_partial _ _ _ (by rw [List.length_replicate]; decide)]
  have h : ∀ ct : Bytes, refAccepts d15Prims { tag := .SSHA256, salt := [1] } ct = .ok true := by
    intro ct; simp [refAccepts, specPrim, runPrim, d15Prims]
  exact h _

example : parse (renderBraced ['S','S','H','A'] ['a','b','.','d']) = refused .Base64Decoding :=
  parse_dss_bad_char _ _ 20 false .SSHA1 '.' (by decide) (by decide) (by decide) (by decide) (by decide)

example : parse (['i','p','a','N','T','H','a','s','h',':',' '] ++ ['a','b','+','d']) = refused .Base64Decoding :=
  parse_ipa_bad_char _ '+' (by decide) (by decide) (by decide)

example : shaCryptRead '6' ('$' :: '6' :: '$' :: (['r','o','u','n','d','s','='] ++ natDigits 1000) ++ '$' :: (['a','b'] ++ '$' :: ['x','y'])) =
    some ⟨1000, ['a','b'], ['x','y']⟩ := by
  rw [shaCryptRead_rounds '6' 1000 ['a','b'] ['x','y'] (Or.inr rfl) (by decide) (by decide) (by decide)]
  decide

example : shaCryptRead '5' ('$' :: '5' :: '$' :: (['r','o','u','n','d','s','='] ++ natDigits 999) ++ '$' :: (['a','b'] ++ '$' :: ['x','y'])) = none := by
  rw [shaCryptRead_rounds '5' 999 ['a','b'] ['x','y'] (Or.inl rfl) (by decide) (by decide) (by decide)]
  decide

end Kanidm.PwFormat
