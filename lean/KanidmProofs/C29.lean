import KanidmProofs.Lemmas.Totp
/-!
# C29 — TOTP accepts exactly the current and previous code

`verify`, `digest`, `algoDigest` are the transcription of `Totp::verify`, `Totp::digest`,
`TotpAlgo::digest` (`KanidmModel/Totp.lean`); every constant, operator and table in them is
read from `KanidmModel/Generated/TotpOps.lean`, regenerated from totp.rs on every run.
`Rfc.hotp` / `Rfc.totp` are RFC 4226 / RFC 6238 written from the standards.  SHA-1/256/512 and
HMAC are the executable definitions of `KanidmModel/TotpHash.lean`; the theorems need only
their output length (≥ 20 bytes, ≤ one block) — their agreement with the linked crates is
the correspondence harness's job, and with the standards the known-answer examples below.

There is no hypothesis on the length of the secret: a secret longer than the hash block is
hashed first (RFC 2104), `digest` never returns `InvalidKeyError` (D7, fixed in /repo).
-/
namespace Kanidm.Totp
open Kanidm.Gen.Totp
open Kanidm.Totp.Hash

/-- The generated tables are the standard ones: each `TotpAlgo` arm builds the HMAC of the
hash of the same name, 8 big-endian counter bytes, and `TotpDigits`' discriminant is
`10 ^ (number of digits)`.  Swapped arms, a little-endian counter or a wrong modulus fail here. -/
theorem tables_are_rfc (a : Algo) (d : Digits) (c : Nat) :
    a.hmacHash = stdHash a ∧ counterBytes c = Rfc.counter8 c ∧ d.modulus = 10 ^ d.count := by
  refine ⟨by cases a <;> rfl, rfl, by cases d <;> rfl⟩

/-- `TryFrom<u8>` and `Into<u8>` of `TotpDigits` are inverse: exactly 6 and 8 are accepted. -/
theorem digits_of_u8 (n : Nat) (d : Digits) : Digits.ofU8 n = some d ↔ d.count = n := by
  cases d <;> simp only [Digits.ofU8, Digits.count] <;>
    by_cases h6 : n = 6 <;> by_cases h8 : n = 8 <;> simp [h6, h8] <;> omega

/-- `truncation_in_bounds`: every HMAC the code computes has the hash's length, which is at
least 20, so `offset + 4 ≤ 19 + … ≤ |hmac|` — the slice never panics. -/
theorem truncation_in_bounds (a : Algo) (key : List Nat) (c : Nat) :
    ∃ hm, algoDigest a key c = .ok hm ∧ hm.length = (hashAlg a.hmacHash).outLen ∧
      ∀ v, offsetOf v + 4 ≤ hm.length := by
  refine ⟨_, rfl, hmac_length (hashAlg_wf _) _ _, fun v => ?_⟩
  rw [hmac_length (hashAlg_wf _)]
  have h1 : offsetOf v = v % 16 := Nat.and_two_pow_sub_one_eq_mod v 4
  have h2 := Nat.mod_lt v (show 0 < 16 by decide)
  have h3 := (hashAlg_wf a.hmacHash).out_ge
  omega

/-- **`Totp::digest` is HOTP.**  For every secret (of any length, including longer than the
hash block), algorithm, digit count and counter, the code neither panics nor errs and returns
the RFC 4226 value. -/
theorem digest_eq_rfc (t : Totp) (c : Nat) :
    digest t c = some (.ok (Rfc.hotp t.algo t.secret c t.digits.count)) := by
  obtain ⟨h1, h2, h3⟩ := tables_are_rfc t.algo t.digits c
  unfold digest algoDigest
  simp only []
  rw [truncate_eq_dynTrunc _ (by rw [hmac_length (hashAlg_wf _)]; exact (hashAlg_wf _).out_ge)]
  simp only [Rfc.hotp, h1, h2, h3]

/-- The specification's truncation (§5.3, arithmetic) is RFC 4226 §5.4's reference expression
`(hs[o] & 0x7f) << 24 | (hs[o+1] & 0xff) << 16 | (hs[o+2] & 0xff) << 8 | (hs[o+3] & 0xff)`. -/
theorem hotp_eq_reference (a : Algo) (key : List Nat) (c digits : Nat) :
    Rfc.hotp a key c digits =
      Rfc.refTrunc (hmac (hashAlg (stdHash a)) key (Rfc.counter8 c)) % 10 ^ digits := by
  unfold Rfc.hotp
  rw [dynTrunc_eq_refTrunc _ (fun b hb => hmac_lt (hashAlg_wf _) _ _ b hb)]

/-- The previous time step: `⌊(t − X) / X⌋ = ⌊t / X⌋ − 1`. -/
theorem prev_step_counter (secs step : Nat) :
    (secs - step) / step = secs / step - 1 := by
  by_cases hle : step ≤ secs
  · have h2 := Nat.sub_mul_div_of_le (x := secs) (n := step) (p := 1) (by simpa using hle)
    simpa using h2
  · have h1 : secs - step = 0 := by omega
    have h2 : secs / step = 0 := Nat.div_eq_of_lt (by omega)
    simp [h1, h2]

/-- **The property.**  For every token (any secret, algorithm, digit count), every positive
step and every time at least one step after the epoch (`secs` a `u64`, as `Duration::as_secs`
is), `verify` does not panic and accepts `chal` exactly when it is the RFC 6238 code of the
time step containing `secs` or of the step immediately before it. -/
theorem verify_iff (t : Totp) (chal secs : Nat) (hstep : 0 < t.step) (hsecs : t.step ≤ secs)
    (hu64 : secs < 2 ^ 64) :
    verify t chal secs = some
      (chal == Rfc.totp t.algo t.secret t.step t.digits.count secs ||
       chal == Rfc.totp t.algo t.secret t.step t.digits.count (secs - t.step)) := by
  have hc1 : 1 ≤ secs / t.step := (Nat.one_le_div_iff hstep).mpr hsecs
  have hc2 : secs / t.step < 18446744073709551616 :=
    Nat.lt_of_le_of_lt (Nat.div_le_self _ _) hu64
  have e1 : digestAt t (firstCounter (counterOf secs t.step)) = digest t (secs / t.step) :=
    digestAt_of_nat t _ hc2
  have e2 : digestAt t (secondCounter (counterOf secs t.step)) = digest t (secs / t.step - 1) := by
    have hcast : ((secs / t.step : Nat) : Int) - 1 = ((secs / t.step - 1 : Nat) : Int) := by omega
    show digestAt t (((secs / t.step : Nat) : Int) - 1) = _
    rw [hcast]
    exact digestAt_of_nat t _ (by omega)
  have h1 : digestAt t (firstCounter (counterOf secs t.step)) =
      some (.ok (Rfc.totp t.algo t.secret t.step t.digits.count secs)) := by
    rw [e1, digest_eq_rfc]; rfl
  have h2 : digestAt t (secondCounter (counterOf secs t.step)) =
      some (.ok (Rfc.totp t.algo t.secret t.step t.digits.count (secs - t.step))) := by
    rw [e2, digest_eq_rfc]; unfold Rfc.totp; rw [prev_step_counter _ _]
  exact verify_of_digests t chal secs _ _ (by omega) h1 h2

/-- Propositional form of `verify_iff`. -/
theorem verify_accepts_iff (t : Totp) (chal secs : Nat) (hstep : 0 < t.step)
    (hsecs : t.step ≤ secs) (hu64 : secs < 2 ^ 64) :
    verify t chal secs = some true ↔
      (chal = Rfc.totp t.algo t.secret t.step t.digits.count secs ∨
       chal = Rfc.totp t.algo t.secret t.step t.digits.count (secs - t.step)) := by
  rw [verify_iff t chal secs hstep hsecs hu64]
  generalize Rfc.totp t.algo t.secret t.step t.digits.count secs = c1
  generalize Rfc.totp t.algo t.secret t.step t.digits.count (secs - t.step) = c2
  simp

/-- A code is below `10 ^ digits`; anything else is rejected. -/
theorem verify_rejects_out_of_range (t : Totp) (chal secs : Nat) (hstep : 0 < t.step)
    (hsecs : t.step ≤ secs) (hu64 : secs < 2 ^ 64) (hbig : 10 ^ t.digits.count ≤ chal) :
    verify t chal secs = some false := by
  rw [verify_iff t chal secs hstep hsecs hu64]
  have hlt : ∀ c, Rfc.hotp t.algo t.secret c t.digits.count < 10 ^ t.digits.count :=
    fun c => Nat.mod_lt _ (Nat.pow_pos (by decide))
  have h1 := hlt (secs / t.step)
  have h2 := hlt ((secs - t.step) / t.step)
  simp only [Rfc.totp]
  generalize Rfc.hotp t.algo t.secret (secs / t.step) t.digits.count = c1 at h1 ⊢
  generalize Rfc.hotp t.algo t.secret ((secs - t.step) / t.step) t.digits.count = c2 at h2 ⊢
  have n1 : (chal == c1) = false := beq_eq_false_iff_ne.mpr (by omega)
  have n2 : (chal == c2) = false := beq_eq_false_iff_ne.mpr (by omega)
  rw [n1, n2]; rfl

/-- The hypotheses of `verify_iff` are needed — what the code does outside them.
`step = 0`: `secs / self.step` panics.  `secs < step` (time before the first full step): the
current code is still accepted, anything else reaches `0u64 - 1` (overflow panic in the checked
profile; in an unchecked build the counter wraps to `2^64-1`). -/
theorem verify_outside_domain (t : Totp) (chal secs : Nat) :
    (t.step = 0 → verify t chal secs = none) ∧
    (0 < t.step → secs < t.step →
      verify t chal secs =
        if chal == Rfc.hotp t.algo t.secret 0 t.digits.count then some true else none) := by
  refine ⟨fun h => by simp [verify, h], fun hpos hlt => ?_⟩
  have h0 : secs / t.step = 0 := Nat.div_eq_of_lt hlt
  have e1 : digestAt t (firstCounter (counterOf secs t.step)) = digest t 0 := by
    show digestAt t ((secs / t.step : Nat) : Int) = _
    rw [h0]; exact digestAt_of_nat t 0 (by decide)
  have e2 : digestAt t (secondCounter (counterOf secs t.step)) = none := by
    apply digestAt_neg
    show ((secs / t.step : Nat) : Int) - 1 < 0
    rw [h0]; decide
  exact verify_of_first_only t chal secs _ (by omega) (by rw [e1, digest_eq_rfc]) e2

/-- RFC 2104 key pre-hash (the D7 branch): with a secret longer than the hash block the code
is the code of the hashed secret; with a shorter one the secret is zero-filled. -/
theorem long_secret_is_hashed (a : Algo) (key : List Nat) (c digits : Nat)
    (hlong : (hashAlg (stdHash a)).blockLen < key.length) :
    Rfc.hotp a key c digits = Rfc.hotp a ((hashAlg (stdHash a)).hash key) c digits := by
  simp only [Rfc.hotp, hmac, hmacKey_long (hashAlg_wf _) key hlong]

/-- The driver's batched entry point is `verify` applied to each candidate. -/
theorem verifyMany_eq_map (t : Totp) (chals : List Nat) (secs : Nat) :
    verifyMany t chals secs = chals.map fun chal => verify t chal secs := by
  unfold verifyMany verify
  by_cases h : t.step = 0
  · simp [h]
  · simp only [h, if_false, checkAt]

/-- A token built from the wire form keeps secret, step and algorithm and gets the digit
count it names; only 6 and 8 digits exist. -/
theorem ofProto_spec (secret : List Nat) (a : Algo) (step n : Nat) (t : Totp) :
    ofProto secret a step n = some t ↔
      (t.secret = secret ∧ t.step = step ∧ t.algo = a ∧ t.digits.count = n) := by
  have ha : Algo.ofProto a = a := by cases a <;> rfl
  unfold ofProto
  constructor
  · intro h
    cases hd : Digits.ofU8 n with
    | none => rw [hd] at h; cases h
    | some d' =>
      rw [hd] at h
      have ht := Option.some.inj h
      subst ht
      exact ⟨rfl, rfl, ha, (digits_of_u8 n d').mp hd⟩
  · rintro ⟨h1, h2, h3, h4⟩
    rw [(digits_of_u8 n t.digits).mpr h4, ha]
    obtain ⟨s, st, al, d⟩ := t
    simp only at h1 h2 h3
    rw [h1, h2, h3]

/-- A token read from the stored form keeps key, step and algorithm (the one `to_dbtotpv1`
wrote) and gets the stored digit count, six when the field is absent. -/
theorem ofDb_spec (key : List Nat) (a : Algo) (step : Nat) (n : Option Nat) (t : Totp) :
    ofDb key (Algo.toDb a) step n = some t ↔
      (t.secret = key ∧ t.step = step ∧ t.algo = a ∧ t.digits.count = n.getD 6) := by
  have ha : Algo.ofDb (Algo.toDb a) = a := by cases a <;> rfl
  have hd : dbDefaultDigits = 6 := rfl
  unfold ofDb
  rw [hd]
  constructor
  · intro h
    cases hd : Digits.ofU8 (n.getD 6) with
    | none => rw [hd] at h; cases h
    | some d' =>
      rw [hd] at h
      have ht := Option.some.inj h
      subst ht
      exact ⟨rfl, rfl, ha, (digits_of_u8 _ d').mp hd⟩
  · rintro ⟨h1, h2, h3, h4⟩
    rw [(digits_of_u8 _ t.digits).mpr h4, ha]
    obtain ⟨s, st, al, d⟩ := t
    simp only at h1 h2 h3
    rw [h1, h2, h3]

/-- The stored (`DbTotpV1`) and wire (`ProtoTotp`) forms name the same algorithm in both
directions, and a stored token without a digit count has six digits. -/
theorem conversions_keep_algo (a : Algo) :
    Algo.ofProto a = a ∧ Algo.toProto a = a ∧ Algo.ofDb (Algo.toDb a) = a ∧
    Algo.ofDb .S1 = .Sha1 ∧ Algo.ofDb .S256 = .Sha256 ∧ Algo.ofDb .S512 = .Sha512 ∧
    Digits.ofU8 dbDefaultDigits = some .Six := by
  cases a <;> decide

/-! ## Non-vacuity and known answers (kernel evaluation of the very definitions above) -/

/-- RFC 6238 Appendix B seeds. -/
def seed20 : List Nat := (List.range 20).map fun i => 0x30 + (i + 1) % 10
def seed32 : List Nat := (List.range 32).map fun i => 0x30 + (i + 1) % 10
def seed64 : List Nat := (List.range 64).map fun i => 0x30 + (i + 1) % 10

-- RFC 6238 Appendix B, T = 59 and T = 1111111109, all three modes.
example : Rfc.totp .Sha1 seed20 30 8 59 = 94287082 := by decide +kernel
example : Rfc.totp .Sha256 seed32 30 8 59 = 46119246 := by decide +kernel
example : Rfc.totp .Sha512 seed64 30 8 59 = 90693936 := by decide +kernel
example : Rfc.totp .Sha1 seed20 30 8 1111111109 = 7081804 := by decide +kernel
example : Rfc.totp .Sha256 seed32 30 8 1111111109 = 68084774 := by decide +kernel
example : Rfc.totp .Sha512 seed64 30 8 1111111109 = 25091201 := by decide +kernel
-- RFC 4226 Appendix D, counts 0 and 1.
example : Rfc.hotp .Sha1 seed20 0 6 = 755224 ∧ Rfc.hotp .Sha1 seed20 1 6 = 287082 := by
  decide +kernel

/-- RFC 4226 Appendix D token. -/
def tokRfc : Totp := ⟨seed20, 30, .Sha1, .Six⟩
/-- D7 witnesses: secrets one byte longer than the hash block. -/
def tokLong1 : Totp := ⟨List.replicate 65 0x41, 30, .Sha1, .Six⟩
def tokLong256 : Totp := ⟨List.replicate 65 0x41, 30, .Sha256, .Eight⟩
def tokLong512 : Totp := ⟨List.replicate 129 0x41, 30, .Sha512, .Six⟩

-- the hypotheses of `verify_iff` hold for a concrete token, and both disjuncts occur:
-- at t = 59 s, step 30: the current code (counter 1) and the previous one (counter 0) are
-- accepted, the next one (counter 2, RFC 4226: 359152) and a near miss are not.
example : 0 < tokRfc.step ∧ tokRfc.step ≤ 59 ∧ (59 : Nat) < 2 ^ 64 := by decide
example : verify tokRfc 287082 59 = some true := by decide +kernel
example : verify tokRfc 755224 59 = some true := by decide +kernel
example : verify tokRfc 359152 59 = some false := by decide +kernel
example : verify tokRfc 287083 59 = some false := by decide +kernel

/-- The code of a digest result that neither panicked nor failed. -/
def okCode (r : Option (Except TotpError Nat)) : Option Nat := r.bind Except.toOption

-- D7 regression: 65 / 65 / 129-byte secrets are valid keys; the code is accepted, and it is
-- the code under the pre-hashed key (RFC 2104).
example : okCode (digest tokLong1 1) = some 549712 := by decide +kernel
example : verify tokLong1 549712 59 = some true := by decide +kernel
example : okCode (digest { tokLong1 with secret := sha1 tokLong1.secret } 1) = some 549712 := by
  decide +kernel
example : okCode (digest tokLong256 1) = some 47673152 := by decide +kernel
example : verify tokLong256 47673152 59 = some true := by decide +kernel
example : okCode (digest { tokLong256 with secret := sha256 tokLong256.secret } 1) = some 47673152 := by
  decide +kernel
example : okCode (digest tokLong512 1) = some 799118 := by decide +kernel
example : verify tokLong512 799118 59 = some true := by decide +kernel
example : okCode (digest { tokLong512 with secret := sha512 tokLong512.secret } 1) = some 799118 := by
  decide +kernel

-- outside the domain: step 0 panics; before the first step only the current code returns.
example : verify { tokRfc with step := 0 } 755224 59 = none := by decide +kernel
example : verify tokRfc 755224 29 = some true := by decide +kernel
example : verify tokRfc 1 29 = none := by decide +kernel

end Kanidm.Totp
