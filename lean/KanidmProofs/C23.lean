import KanidmProofs.Lemmas.AccessSearch
/-
C23 — Searches never disclose what the caller may not read.

Over the transcription in `KanidmModel/Access/{Types,Search}.lean` (tables regenerated from the
source in `KanidmModel/Generated/AccessSearchTables.lean`). `MayRead acps id e a` (Lemmas) is the
reference reading of the property's "covered by a read grant whose receiver and target both match":
an ACP of the set with `ReceiverMatches ∧ TargetMatches ∧ a ∈ attrs`, or one of the three built-in
visibility rules, for a user identity whose scope is not `Synchronise`.

All statements are for every database, every ACP set, every identity, every filter and every
requested-attribute list.
-/
namespace Kanidm.Access
open Kanidm.Filter
open Kanidm.Gen

/-! ## 1. The code's per-entry decision *is* the reference model -/

/-- For a user identity (scope ≠ Synchronise) `apply_search_access` always answers `Allow`, and with
the unrestricted related set the allowed attributes are exactly those `MayRead` describes. -/
theorem allowed_iff_mayRead (id : Identity) (ue : DbEntry) (acps : List SearchAcp) (e : DbEntry)
    (ho : id.origin = .user ue) (hs : id.scope ≠ .synchronise) :
    ∃ al, applySearchAccess id (searchRelatedAcp id acps none) e = .allow al ∧
      ∀ a, a ∈ al ↔ MayRead acps id e a := by
  refine ⟨_, apply_user id ue acps none e ho hs, ?_⟩
  intro a
  simp only [List.mem_append, mem_acpAllowed, mem_oauth2_released id ue e a ho,
    mem_applications_released id ue e a ho, mem_syncAccount_released id ue e a ho]
  unfold MayRead AcpGrants
  constructor
  · intro h
    refine ⟨ue, ho, hs, ?_⟩
    rcases h with ((⟨acs, h1, _, h2⟩ | h) | h) | h
    · exact Or.inl ⟨acs, h1, h2⟩
    · exact Or.inr (Or.inl h)
    · exact Or.inr (Or.inr (Or.inl h))
    · exact Or.inr (Or.inr (Or.inr h))
  · rintro ⟨ue', ho', _, h⟩
    have : ue' = ue := by rw [ho] at ho'; cases ho'; rfl
    subst this
    rcases h with ⟨acs, h1, h2⟩ | h | h | h
    · exact Or.inl (Or.inl (Or.inl ⟨acs, h1, by simp, h2⟩))
    · exact Or.inl (Or.inl (Or.inr h))
    · exact Or.inl (Or.inr h)
    · exact Or.inr h

/-- With a requested-attribute list the related set is trimmed; what is then allowed is still
covered by a grant (soundness direction). -/
theorem allowed_requested_sound (id : Identity) (ue : DbEntry) (acps : List SearchAcp)
    (req : Option (List Nat)) (e : DbEntry) (ho : id.origin = .user ue)
    (hs : id.scope ≠ .synchronise) :
    ∃ al, applySearchAccess id (searchRelatedAcp id acps req) e = .allow al ∧
      ∀ a, a ∈ al → MayRead acps id e a := by
  refine ⟨_, apply_user id ue acps req e ho hs, ?_⟩
  intro a
  simp only [List.mem_append, mem_acpAllowed, mem_oauth2_released id ue e a ho,
    mem_applications_released id ue e a ho, mem_syncAccount_released id ue e a ho]
  intro h
  refine ⟨ue, ho, hs, ?_⟩
  rcases h with ((⟨acs, h1, _, h2⟩ | h) | h) | h
  · exact Or.inl ⟨acs, h1, h2⟩
  · exact Or.inr (Or.inl h)
  · exact Or.inr (Or.inr (Or.inl h))
  · exact Or.inr (Or.inr (Or.inr h))

/-! ## 2. Who gets past `filter_entries` -/

/-- Identities that are neither users nor internal roles, and every identity with `Synchronise`
scope that is not internal, are denied on every entry. -/
theorem deny_of_sync (id : Identity) (related : List SearchResolved) (e : DbEntry)
    (h : (∃ u, id.origin = .synch u) ∨ (∃ ue, id.origin = .user ue ∧ id.scope = .synchronise)) :
    applySearchAccess id related e = .deny := by
  have hd : (searchFilterEntry id related e).isDeny = true := by
    unfold searchFilterEntry
    rcases h with ⟨u, hu⟩ | ⟨ue, hu, hs⟩
    · rw [hu]; rfl
    · rw [hu]; simp [hs, SrchResult.isDeny]
  unfold applySearchAccess Acc.finish
  rw [foldl_step_denied]
  simp [moduleResults, hd]

/-- `deny_dominates`: if any of the four modules answers `Deny`, the entry is denied — whatever the
other modules grant or allow. -/
theorem deny_dominates (id : Identity) (related : List SearchResolved) (e : DbEntry)
    (h : ∃ r, r ∈ moduleResults id related e ∧ r = .deny) :
    applySearchAccess id related e = .deny := by
  obtain ⟨r, hr, rfl⟩ := h
  unfold applySearchAccess Acc.finish
  rw [foldl_step_denied]
  have : (moduleResults id related e).any SrchResult.isDeny = true :=
    List.any_eq_true.mpr ⟨_, hr, rfl⟩
  simp [this]

theorem filterEntries_eq (id : Identity) (acps : List SearchAcp) (fo : FC) (entries : List DbEntry) :
    filterEntries id acps fo entries =
      if (FC.attrSet fo).isEmpty then []
      else entries.filter (fun e =>
        match applySearchAccess id (searchRelatedAcp id acps none) e with
        | .deny => AccessSearch.filterEntriesDeny
        | .grant => AccessSearch.filterEntriesGrant
        | .allow allowed => AccessSearch.filterEntriesAllow (FC.attrSet fo) allowed) := rfl

theorem filterEntries_subset (id : Identity) (acps : List SearchAcp) (fo : FC)
    (entries : List DbEntry) (e : DbEntry) (he : e ∈ filterEntries id acps fo entries) :
    e ∈ entries := by
  rw [filterEntries_eq] at he
  split at he
  · simp at he
  · exact (List.mem_filter.mp he).1

/-- What `filter_entries` lets through for a non-internal identity: entries on which every
attribute named by the original filter is readable (and the filter names at least one). -/
theorem filterEntries_sound (id : Identity) (acps : List SearchAcp) (fo : FC)
    (entries : List DbEntry) (e : DbEntry) (hni : id.isInternal = false)
    (he : e ∈ filterEntries id acps fo entries) :
    e ∈ entries ∧ FC.attrSet fo ≠ [] ∧ ∀ a ∈ FC.attrSet fo, MayRead acps id e a := by
  unfold filterEntries at he
  by_cases hemp : (FC.attrSet fo).isEmpty = true
  · simp [hemp] at he
  · simp only [hemp, Bool.false_eq_true, if_false, List.mem_filter] at he
    obtain ⟨hin, hdec⟩ := he
    refine ⟨hin, by simpa [List.isEmpty_iff] using hemp, ?_⟩
    cases ho : id.origin with
    | internal r => simp [Identity.isInternal, ho] at hni
    | synch u =>
      rw [deny_of_sync id _ e (Or.inl ⟨u, ho⟩)] at hdec
      simp [AccessSearch.filterEntriesDeny] at hdec
    | user ue =>
      by_cases hs : id.scope = .synchronise
      · rw [deny_of_sync id _ e (Or.inr ⟨ue, ho, hs⟩)] at hdec
        simp [AccessSearch.filterEntriesDeny] at hdec
      · obtain ⟨al, hal, hiff⟩ := allowed_iff_mayRead id ue acps e ho hs
        rw [hal] at hdec
        simp only [AccessSearch.filterEntriesAllow] at hdec
        intro a ha
        exact (hiff a).mp ((subset_iff _ _).mp hdec a ha)

/-- … and exactly those (completeness: the access filter never hides an entry the caller may read
through its filter). -/
theorem filterEntries_complete (id : Identity) (ue : DbEntry) (acps : List SearchAcp) (fo : FC)
    (entries : List DbEntry) (e : DbEntry) (ho : id.origin = .user ue)
    (hs : id.scope ≠ .synchronise) (hin : e ∈ entries) (hne : FC.attrSet fo ≠ [])
    (hall : ∀ a ∈ FC.attrSet fo, MayRead acps id e a) :
    e ∈ filterEntries id acps fo entries := by
  unfold filterEntries
  have hemp : (FC.attrSet fo).isEmpty = false := by simpa [List.isEmpty_iff] using hne
  simp only [hemp, Bool.false_eq_true, if_false, List.mem_filter]
  refine ⟨hin, ?_⟩
  obtain ⟨al, hal, hiff⟩ := allowed_iff_mayRead id ue acps e ho hs
  rw [hal]
  simp only [AccessSearch.filterEntriesAllow]
  exact (subset_iff _ _).mpr (fun a ha => (hiff a).mpr (hall a ha))

/-- Entries the backend hands to the access filter match the event's filter. -/
theorem backendSearch_matches (db : List DbEntry) (id : Identity) (f : FC) (vfr : F) (e : DbEntry)
    (hr : resolveFilter id f = some vfr) (he : e ∈ backendSearch db vfr) :
    e ∈ db ∧ f.matches ValSem.std id.uuid Attr.Uuid e.attrs = true := by
  unfold backendSearch at he
  simp only [List.mem_filter] at he
  exact ⟨he.1, by rw [← resolveFilter_matches id f vfr e.attrs hr]; exact he.2⟩

/-! ## 3. The property, operation by operation -/

/-- `entry_returned_needs_filter_attrs` (plain `search`, any non-internal identity): an entry is
only returned if it is stored, matches the filter that was run, and the caller may read **every**
attribute the original filter names on that entry. -/
theorem search_reveals_only_readable (db : List DbEntry) (acps : List SearchAcp) (id : Identity)
    (f fo : FC) (res : List DbEntry) (e : DbEntry) (hni : id.isInternal = false)
    (h : search db acps id f fo = some res) (he : e ∈ res) :
    e ∈ db ∧ f.matches ValSem.std id.uuid Attr.Uuid e.attrs = true ∧ FC.attrSet fo ≠ [] ∧
      ∀ a ∈ FC.attrSet fo, MayRead acps id e a := by
  unfold search at h
  cases hr : resolveFilter id f with
  | none => simp [hr] at h
  | some vfr =>
    simp only [hr, Option.some.injEq] at h
    subst h
    obtain ⟨h1, h2, h3⟩ := filterEntries_sound id acps fo _ e hni he
    obtain ⟨h4, h5⟩ := backendSearch_matches db id f vfr e hr h1
    exact ⟨h4, h5, h2, h3⟩

/-- No over-blocking: a stored entry that matches and whose filter attributes are all readable is
returned (so the statements above are not satisfied by an empty result). -/
theorem search_returns_readable (db : List DbEntry) (acps : List SearchAcp) (id : Identity)
    (ue : DbEntry) (f fo : FC) (e : DbEntry) (ho : id.origin = .user ue)
    (hs : id.scope ≠ .synchronise) (hin : e ∈ db)
    (hm : f.matches ValSem.std id.uuid Attr.Uuid e.attrs = true) (hne : FC.attrSet fo ≠ [])
    (hall : ∀ a ∈ FC.attrSet fo, MayRead acps id e a) :
    ∃ res, search db acps id f fo = some res ∧ e ∈ res := by
  obtain ⟨vfr, hr⟩ := resolveFilter_total id f
  have hr' : resolveFilter id f = some vfr := hr
  refine ⟨_, by unfold search; rw [hr'], ?_⟩
  apply filterEntries_complete id ue acps fo _ e ho hs _ hne hall
  unfold backendSearch
  simp only [List.mem_filter]
  exact ⟨hin, by rw [resolveFilter_matches id f vfr e.attrs hr]; exact hm⟩

/-- `released_attr_has_grant` + `entry_returned_needs_filter_attrs` for `search_ext`: every returned
(reduced) entry is the reduction of a stored entry that matches the filter and on which every
filter attribute is readable; every attribute it still carries has its stored values, is covered
by a read grant for this identity and this entry, and was requested (when a list was given). -/
theorem searchExt_reveals_only_granted (db : List DbEntry) (acps : List SearchAcp) (id : Identity)
    (f fo : FC) (req : Option (List Nat)) (res : List DbEntry) (r : DbEntry)
    (h : searchExt db acps id f fo req = some res) (hr : r ∈ res) :
    ∃ e, e ∈ db ∧ e.uuid = r.uuid ∧
      f.matches ValSem.std id.uuid Attr.Uuid e.attrs = true ∧
      FC.attrSet fo ≠ [] ∧ (∀ a ∈ FC.attrSet fo, MayRead acps id e a) ∧
      ∀ a, r.attrs a ≠ [] →
        r.attrs a = e.attrs a ∧ MayRead acps id e a ∧ (∀ rq, req = some rq → a ∈ rq) := by
  unfold searchExt at h
  cases hsr : search db acps id f fo with
  | none => simp [hsr] at h
  | some ents =>
    simp only [hsr] at h
    unfold searchFilterEntryAttributes at h
    cases ho : id.origin with
    | internal role => simp [ho] at h
    | synch u => simp [ho] at h
    | user ue =>
      simp only [ho, Option.some.injEq] at h
      subst h
      simp only [List.mem_filterMap] at hr
      obtain ⟨e, he, hred⟩ := hr
      have hni : id.isInternal = false := by simp [Identity.isInternal, ho]
      obtain ⟨h1, h2, h3, h4⟩ := search_reveals_only_readable db acps id f fo ents e hni hsr he
      by_cases hs : id.scope = .synchronise
      · rw [deny_of_sync id _ e (Or.inr ⟨ue, ho, hs⟩)] at hred
        simp at hred
      · obtain ⟨al, hal, hsound⟩ := allowed_requested_sound id ue acps req e ho hs
        rw [hal] at hred
        simp only [Option.some.injEq] at hred
        subst hred
        refine ⟨e, h1, rfl, h2, h3, h4, ?_⟩
        intro a ha
        have hmem : a ∈ AccessSearch.reduceAttrs req al := by
          apply Classical.byContradiction
          intro hn
          apply ha
          simp [reduceAttributes, hn]
        have hval : (reduceAttributes e (AccessSearch.reduceAttrs req al)).attrs a = e.attrs a := by
          simp [reduceAttributes, hmem]
        refine ⟨hval, ?_, ?_⟩
        · cases req with
          | none => exact hsound a (by simpa [AccessSearch.reduceAttrs] using hmem)
          | some rq =>
            simp only [AccessSearch.reduceAttrs, mem_inter] at hmem
            exact hsound a hmem.2
        · intro rq hrq
          subst hrq
          simp only [AccessSearch.reduceAttrs, mem_inter] at hmem
          exact hmem.1

/-- `search_ext` refuses internal and Synch identities outright (`Err(InvalidState)`). -/
theorem searchExt_refuses_internal_and_synch (db : List DbEntry) (acps : List SearchAcp)
    (id : Identity) (f fo : FC) (req : Option (List Nat))
    (h : id.isInternal = true ∨ ∃ u, id.origin = .synch u) :
    searchExt db acps id f fo req = none := by
  unfold searchExt
  cases hsr : search db acps id f fo with
  | none => rfl
  | some ents =>
    unfold searchFilterEntryAttributes
    rcases h with h | ⟨u, hu⟩
    · cases ho : id.origin <;> simp_all [Identity.isInternal]
    · simp [hu]

/-- `exists_iff_search_nonempty`: for every non-internal identity `exists` is exactly "`search`
returns something" — it can confirm nothing a search would not reveal. -/
theorem exists_iff_search_nonempty (db : List DbEntry) (acps : List SearchAcp) (id : Identity)
    (f fo : FC) (hni : id.isInternal = false) :
    exists_ db acps id f fo = (search db acps id f fo).map (fun res => !res.isEmpty) := by
  unfold exists_ search
  cases resolveFilter id f <;> simp [hni]

/-- Hence a `true` from `exists` is witnessed by a stored, matching entry whose filter attributes
are all readable. -/
theorem exists_true_has_readable_witness (db : List DbEntry) (acps : List SearchAcp) (id : Identity)
    (f fo : FC) (hni : id.isInternal = false) (h : exists_ db acps id f fo = some true) :
    ∃ e, e ∈ db ∧ f.matches ValSem.std id.uuid Attr.Uuid e.attrs = true ∧ FC.attrSet fo ≠ [] ∧
      ∀ a ∈ FC.attrSet fo, MayRead acps id e a := by
  rw [exists_iff_search_nonempty db acps id f fo hni] at h
  cases hsr : search db acps id f fo with
  | none => simp [hsr] at h
  | some res =>
    simp only [hsr, Option.map_some, Option.some.injEq, Bool.not_eq_true', List.isEmpty_eq_false_iff] at h
    obtain ⟨e, he⟩ := List.exists_mem_of_ne_nil res h
    exact ⟨e, search_reveals_only_readable db acps id f fo res e hni hsr he⟩

/-- Internal identities take the backend's answer for `exists` (no access filter): recorded as the
code has it — internal roles are trusted callers, not subjects of this property. -/
theorem exists_internal_is_backend (db : List DbEntry) (acps : List SearchAcp) (id : Identity)
    (f fo : FC) (vfr : F) (hi : id.isInternal = true) (hr : resolveFilter id f = some vfr) :
    exists_ db acps id f fo = some (!(backendSearch db vfr).isEmpty) := by
  unfold exists_
  simp [hr, hi]

/-- `sync_scope_reads_nothing`: a Synch identity, and a user identity carrying `Synchronise`
scope, get nothing from `search`, `false` from `exists`, nothing from `search_ext`. -/
theorem sync_scope_reads_nothing (db : List DbEntry) (acps : List SearchAcp) (id : Identity)
    (f fo : FC) (req : Option (List Nat))
    (h : (∃ u, id.origin = .synch u) ∨ (∃ ue, id.origin = .user ue ∧ id.scope = .synchronise)) :
    (∀ res, search db acps id f fo = some res → res = []) ∧
    (∀ b, exists_ db acps id f fo = some b → b = false) ∧
    (∀ res, searchExt db acps id f fo req = some res → res = []) := by
  have hni : id.isInternal = false := by
    rcases h with ⟨u, hu⟩ | ⟨ue, hu, _⟩ <;> simp [Identity.isInternal, hu]
  have hfe : ∀ entries, filterEntries id acps fo entries = [] := by
    intro entries
    rw [filterEntries_eq]
    split
    · rfl
    · apply List.filter_eq_nil_iff.mpr
      intro e _
      rw [deny_of_sync id _ e h]
      simp [AccessSearch.filterEntriesDeny]
  have hs : ∀ res, search db acps id f fo = some res → res = [] := by
    intro res hres
    unfold search at hres
    cases hr : resolveFilter id f with
    | none => simp [hr] at hres
    | some vfr => simp [hr, hfe] at hres; exact hres
  refine ⟨hs, ?_, ?_⟩
  · intro b hb
    rw [exists_iff_search_nonempty db acps id f fo hni] at hb
    cases hsr : search db acps id f fo with
    | none => simp [hsr] at hb
    | some res => simp [hsr, hs res hsr] at hb; exact hb
  · intro res hres
    unfold searchExt at hres
    cases hsr : search db acps id f fo with
    | none => simp [hsr] at hres
    | some ents =>
      have := hs ents hsr
      subst this
      simp only [hsr] at hres
      unfold searchFilterEntryAttributes at hres
      cases ho : id.origin <;> simp [ho] at hres
      exact hres

/-- `internal_roles_table`: System is granted every entry, MessageQueue none, AccountRequest exactly
the entries of class `account`, Migration exactly the entries whose classes (key-object classes
aside) are all migration classes — whatever the ACP set. -/
theorem internal_roles_table (scope : Scope) (related : List SearchResolved) (e : DbEntry) :
    applySearchAccess ⟨.internal .system, scope⟩ related e = .grant ∧
    applySearchAccess ⟨.internal .messageQueue, scope⟩ related e = .deny ∧
    applySearchAccess ⟨.internal .accountRequest, scope⟩ related e =
      (if e.classes.contains AccessSearch.accountRequestClass then .grant else .deny) ∧
    applySearchAccess ⟨.internal .migration, scope⟩ related e =
      (if validMigrationClass e then .grant else .deny) := by
  refine ⟨?_, ?_, ?_, ?_⟩
  · simp [applySearchAccess, moduleResults, searchFilterEntry, searchOauth2FilterEntry,
      searchApplicationsFilterEntry, searchSyncAccountFilterEntry, Acc.step, Acc.finish]
  · simp [applySearchAccess, moduleResults, searchFilterEntry, searchOauth2FilterEntry,
      searchApplicationsFilterEntry, searchSyncAccountFilterEntry, Acc.step, Acc.finish]
  · by_cases hc : AccessSearch.accountRequestClass ∈ e.classes <;>
      simp [applySearchAccess, moduleResults, searchFilterEntry, searchOauth2FilterEntry,
        searchApplicationsFilterEntry, searchSyncAccountFilterEntry, Acc.step, Acc.finish, hc]
  · by_cases hc : validMigrationClass e = true <;>
      simp [applySearchAccess, moduleResults, searchFilterEntry, searchOauth2FilterEntry,
        searchApplicationsFilterEntry, searchSyncAccountFilterEntry, Acc.step, Acc.finish, hc]

/-! ## 4. Hidden entries -/

/-- `hidden_never_returned`: with the ignore-hidden wrapper every external event constructor puts
around the filter (`into_ignore_hidden`), no recycled or tombstoned entry is ever returned — by
`search`, hence by `search_ext` and `exists` — to anyone, internal identities included. -/
theorem hidden_never_returned (db : List DbEntry) (acps : List SearchAcp) (id : Identity)
    (f fo : FC) (res : List DbEntry) (e : DbEntry)
    (h : search db acps id (AccessSearch.ignoreHidden f) fo = some res) (he : e ∈ res) :
    AccessSearch.clsRecycled ∉ e.classes ∧ AccessSearch.clsTombstone ∉ e.classes := by
  unfold search at h
  cases hr : resolveFilter id (AccessSearch.ignoreHidden f) with
  | none => simp [hr] at h
  | some vfr =>
    simp only [hr, Option.some.injEq] at h
    subst h
    have hin : e ∈ backendSearch db vfr := filterEntries_subset id acps fo _ e he
    have hm := (backendSearch_matches db id _ vfr e hr hin).2
    simp only [AccessSearch.ignoreHidden, FC.matches, FC.matchesAll, FC.matchesAny, Bool.and_true,
      Bool.or_false, Bool.and_eq_true, Bool.not_eq_true', Bool.or_eq_false_iff] at hm
    obtain ⟨⟨ht, hrc⟩, _⟩ := hm
    unfold DbEntry.classes
    constructor
    · intro hmem; simp [hmem] at hrc
    · intro hmem; simp [hmem] at ht

/-- Recycle-bin searches (`into_recycled`) return recycled entries only. -/
theorem recycle_search_only_recycled (db : List DbEntry) (acps : List SearchAcp) (id : Identity)
    (f fo : FC) (res : List DbEntry) (e : DbEntry)
    (h : search db acps id (AccessSearch.recycledOnly f) fo = some res) (he : e ∈ res) :
    AccessSearch.clsRecycled ∈ e.classes := by
  unfold search at h
  cases hr : resolveFilter id (AccessSearch.recycledOnly f) with
  | none => simp [hr] at h
  | some vfr =>
    simp only [hr, Option.some.injEq] at h
    subst h
    have hin : e ∈ backendSearch db vfr := filterEntries_subset id acps fo _ e he
    have hm := (backendSearch_matches db id _ vfr e hr hin).2
    simp only [AccessSearch.recycledOnly, FC.matches, FC.matchesAll, Bool.and_true,
      Bool.and_eq_true] at hm
    unfold DbEntry.classes
    simpa [List.contains_iff_mem] using hm.1

/-- The same through `search_ext`: the entry behind every returned row is not hidden. -/
theorem searchExt_hidden_never_returned (db : List DbEntry) (acps : List SearchAcp) (id : Identity)
    (f fo : FC) (req : Option (List Nat)) (res : List DbEntry) (r : DbEntry)
    (h : searchExt db acps id (AccessSearch.ignoreHidden f) fo req = some res) (hr : r ∈ res) :
    ∃ e, e ∈ db ∧ e.uuid = r.uuid ∧
      AccessSearch.clsRecycled ∉ e.classes ∧ AccessSearch.clsTombstone ∉ e.classes := by
  unfold searchExt at h
  cases hsr : search db acps id (AccessSearch.ignoreHidden f) fo with
  | none => simp [hsr] at h
  | some ents =>
    simp only [hsr] at h
    unfold searchFilterEntryAttributes at h
    cases ho : id.origin with
    | internal role => simp [ho] at h
    | synch u => simp [ho] at h
    | user ue =>
      simp only [ho, Option.some.injEq] at h
      subst h
      simp only [List.mem_filterMap] at hr
      obtain ⟨e, he, hred⟩ := hr
      have hdb : e ∈ db := by
        have hni : id.isInternal = false := by simp [Identity.isInternal, ho]
        exact (search_reveals_only_readable db acps id _ fo ents e hni hsr he).1
      have huuid : e.uuid = r.uuid := by
        split at hred <;> simp at hred
        subst hred
        rfl
      exact ⟨e, hdb, huuid, hidden_never_returned db acps id f fo ents e hsr he⟩

/-! ## 5. The generated tables -/

/-- The built-in visibility rules release nothing beyond the public descriptive attributes the
property names for them (checked against the lists regenerated from `access/search.rs`). -/
theorem builtin_rules_release_bounded :
    (∀ a ∈ AccessSearch.oauth2Released,
        a ∈ [Attr.Class, Attr.DisplayName, Attr.Uuid, Attr.Name, Attr.OAuth2RsOriginLanding, Attr.Image]) ∧
    (∀ a ∈ AccessSearch.applicationReleased,
        a ∈ [Attr.Class, Attr.DisplayName, Attr.Uuid, Attr.Name, Attr.LinkedGroup]) ∧
    (∀ a ∈ AccessSearch.syncAccountReleased,
        a ∈ [Attr.Class, Attr.Uuid, Attr.SyncCredentialPortal]) := by
  decide

/-- The anonymous account gets nothing from the OAuth2 and application rules. -/
theorem anonymous_gets_no_builtin_visibility (id : Identity) (ue e : DbEntry)
    (ho : id.origin = .user ue) (ha : ue.uuid = AccessSearch.uuidAnonymous) :
    searchOauth2FilterEntry id e = .ignore ∧ searchApplicationsFilterEntry id e = .ignore := by
  unfold searchOauth2FilterEntry searchApplicationsFilterEntry
  rw [ho]
  simp [AccessSearch.oauth2ExcludesAnonymous, AccessSearch.applicationExcludesAnonymous, ha]

/-- The decisions `filter_entries` and the reduction take per result, as regenerated from the
source: Deny hides, Grant shows (internal System only), Allow needs requested ⊆ allowed; the
reduction intersects with the request. -/
theorem generated_decisions :
    AccessSearch.filterEntriesDeny = false ∧ AccessSearch.filterEntriesGrant = true ∧
    (∀ req al, AccessSearch.filterEntriesAllow req al = true ↔ ∀ a ∈ req, a ∈ al) ∧
    (∀ rq al a, a ∈ AccessSearch.reduceAttrs (some rq) al ↔ a ∈ rq ∧ a ∈ al) ∧
    (∀ al, AccessSearch.reduceAttrs none al = al) := by
  refine ⟨rfl, rfl, ?_, ?_, ?_⟩
  · intro req al; exact subset_iff req al
  · intro rq al a; exact mem_inter rq al a
  · intro al; rfl

/-! ## 6. Non-vacuity -/

section Examples
/-- bytes of "person" / "group" -/
def exPerson : Val := .str [112, 101, 114, 115, 111, 110]
def exGroup : Val := .str [103, 114, 111, 117, 112]
/-- a user (uuid 9) who is a member of group 7 -/
def exUser : DbEntry := ⟨.num 9, Entry.ofList [(Attr.Uuid, [.num 9]), (Attr.MemberOf, [.num 7])]⟩
def exId : Identity := ⟨.user exUser, .readOnly⟩
/-- two persons (one managed by group 7), a recycled person and a group -/
def exDb : List DbEntry :=
  [⟨.num 1, Entry.ofList [(Attr.Class, [exPerson]), (Attr.Uuid, [.num 1]), (Attr.Name, [.str [97]]),
      (Attr.DisplayName, [.str [65]])]⟩,
   ⟨.num 2, Entry.ofList [(Attr.Class, [exPerson]), (Attr.Uuid, [.num 2]), (Attr.Name, [.str [98]]),
      (Attr.EntryManagedBy, [.num 7])]⟩,
   ⟨.num 3, Entry.ofList [(Attr.Class, [exPerson, AccessSearch.clsRecycled]), (Attr.Uuid, [.num 3]),
      (Attr.Name, [.str [99]])]⟩,
   ⟨.num 4, Entry.ofList [(Attr.Class, [exGroup]), (Attr.Uuid, [.num 4]), (Attr.Name, [.str [100]])]⟩]
/-- group 7 may read class+name of persons; entry managers may read displayname+uuid of what they manage -/
def exAcps : List SearchAcp :=
  [SearchAcp.ofRaw ⟨.group [.num 7], .scope (.eq Attr.Class exPerson)⟩ [Attr.Class, Attr.Name],
   SearchAcp.ofRaw ⟨.entryManager, .scope (.pres Attr.Class)⟩ [Attr.DisplayName, Attr.Uuid]]

def exShow (r : Option (List DbEntry)) : Option (List (Val × List Nat)) :=
  r.map (fun l => l.map (fun e =>
    (e.uuid, [Attr.Class, Attr.Uuid, Attr.Name, Attr.DisplayName, Attr.EntryManagedBy].filter
      (fun a => !(e.attrs a).isEmpty))))

/-- Two ACPs with different attribute sets apply; the recycled person is hidden; the group is not
readable through `class`; entry 2 additionally releases `uuid` through the entry-manager profile. -/
example : exShow (searchExt exDb exAcps exId (AccessSearch.ignoreHidden (.pres Attr.Class))
    (.pres Attr.Class) none) =
    some [(.num 1, [Attr.Class, Attr.Name]), (.num 2, [Attr.Class, Attr.Uuid, Attr.Name])] := by
  decide

/-- A filter on an attribute readable on some entries only (`uuid`: only where exId is the entry
manager) reveals just those entries. -/
example : exShow (searchExt exDb exAcps exId (AccessSearch.ignoreHidden (.pres Attr.Uuid))
    (.pres Attr.Uuid) none) = some [(.num 2, [Attr.Class, Attr.Uuid, Attr.Name])] := by
  decide

/-- Requested attributes intersect. -/
example : exShow (searchExt exDb exAcps exId (AccessSearch.ignoreHidden (.pres Attr.Class))
    (.pres Attr.Class) (some [Attr.Name, Attr.DisplayName])) =
    some [(.num 1, [Attr.Name]), (.num 2, [Attr.Name])] := by
  decide

/-- Recycle-bin search; `exists`; Synchronise scope. -/
example : exShow (searchExt exDb exAcps exId (AccessSearch.recycledOnly (.pres Attr.Name))
    (AccessSearch.recycledOnly (.pres Attr.Name)) none) = some [(.num 3, [Attr.Class, Attr.Name])] := by
  decide
example : exists_ exDb exAcps exId (AccessSearch.ignoreHidden (.eq Attr.Name (.str [100])))
    (.eq Attr.Name (.str [100])) = some false := by decide
example : exists_ exDb exAcps exId (AccessSearch.ignoreHidden (.eq Attr.Name (.str [98])))
    (.eq Attr.Name (.str [98])) = some true := by decide
example : exShow (search exDb exAcps ⟨.user exUser, .synchronise⟩
    (AccessSearch.ignoreHidden (.pres Attr.Class)) (.pres Attr.Class)) = some [] := by decide
end Examples

end Kanidm.Access
