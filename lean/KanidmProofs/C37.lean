import KanidmProofs.Lemmas.Intent
/-!
# C37 — Credential reset links are single use

Property theorems only (helper lemmas: `Lemmas/Intent.lean`). The model (`KanidmModel/Intent.lean`)
transcribes the reset-link ("intent token") state machine of `idm/credupdatesession.rs`; its
constants, comparisons, `match`-arm tables and written states are regenerated from the source on
every run (`KanidmModel/Generated/IntentOps.lean`), so every theorem below is re-proved about the
current source.

All theorems quantify over **every** well-formed server state (any number of accounts, links and
open sessions) and **every** finite sequence of operations with arbitrary arguments — forged
session tokens, unknown link ids and non-monotone clocks included. `trace s ops` is the list of
`(operation, result)` pairs of running `ops` from `s`; a committed credential change *through link
`L`* is an event `(_, .committed (some L) acct cred)`.
-/
namespace Kanidm.Intent
open Kanidm.Gen.Intent

/-! ## 0. What the regenerated tables must say -/

/-- **tables_are_spec**: the tables the translator regenerates from the four functions say what the
property needs of them: exchange is refused from `Consumed` and goes on from `Valid`/`InProgress`;
commit and cancel go on only from `InProgress` and only past the session-id test, which is
inequality; exchange writes `InProgress`, commit and revoke write `Consumed`, cancel writes `Valid`;
a link counts as expired from `max_ttl` on, a session token from its `max_ttl` on; the session id
and the token expiry are the instant plus `MAXIMUM_CRED_UPDATE_TTL`. -/
theorem tables_are_spec :
    (∀ t, (∃ e, exchangeArm t = .reject e) ↔ (t = .consumed ∨ t = .absent)) ∧
    (∀ t, exchangeArm t = .proceed ↔ (t = .valid ∨ t = .inProgress)) ∧
    (∀ t, (∃ e, commitArm t = .checkSession e) ↔ t = .inProgress) ∧
    (∀ t, (∃ e, commitArm t = .reject e) ↔ t ≠ .inProgress) ∧
    (∀ t, (∃ e, cancelArm t = .checkSession e) ↔ t = .inProgress) ∧
    (∀ t, (∃ e, cancelArm t = .reject e) ↔ t ≠ .inProgress) ∧
    (∀ a b, commitConflict a b = true ↔ a ≠ b) ∧ (∀ a b, cancelConflict a b = true ↔ a ≠ b) ∧
    (∀ t, revokeArm t = .proceed ↔ (t = .valid ∨ t = .inProgress)) ∧
    (∀ t, revokeArm t = .skip ↔ (t = .consumed ∨ t = .absent)) ∧
    exchangeWrites = .inProgress ∧ commitWrites = .consumed ∧ cancelWrites = .valid ∧
    revokeWrites = .consumed ∧
    (∀ ct m, intentExpired ct m = true ↔ m ≤ ct) ∧ (∀ ct m, tokenExpired ct m = true ↔ m ≤ ct) ∧
    (∀ ct m, tokenExpiredRead ct m = true ↔ m ≤ ct) ∧ (∀ ct m, purgeOld ct m = true ↔ m ≤ ct) ∧
    (∀ ct ttl, exchangeSessTime ct ttl = ct + ttl ∧ exchangeSessTtl ct ttl = ct + ttl ∧
      directSessTime ct ttl = ct + ttl ∧ tokenMaxTtl ct ttl = ct + ttl) ∧
    (∀ ct, expireSplitTime ct = ct) ∧ (∀ ct c, intentMaxTtl ct c = ct + c) ∧
    minIntentTtlSecs ≤ defaultIntentTtlSecs ∧ defaultIntentTtlSecs ≤ maxIntentTtlSecs ∧
    0 < credUpdateTtlSecs := by
  refine ⟨?_, ?_, ?_, ?_, ?_, ?_, ?_, ?_, ?_, ?_, rfl, rfl, rfl, rfl, ?_, ?_, ?_, ?_, ?_, ?_, ?_,
    by decide, by decide, by decide⟩
  · intro t; cases t <;> simp [exchangeArm]
  · intro t; cases t <;> simp [exchangeArm]
  · intro t; cases t <;> simp [commitArm]
  · intro t; cases t <;> simp [commitArm]
  · intro t; cases t <;> simp [cancelArm]
  · intro t; cases t <;> simp [cancelArm]
  · intro a b; simp [commitConflict]
  · intro a b; simp [cancelConflict]
  · intro t; cases t <;> simp [revokeArm]
  · intro t; cases t <;> simp [revokeArm]
  · intro ct m; simp [intentExpired]
  · intro ct m; simp [tokenExpired]
  · intro ct m; simp [tokenExpiredRead]
  · intro ct m; simp [purgeOld]
  · intro ct ttl; simp [exchangeSessTime, exchangeSessTtl, directSessTime, tokenMaxTtl]
  · intro ct; rfl
  · intro ct c; rfl

/-! ## 1. At most one committed change per link -/

/-- **at_most_one_commit**: in any history from any well-formed state, at most one event is a
committed credential change through link `L`. -/
theorem at_most_one_commit (s : State) (hwf : WF s) (ops : List Op) (L : Nat) :
    ((trace s ops).filter (isCommitFor L)).length ≤ 1 := by
  induction ops generalizing s with
  | nil => simp [trace]
  | cons op ops ih =>
    simp only [trace, List.filter_cons]
    split
    · rename_i hc
      have hd := commit_dead hwf hc
      have : (trace (step s op).1 ops).filter (isCommitFor L) = [] := by
        rw [List.filter_eq_nil_iff]
        intro ev hev
        simp [(dead_trace hd ops ev hev).2]
      simp [this]
    · exact ih (step s op).1 (wf_step hwf op)

example : ((trace State.empty
    [.init 1 none 1000, .exchange 0 2000 7, .setpw ⟨⟨900000002000, 7⟩, 900000002000⟩ 5 3000,
     .commit ⟨⟨900000002000, 7⟩, 900000002000⟩ 4000,
     .commit ⟨⟨900000002000, 7⟩, 900000002000⟩ 5000]).filter (isCommitFor 0)).length = 1 := by
  decide

/-! ## 2. After the commit the link is finished -/

/-- **consumed_is_final**: once a change has been committed through link `L`, no later event of the
history is a successful exchange of `L` or another commit through `L`. -/
theorem consumed_is_final (s : State) (hwf : WF s) (ops : List Op) (L : Nat) :
    (trace s ops).Pairwise (fun a b =>
      isCommitFor L a = true → isExchangeOk L b = false ∧ isCommitFor L b = false) := by
  induction ops generalizing s with
  | nil => simp [trace]
  | cons op ops ih =>
    simp only [trace, List.pairwise_cons]
    refine ⟨?_, ih (step s op).1 (wf_step hwf op)⟩
    intro b hb hc
    exact dead_trace (commit_dead hwf hc) ops b hb

/-- The exchange after the commit is refused with `SessionExpired`, at any instant. -/
example : (trace State.empty
    [.init 1 none 1000, .exchange 0 2000 7, .setpw ⟨⟨900000002000, 7⟩, 900000002000⟩ 5 3000,
     .commit ⟨⟨900000002000, 7⟩, 900000002000⟩ 4000, .exchange 0 5000 9]).map (·.2) =
    [.link 0 3600000001000, .token ⟨⟨900000002000, 7⟩, 900000002000⟩, .pwset,
     .committed (some 0) 1 (some 5), .err .sessionExpired] := by
  decide

/-! ## 3. After its expiry the link cannot be exchanged -/

/-- **no_exchange_after_expiry**: when `init` has announced link `L` with expiry `M`, every later
successful exchange of `L` happens at an instant strictly before `M` — whatever happened to the
link in between (exchanges, cancels, revocations, other links, clock steps backwards). -/
theorem no_exchange_after_expiry (s : State) (hwf : WF s) (ops : List Op) :
    (trace s ops).Pairwise (fun a b => ∀ L M, a.2 = .link L M →
      ∀ ct sid k, b = (.exchange L ct sid, .token k) → ct < M) := by
  induction ops generalizing s with
  | nil => simp [trace]
  | cons op ops ih =>
    simp only [trace, List.pairwise_cons]
    refine ⟨?_, ih (step s op).1 (wf_step hwf op)⟩
    intro b hb L M hres ct sid k heq
    obtain ⟨a, ttl, ct0, rfl⟩ := res_link_init hres
    exact ttl_trace (init_ttl hwf hres) ops b hb ct sid k heq

/-- **stored_link_expiry_final**: the same for a link already stored in the starting state: it is
never exchanged at or after its stored `max_ttl`. -/
theorem stored_link_expiry_final (s : State) (hwf : WF s) (l : Link) (hl : l ∈ s.links)
    (ops : List Op) :
    ∀ ev ∈ trace s ops, ∀ ct sid k, ev = (.exchange l.id ct sid, .token k) → ct < l.st.maxTtl := by
  have h : TtlIs s l.id l.st.maxTtl :=
    ⟨hwf.2 l hl, fun l' hl' hid => by rw [eq_of_nodup_ids hwf.1 hl' hl hid]⟩
  exact ttl_trace h ops

/-- **expiry_is_clamped**: the announced expiry is the instant of `init` plus the requested
lifetime clamped to [`MINIMUM_INTENT_TTL`, `MAXIMUM_INTENT_TTL`] (`DEFAULT_INTENT_TTL` if none). -/
theorem expiry_is_clamped (s : State) (a : Nat) (ttl : Option Nat) (ct : Nat) :
    ∃ L M, (step s (.init a ttl ct)).2 = .link L M ∧ M = ct + clampTtl ttl ∧
      minIntentTtlSecs * NS ≤ clampTtl ttl ∧ clampTtl ttl ≤ maxIntentTtlSecs * NS ∧
      (ttl = none → clampTtl ttl = defaultIntentTtlSecs * NS) := by
  refine ⟨s.nextLink, ct + clampTtl ttl, rfl, rfl, ?_, ?_, ?_⟩
  · unfold clampTtl
    simp only []
    split
    · exact Nat.le_refl _
    · split
      · exact Nat.mul_le_mul_right _ (by decide)
      · omega
  · unfold clampTtl
    simp only []
    split
    · exact Nat.mul_le_mul_right _ (by decide)
    · split
      · exact Nat.le_refl _
      · omega
  · intro h; subst h; decide

/-- Exchange one nanosecond before the expiry succeeds, at the expiry it is refused. -/
example : (trace State.empty
    [.init 1 (some (300 * NS)) 1000, .exchange 0 (300 * NS + 999) 7, .exchange 0 (300 * NS + 1000) 8]).map (·.2) =
    [.link 0 (300 * NS + 1000), .token ⟨⟨1200 * NS + 999, 7⟩, 1200 * NS + 999⟩, .err .sessionExpired] := by
  decide

/-! ## 4. A superseded session cannot commit -/

/-- **superseded_cannot_commit** (under H3): let link `L` be exchanged (token `k1`), then, after
any operations, exchanged again (token `k2`). If no operation after the first exchange hands out a
token with `k1`'s session id again (H3: session ids — instant ‖ per-transaction random `sid` — of
distinct session starts are distinct), then every later commit *and* cancel presented with `k1`'s
session id is refused. -/
theorem superseded_cannot_commit (s : State) (L t1 sid1 t2 sid2 : Nat) (k1 k2 : Token)
    (ops2 ops3 : List Op)
    (h1 : (step s (.exchange L t1 sid1)).2 = .token k1)
    (h2 : (step (run (step s (.exchange L t1 sid1)).1 ops2) (.exchange L t2 sid2)).2 = .token k2)
    (H3 : ∀ ev ∈ trace (step s (.exchange L t1 sid1)).1 (ops2 ++ .exchange L t2 sid2 :: ops3),
      mintsSess k1.sess ev = false) :
    ∀ ev ∈ trace (step (run (step s (.exchange L t1 sid1)).1 ops2) (.exchange L t2 sid2)).1 ops3,
      ∀ k ct, k.sess = k1.sess → (ev.1 = .commit k ct ∨ ev.1 = .cancel k ct) →
        ∃ e, ev.2 = .err e := by
  rw [trace_append] at H3
  simp only [trace, List.mem_append, List.mem_cons] at H3
  have hown := owned_run (owned_after_exchange h1) ops2 (fun ev hev => H3 ev (Or.inl hev))
  have hk2 : k2.sess ≠ k1.sess := by
    have := H3 _ (Or.inr (Or.inl rfl))
    rw [h2] at this
    simpa [mintsSess] using this
  have hb := blocked_after_exchange hown h2 hk2
  exact blocked_trace hb ops3 (fun ev hev => H3 ev (Or.inr (Or.inr hev)))

/-- **superseded_cannot_commit_distinct_instants**: H3 holds in particular when every
session-creating operation after the first exchange happens at an instant different from the
first exchange's (DESIGN §6 H3 as originally stated). -/
theorem superseded_cannot_commit_distinct_instants (s : State) (L t1 sid1 t2 sid2 : Nat)
    (k1 k2 : Token) (ops2 ops3 : List Op)
    (h1 : (step s (.exchange L t1 sid1)).2 = .token k1)
    (h2 : (step (run (step s (.exchange L t1 sid1)).1 ops2) (.exchange L t2 sid2)).2 = .token k2)
    (hd : ∀ op ∈ ops2 ++ .exchange L t2 sid2 :: ops3, mintInstant op ≠ some t1) :
    ∀ ev ∈ trace (step (run (step s (.exchange L t1 sid1)).1 ops2) (.exchange L t2 sid2)).1 ops3,
      ∀ k ct, k.sess = k1.sess → (ev.1 = .commit k ct ∨ ev.1 = .cancel k ct) →
        ∃ e, ev.2 = .err e := by
  obtain ⟨ct, hct, hk⟩ := mint_time h1
  simp only [mintInstant, Option.some.injEq] at hct
  subst hct
  exact superseded_cannot_commit s L t1 sid1 t2 sid2 k1 k2 ops2 ops3 h1 h2
    (no_mint_of_distinct_instants _ _ k1.sess t1 hk hd)

/-- The hypotheses are satisfiable, and the refusal is `CU0005IntentTokenConflict`: exchange at
2000, set a password, exchange again at 3000, commit with the first token. -/
example : (trace State.empty
    [.init 1 none 1000, .exchange 0 2000 7, .setpw ⟨⟨900000002000, 7⟩, 900000002000⟩ 5 2500,
     .exchange 0 3000 8, .commit ⟨⟨900000002000, 7⟩, 900000002000⟩ 4000]).map (·.2) =
    [.link 0 3600000001000, .token ⟨⟨900000002000, 7⟩, 900000002000⟩, .pwset,
     .token ⟨⟨900000003000, 8⟩, 900000003000⟩, .err .cu0005IntentTokenConflict] := by
  decide

/-- The unhypothesised statement: after a second successful exchange of the same link every commit
with the first token's session id is refused. -/
def superseded_cannot_commit_full : Prop :=
  ∀ (s : State) (L t1 sid1 t2 sid2 : Nat) (k1 k2 : Token) (ct : Nat),
    WF s → (step s (.exchange L t1 sid1)).2 = .token k1 →
    (step (step s (.exchange L t1 sid1)).1 (.exchange L t2 sid2)).2 = .token k2 →
    ∃ e, (step (step (step s (.exchange L t1 sid1)).1 (.exchange L t2 sid2)).1 (.commit k1 ct)).2 = .err e

/-- **superseded_cannot_commit_full_false**: H3 is necessary *in the model*: two exchanges of one
link at the same instant in transactions that drew the same `sid` share one session id, the second
session replaces the first in the session map, and the first token commits. (On the real server the
`sid` is 4 random bytes per transaction: the harness exercises the same-instant point and counts
how the implementation answers; see notes/C37.md.) -/
theorem superseded_cannot_commit_full_false : ¬ superseded_cannot_commit_full := by
  intro h
  have := h ⟨[⟨0, 1, .valid 3600000001000⟩], [], [(1, 4)], 1⟩ 0 2000 7 2000 7
    ⟨⟨900000002000, 7⟩, 900000002000⟩ ⟨⟨900000002000, 7⟩, 900000002000⟩ 4000
    (by unfold WF; decide) (by decide) (by decide)
  obtain ⟨e, he⟩ := this
  have hc : (step (step (step ⟨[⟨0, 1, .valid 3600000001000⟩], [], [(1, 4)], 1⟩
      (.exchange 0 2000 7)).1 (.exchange 0 2000 7)).1
      (.commit ⟨⟨900000002000, 7⟩, 900000002000⟩ 4000)).2 = .committed (some 0) 1 (some 4) := by
    decide
  rw [hc] at he
  cases he

/-! ## 5. Cancel gives the link back -/

/-- **cancel_returns_to_valid**: a successful cancel of a session that originated from link `L`
was presented with the session id the link was in progress under, leaves `L` `Valid` with its
expiry unchanged, and `L` can then be exchanged again at any instant before that expiry. -/
theorem cancel_returns_to_valid (s : State) (hwf : WF s) (k : Token) (ct L : Nat)
    (h : (step s (.cancel k ct)).2 = .cancelled (some L)) :
    ∃ l ∈ s.links, l.id = L ∧ (∃ t, l.st = .inProgress l.st.maxTtl k.sess t) ∧
      (⟨L, l.acct, .valid l.st.maxTtl⟩ : Link) ∈ (step s (.cancel k ct)).1.links ∧
      ∀ ct' sid, ct' < l.st.maxTtl →
        ∃ k', (step (step s (.cancel k ct)).1 (.exchange L ct' sid)).2 = .token k' := by
  have hwf' := wf_step hwf (.cancel k ct)
  simp only [step] at h hwf' ⊢
  rcases doCancel_cases s k ct with ⟨e, he⟩ | ⟨se, _, _, he⟩ | ⟨se, lid, _, _, hg, he⟩
  · rw [he] at h; cases h
  · rw [he] at h; cases h
  · rw [he] at h hwf' ⊢
    simp only [Res.cancelled.injEq, Option.some.injEq] at h
    subst h
    obtain ⟨l, m, t, hl?, hst⟩ := cancel_gate_none hg
    obtain ⟨hl, hlid, hacct⟩ := linkOf_some hl?
    have hm : l.st.maxTtl = m := by rw [hst]; rfl
    have hmem : (⟨lid, l.acct, .valid l.st.maxTtl⟩ : Link) ∈
        setLink se.acct lid cancelWrites k.sess 0 s.links := by
      have := setLink_mem (t := cancelWrites) (se := k.sess) (st := 0) (x := .valid l.st.maxTtl)
        hl hlid hacct (by rw [writes_tags.2.2.1]; rfl)
      simpa [hlid] using this
    refine ⟨l, hl, hlid, ⟨t, by rw [hm]; exact hst⟩, hmem, ?_⟩
    intro ct' sid hct
    have hf := filter_id_of_nodup hwf'.1 hmem
    simp only at hf
    have hne : ¬ (decide (ct' ≥ l.st.maxTtl) = true) := by simpa using hct
    simp only [doExchange, hf, LState.tag, exchangeArm, gate, LState.maxTtl.eq_1, intentExpired, if_neg hne]
    exact ⟨_, rfl⟩

example : (trace State.empty
    [.init 1 none 1000, .exchange 0 2000 7, .cancel ⟨⟨900000002000, 7⟩, 900000002000⟩ 3000,
     .exchange 0 4000 8]).map (·.2) =
    [.link 0 3600000001000, .token ⟨⟨900000002000, 7⟩, 900000002000⟩, .cancelled (some 0),
     .token ⟨⟨900000004000, 8⟩, 900000004000⟩] := by
  decide

/-! ## 5b. Revocation finishes the link -/

/-- **revoked_is_final**: after a successful `revoke` of link `L`, no later event is a successful
exchange of `L` or a commit through `L` (a session in progress at the time of the revocation is
refused at commit). -/
theorem revoked_is_final (s : State) (hwf : WF s) (ops : List Op) (L : Nat) :
    (trace s ops).Pairwise (fun a b =>
      isRevokeOk L a = true → isExchangeOk L b = false ∧ isCommitFor L b = false) := by
  induction ops generalizing s with
  | nil => simp [trace]
  | cons op ops ih =>
    simp only [trace, List.pairwise_cons]
    refine ⟨?_, ih (step s op).1 (wf_step hwf op)⟩
    intro b hb hc
    exact dead_trace (revoke_dead hwf hc) ops b hb

example : (trace State.empty
    [.init 1 none 1000, .exchange 0 2000 7, .setpw ⟨⟨900000002000, 7⟩, 900000002000⟩ 5 2500,
     .revoke 0 3000, .commit ⟨⟨900000002000, 7⟩, 900000002000⟩ 4000, .exchange 0 5000 8,
     .revoke 0 6000]).map (·.2) =
    [.link 0 3600000001000, .token ⟨⟨900000002000, 7⟩, 900000002000⟩, .pwset, .revoked,
     .err .cu0006IntentTokenInvalidated, .err .sessionExpired, .err .emptyRequest] := by
  decide

/-! ## 6. The stored credential moves only in a commit -/

/-- **credential_changes_only_by_commit**: a step changes the stored credentials only if it is a
successful commit, and then the committing session's account holds exactly the session's
credential. Together with `at_most_one_commit`: a link leads to at most one stored change. -/
theorem credential_changes_only_by_commit (s : State) (op : Op) :
    (step s op).1.creds = s.creds ∨
      ∃ l a c, (step s op).2 = .committed l a c ∧ getCred a (step s op).1.creds = c := by
  rcases creds_step s op with h | ⟨l, a, c, hr, hc⟩
  · exact Or.inl h
  · exact Or.inr ⟨l, a, c, hr, by rw [hc, getCred_setCred]⟩

/-! ## 7. The invariant the above rest on -/

/-- **wf_reachable**: every state reachable from the empty server is well formed (link ids
unique and below the allocation counter), so the theorems apply to every reachable state. -/
theorem wf_reachable (ops : List Op) : WF (run State.empty ops) :=
  wf_run wf_empty ops

end Kanidm.Intent
