import KanidmProofs.Lemmas.SessionPlugin
import KanidmProofs.C11
import KanidmProofs.C32
/-!
# C36 — Removing a credential revokes its sessions

Property theorems only (helpers: `Lemmas/SessionPlugin.lean`).  The model
(`KanidmModel/SessionPlugin.lean`) transcribes `SessionConsistency::modify_inner`, the session
value-set operations a local write uses, and `check_oauth2_account_uuid_valid`; every comparison,
the chain of credential sources, the order of the three sweeps, every arm's result and the leaves
of the validity test are regenerated from the source (`Gen.SessionPlugin`), so an edit of the
anchored code re-states these theorems.

Right-hand sides are written from the property text: `HasCred` (the four kinds of credential an
account can log in with), literal `300 s`, plain `<`/`≤`.
-/
namespace Kanidm.SessionPlugin
open Kanidm.Gen.SessionOrd Kanidm.SessionMerge Kanidm.Gen.SessionPlugin

/-! ## 0. Vocabulary of the property -/

/-- `c` is (the id of) one of the account's credentials: its primary credential, one of its
passkeys, one of its attested passkeys, or its OAuth2 trust credential. -/
def HasCred (e : Entry) (c : Nat) : Prop :=
  e.primary = some c ∨ c ∈ e.passkeys ∨ c ∈ e.attested ∨ e.oauth2Cred = some c

instance (e : Entry) (c : Nat) : Decidable (HasCred e c) := by unfold HasCred; infer_instance

/-- The entry holds login session `k` with value `s`. -/
def UatAt (e : Entry) (k : Nat) (s : Sess) : Prop := ∃ m, e.uats = some m ∧ (k, s) ∈ m

/-- The grace window of the property text: five minutes, in nanoseconds. -/
def fiveMinutes : Nat := 300 * 1000000000

theorem graceWindow_eq : graceWindow = fiveMinutes := by decide

/-- The regenerated `cred_ids` chain is exactly the four kinds of credential. -/
theorem credIds_iff (e : Entry) (c : Nat) : c ∈ credIds e ↔ HasCred e c := by
  unfold credIds credSources HasCred credsFrom
  cases e.primary <;> cases e.oauth2Cred <;> simp [eq_comm]

/-- The plugin never changes the credentials. -/
theorem plugin_keeps_credentials (ct cid : Nat) (e : Entry) (c : Nat) :
    HasCred (plugin ct cid e) c ↔ HasCred e c := by
  unfold HasCred
  rw [plugin_primary, plugin_passkeys, plugin_attested, plugin_oauth2Cred]

/-! ## 1. "Every login session issued with that credential is revoked in the same change" -/

/-- **Post-state of every modify** (DESIGN `post_sessions_have_live_creds`): whatever the entry
looked like before the plugin ran, afterwards every login session that is not revoked was issued
by a credential the entry still has, and has not reached its expiry. -/
theorem post_sessions_have_live_creds (e : Entry) (ct cid k : Nat) (s : Sess)
    (h : UatAt (plugin ct cid e) k s) (hl : Live s) :
    HasCred (plugin ct cid e) (credOf s) ∧ (∀ exp, s.state = .expiresAt exp → ct < exp) := by
  obtain ⟨m, hm, hmem⟩ := h
  rw [plugin_uats] at hm
  cases hu : e.uats with
  | none => rw [hu] at hm; cases hm
  | some m0 =>
    rw [hu] at hm
    simp only [Option.map_some, Option.some.injEq] at hm
    subst hm
    obtain ⟨s0, _, rfl⟩ := mem_mapVals hmem
    obtain ⟨he, _, hc, hx⟩ := live_uatPost hl
    rw [he]
    exact ⟨(plugin_keeps_credentials ct cid e _).mpr ((credIds_iff e _).mp hc), hx⟩

/-- The trim at the start of a write does not touch the credentials. -/
theorem hasCred_applyMod_trim (t cid : Nat) (e : Entry) (md : Mod) (c : Nat) :
    HasCred (applyMod cid (trimEntry t e) md) c ↔ HasCred (applyMod cid e md) c := by
  cases md <;> simp [HasCred, applyMod, trimEntry]

/-- **The property, first half.** Any local write (any modlist) after which credential `c` is no
longer on the account leaves every login session issued with `c` revoked — in the very state
that write commits. -/
theorem removed_credential_revokes_in_same_change (e : Entry) (md : Mod) (ct cid c : Nat)
    (hgone : ¬ HasCred (applyMod cid e md) c) (k : Nat) (s : Sess)
    (h : UatAt (step e (.write md ct cid)) k s) (hc : credOf s = c) :
    ∃ c', s.state = .revokedAt c' := by
  cases hs : s.state with
  | revokedAt c' => exact ⟨c', rfl⟩
  | expiresAt x =>
    have hl : Live s := by simp [Live, hs, isRevoked]
    have := (post_sessions_have_live_creds _ ct cid k s h hl).1
    rw [plugin_keeps_credentials, hc, hasCred_applyMod_trim] at this
    exact absurd this hgone
  | neverExpires =>
    have hl : Live s := by simp [Live, hs, isRevoked]
    have := (post_sessions_have_live_creds _ ct cid k s h hl).1
    rw [plugin_keeps_credentials, hc, hasCred_applyMod_trim] at this
    exact absurd this hgone

/-- **Replace = remove.** A committed change of the primary credential (password change, TOTP
added or removed, backup codes regenerated or removed) gives the credential a fresh id, so every
login session issued with the old primary credential is revoked by that commit.  `old` is not
one of the account's other credential ids and `fresh` is new (uuids are unique). -/
theorem changed_primary_revokes_its_sessions (e : Entry) (old fresh ct cid : Nat)
    (hp : e.primary = some old) (hfresh : fresh ≠ old)
    (hother : old ∉ e.passkeys ∧ old ∉ e.attested ∧ e.oauth2Cred ≠ some old)
    (k : Nat) (s : Sess) (h : UatAt (step e (.write (.updatePrimary fresh) ct cid)) k s)
    (hc : credOf s = old) : ∃ c', s.state = .revokedAt c' := by
  refine removed_credential_revokes_in_same_change e (.updatePrimary fresh) ct cid old ?_ k s h hc
  have hrot : credUpdateRotatesId = true := by decide
  intro hh
  simp only [HasCred, applyMod, hp, hrot, if_true, Option.some.injEq] at hh
  rcases hh with h1 | h1 | h1 | h1
  · exact hfresh h1
  · exact hother.1 h1
  · exact hother.2.1 h1
  · exact hother.2.2 h1

theorem uatAt_applyMod {e : Entry} {k : Nat} {s : Sess} (cid : Nat) (md : Mod) (h : UatAt e k s) :
    ∃ s', UatAt (applyMod cid e md) k s' ∧ (s' = s ∨ s' = revoke cid s) := by
  obtain ⟨m, hm, hmem⟩ := h
  cases md with
  | record s2 cred exp issued =>
    refine ⟨s, ⟨_, rfl, ?_⟩, Or.inl rfl⟩
    simp only [hm, Option.getD_some]
    unfold insertVacant
    split
    · exact hmem
    · exact List.mem_append_left _ hmem
  | revoke s2 =>
    refine ⟨if k = s2 then revoke cid s else s, ⟨revokeKey cid s2 m, by simp [applyMod, hm], ?_⟩, ?_⟩
    · rw [revokeKey_eq]
      exact List.mem_map.mpr ⟨(k, s), hmem, rfl⟩
    · split
      · right; rfl
      · left; rfl
  | purgeUats =>
    exact ⟨revoke cid s, ⟨revokeAll cid m, by simp [applyMod, hm],
      by unfold revokeAll; exact List.mem_map.mpr ⟨(k, s), hmem, rfl⟩⟩, Or.inr rfl⟩
  | setPrimary _ => exact ⟨s, ⟨m, hm, hmem⟩, Or.inl rfl⟩
  | updatePrimary _ => exact ⟨s, ⟨m, hm, hmem⟩, Or.inl rfl⟩
  | addPasskey _ => exact ⟨s, ⟨m, hm, hmem⟩, Or.inl rfl⟩
  | delPasskey _ => exact ⟨s, ⟨m, hm, hmem⟩, Or.inl rfl⟩
  | addAttested _ => exact ⟨s, ⟨m, hm, hmem⟩, Or.inl rfl⟩
  | delAttested _ => exact ⟨s, ⟨m, hm, hmem⟩, Or.inl rfl⟩
  | setOauth2Cred _ => exact ⟨s, ⟨m, hm, hmem⟩, Or.inl rfl⟩
  | grant _ _ _ _ => exact ⟨s, ⟨m, hm, hmem⟩, Or.inl rfl⟩
  | revokeO2 _ => exact ⟨s, ⟨m, hm, hmem⟩, Or.inl rfl⟩
  | touch => exact ⟨s, ⟨m, hm, hmem⟩, Or.inl rfl⟩

/-- Membership in the trimmed map comes from the map. -/
theorem mem_sessTrimAll {t : Nat} {m : SMap} {x : Nat × Sess} (h : x ∈ sessTrimAll t m) : x ∈ m := by
  unfold sessTrimAll forceTrim at h
  split at h
  · exact (List.mem_filter.mp (List.mem_filter.mp h).1).1
  · exact (List.mem_filter.mp h).1

theorem uatAt_trim_inv {t : Nat} {e : Entry} {k : Nat} {s : Sess} (h : UatAt (trimEntry t e) k s) :
    UatAt e k s := by
  obtain ⟨m, hm, hmem⟩ := h
  cases hu : e.uats with
  | none => simp [trimEntry, hu] at hm
  | some m0 =>
    simp only [trimEntry, hu, Option.map_some, Option.some.injEq] at hm
    subst hm
    exact ⟨m0, hu, mem_sessTrimAll hmem⟩

/-- The trim drops a login session only if it is a revocation older than the trim id or the
account holds more than `SESSION_MAXIMUM` sessions. -/
theorem trim_keeps_session (t : Nat) (e : Entry) (k : Nat) (s : Sess) (m : SMap)
    (hm : e.uats = some m) (hmem : (k, s) ∈ m) (hB : m.length ≤ sessionMaximum)
    (hfresh : ∀ c, s.state = .revokedAt c → ¬ c < t) : UatAt (trimEntry t e) k s := by
  refine ⟨sessTrimAll t m, by simp [trimEntry, hm], ?_⟩
  have hf : (k, s) ∈ trimRevoked sessTrim t m := by
    unfold trimRevoked
    refine List.mem_filter.mpr ⟨hmem, ?_⟩
    unfold keepSess sessTrim
    cases hs : s.state with
    | revokedAt c => simpa using hfresh c hs
    | expiresAt _ => rfl
    | neverExpires => rfl
  unfold sessTrimAll
  rw [forceTrim_id]
  · exact hf
  · exact Nat.le_trans (List.length_filter_le _ _) hB

/-- No write re-labels a recorded login session, and the modlist and the plugin never drop one:
a session that survives the write's trim is on the entry afterwards, with the same issuing
credential, either unchanged or revoked by this very write.  (So "every session issued with that
credential" in the theorem above really is every one that is still on record.) -/
theorem write_keeps_every_session (e : Entry) (md : Mod) (ct cid k : Nat) (s : Sess)
    (h : UatAt (trimEntry (trimCidOf cid) e) k s) :
    ∃ s', UatAt (step e (.write md ct cid)) k s' ∧ credOf s' = credOf s ∧
      (s' = s ∨ s' = revoke cid s) := by
  obtain ⟨s1, ⟨m1, hm1, hmem1⟩, h1⟩ := uatAt_applyMod cid md h
  refine ⟨uatPost (credIds (applyMod cid (trimEntry (trimCidOf cid) e) md)) ct cid s1,
    ⟨_, ?_, mem_mapVals_of_mem hmem1⟩, ?_, ?_⟩
  · simp [step, stepCore, plugin_uats, hm1]
  · unfold credOf
    rw [uatPost_payload]
    rcases h1 with rfl | rfl
    · rfl
    · exact revoke_payload cid s
  · rcases h1 with rfl | rfl
    · exact uatPost_cases _ ct cid _
    · right
      obtain ⟨c, hc⟩ := revoke_revoked cid s
      exact uatPost_of_revoked hc

/-- Exactness (the plugin does not simply revoke everything): a login session whose credential
is still on the account and whose expiry lies ahead is left exactly as it was. -/
theorem healthy_session_untouched (e : Entry) (ct cid k : Nat) (s : Sess) (h : UatAt e k s)
    (hc : HasCred e (credOf s)) (hx : ∀ exp, s.state = .expiresAt exp → ct < exp) :
    UatAt (plugin ct cid e) k s := by
  obtain ⟨m, hm, hmem⟩ := h
  refine ⟨_, by rw [plugin_uats, hm]; rfl, ?_⟩
  have := mem_mapVals_of_mem (f := uatPost (credIds e) ct cid) hmem
  rwa [uatPost_healthy ((credIds_iff e _).mpr hc) hx] at this

/-! ## 2. OAuth2 sessions whose parent is revoked or missing -/

/-- **Post-state of every modify, OAuth2 side**: afterwards every OAuth2 session that is not
revoked is unexpired, and either the login-session attribute exists and its parent (if it names
one) is present and not revoked *in the state this write commits*, or it was issued less than
five minutes ago. -/
theorem orphan_oauth2_revoked_after_grace (e : Entry) (ct cid k : Nat) (o : Sess)
    (h : (k, o) ∈ (plugin ct cid e).o2s) (hl : Live o) :
    (∀ exp, o.state = .expiresAt exp → ct < exp) ∧
      (ParentLive (plugin ct cid e).uats o ∨ ct < o.issued + fiveMinutes) := by
  rw [plugin_o2s] at h
  obtain ⟨o0, _, rfl⟩ := mem_mapVals h
  obtain ⟨he, _, hx, hp⟩ := live_o2Post hl
  rw [he, ← graceWindow_eq]
  exact ⟨hx, hp⟩

/-- Exactness: an unexpired OAuth2 session with a live parent (or still inside the grace window)
is left exactly as it was. -/
theorem healthy_oauth2_untouched (e : Entry) (ct cid k : Nat) (o : Sess) (h : (k, o) ∈ e.o2s)
    (hx : ∀ exp, o.state = .expiresAt exp → ct < exp)
    (hp : ParentLive (plugin ct cid e).uats o ∨ ct < o.issued + fiveMinutes) :
    (k, o) ∈ (plugin ct cid e).o2s := by
  rw [plugin_o2s]
  have := mem_mapVals_of_mem (f := o2Post (plugin ct cid e).uats ct cid) h
  rwa [o2Post_healthy hx (by rwa [graceWindow_eq])] at this

/-- Not revoked and not past its expiry at `ct` (what `session_state_live` tests since fix
dd5d9e6: an expired session is refused like a revoked one). -/
def LiveAt (ct : Nat) (s : Sess) : Prop := Live s ∧ ∀ exp, s.state = .expiresAt exp → ct < exp

theorem chkStateLive_iff (ct : Nat) (s : Sess) : chkStateLive ct s.state = true ↔ LiveAt ct s := by
  unfold LiveAt Live chkStateLive chkLiveRevoked chkLiveExpires chkLiveNever
  cases s.state <;> simp [isRevoked]

/-- The exact condition under which `check_oauth2_account_uuid_valid` lets a token through. -/
theorem o2Check_true_iff (e : Entry) (sid : Nat) (parent : Option Nat) (iat ct : Nat) :
    o2Check e sid parent iat ct = true ↔
      withinWindow e ct = true ∧
      ((∃ o, lookup e.o2s sid = some o ∧ LiveAt ct o ∧
          ∀ p, parent = some p →
            (∃ u, e.uats.bind (fun m => lookup m p) = some u ∧ LiveAt ct u) ∨
            (e.uats.bind (fun m => lookup m p) = none ∧
              (p ∈ e.apis ∨ ct < iat * 1000000000 + fiveMinutes))) ∨
       (lookup e.o2s sid = none ∧ ct < iat * 1000000000 + fiveMinutes)) := by
  unfold o2Check chkOutsideWindow chkGraceValid chkO2SessionValid chkO2Invalid chkParentValid
    chkParentLive chkParentInvalid chkParentMissingApi chkParentMissingGrace
    chkParentMissingNoGrace chkO2MissingGrace chkO2MissingNoGrace
  rw [graceWindow_eq]
  cases hw : withinWindow e ct
  · simp
  · cases ho : lookup e.o2s sid with
    | none => simp
    | some o =>
      have hol := chkStateLive_iff ct o
      cases hr : chkStateLive ct o.state
      · have hno : ¬ LiveAt ct o := by rw [← hol, hr]; simp
        simp [hno, hr]
      · have hlo : LiveAt ct o := hol.mp hr
        cases parent with
        | none => simp [hlo, hr]
        | some p =>
          cases hu : e.uats.bind (fun m => lookup m p) with
          | none =>
            simp only [Option.some.injEq, forall_eq', hu]
            by_cases ha : p ∈ e.apis
            · simp [hlo, hr, ha]
            · by_cases hg : ct < iat * 1000000000 + fiveMinutes
              · simp [hlo, hr, ha, hg]
              · simp [hr, ha, hg]
          | some u =>
            simp only [Option.some.injEq, forall_eq', hu]
            have hul := chkStateLive_iff ct u
            cases hur : chkStateLive ct u.state
            · have hnu : ¬ LiveAt ct u := by rw [← hul, hur]; simp
              simp [hr, hnu]
            · simp [hlo, hr, hul.mp hur]

/-- **The property, second half.** Once five minutes have passed since the token was issued, an
OAuth2 token whose parent login session is revoked or missing (and is not an api token of the
account) is refused — whatever else the entry holds. -/
theorem orphan_oauth2_unusable_after_grace (e : Entry) (sid p iat ct : Nat)
    (hgrace : iat * 1000000000 + fiveMinutes ≤ ct)
    (horphan : ∀ u, e.uats.bind (fun m => lookup m p) = some u → ¬ Live u)
    (hapi : p ∉ e.apis) :
    o2Check e sid (some p) iat ct = false := by
  cases h : o2Check e sid (some p) iat ct with
  | false => rfl
  | true =>
    obtain ⟨_, ⟨o, _, _, hp⟩ | ⟨_, hg⟩⟩ := (o2Check_true_iff e sid (some p) iat ct).mp h
    · rcases hp p rfl with ⟨u, hu, hl⟩ | ⟨_, ha | hg⟩
      · exact absurd hl.1 (horphan u hu)
      · exact absurd ha hapi
      · omega
    · omega

/-- A revoked parent makes the OAuth2 session unusable at once (no grace) as long as the OAuth2
session itself is on record; a revoked OAuth2 session is refused whatever its parent. -/
theorem revoked_parent_unusable_at_once (e : Entry) (sid p iat ct c : Nat) (m : SMap) (o : Sess)
    (hm : e.uats = some m) (hp : RevAt m p c) (ho : lookup e.o2s sid = some o) :
    o2Check e sid (some p) iat ct = false := by
  cases h : o2Check e sid (some p) iat ct with
  | false => rfl
  | true =>
    obtain ⟨u0, hu0, hr0⟩ := hp
    obtain ⟨_, ⟨o', _, _, hpp⟩ | ⟨hn, _⟩⟩ := (o2Check_true_iff e sid (some p) iat ct).mp h
    · rcases hpp p rfl with ⟨u, hu, hl⟩ | ⟨hu, _⟩
      · simp [hm, hu0] at hu; subst hu; simp [LiveAt, Live, hr0, isRevoked] at hl
      · simp [hm, hu0] at hu
    · rw [ho] at hn; cases hn

theorem revoked_oauth2_session_refused (e : Entry) (sid iat ct c : Nat) (parent : Option Nat)
    (h : RevAt e.o2s sid c) : o2Check e sid parent iat ct = false := by
  cases hc : o2Check e sid parent iat ct with
  | false => rfl
  | true =>
    obtain ⟨o0, ho0, hr0⟩ := h
    obtain ⟨_, ⟨o, ho, hl, _⟩ | ⟨hn, _⟩⟩ := (o2Check_true_iff e sid parent iat ct).mp hc
    · rw [ho0] at ho; cases ho; simp [LiveAt, Live, hr0, isRevoked] at hl
    · rw [ho0] at hn; cases hn

/-- Since fix dd5d9e6: a parent login session (or the OAuth2 session itself) that has reached its
expiry is refused like a revoked one, before the plugin's next run turns it into `RevokedAt`. -/
theorem expired_parent_unusable_at_once (e : Entry) (sid p iat ct exp : Nat) (u o : Sess)
    (hu : e.uats.bind (fun m => lookup m p) = some u) (hx : u.state = .expiresAt exp)
    (hexp : exp ≤ ct) (ho : lookup e.o2s sid = some o) :
    o2Check e sid (some p) iat ct = false := by
  cases h : o2Check e sid (some p) iat ct with
  | false => rfl
  | true =>
    obtain ⟨_, ⟨o', _, _, hpp⟩ | ⟨hn, _⟩⟩ := (o2Check_true_iff e sid (some p) iat ct).mp h
    · rcases hpp p rfl with ⟨u', hu', hl⟩ | ⟨hu', _⟩
      · rw [hu] at hu'; cases hu'
        have := hl.2 exp hx
        omega
      · rw [hu] at hu'; cases hu'
    · rw [ho] at hn; cases hn

/-! ### The session-level reading of the second half is false of the code (refresh renews the grace) -/

/-- Every event of the history is a local write. -/
def AllWrites (ops : List Op) : Prop := ∀ op ∈ ops, ∃ md ct cid, op = .write md ct cid


/-- Issue instants (ns) of OAuth2 session `sid` in a history: every `grant` write of it (the code
exchange and each refresh, which re-inserts the session with `issued_at = ct` and mints tokens
with `iat = ct.as_secs()`). -/
def grantTimes (sid : Nat) : List Op → List Nat
  | [] => []
  | .write (.grant o _ _ issued) _ _ :: tl =>
    if o = sid then issued :: grantTimes sid tl else grantTimes sid tl
  | _ :: tl => grantTimes sid tl

/-- The property's second half read per *session*: an OAuth2 session first issued at `t0` whose
parent login session is missing in every state of the history is unusable from `t0 + 5 min` on,
whichever of its tokens is presented. -/
def orphan_session_dies_full : Prop :=
  ∀ (e : Entry) (ops : List Op) (sid p t0 : Nat), AllWrites ops →
    (∀ t ∈ grantTimes sid ops, t0 ≤ t) →
    (∀ k, k ≤ ops.length → (run e (ops.take k)).uats.bind (fun m => lookup m p) = none) →
    p ∉ (run e ops).apis →
    ∀ t ∈ grantTimes sid ops, ∀ ct, t0 + fiveMinutes ≤ ct →
      o2Check (run e ops) sid (some p) (t / 1000000000) ct = false

/-- Witness (replayed on the real server, class `C36:refresh-renews-grace-of-orphan-session`):
code exchange at 0 s under a login session that is never recorded, refresh at 200 s; the
refreshed token is accepted at 301 s although the parent has been missing for more than 300 s. -/
def refreshChain : List Op :=
  [.write (.grant 1 (some 9) (some 57600000000000) 0) 0 1,
   .write (.grant 1 (some 9) (some 57800000000000) 200000000000) 200000000000 2]

theorem orphan_session_dies_full_false : ¬ orphan_session_dies_full := by
  intro h
  have := h { Entry.fresh (some 51) with uats := some [] } refreshChain 1 9 0
    (by intro op hop; simp only [refreshChain, List.mem_cons, List.mem_nil_iff, or_false] at hop
        rcases hop with rfl | rfl <;> exact ⟨_, _, _, rfl⟩)
    (by intro t _; omega)
    (by intro k hk
        have : k = 0 ∨ k = 1 ∨ k = 2 := by simp [refreshChain] at hk; omega
        rcases this with rfl | rfl | rfl <;> decide)
    (by decide) 200000000000 (by decide) 301000000000 (by decide)
  revert this
  decide

/-- … it holds when the session is never refreshed (one issue instant): then its only tokens
carry `iat = ⌊t0⌋` and the per-token theorem applies. -/
theorem orphan_session_dies_without_refresh (e : Entry) (sid p t0 ct : Nat)
    (horphan : ∀ u, e.uats.bind (fun m => lookup m p) = some u → ¬ Live u) (hapi : p ∉ e.apis)
    (hct : t0 + fiveMinutes ≤ ct) : o2Check e sid (some p) (t0 / 1000000000) ct = false := by
  apply orphan_oauth2_unusable_after_grace e sid p _ ct _ horphan hapi
  exact Nat.le_trans (Nat.add_le_add_right (Nat.div_mul_le_self t0 1000000000) _) hct

/-! ## 3. Histories: what is revoked stays revoked (until the trim drops it), never live again -/

/-- Everything recorded under login-session id `k` is revoked (vacuously so once the trim has
dropped the id: "revoked or gone"). -/
def DeadUat (e : Entry) (k : Nat) : Prop := ∀ s, UatAt e k s → ∃ c, s.state = .revokedAt c

/-- The same for an OAuth2 session id. -/
def DeadO2 (e : Entry) (k : Nat) : Prop := ∀ s, (k, s) ∈ e.o2s → ∃ c, s.state = .revokedAt c

theorem not_mem_of_lookup_none {m : SMap} {k : Nat} (h : lookup m k = none) (s : Sess) : (k, s) ∉ m := by
  intro hmem
  induction m with
  | nil => cases hmem
  | cons hd tl ih =>
    obtain ⟨k', v⟩ := hd
    by_cases hk : k = k'
    · simp [lookup, hk] at h
    · simp only [lookup, hk, if_false] at h
      rcases List.mem_cons.mp hmem with h1 | h1
      · cases h1; exact hk rfl
      · exact ih h h1

/-- Where a value under `k` comes from after the modlist: from a value under `k` before it (same
payload; unchanged or revoked), or from a `record k` of this modlist. -/
theorem uatAt_applyMod_inv {e : Entry} {k : Nat} {s1 : Sess} (cid : Nat) (md : Mod)
    (h : UatAt (applyMod cid e md) k s1) :
    (∃ s0, UatAt e k s0 ∧ s1.payload = s0.payload ∧ (s1 = s0 ∨ s1 = revoke cid s0)) ∨
    (∃ c x i, md = .record k c x i ∧ ∀ s0, ¬ UatAt e k s0) := by
  obtain ⟨m1, hm1, hmem⟩ := h
  cases md with
  | record s2 cred exp issued =>
    simp only [applyMod, Option.some.injEq] at hm1
    subst hm1
    unfold insertVacant at hmem
    cases hl : lookup (e.uats.getD []) s2 with
    | some v =>
      rw [hl] at hmem
      cases hu : e.uats with
      | none => simp [hu] at hmem
      | some m => simp only [hu, Option.getD_some] at hmem; exact Or.inl ⟨s1, ⟨m, hu, hmem⟩, rfl, Or.inl rfl⟩
    | none =>
      rw [hl] at hmem
      rcases List.mem_append.mp hmem with h1 | h1
      · cases hu : e.uats with
        | none => simp [hu] at h1
        | some m => simp only [hu, Option.getD_some] at h1; exact Or.inl ⟨s1, ⟨m, hu, h1⟩, rfl, Or.inl rfl⟩
      · simp only [List.mem_singleton, Prod.mk.injEq] at h1
        obtain ⟨rfl, rfl⟩ := h1
        refine Or.inr ⟨cred, exp, issued, rfl, ?_⟩
        rintro s0 ⟨m, hu, hm0⟩
        simp only [hu, Option.getD_some] at hl
        exact not_mem_of_lookup_none hl s0 hm0
  | revoke s2 =>
    cases hu : e.uats with
    | none => simp [applyMod, hu] at hm1
    | some m =>
      simp only [applyMod, hu, Option.map_some, Option.some.injEq] at hm1
      subst hm1
      rw [revokeKey_eq] at hmem
      obtain ⟨⟨a, s0⟩, hm0, he⟩ := List.mem_map.mp hmem
      simp only [Prod.mk.injEq] at he
      obtain ⟨rfl, rfl⟩ := he
      refine Or.inl ⟨s0, ⟨m, hu, hm0⟩, ?_, ?_⟩
      · split
        · exact revoke_payload cid s0
        · rfl
      · split
        · right; rfl
        · left; rfl
  | purgeUats =>
    cases hu : e.uats with
    | none => simp [applyMod, hu] at hm1
    | some m =>
      simp only [applyMod, hu, Option.map_some, Option.some.injEq] at hm1
      subst hm1
      unfold revokeAll at hmem
      obtain ⟨⟨a, s0⟩, hm0, he⟩ := List.mem_map.mp hmem
      simp only [Prod.mk.injEq] at he
      obtain ⟨rfl, rfl⟩ := he
      exact Or.inl ⟨s0, ⟨m, hu, hm0⟩, revoke_payload cid s0, Or.inr rfl⟩
  | setPrimary _ => exact Or.inl ⟨s1, ⟨m1, hm1, hmem⟩, rfl, Or.inl rfl⟩
  | updatePrimary _ => exact Or.inl ⟨s1, ⟨m1, hm1, hmem⟩, rfl, Or.inl rfl⟩
  | addPasskey _ => exact Or.inl ⟨s1, ⟨m1, hm1, hmem⟩, rfl, Or.inl rfl⟩
  | delPasskey _ => exact Or.inl ⟨s1, ⟨m1, hm1, hmem⟩, rfl, Or.inl rfl⟩
  | addAttested _ => exact Or.inl ⟨s1, ⟨m1, hm1, hmem⟩, rfl, Or.inl rfl⟩
  | delAttested _ => exact Or.inl ⟨s1, ⟨m1, hm1, hmem⟩, rfl, Or.inl rfl⟩
  | setOauth2Cred _ => exact Or.inl ⟨s1, ⟨m1, hm1, hmem⟩, rfl, Or.inl rfl⟩
  | grant _ _ _ _ => exact Or.inl ⟨s1, ⟨m1, hm1, hmem⟩, rfl, Or.inl rfl⟩
  | revokeO2 _ => exact Or.inl ⟨s1, ⟨m1, hm1, hmem⟩, rfl, Or.inl rfl⟩
  | touch => exact Or.inl ⟨s1, ⟨m1, hm1, hmem⟩, rfl, Or.inl rfl⟩

/-- Provenance through a whole write (trim, modlist, plugin): a value under `k` afterwards was
under `k` before (same issuing credential; unchanged, or revoked now), or `k` was not on record
after the trim and this write records it. -/
theorem uatAt_write_inv (e : Entry) (md : Mod) (ct cid k : Nat) (s' : Sess)
    (h : UatAt (step e (.write md ct cid)) k s') :
    (∃ s0, UatAt e k s0 ∧ credOf s' = credOf s0 ∧ (s' = s0 ∨ ∃ c, s'.state = .revokedAt c)) ∨
    (∃ c x i, md = .record k c x i ∧ ∀ s0, ¬ UatAt (trimEntry (trimCidOf cid) e) k s0) := by
  obtain ⟨m, hm, hmem⟩ := h
  simp only [step, stepCore, plugin_uats] at hm
  cases hu : (applyMod cid (trimEntry (trimCidOf cid) e) md).uats with
  | none => rw [hu] at hm; cases hm
  | some m1 =>
    rw [hu] at hm
    simp only [Option.map_some, Option.some.injEq] at hm
    subst hm
    obtain ⟨s1, hm1, rfl⟩ := mem_mapVals hmem
    rcases uatAt_applyMod_inv cid md ⟨m1, hu, hm1⟩ with ⟨s0, h0, hp, hs⟩ | hrec
    · refine Or.inl ⟨s0, uatAt_trim_inv h0, ?_, ?_⟩
      · unfold credOf; rw [uatPost_payload, hp]
      · rcases uatPost_cases (credIds (applyMod cid (trimEntry (trimCidOf cid) e) md)) ct cid s1 with hc | hc
        · rw [hc]
          rcases hs with rfl | rfl
          · left; rfl
          · right; exact revoke_revoked cid s0
        · rw [hc]; right; exact revoke_revoked cid s1
    · exact Or.inr hrec

/-- **Revoked is absorbing.** Whatever a local write does — a fresh login, the credential coming
back under its old id, a replayed session record while the revocation is still on record, time
passing, the trim — everything under a dead session id is still revoked afterwards.  The only
way back is to record the id again after the trim has dropped it (session ids are fresh uuids,
recorded once, and the trim horizon is `CHANGELOG_MAX_AGE` = 7 days). -/
theorem dead_stays_dead_write (e : Entry) (md : Mod) (ct cid k : Nat) (h : DeadUat e k)
    (hnr : ∀ c x i, md = .record k c x i → ∃ s0, UatAt (trimEntry (trimCidOf cid) e) k s0) :
    DeadUat (step e (.write md ct cid)) k := by
  intro s' hs'
  rcases uatAt_write_inv e md ct cid k s' hs' with ⟨s0, h0, _, rfl | hr⟩ | ⟨c, x, i, hmd, hno⟩
  · exact h _ h0
  · exact hr
  · obtain ⟨s0, h0⟩ := hnr c x i hmd
    exact absurd h0 (hno s0)

theorem o2_applyMod_inv {e : Entry} {k : Nat} {s1 : Sess} (cid : Nat) (md : Mod)
    (h : (k, s1) ∈ (applyMod cid e md).o2s) :
    (∃ s0, (k, s0) ∈ e.o2s ∧ (s1 = s0 ∨ s1 = revoke cid s0 ∨
        ∃ p x i, md = .grant k p x i ∧ o2InsertReplaces (SState.cmp (stateOf x) s0.state) = true)) ∨
    (∃ p x i, md = .grant k p x i ∧ ∀ s0, (k, s0) ∉ e.o2s) := by
  cases md with
  | grant o parent exp issued =>
    simp only [applyMod] at h
    unfold insertO2 at h
    cases hl : lookup e.o2s o with
    | none =>
      rw [hl] at h
      rcases List.mem_append.mp h with h1 | h1
      · exact Or.inl ⟨s1, h1, Or.inl rfl⟩
      · simp only [List.mem_singleton, Prod.mk.injEq] at h1
        obtain ⟨rfl, rfl⟩ := h1
        exact Or.inr ⟨parent, exp, issued, rfl, not_mem_of_lookup_none hl⟩
    | some v =>
      rw [hl] at h
      obtain ⟨⟨a, s0⟩, hm0, he⟩ := List.mem_map.mp h
      by_cases ha : a = o
      · subst ha
        by_cases hr : o2InsertReplaces (SState.cmp (stateOf exp) s0.state) = true
        · simp only [hr, if_true, Prod.mk.injEq] at he
          obtain ⟨rfl, rfl⟩ := he
          exact Or.inl ⟨s0, hm0, Or.inr (Or.inr ⟨parent, exp, issued, rfl, hr⟩)⟩
        · simp only [hr, if_true] at he
          simp only [Bool.false_eq_true, if_false, Prod.mk.injEq] at he
          obtain ⟨rfl, rfl⟩ := he
          exact Or.inl ⟨s0, hm0, Or.inl rfl⟩
      · simp only [ha, if_false, Prod.mk.injEq] at he
        obtain ⟨rfl, rfl⟩ := he
        exact Or.inl ⟨s0, hm0, Or.inl rfl⟩
  | revokeO2 o =>
    simp only [applyMod] at h
    rw [revokeKey_eq] at h
    obtain ⟨⟨a, s0⟩, hm0, he⟩ := List.mem_map.mp h
    simp only [Prod.mk.injEq] at he
    obtain ⟨rfl, rfl⟩ := he
    refine Or.inl ⟨s0, hm0, ?_⟩
    split
    · right; left; rfl
    · left; rfl
  | record _ _ _ _ => exact Or.inl ⟨s1, h, Or.inl rfl⟩
  | revoke _ => exact Or.inl ⟨s1, h, Or.inl rfl⟩
  | purgeUats => exact Or.inl ⟨s1, h, Or.inl rfl⟩
  | setPrimary _ => exact Or.inl ⟨s1, h, Or.inl rfl⟩
  | updatePrimary _ => exact Or.inl ⟨s1, h, Or.inl rfl⟩
  | addPasskey _ => exact Or.inl ⟨s1, h, Or.inl rfl⟩
  | delPasskey _ => exact Or.inl ⟨s1, h, Or.inl rfl⟩
  | addAttested _ => exact Or.inl ⟨s1, h, Or.inl rfl⟩
  | delAttested _ => exact Or.inl ⟨s1, h, Or.inl rfl⟩
  | setOauth2Cred _ => exact Or.inl ⟨s1, h, Or.inl rfl⟩
  | touch => exact Or.inl ⟨s1, h, Or.inl rfl⟩

/-- The same for a revoked OAuth2 session: a refresh re-inserting the session id cannot un-revoke
it (`RevokedAt` is the greatest state of the regenerated order), nor can anything else. -/
theorem dead_oauth2_stays_dead_write (e : Entry) (md : Mod) (ct cid k : Nat) (h : DeadO2 e k)
    (hng : ∀ p x i, md = .grant k p x i → ∃ s0, (k, s0) ∈ (trimEntry (trimCidOf cid) e).o2s) :
    DeadO2 (step e (.write md ct cid)) k := by
  intro s' hs'
  simp only [step, stepCore] at hs'
  rw [plugin_o2s] at hs'
  obtain ⟨s1, hm1, rfl⟩ := mem_mapVals hs'
  have hdead : ∀ s0, (k, s0) ∈ (trimEntry (trimCidOf cid) e).o2s → ∃ c, s0.state = .revokedAt c := by
    intro s0 h0
    apply h s0
    simp only [trimEntry, trimRevoked] at h0
    exact (List.mem_filter.mp h0).1
  rcases o2_applyMod_inv cid md hm1 with ⟨s0, h0, hs⟩ | ⟨p, x, i, hmd, hno⟩
  · obtain ⟨c, hc⟩ := hdead s0 h0
    rcases hs with rfl | rfl | ⟨p, x, i, _, hrep⟩
    · exact ⟨c, by rw [o2Post_of_revoked hc]; exact hc⟩
    · rw [revoke_of_revoked hc]; exact ⟨c, by rw [o2Post_of_revoked hc]; exact hc⟩
    · exfalso
      rw [hc] at hrep
      cases x <;> simp [stateOf, SState.cmp, o2InsertReplaces] at hrep
  · obtain ⟨s0, h0⟩ := hng p x i hmd
    exact absurd h0 (hno s0)

/-- Every event of the history is a local write that does not record login session `k`. -/
def WritesNotRecording (k : Nat) (ops : List Op) : Prop :=
  ∀ op ∈ ops, ∃ md ct cid, op = .write md ct cid ∧ ∀ c x i, md ≠ .record k c x i

/-- Dead is absorbing under every continuation of local writes that does not record `k` anew. -/
theorem dead_stays_dead (ops : List Op) (k : Nat) (hw : WritesNotRecording k ops) (e : Entry)
    (h : DeadUat e k) : DeadUat (run e ops) k := by
  induction ops generalizing e with
  | nil => exact h
  | cons op tl ih =>
    obtain ⟨md, ct, cid, rfl, hne⟩ := hw _ (List.mem_cons_self ..)
    exact ih (fun o ho => hw o (List.mem_cons_of_mem _ ho)) _
      (dead_stays_dead_write e md ct cid k h (fun c x i hmd => absurd hmd (hne c x i)))

/-- **End to end.** Take any entry, a login-session id `k` under which everything was issued
with credential `c`, and any write (not recording `k`) that leaves the account without `c`.
Then in the state that write commits and after every continuation of local writes not recording
`k` (time passing, new logins, the credential coming back, refreshes, trims …): whatever is still
on record under `k` is revoked, and an OAuth2 token naming `k` as its parent is accepted only
inside five minutes of its own issue (or if `k` is an api token of the account). -/
theorem removed_credential_never_usable_again (e : Entry) (md : Mod) (ct cid c k : Nat)
    (hall : ∀ s, UatAt e k s → credOf s = c) (hmd : ∀ c' x i, md ≠ .record k c' x i)
    (hgone : ¬ HasCred (applyMod cid e md) c) (ops : List Op) (hw : WritesNotRecording k ops) :
    let e' := run (step e (.write md ct cid)) ops
    DeadUat e' k ∧
    (∀ sid iat ct', o2Check e' sid (some k) iat ct' = true →
        k ∈ e'.apis ∨ ct' < iat * 1000000000 + fiveMinutes) := by
  intro e'
  have h1 : DeadUat (step e (.write md ct cid)) k := by
    intro s' hs'
    rcases uatAt_write_inv e md ct cid k s' hs' with ⟨s0, h0, hcred, _⟩ | ⟨c', x, i, hrec, _⟩
    · exact removed_credential_revokes_in_same_change e md ct cid c hgone k s' hs'
        (hcred.trans (hall s0 h0))
    · exact absurd hrec (hmd c' x i)
  have h2 : DeadUat e' k := dead_stays_dead ops k hw _ h1
  refine ⟨h2, ?_⟩
  intro sid iat ct' hchk
  obtain ⟨_, ⟨o, _, _, hp⟩ | ⟨_, hg⟩⟩ := (o2Check_true_iff e' sid (some k) iat ct').mp hchk
  · rcases hp k rfl with ⟨u, hu, hl⟩ | ⟨_, ha | hg⟩
    · exfalso
      cases hm : e'.uats with
      | none => simp [hm] at hu
      | some m =>
        simp only [hm, Option.bind_some] at hu
        obtain ⟨c0, hc0⟩ := h2 u ⟨m, hm, mem_of_lookup hu⟩
        simp [LiveAt, Live, hc0, isRevoked] at hl
    · exact Or.inl ha
    · exact Or.inr hg
  · exact Or.inr hg

/-! ## 4. Replication: a revocation survives the merge; the plugin does not run on it -/

/-- An incoming replicated state cannot un-revoke a login session (C11's `revoke_dominates`
applied to the merge step of this model): the merged entry holds it revoked with the earliest
revocation id seen on either side — unless that id is older than the trim id, when it is gone. -/
theorem merge_keeps_revocation (e inc : Entry) (un on tc : Bool) (t k c : Nat) (m mi : SMap)
    (hm : e.uats = some m) (hi : inc.uats = some mi) (hn : KeysNodup m) (hni : KeysNodup mi)
    (hB : m.length + mi.length ≤ sessionMaximum) (h : RevAt m k c) :
    ∃ m' c', (step e (.merge inc un on tc t)).uats = some m' ∧ c' ≤ c ∧
      (¬ c' < t → RevAt m' k c') ∧ (c' < t → lookup m' k = none) := by
  cases un with
  | false =>
    obtain ⟨c', _, hmin, h1, h2⟩ := revoke_dominates m mi hn hni hB k c t (Or.inl h)
    refine ⟨sessReplMerge m mi t, c', ?_, hmin c (Or.inl h), h1, h2⟩
    cases tc <;> simp [step, mergeUats, hm, hi]
  | true =>
    obtain ⟨c', _, hmin, h1, h2⟩ := revoke_dominates mi m hni hn (by omega) k c t (Or.inr h)
    refine ⟨sessReplMerge mi m t, c', ?_, hmin c (Or.inr h), h1, h2⟩
    cases tc <;> simp [step, mergeUats, hm, hi]

/-- The same for OAuth2 sessions (C11's `o2_revoke_dominates`). -/
theorem merge_keeps_oauth2_revocation (e inc : Entry) (un on tc : Bool) (t k c : Nat)
    (hn : KeysNodup e.o2s) (hni : KeysNodup inc.o2s) (h : RevAt e.o2s k c) :
    ∃ c', c' ≤ c ∧ (¬ c' < t → RevAt (step e (.merge inc un on tc t)).o2s k c') ∧
      (c' < t → lookup (step e (.merge inc un on tc t)).o2s k = none) := by
  cases on with
  | false =>
    obtain ⟨c', _, hmin, h1, h2⟩ := o2_revoke_dominates e.o2s inc.o2s hn hni k c t (Or.inl h)
    refine ⟨c', hmin c (Or.inl h), ?_, ?_⟩
    · cases tc <;> simpa [step] using h1
    · cases tc <;> simpa [step] using h2
  | true =>
    obtain ⟨c', _, hmin, h1, h2⟩ := o2_revoke_dominates inc.o2s e.o2s hni hn k c t (Or.inr h)
    refine ⟨c', hmin c (Or.inr h), ?_, ?_⟩
    · cases tc <;> simpa [step] using h1
    · cases tc <;> simpa [step] using h2

/-- What the statement does *not* cover, as a fact about the code: the plugin is not run on an
incoming replicated entry (`run_pre_repl_incremental`), so a login recorded on another server
with a credential this server has removed stays un-revoked in the merged entry … -/
theorem merge_skips_the_plugin :
    let own : Entry := { Entry.fresh none with uats := some [] }
    let inc : Entry := { Entry.fresh (some 7) with uats := some [(1, ⟨.neverExpires, 10, 7⟩)] }
    let merged := step own (.merge inc true true false 0)
    UatAt merged 1 ⟨.neverExpires, 10, 7⟩ ∧ ¬ HasCred merged 7 := by
  refine ⟨⟨_, rfl, by decide⟩, by decide⟩

/-- … until the next local write of that entry, which repairs it (instance of
`post_sessions_have_live_creds`: the post-state of a write does not depend on how the pre-state
came about). -/
theorem next_write_repairs_merge (e : Entry) (op : Op) (md : Mod) (ct cid k : Nat) (s : Sess)
    (h : UatAt (step (step e op) (.write md ct cid)) k s) (hl : Live s) :
    HasCred (step (step e op) (.write md ct cid)) (credOf s) :=
  (post_sessions_have_live_creds _ ct cid k s h hl).1

/-! ## 5. Link to C32: the bearer-token decision refuses a revoked session's token -/

/-- C32's view of a login session of this model. -/
def toBearerSession (s : Sess) : Kanidm.Bearer.Session :=
  ⟨match s.state with
    | .revokedAt _ => .revokedAt
    | .expiresAt x => .expiresAt x
    | .neverExpires => .neverExpires, credOf s⟩

/-- C32's view of an entry of this model. -/
def toBearer (e : Entry) : Kanidm.Bearer.Account :=
  ⟨e.validFrom, e.expire, e.primary,
    fun k => (e.uats.bind (fun m => lookup m k)).map toBearerSession, fun _ => none⟩

/-- A login session this model holds revoked is refused by C32's `validate` (the transcription
of `validate_client_auth_info_to_ident`) at every instant, grace window included, for every
account but `anonymous`, whatever the rest of the server looks like. -/
theorem revoked_session_token_refused (e : Entry) (m : SMap) (k c : Nat) (hm : e.uats = some m)
    (h : RevAt m k c) (w : Kanidm.Bearer.World) (u : Nat) (hu : u ≠ Kanidm.Bearer.anonymous)
    (hacc : w.accounts u = some (toBearer e))
    (kid : Nat) (sig : Bool) (iat : Nat) (exp : Option Nat) (ct a s : Nat) :
    Kanidm.Bearer.validate w ⟨kid, sig, .uat u k iat exp⟩ ct ≠ .ident a s := by
  obtain ⟨s0, hs0, hr0⟩ := h
  refine Kanidm.Bearer.revoked_session_rejected w kid sig u k iat exp ct a s (toBearer e)
    (credOf s0) hu hacc ?_
  simp [toBearer, hm, hs0, toBearerSession, hr0]

/-! ## 6. Non-vacuity -/

/-- Person with primary credential 51 and passkey 61; sessions 100 (password, expires), 101
(passkey, never expires), 102 (password, already logged out); OAuth2 sessions 200 under 100,
201 under 101, 202 under the never-recorded session 109, 203 without parent. Times in ns. -/
def demo : Entry :=
  { Entry.fresh (some 51) with
    passkeys := [61]
    uats := some [(100, ⟨.expiresAt 9000000000000, 1000, 51⟩), (101, ⟨.neverExpires, 1000, 61⟩),
                  (102, ⟨.revokedAt 3, 900, 51⟩)]
    o2s := [(200, ⟨.expiresAt 9000000000000, 2000, 101⟩), (201, ⟨.expiresAt 9000000000000, 2000, 102⟩),
            (202, ⟨.expiresAt 9000000000000, 2000, 110⟩), (203, ⟨.expiresAt 9000000000000, 2000, 0⟩)] }

/-- Password change at 1 s (new credential id 52): the password sessions are revoked in that
write, the passkey session is not; inside the grace window the OAuth2 sessions stay. -/
example :
    let e := step demo (.write (.setPrimary (some 52)) 1000000000 7)
    e.uats = some [(100, ⟨.revokedAt 7, 1000, 51⟩), (101, ⟨.neverExpires, 1000, 61⟩),
                   (102, ⟨.revokedAt 3, 900, 51⟩)] ∧
    e.o2s = demo.o2s ∧ ¬ HasCred e 51 ∧ HasCred e 52 ∧ HasCred e 61 := by decide

/-- … and the first write at or after `issued_at + 300 s` revokes the OAuth2 sessions whose
parent is revoked (200) or missing (202), not the ones with a live parent (201) or none (203);
one nanosecond earlier nothing happens. -/
example :
    let e := step demo (.write (.setPrimary (some 52)) 1000000000 7)
    (step e (.write .touch (2000 + 300000000000) 8)).o2s =
      [(200, ⟨.revokedAt 8, 2000, 101⟩), (201, ⟨.expiresAt 9000000000000, 2000, 102⟩),
       (202, ⟨.revokedAt 8, 2000, 110⟩), (203, ⟨.expiresAt 9000000000000, 2000, 0⟩)] ∧
    (step e (.write .touch (2000 + 300000000000 - 1) 8)).o2s = demo.o2s := by decide

/-- Removing the passkey revokes its session (and only it); the token test refuses the OAuth2
token under the revoked password session at once, the one under the missing parent exactly from
`iat + 300 s` on, and accepts the one under the live passkey session. -/
example :
    let e := step demo (.write (.setPrimary (some 52)) 1000000000 7)
    (step demo (.write (.delPasskey 61) 5 7)).uats =
      some [(100, ⟨.expiresAt 9000000000000, 1000, 51⟩), (101, ⟨.revokedAt 7, 1000, 61⟩),
            (102, ⟨.revokedAt 3, 900, 51⟩)] ∧
    o2Check e 200 (some 100) 0 1000000001 = false ∧
    o2Check e 202 (some 109) 0 299999999999 = true ∧
    o2Check e 202 (some 109) 0 300000000000 = false ∧
    o2Check e 201 (some 101) 0 300000000000 = true ∧
    o2Check demo 200 (some 100) 0 300000000000 = true := by decide

/-- The trim every write starts with: a write 700 000 s (> 7 days) later drops the revocation of
session 102 (stamped 3) — and sweeps the by then expired session 100; one at 600 000 s keeps it. -/
example :
    (step demo (.write .touch 700000000000000 700000000000000)).uats =
      some [(100, ⟨.revokedAt 700000000000000, 1000, 51⟩), (101, ⟨.neverExpires, 1000, 61⟩)] ∧
    (step demo (.write .touch 600000000000000 600000000000000)).uats =
      some [(100, ⟨.revokedAt 600000000000000, 1000, 51⟩), (101, ⟨.neverExpires, 1000, 61⟩),
            (102, ⟨.revokedAt 3, 900, 51⟩)] ∧
    DeadUat (step demo (.write .touch 700000000000000 700000000000000)) 102 := by
  refine ⟨by decide, by decide, ?_⟩
  intro s ⟨m, hm, hmem⟩
  have : m = [(100, ⟨.revokedAt 700000000000000, 1000, 51⟩), (101, ⟨.neverExpires, 1000, 61⟩)] := by
    have h : (step demo (.write .touch 700000000000000 700000000000000)).uats =
      some [(100, ⟨.revokedAt 700000000000000, 1000, 51⟩), (101, ⟨.neverExpires, 1000, 61⟩)] := by decide
    rw [h] at hm; exact (Option.some.inj hm).symm
  subst this
  simp at hmem

/-- An account without any login-session attribute: a parentless OAuth2 session is swept as an
orphan once the grace window has passed (`.unwrap_or(false)`) — more than the property asks. -/
example :
    let e : Entry := { Entry.fresh (some 51) with o2s := [(203, ⟨.expiresAt 9000000000000, 2000, 0⟩)] }
    (plugin (2000 + 300000000000) 8 e).o2s = [(203, ⟨.revokedAt 8, 2000, 0⟩)] ∧
    (plugin (2000 + 300000000000) 8 { e with uats := some [] }).o2s = e.o2s := by decide

end Kanidm.SessionPlugin
