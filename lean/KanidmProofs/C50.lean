import KanidmProofs.Lemmas.SyncScopeHistory
import KanidmProofs.Lemmas.SyncScopeMasked
import KanidmProofs.C24
/-
C50 — Synchronisation agreements stay inside their own scope.

All theorems are about the definitions of `KanidmModel/SyncScope.lean` that the driver `km_c50`
executes (`apply` = `scim_sync_apply`, `userModify`, `setYield`, `step`, `run`), instantiated at
the tables `Kanidm.Gen.SyncScope.*` / `Kanidm.Gen.Access.*` regenerated from the Rust source on
every run, and — for what users may change — about C24's `modifyAllowPerEntry` (imported). They hold
for every schema, identity, stored state, request and history; the outcome of the stages that are
not modelled is the `later` flag the histories quantify over.
-/
namespace Kanidm.SyncScope
open Kanidm.Access.Write
open Kanidm.Gen.Access
open Kanidm.Gen.SyncScope

/-! ### the generated tables say what the property text says -/

/-- The reserved system range of the property: uuids `00000000-0000-0000-0000-xxxxxxxxxxxx`. -/
def reservedBound : Nat := 2 ^ 48

/-- "session and credential-reset state" of the property text -/
def sessionStateSpec : List Nat :=
  [A.UserAuthTokenSession, A.OAuth2Session, A.OAuth2ConsentScopeMap, A.CredentialUpdateIntentToken]

theorem dynMin_is_reservedBound : dynamicRangeMinimum = reservedBound := by decide

/-- the comparison of phase 2 is "below the bound" -/
theorem stubRange_spec (u : Nat) : stubRangeCmp u dynamicRangeMinimum = true ↔ u < reservedBound := by
  simp [stubRangeCmp, dynMin_is_reservedBound]

theorem session_state_is_sync_base : syncConstrainBase = sessionStateSpec := by decide

/-- The source has the shape the hand-written part of the model assumes: phase order, the guard of
the refresh clean-up, statement order of phase 2, the stub (classes, parent attribute), the
asserted attribute of both modlists, the scoped delete filters, rejection of attributes that are
not sync-owned, masked candidates skipped before the ownership test of phase 4. -/
theorem source_shape_as_modelled :
    applyPhaseOrder = modelledPhaseOrder ∧ refreshCleanupGuard = true ∧ phase2Order = [0, 1, 2, 3] ∧
    C.SyncObject ∈ stubClasses ∧ stubParentAttr = A.SyncParentUuid ∧
    extIdAssertAttr = A.SyncParentUuid ∧ extIdAttr = A.SyncExternalId ∧
    entryModAssertAttr = A.SyncParentUuid ∧ entryModClassAttrs = [A.SyncClass, A.Class] ∧
    entryModRejectsUnowned = true ∧ purgeSkipsPhantom = true ∧ classFilterIsSyncAllowed = true ∧
    cleanupFiltersScoped = 2 ∧ phase4FiltersScoped = 3 ∧ phase4MaskedSkippedFirst = true := by
  decide

/-- the gates of phase 1: only a `Synch` origin with `Synchronise` scope passes -/
theorem phase1_gates :
    (∀ o, phase1OriginDenied o = false → o = 2 ∨ 3 ≤ o) ∧ phase1OriginDenied 2 = false ∧
    (∀ s : Scope, phase1ScopeDenied s.code = false ↔ s = .synchronise) := by
  refine ⟨?_, by decide, ?_⟩
  · intro o h
    match o with
    | 0 => revert h; decide
    | 1 => revert h; decide
    | 2 => exact .inl rfl
    | n + 3 => exact .inr (by omega)
  · intro s
    cases s <;> decide

/-- ownership test of phase 4: "parent is not this agreement" -/
theorem phase4Foreign_spec (p : Option Nat) (su : Nat) : phase4Foreign p su = true ↔ p ≠ some su := by
  simp [phase4Foreign]

/-- the two attribute-set predicates of phase 3 -/
theorem attr_predicates_spec (sa y ph : Bool) :
    (syncAllowAttr sa y = true ↔ sa = true ∧ y = false) ∧
    (phantomAttr ph sa = true ↔ ph = true ∧ sa = true) := by
  cases sa <;> cases y <;> cases ph <;> decide

/-! ### one sync request -/

/-- **Only a synchronisation identity with synchronise scope can apply a sync request.** -/
theorem sync_needs_synch_identity (sch : Schema) (id : Ident) (st : State) (req : Request)
    (st' : State) (h : apply sch id st req = .ok st') :
    ∃ su, id.origin = .synch su ∧ id.scope = .synchronise := by
  obtain ⟨su, ho, hs, _⟩ := apply_frame sch id st req st' h
  exact ⟨su, ho, hs⟩

/-- What "not touched" means for a stored entry: every field is the same, except that the
agreement's own account entry may get a new `sync_cookie`, and that reference attributes lose the
references to entries of the agreement that the request deleted (referential integrity). -/
structure Untouched (sch : Schema) (su : Nat) (st' : State) (e e' : Entry) : Prop where
  uuid : e'.uuid = e.uuid
  life : e'.life = e.life
  parent : e'.syncParent = e.syncParent
  ext : e'.extId = e.extId
  sc : e'.syncClasses = e.syncClasses
  yld : e'.yieldAuth = e.yieldAuth
  cls : ∀ c, c ∈ e'.classes ↔ c ∈ e.classes
  cookie : e'.cookie = e.cookie ∨ e.uuid = su
  attrs : ∃ D, (∀ d, d ∈ D → ∃ x, x ∈ st' ∧ x.uuid = d ∧ x.syncParent = some su) ∧
    ∀ a, getA e'.attrs a = stripped sch.refAttrs D e.attrs a

theorem Untouched.of_frame {sch : Schema} {su : Nat} {auth : List Nat} {st' : State} {e e' : Entry}
    (f : Frame sch su auth (okIn su st') e e') (hn : e.syncParent ≠ some su) :
    Untouched sch su st' e e' where
  uuid := f.uuid
  life := by
    rcases f.life with h | ⟨o, _⟩
    · exact h
    · exact absurd o hn
  parent := f.parent
  ext := by
    rcases f.ext with h | o
    · exact h
    · exact absurd o hn
  sc := by
    rcases f.sc with h | o
    · exact h
    · exact absurd o hn
  yld := f.yld
  cls := fun c => ⟨fun h => by
    rcases f.clsNew c h with h1 | ⟨o, _⟩
    · exact h1
    · exact absurd o hn, f.clsKeep c⟩
  cookie := f.cookie
  attrs := by
    obtain ⟨D, hD, ha⟩ := f.attrs
    refine ⟨D, hD, fun a => ?_⟩
    apply Classical.byContradiction
    intro hne
    exact hn (ha a hne).1

/-- **An agreement touches only entries it owns.** After an accepted sync request of agreement
`su`, the stored entries are still there in the same order, and every entry whose
`sync_parent_uuid` is not `su` — native entries, other agreements' entries, recycled and tombstoned
entries of anybody else — is `Untouched`. -/
theorem sync_touches_only_owned (sch : Schema) (id : Ident) (st : State) (req : Request)
    (st' : State) (h : apply sch id st req = .ok st') :
    ∃ su, id.origin = .synch su ∧ st.length ≤ st'.length ∧
      ∀ (i : Nat) (hi : i < st.length) (hi' : i < st'.length),
        st[i].syncParent ≠ some su → Untouched sch su st' st[i] st'[i] := by
  obtain ⟨su, ho, _, ⟨pre', news, he, r, _⟩, _⟩ := apply_frame sch id st req st' h
  have hl := r.length_eq
  refine ⟨su, ho, by rw [he, List.length_append]; omega, ?_⟩
  intro i hi hi' hn
  have hip : i < pre'.length := by omega
  have hget : st'[i] = pre'[i] := by
    subst he
    exact List.getElem_append_left hip
  rw [hget]
  exact Untouched.of_frame (r.get i hi hip) hn

/-- **Entries an agreement creates are its own, fresh, and outside the reserved range.** Every
entry stored after an accepted request beyond the previously stored ones has `sync_parent_uuid`
= the agreement, class `sync_object`, a uuid no stored entry (live, recycled or tombstoned) had,
and that uuid is not below `00000000-0000-0000-0001-000000000000`. -/
theorem sync_never_creates_reserved (sch : Schema) (id : Ident) (st : State) (req : Request)
    (st' : State) (h : apply sch id st req = .ok st') :
    ∃ su, id.origin = .synch su ∧
      ∀ (i : Nat) (hi' : i < st'.length), st.length ≤ i →
        st'[i].syncParent = some su ∧ C.SyncObject ∈ st'[i].classes ∧
        (∀ e, e ∈ st → e.uuid ≠ st'[i].uuid) ∧ reservedBound ≤ st'[i].uuid := by
  obtain ⟨su, ho, _, ⟨pre', news, he, r, hn⟩, _⟩ := apply_frame sch id st req st' h
  have hl := r.length_eq
  refine ⟨su, ho, ?_⟩
  intro i hi' hge
  have hmem : st'[i] ∈ news := by
    subst he
    rw [List.getElem_append_right (by omega)]
    exact List.getElem_mem _
  have n := hn _ hmem
  refine ⟨n.parent, n.cls, n.fresh, ?_⟩
  have := n.range
  have h2 : ¬ (st'[i].uuid < reservedBound) := by
    intro hlt
    have := (stubRange_spec _).mpr hlt
    simp_all
  omega

/-- What an accepted request may do to an entry the agreement owns (`Owned` below): uuid, owner,
cookie and yield set stay; the entry may be deleted (live → recycled) but never revived; classes
are only added, and only classes the schema marks `sync_allowed`; an attribute's value set changes
only if the schema marks it `sync_allowed` and the agreement's stored yield-authority set does not
list it — or if it is the stored target of an import attribute (see `_full_false`). -/
structure OwnedChange (sch : Schema) (su : Nat) (auth : List Nat) (st' : State) (e e' : Entry) :
    Prop where
  uuid : e'.uuid = e.uuid
  parent : e'.syncParent = some su
  yld : e'.yieldAuth = e.yieldAuth
  cookie : e'.cookie = e.cookie ∨ e.uuid = su
  life : e'.life = e.life ∨ (e.life = .live ∧ e'.life = .recycled)
  clsKeep : ∀ c, c ∈ e.classes → c ∈ e'.classes
  clsNew : ∀ c, c ∈ e'.classes → c ∈ e.classes ∨ SyncClassOf sch c
  attrs : ∃ D, (∀ d, d ∈ D → ∃ x, x ∈ st' ∧ x.uuid = d ∧ x.syncParent = some su) ∧
    ∀ a, getA e'.attrs a ≠ stripped sch.refAttrs D e.attrs a → Changeable sch auth a

/-- **On its own entries an agreement changes only synchronisable, non-yielded attributes** (and
import targets). -/
theorem sync_changes_only_syncable_non_yielded_partial (sch : Schema) (id : Ident) (st : State)
    (req : Request) (st' : State) (h : apply sch id st req = .ok st') :
    ∃ su, id.origin = .synch su ∧
      ∀ (i : Nat) (hi : i < st.length) (hi' : i < st'.length),
        st[i].syncParent = some su →
          OwnedChange sch su (authorityOf st su) st' st[i] st'[i] := by
  obtain ⟨su, ho, _, ⟨pre', news, he, r, _⟩, _⟩ := apply_frame sch id st req st' h
  have hl := r.length_eq
  refine ⟨su, ho, ?_⟩
  intro i hi hi' hown
  have hip : i < pre'.length := by omega
  have hget : st'[i] = pre'[i] := by
    subst he
    exact List.getElem_append_left hip
  rw [hget]
  have f := r.get i hi hip
  exact
    { uuid := f.uuid
      parent := by rw [f.parent]; exact hown
      yld := f.yld
      cookie := f.cookie
      life := by
        rcases f.life with h | ⟨_, l, r⟩
        · exact .inl h
        · exact .inr ⟨l, r⟩
      clsKeep := f.clsKeep
      clsNew := fun c hc => by
        rcases f.clsNew c hc with h | ⟨_, s⟩
        · exact .inl h
        · exact .inr s
      attrs := by
        obtain ⟨D, hD, ha⟩ := f.attrs
        exact ⟨D, hD, fun a hne => (ha a hne).2⟩ }

/-- `Changeable` spelled out: synchronisable by the schema and not yielded, or an import target. -/
theorem changeable_iff (sch : Schema) (auth : List Nat) (a : Nat) :
    Changeable sch auth a ↔
      (∃ d, d ∈ sch.attrs ∧ d.name = a ∧ d.syncAllowed = true ∧ a ∉ auth) ∨
        ImportTarget sch auth a := by
  unfold Changeable syncAllowAttrSet
  constructor
  · rintro (h | h)
    · obtain ⟨d, hd, rfl⟩ := List.mem_map.mp h
      have hd' := List.mem_filter.mp hd
      have := (attr_predicates_spec d.syncAllowed (auth.contains d.name) false).1.mp hd'.2
      exact .inl ⟨d, hd'.1, rfl, this.1, by simpa using this.2⟩
    · exact .inr h
  · rintro (⟨d, hd, rfl, hs, hn⟩ | h)
    · refine .inl (List.mem_map.mpr ⟨d, List.mem_filter.mpr ⟨hd, ?_⟩, rfl⟩)
      exact (attr_predicates_spec d.syncAllowed (auth.contains d.name) false).1.mpr
        ⟨hs, by simpa using hn⟩
    · exact .inr h

/-- **A request naming the id of a recycled or tombstoned entry is refused.** -/
theorem masked_ids_refused (sch : Schema) (id : Ident) (st : State) (req : Request) (st' : State)
    (h : apply sch id st req = .ok st') :
    ∀ s, s ∈ req.entries → ∀ e, e ∈ st → e.uuid = s.id → e.life = .live := by
  obtain ⟨_, _, _, _, hm⟩ := apply_frame sch id st req st' h
  intro s hs e he heq
  apply live_of_not_masked
  apply hm e he
  rw [mem_ceIds_changeEntries, heq]
  exact List.mem_map.mpr ⟨s, hs, rfl⟩

/-- **Recycled and tombstoned entries are never touched — not even the agreement's own.** Every
stored entry that is not live is, after an accepted request, stored at the same position and equal
in every field. (Together with `masked_ids_refused` and the `life` clause of `OwnedChange`: a
deleted id can neither be changed, nor re-created, nor revived by an agreement.) -/
theorem sync_never_touches_masked (sch : Schema) (id : Ident) (st : State) (req : Request)
    (st' : State) (h : apply sch id st req = .ok st') :
    ∀ (i : Nat) (hi : i < st.length), st[i].life ≠ .live →
      ∃ hi' : i < st'.length, st'[i] = st[i] := by
  obtain ⟨pre', news, he, r⟩ := apply_keepMasked sch id st req st' h
  have hl := r.length_eq
  intro i hi hnl
  have hip : i < pre'.length := by omega
  have hi' : i < st'.length := by rw [he, List.length_append]; omega
  refine ⟨hi', ?_⟩
  have hget : st'[i] = pre'[i] := by
    subst he
    exact List.getElem_append_left hip
  rw [hget]
  apply r.get i hi hip
  unfold Entry.masked
  cases hlife : st[i].life with
  | live => exact absurd hlife hnl
  | recycled => rfl
  | tombstone => rfl

/-! ### the full statement about attributes is false of the code (known finding D39) -/

/-- The statement as the property text has it: on its own entries an agreement changes only
attributes that are synchronisable and not handed over to Kanidm's authority. -/
def sync_changes_only_syncable_non_yielded_full : Prop :=
  ∀ (sch : Schema) (id : Ident) (st : State) (req : Request) (st' : State),
    apply sch id st req = .ok st' → ∀ su, id.origin = .synch su →
      ∀ e, e ∈ st → ∀ e', e' ∈ st' → e'.uuid = e.uuid → e.syncParent = some su →
        ∀ a, sch.refAttrs.contains a = false → getA e'.attrs a ≠ getA e.attrs a →
          a ∈ syncAllowAttrSet sch (authorityOf st su)

namespace Witness
/-- `account` may hold `primary_credential`; `password_import` is a synchronisable phantom. -/
def sch : Schema :=
  { classes := [⟨C.Account, true, [A.PrimaryCredential, A.Name]⟩, ⟨C.System, false, []⟩]
    attrs := [⟨A.PrimaryCredential, true, false⟩, ⟨A.PasswordImport, true, true⟩,
              ⟨A.Name, true, false⟩, ⟨A.SyncParentUuid, false, false⟩]
    refAttrs := [A.Member] }

/-- the agreement: `primary_credential` is yielded to Kanidm's authority -/
def agreement : Entry :=
  { uuid := 600 + 2 ^ 48, life := .live, classes := [C.Object, C.SyncAccount], syncParent := none,
    extId := none, syncClasses := [], cookie := none, yieldAuth := some [A.PrimaryCredential],
    attrs := [(A.Name, [1])] }

/-- a synchronised account with credential 7 -/
def person : Entry :=
  { uuid := 5 + 2 ^ 48, life := .live, classes := [C.Object, C.SyncObject, C.Account],
    syncParent := some (600 + 2 ^ 48), extId := some 3, syncClasses := [C.Account], cookie := none,
    yieldAuth := none, attrs := [(A.Name, [2]), (A.PrimaryCredential, [7])] }

/-- a native group that has the account as a member -/
def native : Entry :=
  { uuid := 77 + 2 ^ 48, life := .live, classes := [C.Object, C.Group], syncParent := none,
    extId := none, syncClasses := [], cookie := none, yieldAuth := none,
    attrs := [(A.Member, [5 + 2 ^ 48, 78 + 2 ^ 48])] }

def st : State := [agreement, person, native]

def id : Ident := ⟨.synch (600 + 2 ^ 48), .synchronise⟩

/-- the agreement sends the account again with a password import 8 -/
def req : Request :=
  { fromState := .refresh, toState := .active 9,
    entries := [{ id := 5 + 2 ^ 48, extId := some 3, schemas := [some C.Account],
                  attrs := [(A.Name, some [2]), (A.PasswordImport, some [8])] }],
    retain := .ignore }

def person' : Entry := { person with attrs := [(A.PrimaryCredential, [8]), (A.Name, [2])] }

theorem applied : apply sch id st req = .ok [{ agreement with cookie := some 9 }, person', native] := by
  rfl
end Witness

/-- **The full statement is false of the code**: with `primary_credential` yielded, a request that
carries `password_import` still replaces the stored credential (7 becomes 8) — the phantom
attribute set of phase 3 is not reduced by the yield-authority set. The harness replays this on
the implementation (class `c50-import-overrides-yielded-attribute`, known finding D39). -/
theorem sync_changes_only_syncable_non_yielded_full_false :
    ¬ sync_changes_only_syncable_non_yielded_full := by
  intro hfull
  have := hfull Witness.sch Witness.id Witness.st Witness.req _ Witness.applied (600 + 2 ^ 48) rfl
    Witness.person (by decide) Witness.person' (by decide) rfl rfl A.PrimaryCredential (by decide)
    (by decide)
  revert this
  decide

/-! ### what users may change on a synchronised entry -/

/-- **Users change a synchronised entry only in yielded attributes and session state.** For every
set of access profiles: if a user's modification of an entry that has class `sync_object` (and is
not a protected system entry) is allowed, then the entry has a parent agreement and every
attribute the modification adds values to or removes values from is one of the four session /
credential-reset attributes or is listed in that agreement's yield-authority set. A synchronised
entry without a parent agreement cannot be modified at all. -/
theorem user_changes_only_yielded_plus_session_state (id : Ident) (hu : IsUser id)
    (acps : List AcpModify) (ag : List (Nat × List Nat)) (e : Ent) (ml : List Mod) (cs : List Nat)
    (hcs : e.classes = some cs) (hsync : C.SyncObject ∈ cs)
    (hanon : e.uuid > uuidAnonymous) (hgate : disjoint cs modifyGateClasses = true)
    (h : modifyAllowPerEntry id (modifyRelatedAcp id acps) ag e ml = true) :
    ∃ su, e.syncParent = some su ∧
      ∀ m, m ∈ ml → ∀ a, (m.addsAttr = some a ∨ m.removesAttr = some a) →
        a ∈ sessionStateSpec ∨ a ∈ (ag.lookup su).getD [] := by
  obtain ⟨u, mo, ho⟩ := hu
  have hu : IsUser id := ⟨u, mo, ho⟩
  obtain ⟨a, p, r, ha, _, h1, h2, _, _⟩ := modifyAllow_user_unfold hu _ ag e ml h
  have hsc : id.scope = .readWrite := by
    rcases applyModify_user hu (modifyRelatedAcp id acps) ag e with hd | ⟨a', _, hsc, _⟩
    · rw [hd] at ha; cases ha
    · exact hsc
  have hprot : modifyProtectedAttrs id e = .ignore := by
    have : modifyAnonCmp e.uuid uuidAnonymous = true := by simp [modifyAnonCmp]; omega
    simp [modifyProtectedAttrs, ho, hcs, this, hgate]
  cases hpar : e.syncParent with
  | none =>
    exfalso
    have hs : modifySyncConstrain id e ag = .deny := by
      simp [modifySyncConstrain, ho, hcs, hsync, hpar]
    have hnd : modifyScopeDenied id.scope.code = false := by rw [hsc]; rfl
    have hident : modifyIdentTest id = .ignore := by rw [modifyIdentTest_user hu, hnd]; rfl
    have hmig := modifyMigration_user hu e
    have : applyModifyAccess id (modifyRelatedAcp id acps) ag e = .deny := by
      simp [applyModifyAccess, hident, hmig, hprot, hs]
    rw [this] at ha
    cases ha
  | some su =>
    refine ⟨su, rfl, ?_⟩
    have hs : modifySyncConstrain id e ag =
        .constrain (syncConstrainBase ++ (ag.lookup su).getD [])
          (syncConstrainBase ++ (ag.lookup su).getD []) none none := by
      simp [modifySyncConstrain, ho, hcs, hsync, hpar]
    have heq := applyModify_user_eq hu hsc (modifyRelatedAcp id acps) ag e
      (by rw [hprot]; intro hc; cases hc) (by rw [hs]; intro hc; cases hc)
    rw [heq] at ha
    injection ha with ha
    subst ha
    have hne : conOf (modifyProtectedAttrs id e) ++ conOf (modifySyncConstrain id e ag) ≠ [] := by
      rw [hprot, hs]
      simp [conOf, syncConstrainBase]
    have hcon : ∀ x, x ∈ conOf (modifyProtectedAttrs id e) ++ conOf (modifySyncConstrain id e ag) →
        x ∈ sessionStateSpec ∨ x ∈ (ag.lookup su).getD [] := by
      intro x hx
      rw [hprot, hs] at hx
      simp only [conOf, List.nil_append] at hx
      rcases List.mem_append.mp hx with hb | hy
      · exact .inl (by rw [← session_state_is_sync_base]; exact hb)
      · exact .inr hy
    intro m hm x hx
    rcases hx with hx | hx
    · exact hcon x (mem_constrainWith_con hne
        ((subset_iff _ _).mp h1 x (addsAttr_mem_requestedPres hm hx)))
    · exact hcon x (mem_constrainWith_con hne
        ((subset_iff _ _).mp h2 x (removesAttr_mem_requestedRem hm hx)))

/-- the yield-authority set the access code holds for agreement `su` (`sync_agreements` map) -/
def yieldOf (st : State) (su : Nat) : List Nat := ((agreementsOf st).lookup su).getD []

/-- **A user's accepted modification, through the model's step.** After `userModify` by a user,
the stored entries are position by position the same except the live entries with the target uuid;
and if such an entry is synchronised (class `sync_object`, not otherwise protected) it has a parent
agreement `su`, and every part of it named by an attribute outside the four session /
credential-reset attributes and outside `su`'s stored yield set — attribute values, classes, the
owner, the external id, the sync classes — is unchanged; uuid, cookie, yield set and lifecycle
never change. -/
theorem user_step_changes_only_yielded (id : Ident) (hu : IsUser id) (acps : List AcpModify)
    (st st' : State) (target : Nat) (ml : List Mod)
    (h : userModify id acps st target ml = .ok st') :
    Rel2 (fun e e' =>
      e'.uuid = e.uuid ∧ e'.cookie = e.cookie ∧ e'.yieldAuth = e.yieldAuth ∧ e'.life = e.life ∧
      ((e.uuid ≠ target ∨ e.masked = true) → e' = e) ∧
      (e.uuid = target → e.masked = false → C.SyncObject ∈ e.classes → e.uuid > uuidAnonymous →
        disjoint e.classes modifyGateClasses = true →
        ∃ su, e.syncParent = some su ∧
          ∀ a, a ∉ sessionStateSpec → a ∉ yieldOf st su → SameAt a e e')) st st' := by
  unfold userModify at h
  split at h
  · cases h
  · simp only at h
    split at h
    · cases h
    · split at h
      · cases h
      · rename_i hacc
        split at h
        · cases h
        · rename_i hsome
          injection h with h
          subst h
          apply Rel2.map_right
          intro x hx
          by_cases hsel : (x.uuid == target && !x.masked) = true
          · simp only [hsel, if_true]
            have hsel' : x.uuid = target ∧ x.masked = false := by simpa using hsel
            have hcand : x ∈ st.filter (fun e => e.uuid == target && !e.masked) :=
              List.mem_filter.mpr ⟨hx, hsel⟩
            have hs : (applyUserMods x ml).isSome = true := by
              have hall : (List.all (st.filter fun e => e.uuid == target && !e.masked)
                  fun e => (applyUserMods e ml).isSome) = true := by
                cases hb : (List.all (st.filter fun e => e.uuid == target && !e.masked)
                  fun e => (applyUserMods e ml).isSome) with
                | true => rfl
                | false => rw [hb] at hsome; exact absurd rfl hsome
              exact List.all_eq_true.mp hall x hcand
            obtain ⟨x', hx'⟩ := Option.isSome_iff_exists.mp hs
            simp only [hx', Option.getD]
            obtain ⟨i1, i2, i3, i4⟩ := applyUserMods_inv ml x x' hx'
            refine ⟨i1, i2, i3, i4, ?_, ?_⟩
            · rintro (hne | hm)
              · exact absurd hsel'.1 hne
              · rw [hsel'.2] at hm; cases hm
            · intro _ _ hsync hanon hgate
              have hop : modifyAllowOperation id acps (agreementsOf st)
                  ((st.filter fun e => e.uuid == target && !e.masked).map toEnt) ml = true := by
                simpa using hacc
              unfold modifyAllowOperation at hop
              have hper := List.all_eq_true.mp hop (toEnt x) (List.mem_map.mpr ⟨x, hcand, rfl⟩)
              have hlive : x.life = .live := live_of_not_masked hsel'.2
              have hcls : (toEnt x).classes = some x.classes := by
                simp [toEnt, hlive, lifeClasses]
              obtain ⟨su, hpar, hall⟩ := user_changes_only_yielded_plus_session_state id hu acps
                (agreementsOf st) (toEnt x) ml x.classes hcls hsync hanon hgate hper
              refine ⟨su, hpar, fun a hns hny => ?_⟩
              apply applyUserMods_same' a ml x x' _ hx'
              intro m hm
              cases m with
              | assert k v => exact .inl rfl
              | present k v =>
                right
                intro hk
                rcases hall _ hm k (.inl rfl) with h1 | h1
                · exact hns (by rw [← hk]; exact h1)
                · exact hny (by rw [← hk]; exact h1)
              | removed k v =>
                right
                intro hk
                rcases hall _ hm k (.inr rfl) with h1 | h1
                · exact hns (by rw [← hk]; exact h1)
                · exact hny (by rw [← hk]; exact h1)
              | purged k =>
                right
                intro hk
                rcases hall _ hm k (.inr rfl) with h1 | h1
                · exact hns (by rw [← hk]; exact h1)
                · exact hny (by rw [← hk]; exact h1)
              | set k vs =>
                right
                intro hk
                rcases hall _ hm k (.inl rfl) with h1 | h1
                · exact hns (by rw [← hk]; exact h1)
                · exact hny (by rw [← hk]; exact h1)
          · have hsel' : (x.uuid == target && !x.masked) = false := by simpa using hsel
            simp only [hsel']
            refine ⟨rfl, rfl, rfl, rfl, fun _ => rfl, ?_⟩
            intro ht hm
            have : (x.uuid == target && !x.masked) = true := by simp [ht, hm]
            rw [this] at hsel'
            cases hsel'

/-! ### histories -/

/-- **No history creates an entry in the reserved range.** Whatever sequence of sync requests (of
any identities), yield-authority changes and user modifications is applied, and whatever the
stages that are not modelled decide, every stored entry afterwards has the uuid of an initially
stored entry or a uuid outside the reserved range. -/
theorem history_no_new_reserved (sch : Schema) (ops : List Op) : ∀ (st0 st : State),
    (∀ e', e' ∈ st → (∃ e, e ∈ st0 ∧ e.uuid = e'.uuid) ∨ reservedBound ≤ e'.uuid) →
    ∀ e', e' ∈ run sch st ops → (∃ e, e ∈ st0 ∧ e.uuid = e'.uuid) ∨ reservedBound ≤ e'.uuid := by
  induction ops with
  | nil => intro st0 st h; exact h
  | cons op rest ih =>
    intro st0 st h
    rw [run_cons]
    apply ih
    rcases step_cases sch st op with hs | ⟨st', hr, hs⟩
    · rw [hs]; exact h
    · rw [hs]
      intro e' he'
      cases op with
      | sync id req later =>
        obtain ⟨su, _, _, ⟨pre', news, he, r, hn⟩, _⟩ := apply_frame sch id st req st' (stepRes_sync_ok hr)
        subst he
        rcases List.mem_append.mp he' with hp | hnw
        · obtain ⟨e, he, f⟩ := r.mem_right hp
          rw [f.uuid]
          exact h e he
        · right
          have n := hn e' hnw
          have h2 : ¬ (e'.uuid < reservedBound) := by
            intro hlt
            have := (stubRange_spec _).mpr hlt
            rw [n.range] at this
            cases this
          omega
      | yield su y =>
        have hr' : setYield st su y = .ok st' := hr
        obtain ⟨e, he, hu⟩ := (setYield_uuids st st' su y hr').mem_right he'
        rw [hu]
        exact h e he
      | user id acps target ml later =>
        obtain ⟨e, he, hu⟩ := (userModify_uuids id acps st st' target ml (stepRes_user_ok hr)).mem_right he'
        rw [hu]
        exact h e he

/-- What a history of sync requests leaves of an entry none of the acting agreements owns. -/
structure Survives (sch : Schema) (S : Nat → Prop) (e e' : Entry) : Prop where
  uuid : e'.uuid = e.uuid
  parent : e'.syncParent = e.syncParent
  life : e'.life = e.life
  ext : e'.extId = e.extId
  sc : e'.syncClasses = e.syncClasses
  yld : e'.yieldAuth = e.yieldAuth
  cls : ∀ c, c ∈ e'.classes ↔ c ∈ e.classes
  cookie : e'.cookie = e.cookie ∨ S e.uuid
  attrs : ∃ D, ∀ a, getA e'.attrs a = stripped sch.refAttrs D e.attrs a

theorem Survives.refl (sch : Schema) (S : Nat → Prop) (e : Entry) : Survives sch S e e :=
  ⟨rfl, rfl, rfl, rfl, rfl, rfl, fun _ => Iff.rfl, .inl rfl, [], fun a => (stripped_nil _ _ a).symm⟩

theorem Survives.trans {sch : Schema} {S : Nat → Prop} {e e' e'' : Entry} (f : Survives sch S e e')
    (g : Survives sch S e' e'') : Survives sch S e e'' where
  uuid := by rw [g.uuid, f.uuid]
  parent := by rw [g.parent, f.parent]
  life := by rw [g.life, f.life]
  ext := by rw [g.ext, f.ext]
  sc := by rw [g.sc, f.sc]
  yld := by rw [g.yld, f.yld]
  cls := fun c => (g.cls c).trans (f.cls c)
  cookie := by
    rcases f.cookie with h1 | h1
    · rcases g.cookie with h2 | h2
      · exact .inl (by rw [h2, h1])
      · exact .inr (by rw [← f.uuid]; exact h2)
    · exact .inr h1
  attrs := by
    obtain ⟨D1, h1⟩ := f.attrs
    obtain ⟨D2, h2⟩ := g.attrs
    refine ⟨D1 ++ D2, fun a => ?_⟩
    rw [h2 a, stripped_eq, h1 a, stripped_eq, stripVals_stripVals, ← stripped_eq]

/-- position by position: uuid and owner stay, and an entry no acting agreement owns survives -/
def HRel (sch : Schema) (S : Nat → Prop) (e e' : Entry) : Prop :=
  e'.uuid = e.uuid ∧ e'.syncParent = e.syncParent ∧
    ((∀ su, S su → e.syncParent ≠ some su) → Survives sch S e e')

theorem HRel.trans {sch : Schema} {S : Nat → Prop} (a b c : Entry) (f : HRel sch S a b)
    (g : HRel sch S b c) : HRel sch S a c :=
  ⟨by rw [g.1, f.1], by rw [g.2.1, f.2.1], fun hn =>
    (f.2.2 hn).trans (g.2.2 (fun su hs => by rw [f.2.1]; exact hn su hs))⟩

/-- **Over all request sequences: agreements never touch what they do not own.** Take any history
of sync requests, by any identities, with any outcome of the stages that are not modelled, and let
`S` contain every agreement that acts in it. Then the initially stored entries are still stored at
their positions with their uuid and owner, and every entry whose `sync_parent_uuid` is none of the
acting agreements — native entries, entries of agreements that do not act, recycled and tombstoned
entries of those — survives: all fields equal, except the `sync_cookie` of an acting agreement's
own account entry and references to entries that acting agreements deleted. -/
theorem history_foreign_entries_untouched (sch : Schema) (S : Nat → Prop) (ops : List Op) :
    (∀ op, op ∈ ops → ∃ id req later, op = .sync id req later ∧
      ∀ su, id.origin = .synch su → S su) →
    ∀ st : State, ∃ pre' rest, run sch st ops = pre' ++ rest ∧ Rel2 (HRel sch S) st pre' := by
  induction ops with
  | nil =>
    intro _ st
    exact ⟨st, [], by simp [run_nil], Rel2.refl (fun e => ⟨rfl, rfl, fun _ => Survives.refl _ _ _⟩) _⟩
  | cons op rest ih =>
    intro hops st
    rw [run_cons]
    have ih' := ih (fun o ho => hops o (List.mem_cons_of_mem _ ho))
    rcases step_cases sch st op with hs | ⟨st', hr, hs⟩
    · rw [hs]; exact ih' st
    · rw [hs]
      obtain ⟨id, req, later, rfl, hS⟩ := hops op List.mem_cons_self
      obtain ⟨su, ho, _, ⟨pre1, news, he, r, _⟩, _⟩ := apply_frame sch id st req st' (stepRes_sync_ok hr)
      have hsu := hS su ho
      have r1 : Rel2 (HRel sch S) st pre1 := by
        refine Rel2.mono (fun e e' f => ?_) r
        refine ⟨f.uuid, f.parent, fun hn => ?_⟩
        have u := Untouched.of_frame f (hn su hsu)
        exact
          { uuid := u.uuid, parent := u.parent, life := u.life, ext := u.ext, sc := u.sc, yld := u.yld
            cls := u.cls
            cookie := by
              rcases u.cookie with h | h
              · exact .inl h
              · exact .inr (by rw [h]; exact hsu)
            attrs := by
              obtain ⟨D, _, h⟩ := u.attrs
              exact ⟨D, h⟩ }
      obtain ⟨pre2, rest2, he2, r2⟩ := ih' st'
      rw [he] at r2
      obtain ⟨pa, pb, hsplit, ra, _⟩ := Rel2.split_append r2
      refine ⟨pa, pb ++ rest2, by rw [he2, hsplit, List.append_assoc], Rel2.trans HRel.trans r1 ra⟩

/-- The same, read at a position: the entry stored at position `i` that none of the acting
agreements owns `Survives` the history. -/
theorem history_foreign_entry_at (sch : Schema) (S : Nat → Prop) (ops : List Op)
    (hops : ∀ op, op ∈ ops → ∃ id req later, op = .sync id req later ∧
      ∀ su, id.origin = .synch su → S su)
    (st : State) (i : Nat) (hi : i < st.length) (hn : ∀ su, S su → st[i].syncParent ≠ some su) :
    ∃ hi' : i < (run sch st ops).length, Survives sch S st[i] (run sch st ops)[i] := by
  obtain ⟨pre', rest, he, r⟩ := history_foreign_entries_untouched sch S ops hops st
  have hl := r.length_eq
  have hip : i < pre'.length := by omega
  have hi' : i < (run sch st ops).length := by rw [he, List.length_append]; omega
  refine ⟨hi', ?_⟩
  have hget : (run sch st ops)[i] = pre'[i] := by
    simp only [he]
    exact List.getElem_append_left hip
  rw [hget]
  exact (r.get i hi hip).2.2 hn

/-! ### non-vacuity: concrete states, requests and histories meeting the hypotheses -/

namespace Witness

/-- `applied` is an accepted request on a state with an agreement, one of its entries and a native
group: the hypotheses of every `apply … = .ok _` theorem above are satisfiable. -/
example : ∃ st', apply sch id st req = .ok st' := ⟨_, applied⟩

/-- the agreement deletes its account: the account is recycled, the native group only loses the
reference to it (`Untouched` with `D = [account]`), nothing else moves -/
def reqDelete : Request :=
  { fromState := .refresh, toState := .active 9, entries := [], retain := .delete [5 + 2 ^ 48] }

example : apply sch id st reqDelete =
    .ok [{ agreement with cookie := some 9 }, { person with life := .recycled },
         { native with attrs := [(A.Member, [78 + 2 ^ 48])] }] := by rfl

/-- a second agreement and one of its entries -/
def agreementB : Entry := { agreement with uuid := 601 + 2 ^ 48, yieldAuth := none }
def personB : Entry := { person with uuid := 6 + 2 ^ 48, syncParent := some (601 + 2 ^ 48) }
def recycled : Entry := { person with uuid := 7 + 2 ^ 48, life := .recycled }
def st2 : State := [agreement, person, native, agreementB, personB, recycled]

def reqFor (u : Nat) : Request :=
  { fromState := .refresh, toState := .active 9,
    entries := [{ id := u, extId := some 4, schemas := [some C.Account], attrs := [(A.Name, some [3])] }],
    retain := .ignore }

/-- `sync_touches_only_owned`: naming another agreement's entry or a native entry fails the parent
assertion; deleting them is refused; `masked_ids_refused`: a recycled id is refused -/
example : apply sch id st2 (reqFor (6 + 2 ^ 48)) = .error .modifyAssertionFailed := by rfl
example : apply sch id st2 (reqFor (77 + 2 ^ 48)) = .error .modifyAssertionFailed := by rfl
example : apply sch id st2 { reqDelete with retain := .delete [6 + 2 ^ 48] } = .error .accessDenied := by
  rfl
example : apply sch id st2 (reqFor (7 + 2 ^ 48)) = .error .invalidEntryState := by rfl
/-- deleting an already recycled id is skipped, not an error; the refresh with an empty entry set
deletes the agreement's own live entry and nothing else -/
example : apply sch id st2 { reqDelete with retain := .delete [7 + 2 ^ 48] } =
    .ok [{ agreement with cookie := some 9 }, { person with life := .recycled },
         { native with attrs := [(A.Member, [78 + 2 ^ 48])] }, agreementB, personB, recycled] := by rfl

/-- `sync_never_creates_reserved`: the last reserved uuid is refused, the first free one creates a
stub owned by the agreement -/
example : apply sch id st2 (reqFor (2 ^ 48 - 1)) = .error .invalidEntryState := by rfl
example : apply sch id st2 (reqFor (2 ^ 48)) =
    .ok [{ agreement with cookie := some 9 }, { person with life := .recycled },
         { native with attrs := [(A.Member, [78 + 2 ^ 48])] }, agreementB, personB, recycled,
         { uuid := 2 ^ 48, life := .live, classes := [C.Object, C.SyncObject, C.Account],
           syncParent := some (600 + 2 ^ 48), extId := some 4, syncClasses := [C.Account],
           cookie := none, yieldAuth := none, attrs := [(A.Name, [3])] }] := by rfl

/-- `sync_never_touches_masked`: position 5 (the agreement's own recycled entry) in every accepted
request above is `recycled` itself -/
example : (apply sch id st2 (reqFor (2 ^ 48))).toOption.map (·[5]?) = some (some recycled) := by decide

/-- `sync_needs_synch_identity`: the same request with a read-write scope, or from a user -/
example : apply sch ⟨.synch (600 + 2 ^ 48), .readWrite⟩ st2 (reqFor (2 ^ 48)) = .error .accessDenied := by
  rfl
example : apply sch ⟨.user 9 none, .synchronise⟩ st2 (reqFor (2 ^ 48)) = .error .accessDenied := by rfl

/-- an attribute that is yielded, not synchronisable, or not of a requested class is rejected -/
example : apply sch id st2
    { reqFor (5 + 2 ^ 48) with
      entries := [{ id := 5 + 2 ^ 48, extId := some 3, schemas := [some C.Account],
                    attrs := [(A.PrimaryCredential, some [8])] }] } = .error .invalidEntryState := by rfl
example : apply sch id st2
    { reqFor (5 + 2 ^ 48) with
      entries := [{ id := 5 + 2 ^ 48, extId := some 3, schemas := [some C.Account],
                    attrs := [(A.SyncParentUuid, some [601 + 2 ^ 48])] }] } = .error .invalidEntryState := by
  rfl
/-- a class that is not `sync_allowed` is rejected -/
example : apply sch id st2
    { reqFor (5 + 2 ^ 48) with
      entries := [{ id := 5 + 2 ^ 48, extId := some 3, schemas := [some C.System], attrs := [] }] } =
    .error .invalidEntryState := by rfl

/-- a history of two agreements acting in turn: `history_foreign_entries_untouched` with
`S = {A, B}` speaks about the native group, with `S = {A}` also about B's entry -/
def idB : Ident := ⟨.synch (601 + 2 ^ 48), .synchronise⟩
def history : List Op :=
  [.sync id (reqFor (2 ^ 48)) true, .sync idB { reqDelete with retain := .retain [] } true,
   .sync id reqDelete false, .sync id reqDelete true]

example : (run sch st2 history).length = 7 := by decide
example : ((run sch st2 history)[2]?).map (·.attrs) = some [(A.Member, [78 + 2 ^ 48])] := by decide
example : ((run sch st2 history)[4]?).map (·.life) = some .recycled := by decide

/-- the schema of the witness has no synchronisable structural attribute -/
example : sch.structuralNotSyncable = true := by decide

end Witness

namespace UserWitness
open Kanidm.Filter

def g1 : Nat := 0x10000000000040008000000000000100
def alice : Ident := ⟨.user 0x10000000000040008000000000000200 (some [g1]), .readWrite⟩
/-- a profile granting every attribute used below, and class changes -/
def acp : AcpModify :=
  ⟨⟨.group [g1], some (.pres A.Class)⟩,
   [A.LegalName, A.DisplayName, A.UserAuthTokenSession, A.Class, A.SyncParentUuid],
   [A.LegalName, A.DisplayName, A.UserAuthTokenSession, A.Class, A.SyncParentUuid],
   [C.PosixAccount], [C.Person]⟩
def su : Nat := 600 + 2 ^ 48
def synced : Ent := toEnt Witness.person
def orphan : Ent := { synced with syncParent := none }

/-- hypotheses of `user_changes_only_yielded_plus_session_state` hold for `synced` -/
example : synced.classes = some [C.Object, C.SyncObject, C.Account] := by decide
example : synced.uuid > uuidAnonymous := by decide
example : disjoint [C.Object, C.SyncObject, C.Account] modifyGateClasses = true := by decide

/-- yielded attribute: allowed; the same attribute when not yielded: refused -/
example : modifyAllowPerEntry alice (modifyRelatedAcp alice [acp]) [(su, [A.LegalName])] synced
    [.present A.LegalName 1] = true := by decide
example : modifyAllowPerEntry alice (modifyRelatedAcp alice [acp]) [(su, [A.DisplayName])] synced
    [.present A.LegalName 1] = false := by decide
/-- session state: always allowed -/
example : modifyAllowPerEntry alice (modifyRelatedAcp alice [acp]) [] synced
    [.purged A.UserAuthTokenSession] = true := by decide
/-- the ownership marker and classes: refused although the profile grants them -/
example : modifyAllowPerEntry alice (modifyRelatedAcp alice [acp]) [(su, [A.LegalName])] synced
    [.purged A.SyncParentUuid] = false := by decide
example : modifyAllowPerEntry alice (modifyRelatedAcp alice [acp]) [(su, [A.LegalName])] synced
    [.present A.Class C.PosixAccount] = false := by decide
/-- a synchronised entry without parent: nothing is allowed -/
example : modifyAllowPerEntry alice (modifyRelatedAcp alice [acp]) [(su, [A.LegalName])] orphan
    [.purged A.UserAuthTokenSession] = false := by decide
/-- through the model's step: the yield set is read from the stored agreement -/
example : (userModify alice [acp] [{ Witness.agreement with yieldAuth := some [A.LegalName] },
    Witness.person] (5 + 2 ^ 48) [.present A.LegalName 1]).toOption.isSome = true := by decide
example : (userModify alice [acp] Witness.st (5 + 2 ^ 48) [.present A.LegalName 1]).toOption.isSome
    = false := by decide

end UserWitness

end Kanidm.SyncScope
