import KanidmProofs.Lemmas.SyncScopeApply
import KanidmProofs.C24
/-
C50 — Synchronisation agreements stay inside their own scope.

All theorems are about the definitions of `KanidmModel/SyncScope.lean` that the driver `km_c50`
executes (`apply` = `scim_sync_apply`, `userModify`, `setYield`, `step`, `run`), instantiated at
the tables `Kanidm.Gen.SyncScope.*` / `Kanidm.Gen.Access.*` regenerated from the Rust source on
every run, and — for what users may change — about C24's `modifyAllowPerEntry` (imported). They hold
for every schema, identity, stored state, request and history; the outcome of the stages that are
not modelled is the `later` flag the histories quantify over.
-/
namespace Kanidm.SyncScope
open Kanidm.Access.Write
open Kanidm.Gen.Access
open Kanidm.Gen.SyncScope

/-! ### the generated tables say what the property text says -/

/-- The reserved system range of the property: uuids `00000000-0000-0000-0000-xxxxxxxxxxxx`. -/
def reservedBound : Nat := 2 ^ 48

/-- "session and credential-reset state" of the property text -/
def sessionStateSpec : List Nat :=
  [A.UserAuthTokenSession, A.OAuth2Session, A.OAuth2ConsentScopeMap, A.CredentialUpdateIntentToken]

theorem dynMin_is_reservedBound : dynamicRangeMinimum = reservedBound := by decide

/-- the comparison of phase 2 is "below the bound" -/
theorem stubRange_spec (u : Nat) : stubRangeCmp u dynamicRangeMinimum = true ↔ u < reservedBound := by
  simp [stubRangeCmp, dynMin_is_reservedBound]

theorem session_state_is_sync_base : syncConstrainBase = sessionStateSpec := by decide

/-- The source has the shape the hand-written part of the model assumes: phase order, the guard of
the refresh clean-up, statement order of phase 2, the stub (classes, parent attribute), the
asserted attribute of both modlists, the scoped delete filters, rejection of attributes that are
not sync-owned, masked candidates skipped before the ownership test of phase 4. -/
theorem source_shape_as_modelled :
    applyPhaseOrder = modelledPhaseOrder ∧ refreshCleanupGuard = true ∧ phase2Order = [0, 1, 2, 3] ∧
    C.SyncObject ∈ stubClasses ∧ stubParentAttr = A.SyncParentUuid ∧
    extIdAssertAttr = A.SyncParentUuid ∧ extIdAttr = A.SyncExternalId ∧
    entryModAssertAttr = A.SyncParentUuid ∧ entryModClassAttrs = [A.SyncClass, A.Class] ∧
    entryModRejectsUnowned = true ∧ purgeSkipsPhantom = true ∧ classFilterIsSyncAllowed = true ∧
    cleanupFiltersScoped = 2 ∧ phase4FiltersScoped = 3 ∧ phase4MaskedSkippedFirst = true := by
  decide

/-- the gates of phase 1: only a `Synch` origin with `Synchronise` scope passes -/
theorem phase1_gates :
    (∀ o, phase1OriginDenied o = false → o = 2 ∨ 3 ≤ o) ∧ phase1OriginDenied 2 = false ∧
    (∀ s : Scope, phase1ScopeDenied s.code = false ↔ s = .synchronise) := by
  refine ⟨?_, by decide, ?_⟩
  · intro o h
    match o with
    | 0 => revert h; decide
    | 1 => revert h; decide
    | 2 => exact .inl rfl
    | n + 3 => exact .inr (by omega)
  · intro s
    cases s <;> decide

/-- ownership test of phase 4: "parent is not this agreement" -/
theorem phase4Foreign_spec (p : Option Nat) (su : Nat) : phase4Foreign p su = true ↔ p ≠ some su := by
  simp [phase4Foreign]

/-- the two attribute-set predicates of phase 3 -/
theorem attr_predicates_spec (sa y ph : Bool) :
    (syncAllowAttr sa y = true ↔ sa = true ∧ y = false) ∧
    (phantomAttr ph sa = true ↔ ph = true ∧ sa = true) := by
  cases sa <;> cases y <;> cases ph <;> decide

/-! ### one sync request -/

/-- **Only a synchronisation identity with synchronise scope can apply a sync request.** -/
theorem sync_needs_synch_identity (sch : Schema) (id : Ident) (st : State) (req : Request)
    (st' : State) (h : apply sch id st req = .ok st') :
    ∃ su, id.origin = .synch su ∧ id.scope = .synchronise := by
  obtain ⟨su, ho, hs, _⟩ := apply_frame sch id st req st' h
  exact ⟨su, ho, hs⟩

/-- What "not touched" means for a stored entry: every field is the same, except that the
agreement's own account entry may get a new `sync_cookie`, and that reference attributes lose the
references to entries of the agreement that the request deleted (referential integrity). -/
structure Untouched (sch : Schema) (su : Nat) (st' : State) (e e' : Entry) : Prop where
  uuid : e'.uuid = e.uuid
  life : e'.life = e.life
  parent : e'.syncParent = e.syncParent
  ext : e'.extId = e.extId
  sc : e'.syncClasses = e.syncClasses
  yld : e'.yieldAuth = e.yieldAuth
  cls : ∀ c, c ∈ e'.classes ↔ c ∈ e.classes
  cookie : e'.cookie = e.cookie ∨ e.uuid = su
  attrs : ∃ D, (∀ d, d ∈ D → ∃ x, x ∈ st' ∧ x.uuid = d ∧ x.syncParent = some su) ∧
    ∀ a, getA e'.attrs a = stripped sch.refAttrs D e.attrs a

theorem Untouched.of_frame {sch : Schema} {su : Nat} {auth : List Nat} {st' : State} {e e' : Entry}
    (f : Frame sch su auth (okIn su st') e e') (hn : e.syncParent ≠ some su) :
    Untouched sch su st' e e' where
  uuid := f.uuid
  life := by
    rcases f.life with h | ⟨o, _⟩
    · exact h
    · exact absurd o hn
  parent := f.parent
  ext := by
    rcases f.ext with h | o
    · exact h
    · exact absurd o hn
  sc := by
    rcases f.sc with h | o
    · exact h
    · exact absurd o hn
  yld := f.yld
  cls := fun c => ⟨fun h => by
    rcases f.clsNew c h with h1 | ⟨o, _⟩
    · exact h1
    · exact absurd o hn, f.clsKeep c⟩
  cookie := f.cookie
  attrs := by
    obtain ⟨D, hD, ha⟩ := f.attrs
    refine ⟨D, hD, fun a => ?_⟩
    apply Classical.byContradiction
    intro hne
    exact hn (ha a hne).1

/-- **An agreement touches only entries it owns.** After an accepted sync request of agreement
`su`, the stored entries are still there in the same order, and every entry whose
`sync_parent_uuid` is not `su` — native entries, other agreements' entries, recycled and tombstoned
entries of anybody else — is `Untouched`. -/
theorem sync_touches_only_owned (sch : Schema) (id : Ident) (st : State) (req : Request)
    (st' : State) (h : apply sch id st req = .ok st') :
    ∃ su, id.origin = .synch su ∧ st.length ≤ st'.length ∧
      ∀ (i : Nat) (hi : i < st.length) (hi' : i < st'.length),
        st[i].syncParent ≠ some su → Untouched sch su st' st[i] st'[i] := by
  obtain ⟨su, ho, _, ⟨pre', news, he, r, _⟩, _⟩ := apply_frame sch id st req st' h
  have hl := r.length_eq
  refine ⟨su, ho, by rw [he, List.length_append]; omega, ?_⟩
  intro i hi hi' hn
  have hip : i < pre'.length := by omega
  have hget : st'[i] = pre'[i] := by
    subst he
    exact List.getElem_append_left hip
  rw [hget]
  exact Untouched.of_frame (r.get i hi hip) hn

/-- **Entries an agreement creates are its own, fresh, and outside the reserved range.** Every
entry stored after an accepted request beyond the previously stored ones has `sync_parent_uuid`
= the agreement, class `sync_object`, a uuid no stored entry (live, recycled or tombstoned) had,
and that uuid is not below `00000000-0000-0000-0001-000000000000`. -/
theorem sync_never_creates_reserved (sch : Schema) (id : Ident) (st : State) (req : Request)
    (st' : State) (h : apply sch id st req = .ok st') :
    ∃ su, id.origin = .synch su ∧
      ∀ (i : Nat) (hi' : i < st'.length), st.length ≤ i →
        st'[i].syncParent = some su ∧ C.SyncObject ∈ st'[i].classes ∧
        (∀ e, e ∈ st → e.uuid ≠ st'[i].uuid) ∧ reservedBound ≤ st'[i].uuid := by
  obtain ⟨su, ho, _, ⟨pre', news, he, r, hn⟩, _⟩ := apply_frame sch id st req st' h
  have hl := r.length_eq
  refine ⟨su, ho, ?_⟩
  intro i hi' hge
  have hmem : st'[i] ∈ news := by
    subst he
    rw [List.getElem_append_right (by omega)]
    exact List.getElem_mem _
  have n := hn _ hmem
  refine ⟨n.parent, n.cls, n.fresh, ?_⟩
  have := n.range
  have h2 : ¬ (st'[i].uuid < reservedBound) := by
    intro hlt
    have := (stubRange_spec _).mpr hlt
    simp_all
  omega

/-- What an accepted request may do to an entry the agreement owns (`Owned` below): uuid, owner,
cookie and yield set stay; the entry may be deleted (live → recycled) but never revived; classes
are only added, and only classes the schema marks `sync_allowed`; an attribute's value set changes
only if the schema marks it `sync_allowed` and the agreement's stored yield-authority set does not
list it — or if it is the stored target of an import attribute (see `_full_false`). -/
structure OwnedChange (sch : Schema) (su : Nat) (auth : List Nat) (st' : State) (e e' : Entry) :
    Prop where
  uuid : e'.uuid = e.uuid
  parent : e'.syncParent = some su
  yld : e'.yieldAuth = e.yieldAuth
  cookie : e'.cookie = e.cookie ∨ e.uuid = su
  life : e'.life = e.life ∨ (e.life = .live ∧ e'.life = .recycled)
  clsKeep : ∀ c, c ∈ e.classes → c ∈ e'.classes
  clsNew : ∀ c, c ∈ e'.classes → c ∈ e.classes ∨ SyncClassOf sch c
  attrs : ∃ D, (∀ d, d ∈ D → ∃ x, x ∈ st' ∧ x.uuid = d ∧ x.syncParent = some su) ∧
    ∀ a, getA e'.attrs a ≠ stripped sch.refAttrs D e.attrs a → Changeable sch auth a

/-- **On its own entries an agreement changes only synchronisable, non-yielded attributes** (and
import targets). -/
theorem sync_changes_only_syncable_non_yielded_partial (sch : Schema) (id : Ident) (st : State)
    (req : Request) (st' : State) (h : apply sch id st req = .ok st') :
    ∃ su, id.origin = .synch su ∧
      ∀ (i : Nat) (hi : i < st.length) (hi' : i < st'.length),
        st[i].syncParent = some su →
          OwnedChange sch su (authorityOf st su) st' st[i] st'[i] := by
  obtain ⟨su, ho, _, ⟨pre', news, he, r, _⟩, _⟩ := apply_frame sch id st req st' h
  have hl := r.length_eq
  refine ⟨su, ho, ?_⟩
  intro i hi hi' hown
  have hip : i < pre'.length := by omega
  have hget : st'[i] = pre'[i] := by
    subst he
    exact List.getElem_append_left hip
  rw [hget]
  have f := r.get i hi hip
  exact
    { uuid := f.uuid
      parent := by rw [f.parent]; exact hown
      yld := f.yld
      cookie := f.cookie
      life := by
        rcases f.life with h | ⟨_, l, r⟩
        · exact .inl h
        · exact .inr ⟨l, r⟩
      clsKeep := f.clsKeep
      clsNew := fun c hc => by
        rcases f.clsNew c hc with h | ⟨_, s⟩
        · exact .inl h
        · exact .inr s
      attrs := by
        obtain ⟨D, hD, ha⟩ := f.attrs
        exact ⟨D, hD, fun a hne => (ha a hne).2⟩ }

/-- `Changeable` spelled out: synchronisable by the schema and not yielded, or an import target. -/
theorem changeable_iff (sch : Schema) (auth : List Nat) (a : Nat) :
    Changeable sch auth a ↔
      (∃ d, d ∈ sch.attrs ∧ d.name = a ∧ d.syncAllowed = true ∧ a ∉ auth) ∨
        ImportTarget sch auth a := by
  unfold Changeable syncAllowAttrSet
  constructor
  · rintro (h | h)
    · obtain ⟨d, hd, rfl⟩ := List.mem_map.mp h
      have hd' := List.mem_filter.mp hd
      have := (attr_predicates_spec d.syncAllowed (auth.contains d.name) false).1.mp hd'.2
      exact .inl ⟨d, hd'.1, rfl, this.1, by simpa using this.2⟩
    · exact .inr h
  · rintro (⟨d, hd, rfl, hs, hn⟩ | h)
    · refine .inl (List.mem_map.mpr ⟨d, List.mem_filter.mpr ⟨hd, ?_⟩, rfl⟩)
      exact (attr_predicates_spec d.syncAllowed (auth.contains d.name) false).1.mpr
        ⟨hs, by simpa using hn⟩
    · exact .inr h

/-- **A request naming the id of a recycled or tombstoned entry is refused.** -/
theorem masked_ids_refused (sch : Schema) (id : Ident) (st : State) (req : Request) (st' : State)
    (h : apply sch id st req = .ok st') :
    ∀ s, s ∈ req.entries → ∀ e, e ∈ st → e.uuid = s.id → e.life = .live := by
  obtain ⟨_, _, _, _, hm⟩ := apply_frame sch id st req st' h
  intro s hs e he heq
  apply live_of_not_masked
  apply hm e he
  rw [mem_ceIds_changeEntries, heq]
  exact List.mem_map.mpr ⟨s, hs, rfl⟩

/-! ### the full statement about attributes is false of the code (known finding D39) -/

/-- The statement as the property text has it: on its own entries an agreement changes only
attributes that are synchronisable and not handed over to Kanidm's authority. -/
def sync_changes_only_syncable_non_yielded_full : Prop :=
  ∀ (sch : Schema) (id : Ident) (st : State) (req : Request) (st' : State),
    apply sch id st req = .ok st' → ∀ su, id.origin = .synch su →
      ∀ e, e ∈ st → ∀ e', e' ∈ st' → e'.uuid = e.uuid → e.syncParent = some su →
        ∀ a, sch.refAttrs.contains a = false → getA e'.attrs a ≠ getA e.attrs a →
          a ∈ syncAllowAttrSet sch (authorityOf st su)

namespace Witness
/-- `account` may hold `primary_credential`; `password_import` is a synchronisable phantom. -/
def sch : Schema :=
  { classes := [⟨C.Account, true, [A.PrimaryCredential, A.Name]⟩, ⟨C.System, false, []⟩]
    attrs := [⟨A.PrimaryCredential, true, false⟩, ⟨A.PasswordImport, true, true⟩,
              ⟨A.Name, true, false⟩, ⟨A.SyncParentUuid, false, false⟩]
    refAttrs := [A.Member] }

/-- the agreement: `primary_credential` is yielded to Kanidm's authority -/
def agreement : Entry :=
  { uuid := 600 + 2 ^ 48, life := .live, classes := [C.Object, C.SyncAccount], syncParent := none,
    extId := none, syncClasses := [], cookie := none, yieldAuth := some [A.PrimaryCredential],
    attrs := [(A.Name, [1])] }

/-- a synchronised account with credential 7 -/
def person : Entry :=
  { uuid := 5 + 2 ^ 48, life := .live, classes := [C.Object, C.SyncObject, C.Account],
    syncParent := some (600 + 2 ^ 48), extId := some 3, syncClasses := [C.Account], cookie := none,
    yieldAuth := none, attrs := [(A.Name, [2]), (A.PrimaryCredential, [7])] }

/-- a native group that has the account as a member -/
def native : Entry :=
  { uuid := 77 + 2 ^ 48, life := .live, classes := [C.Object, C.Group], syncParent := none,
    extId := none, syncClasses := [], cookie := none, yieldAuth := none,
    attrs := [(A.Member, [5 + 2 ^ 48, 78 + 2 ^ 48])] }

def st : State := [agreement, person, native]

def id : Ident := ⟨.synch (600 + 2 ^ 48), .synchronise⟩

/-- the agreement sends the account again with a password import 8 -/
def req : Request :=
  { fromState := .refresh, toState := .active 9,
    entries := [{ id := 5 + 2 ^ 48, extId := some 3, schemas := [some C.Account],
                  attrs := [(A.Name, some [2]), (A.PasswordImport, some [8])] }],
    retain := .ignore }

def person' : Entry := { person with attrs := [(A.PrimaryCredential, [8]), (A.Name, [2])] }

theorem applied : apply sch id st req = .ok [{ agreement with cookie := some 9 }, person', native] := by
  rfl
end Witness

/-- **The full statement is false of the code**: with `primary_credential` yielded, a request that
carries `password_import` still replaces the stored credential (7 becomes 8) — the phantom
attribute set of phase 3 is not reduced by the yield-authority set. The harness replays this on
the implementation (class `c50-import-overrides-yielded-attribute`, known finding D39). -/
theorem sync_changes_only_syncable_non_yielded_full_false :
    ¬ sync_changes_only_syncable_non_yielded_full := by
  intro hfull
  have := hfull Witness.sch Witness.id Witness.st Witness.req _ Witness.applied (600 + 2 ^ 48) rfl
    Witness.person (by decide) Witness.person' (by decide) rfl rfl A.PrimaryCredential (by decide)
    (by decide)
  revert this
  decide

/-! ### what users may change on a synchronised entry -/

/-- **Users change a synchronised entry only in yielded attributes and session state.** For every
set of access profiles: if a user's modification of an entry that has class `sync_object` (and is
not a protected system entry) is allowed, then the entry has a parent agreement and every
attribute the modification adds values to or removes values from is one of the four session /
credential-reset attributes or is listed in that agreement's yield-authority set. A synchronised
entry without a parent agreement cannot be modified at all. -/
theorem user_changes_only_yielded_plus_session_state (id : Ident) (hu : IsUser id)
    (acps : List AcpModify) (ag : List (Nat × List Nat)) (e : Ent) (ml : List Mod) (cs : List Nat)
    (hcs : e.classes = some cs) (hsync : C.SyncObject ∈ cs)
    (hanon : e.uuid > uuidAnonymous) (hgate : disjoint cs modifyGateClasses = true)
    (h : modifyAllowPerEntry id (modifyRelatedAcp id acps) ag e ml = true) :
    ∃ su, e.syncParent = some su ∧
      ∀ m, m ∈ ml → ∀ a, (m.addsAttr = some a ∨ m.removesAttr = some a) →
        a ∈ sessionStateSpec ∨ a ∈ (ag.lookup su).getD [] := by
  obtain ⟨u, mo, ho⟩ := hu
  have hu : IsUser id := ⟨u, mo, ho⟩
  obtain ⟨a, p, r, ha, _, h1, h2, _, _⟩ := modifyAllow_user_unfold hu _ ag e ml h
  have hsc : id.scope = .readWrite := by
    rcases applyModify_user hu (modifyRelatedAcp id acps) ag e with hd | ⟨a', _, hsc, _⟩
    · rw [hd] at ha; cases ha
    · exact hsc
  have hprot : modifyProtectedAttrs id e = .ignore := by
    have : modifyAnonCmp e.uuid uuidAnonymous = true := by simp [modifyAnonCmp]; omega
    simp [modifyProtectedAttrs, ho, hcs, this, hgate]
  cases hpar : e.syncParent with
  | none =>
    exfalso
    have hs : modifySyncConstrain id e ag = .deny := by
      simp [modifySyncConstrain, ho, hcs, hsync, hpar]
    have hnd : modifyScopeDenied id.scope.code = false := by rw [hsc]; rfl
    have hident : modifyIdentTest id = .ignore := by rw [modifyIdentTest_user hu, hnd]; rfl
    have hmig := modifyMigration_user hu e
    have : applyModifyAccess id (modifyRelatedAcp id acps) ag e = .deny := by
      simp [applyModifyAccess, hident, hmig, hprot, hs]
    rw [this] at ha
    cases ha
  | some su =>
    refine ⟨su, rfl, ?_⟩
    have hs : modifySyncConstrain id e ag =
        .constrain (syncConstrainBase ++ (ag.lookup su).getD [])
          (syncConstrainBase ++ (ag.lookup su).getD []) none none := by
      simp [modifySyncConstrain, ho, hcs, hsync, hpar]
    have heq := applyModify_user_eq hu hsc (modifyRelatedAcp id acps) ag e
      (by rw [hprot]; intro hc; cases hc) (by rw [hs]; intro hc; cases hc)
    rw [heq] at ha
    injection ha with ha
    subst ha
    have hne : conOf (modifyProtectedAttrs id e) ++ conOf (modifySyncConstrain id e ag) ≠ [] := by
      rw [hprot, hs]
      simp [conOf, syncConstrainBase]
    have hcon : ∀ x, x ∈ conOf (modifyProtectedAttrs id e) ++ conOf (modifySyncConstrain id e ag) →
        x ∈ sessionStateSpec ∨ x ∈ (ag.lookup su).getD [] := by
      intro x hx
      rw [hprot, hs] at hx
      simp only [conOf, List.nil_append] at hx
      rcases List.mem_append.mp hx with hb | hy
      · exact .inl (by rw [← session_state_is_sync_base]; exact hb)
      · exact .inr hy
    intro m hm x hx
    rcases hx with hx | hx
    · exact hcon x (mem_constrainWith_con hne
        ((subset_iff _ _).mp h1 x (addsAttr_mem_requestedPres hm hx)))
    · exact hcon x (mem_constrainWith_con hne
        ((subset_iff _ _).mp h2 x (removesAttr_mem_requestedRem hm hx)))

end Kanidm.SyncScope
