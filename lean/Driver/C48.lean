import KanidmModel.Proto
import KanidmModel.Migration
/-!
Driver for C48 (stateless).

* `attrs` → `Name=id …` the special attribute ids of the model (the harness numbers every other attribute ≥ 100)
* `modlist <multi> | <def>` → the modifications of `genModlistAssert`: `P<a>` / `A<a>:<v>` separated by spaces,
  `-` for none, `err:schema`
* `upsert <multi> | <pre> | <def>` → `create <attrs>` / `modify <attrs>` / `err:<kind>`;
  `<pre>` = `absent` or attributes, `<attrs>` = `a:v.v,a:v` sorted by attribute id, values sorted (`-` = none)
* `upgrade <dbv> <tgt> <taint> <patch>` → `ok <level>` / `err:<code>`
* `ran <dbv> <tgt> <taint> <patch>` → `ok <level> <migration names>` / `err:<code>`

`<multi>` = `a=0|1|x,…` (x = attribute unknown to the schema), `<def>` = `a:v.v,a:v` in the definition's own order.
-/
open Kanidm Kanidm.Proto Kanidm.Migration Kanidm.Gen.Migration

def parseVals (s : String) : Option (List Nat) :=
  if s == "" then some [] else (s.splitOn ".").mapM nat?

def parseAttr (s : String) : Option (Nat × List Nat) :=
  match s.splitOn ":" with
  | [a, vs] => do pure ((← nat? a), (← parseVals vs))
  | _ => none

def parseDef (s : String) : Option Def :=
  if s == "-" || s == "" then some [] else (s.splitOn ",").mapM parseAttr

def parseMulti (s : String) : Option (List (Nat × Option Bool)) :=
  if s == "-" || s == "" then some [] else
  (s.splitOn ",").mapM (fun it =>
    match it.splitOn "=" with
    | [a, "1"] => do pure ((← nat? a), some true)
    | [a, "0"] => do pure ((← nat? a), some false)
    | [a, "x"] => do pure ((← nat? a), none)
    | _ => none)

def multiFn (l : List (Nat × Option Bool)) : Nat → Option Bool := fun a =>
  match l.lookup a with
  | some r => r
  | none => none

def showMod : Mod → String
  | .purged a => "P" ++ toString a
  | .present a v => "A" ++ toString a ++ ":" ++ toString v

def dedupNats : List Nat → List Nat
  | [] => []
  | x :: xs => x :: (dedupNats xs).filter (· != x)

def showEnt (keys : List Nat) (e : Ent) : String :=
  let ks := dedupNats (sortNats keys)
  let items := ks.filterMap (fun a =>
    let vs := dedupNats (sortNats (e a))
    if vs.isEmpty then none else some (toString a ++ ":" ++ ".".intercalate (vs.map toString)))
  if items.isEmpty then "-" else ",".intercalate items

def env0 (m : Nat → Option Bool) : Env :=
  { multi := m, acceptCreate := fun _ _ _ => true, acceptModify := fun _ _ _ => true,
    isRef := fun _ => false, valClassType := 0, valAttributeType := 0 }

def showCode : Code → String
  | .MG0001 => "MG0001" | .MG0004 => "MG0004" | .MG0008 => "MG0008" | .MG0009 => "MG0009" | .MG0010 => "MG0010"

def section3 (line : String) : List String := (line.splitOn " | ").map (fun s => s.trimAscii.toString)

def handle (line : String) : String :=
  match tokens line with
  | ["attrs"] => " ".intercalate (attrTable.map (fun p => p.1 ++ "=" ++ toString p.2))
  | "modlist" :: _ =>
    match section3 ((line.trimAscii.toString.drop 8).toString) with
    | [m, d] =>
      match parseMulti m, parseDef d with
      | some m, some d =>
        match genModlistAssert (multiFn m) d with
        | none => "err:schema"
        | some ms => if ms.isEmpty then "-" else " ".intercalate (ms.map showMod)
      | _, _ => "bad-op"
    | _ => "bad-op"
  | "upsert" :: _ =>
    match section3 ((line.trimAscii.toString.drop 7).toString) with
    | [m, pre, d] =>
      match parseMulti m, parseDef d with
      | some m, some d =>
        let uuid := 1
        let keys (p : Def) := p.map (·.1) ++ d.map (·.1) ++ [attrMember]
        if pre == "absent" then
          match migrateOrCreate (env0 (multiFn m)) [] uuid d with
          | .ok db =>
            match (hits db uuid) with
            | [x] => "create " ++ showEnt ((keys []).filter (· != attrMemberCreateOnce)) x.attrs
            | _ => "err:internal"
          | .error _ => "err:create"
        else
          match parseDef pre with
          | some p =>
            match migrateOrCreate (env0 (multiFn m)) [⟨uuid, true, entOfDef p⟩] uuid d with
            | .ok db =>
              match (hits db uuid) with
              | [x] => "modify " ++ showEnt (keys p) x.attrs
              | _ => "err:internal"
            | .error .schemaViolation => "err:schema"
            | .error _ => "err:modify"
          | none => "bad-op"
      | _, _ => "bad-op"
    | _ => "bad-op"
  | ["upgrade", a, b, t, p] =>
    match nat? a, nat? b, bool? t, nat? p with
    | some a, some b, some t, some p =>
      match initialise a b t p with
      | .ok (l, _) => "ok " ++ toString l
      | .error c => "err:" ++ showCode c
    | _, _, _, _ => "bad-op"
  | ["ran", a, b, t, p] =>
    match nat? a, nat? b, bool? t, nat? p with
    | some a, some b, some t, some p =>
      match initialise a b t p with
      | .ok (l, fs) => "ok " ++ toString l ++ " " ++ showList (fun f => (migrationNames.getD f "?")) fs
      | .error c => "err:" ++ showCode c
    | _, _, _, _ => "bad-op"
  | _ => "bad-op"

def main : IO Unit := runPure handle
