import KanidmModel.Proto
import KanidmModel.Filter.Sexp
import KanidmModel.Filter.Idl
/-!
Driver for C01. Requests (fields separated by ` | `):

  `db | id:a=V+V,a=V;id:-;…`            → `ok <n>`       stored entries (ids ascending)
  `tbl | a:t,a:t,…`  (t ∈ e s p o)      → `ok <n>`       the index tables that exist
  `rows | a:t:K:i.i.i:c;…`              → `ok <n>`       their rows (K a value; presence key `s95`;
                                                         c = 1 iff the stored id set is compressed)
  `sound`                               → `sound` | `unsound a t K`
        the tables agree, key by key, with the reference index `idxOf` of the stored entries
  `f2i <thres> | <F>`                   → `<kind> <ids>`  `F.idl`   (kind ∈ AllIds Partial PartialThreshold Indexed)
  `search <ua> <maxres> <maxft> <thres|-> | <F>` → `ok <ids>` | `err limit`
  `exists <ua> <maxres> <maxft> <thres|-> | <F>` → `ok 0|1` | `err limit`
        (`-` = the generated `FILTER_*_TEST_THRESHOLD`)
  `mm | <F>`                            → bit per stored entry: `F.matches ValSem.std`
  `cls | <F>`                           → `<safe 0|1> <plain 0|1>`
  `consts`                              → `<thresSearch> <thresExists> <thresSubstr>`
  `repmode 0|1|2`                       → `ok`   representation of stored id sets: as sent / all sparse / all compressed
-/
open Kanidm Kanidm.Proto Kanidm.Filter

structure St where
  w : World
  assoc : List (Nat × List (Nat × List Val))
  tbls : List (Nat × IType)
  rows : List (Nat × IType × Val × List Nat × Bool)
  /-- 0 = representation flags as sent with the rows, 1 = every stored set sparse, 2 = every one compressed -/
  repMode : Nat

def St.init : St := ⟨⟨[], fun _ => Entry.ofList []⟩, [], [], [], 0⟩

def fields (line : String) : List String :=
  (line.splitOn "|").map (fun s => s.trimAscii.toString)

def itypeOf (s : String) : Option IType :=
  match s with
  | "e" => some .equality | "s" => some .substring | "p" => some .presence | "o" => some .ordering
  | _ => none

def itypeChar : IType → String
  | .equality => "e" | .substring => "s" | .presence => "p" | .ordering => "o"

def St.idx (st : St) : Idx := fun a t k =>
  if st.tbls.contains (a, t) then
    some (match st.rows.find? (fun r => r.1 == a && r.2.1 == t && r.2.2.1 == k) with
      | some r => r.2.2.2.1
      | none => [])
  else none

def St.rep (st : St) : Rep := fun a t k =>
  if st.repMode == 1 then false else if st.repMode == 2 then true else
  match st.rows.find? (fun r => r.1 == a && r.2.1 == t && r.2.2.1 == k) with
  | some r => r.2.2.2.2
  | none => false

def parseDb (s : String) : Option (List (Nat × List (Nat × List Val))) :=
  if s == "-" || s == "" then some [] else
  (s.splitOn ";").mapM fun item =>
    match item.splitOn ":" with
    | [id, body] => do pure (← id.toNat?, ← Entry.parseAssoc body)
    | _ => none

def mkWorld (l : List (Nat × List (Nat × List Val))) : World :=
  ⟨l.map (·.1), fun id =>
    match l.find? (fun p => p.1 == id) with
    | some p => Entry.ofList p.2
    | none => Entry.ofList []⟩

def parseTbls (s : String) : Option (List (Nat × IType)) :=
  (splitList s).mapM fun item =>
    match item.splitOn ":" with
    | [a, t] => do pure (← a.toNat?, ← itypeOf t)
    | _ => none

def parseIds (s : String) : Option (List Nat) :=
  if s == "-" || s == "" then some [] else (s.splitOn ".").mapM String.toNat?

def parseRows (s : String) : Option (List (Nat × IType × Val × List Nat × Bool)) :=
  if s == "-" || s == "" then some [] else
  (s.splitOn ";").mapM fun item =>
    match item.splitOn ":" with
    | [a, t, k, ids, c] => do
      pure (← a.toNat?, ← itypeOf t, ← Val.ofString k, ← parseIds ids, ← bool? c)
    | _ => none

def kindName : Kind → String
  | .allIds => "AllIds" | .part => "Partial" | .thres => "PartialThreshold" | .idxd => "Indexed"

def sameSet (a b : List Nat) : Bool := sortNats a == sortNats b

/-- every key that can make a table row differ from the reference index: the keys of the rows
and the keys the stored entries generate -/
def keysFor (st : St) (a : Nat) (t : IType) : List Val :=
  let fromRows := (st.rows.filter (fun r => r.1 == a && r.2.1 == t)).map (·.2.2.1)
  let vals := st.w.live.flatMap (fun id => st.w.ent id a)
  let fromEnts := match t with
    | .equality => vals
    | .presence => [presKey]
    | .substring => (vals.flatMap subKeysOf).map Val.str
    | .ordering => []
  fromRows ++ fromEnts

def checkSound (st : St) : String :=
  let ref := idxOf st.w (fun a t => st.tbls.contains (a, t))
  let bad := st.tbls.findSome? fun (a, t) =>
    if t == .ordering then none else
    (keysFor st a t).findSome? fun k =>
      match st.idx a t k, ref a t k with
      | some x, some y => if sameSet x y then none else some s!"unsound {a} {itypeChar t} {k.render}"
      | _, _ => some s!"unsound {a} {itypeChar t} {k.render}"
  bad.getD "sound"

def parseLim (ua mr mf : String) : Option Limits := do
  pure ⟨← bool? ua, ← mr.toNat?, ← mf.toNat?⟩

def handle (st : St) (line : String) : St × String :=
  match fields line with
  | [hd] =>
    match tokens hd with
    | ["sound"] => (st, checkSound st)
    | ["consts"] => (st, s!"{thresSearch} {thresExists} {thresSubstr}")
    | ["repmode", m] => ({ st with repMode := m.toNat?.getD 0 }, "ok")
    | _ => (st, "bad-op")
  | [hd, x] =>
    match tokens hd with
    | ["db"] =>
      match parseDb x with
      | some l => ({ st with w := mkWorld l, assoc := l }, s!"ok {l.length}")
      | none => (st, "bad-db")
    | ["tbl"] =>
      match parseTbls x with
      | some l => ({ st with tbls := l }, s!"ok {l.length}")
      | none => (st, "bad-tbl")
    | ["rows"] =>
      match parseRows x with
      | some l => ({ st with rows := l }, s!"ok {l.length}")
      | none => (st, "bad-rows")
    | ["f2i", thres] =>
      match thres.toNat?, F.parse x with
      | some thres, some f =>
        let i := f.idl st.idx st.rep thres
        (st, s!"{kindName i.kind} {showNatList (sortNats i.ids)}")
      | _, _ => (st, "bad-args")
    | ["search", ua, mr, mf, thres] =>
      match parseLim ua mr mf, F.parse x with
      | some lim, some f =>
        let r := match thres.toNat? with
          | some t => searchT t ValSem.std lim st.w st.idx st.rep f
          | none => search ValSem.std lim st.w st.idx st.rep f
        match r with
        | .ok ids => (st, s!"ok {showNatList (sortNats ids)}")
        | .error _ => (st, "err limit")
      | _, _ => (st, "bad-args")
    | ["exists", ua, mr, mf, thres] =>
      match parseLim ua mr mf, F.parse x with
      | some lim, some f =>
        let r := match thres.toNat? with
          | some t => existsT t ValSem.std lim st.w st.idx st.rep f
          | none => «exists» ValSem.std lim st.w st.idx st.rep f
        match r with
        | .ok b => (st, s!"ok {showBool b}")
        | .error _ => (st, "err limit")
      | _, _ => (st, "bad-args")
    | ["mm"] =>
      match F.parse x with
      | some f => (st, String.ofList (st.w.live.map fun id =>
          if f.matches ValSem.std (st.w.ent id) then '1' else '0'))
      | none => (st, "bad-filter")
    | ["cls"] =>
      match F.parse x with
      | some f => (st, s!"{showBool f.safe} {showBool f.plain}")
      | none => (st, "bad-filter")
    | _ => (st, "bad-op")
  | _ => (st, "bad-op")

def main : IO Unit := run St.init handle
