import KanidmModel.Proto
import KanidmModel.Validity
/-! Driver for C49.

* `try <surface> <readVf 0|1> <readEx 0|1> <vf|-> <ex|-> <ct> <pre 0|1>` → `ok` | `refused`
  (`attempt` of the model; times in nanoseconds since the epoch);
* `gate account|radius <vf|-> <ex|-> <ct>` → `1` | `0` (the bare gate functions);
* `surfaces` → the entry points of the generated table, comma separated;
* `gated <surface>` → `1` | `0`. -/
open Kanidm Kanidm.Proto Kanidm.Validity Kanidm.Gen.Validity

def optNat? (s : String) : Option (Option Nat) :=
  if s == "-" then some none else (nat? s).map some

def sid? (s : String) : Option Sid := (sidNames.find? (fun p => p.1 == s)).map (·.2)

def sidName (s : Sid) : String :=
  match sidNames.find? (fun p => p.2 == s) with
  | some p => p.1
  | none => "?"

def handle (line : String) : String :=
  match tokens line with
  | ["try", s, rv, re, vf, ex, ct, pre] =>
    match sid? s, bool? rv, bool? re, optNat? vf, optNat? ex, nat? ct, bool? pre with
    | some s, some rv, some re, some vf, some ex, some ct, some pre =>
      match attempt s ⟨rv, re⟩ ⟨vf, ex⟩ ct pre with
      | .ok => "ok"
      | .refused => "refused"
    | _, _, _, _, _, _, _ => "bad-op"
  | ["gate", k, vf, ex, ct] =>
    match optNat? vf, optNat? ex, nat? ct with
    | some vf, some ex, some ct =>
      if k == "account" then showBool (accountGate ⟨vf, ex⟩ ct)
      else if k == "radius" then showBool (radiusGate ⟨vf, ex⟩ ct)
      else "bad-op"
    | _, _, _ => "bad-op"
  | ["surfaces"] => showList sidName entryPoints
  | ["gated", s] =>
    match sid? s with
    | some s => showBool (gated depth s)
    | none => "bad-op"
  | _ => "bad-op"

def main : IO Unit := runPure handle
