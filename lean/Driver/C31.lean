import KanidmModel.Proto
import KanidmModel.PwQuality
/-!
Driver for C31 (stateful: a `lower` table, one account, one credential update session).

Encodings: a text is its scalar values joined by `.` (`e` = empty text); `-` = absent option /
empty list; lists of texts are `,`-separated; a policy list is `min:cred;min:cred` with `-` for
an absent attribute (`-` alone = no group policies).

  reset                                   forget everything
  low T L                                 register `lower T = L` (default: identity)
  lowg T                                  `lowerGreek T`
  check cu|posix POL RADIUS RELATED BADRAW G SCORE T     one gate evaluation
  acct POSIX HASPRIMARY HASUNIX RADIUS RELATED           the account
  init POL PRIMARYCANEDIT UNIXCANEDIT                    `init_credential_update`
  sp|su BADRAW G SCORE T                                 set primary / unix password in the session
  dp | du                                                delete primary / unix in the session
  commit CANCOMMIT                                       `commit_credential_update`
  direct POL ALLOWED BADRAW G SCORE T                    `set_unix_account_password`
  show                                                   stored credentials
-/
open Kanidm Kanidm.Proto Kanidm.PwQuality Kanidm.AccountPolicy

def text? (s : String) : Option (List Nat) :=
  if s == "e" then some [] else (s.splitOn ".").mapM nat?

def showText (t : List Nat) : String :=
  if t.isEmpty then "e" else ".".intercalate (t.map toString)

def optText? (s : String) : Option (Option (List Nat)) :=
  if s == "-" then some none else (text? s).map some

def textList? (s : String) : Option (List (List Nat)) :=
  (splitList s).mapM text?

def optNat? (s : String) : Option (Option Nat) :=
  if s == "-" then some none else (nat? s).map some

def policies? (s : String) : Option (List AccountPolicy) :=
  if s == "-" then some []
  else (s.splitOn ";").mapM fun item =>
    match item.splitOn ":" with
    | [m, c] => do
      let m ← optNat? m
      let c ← optNat? c
      pure (fromEntry ⟨none, none, m, c, none, none, none, none⟩)
    | _ => none

structure St where
  tbl : List (List Nat × List Nat) := []
  acct : Account := ⟨none, none, false, none, []⟩
  sess : Option Session := none

def St.lower (st : St) (t : List Nat) : List Nat :=
  match st.tbl.find? (fun p => p.1 == t) with
  | some p => p.2
  | none => t

def showReject : Reject → String
  | .tooShort n => s!"tooshort {n}"
  | .tooLong n => s!"toolong {n}"
  | .dontReuse => "dontreuse"
  | .related => "related"
  | .weak => "weak"
  | .badlisted => "badlisted"

def showErr : Err → String
  | .accessDenied => "accessdenied"
  | .missingPosix => "missingposix"
  | .quality r => "quality:" ++ showReject r

def showStored : Option Stored → String
  | none => "none"
  | some (.old _) => "old"
  | some (.fresh i _) => "fresh:" ++ showText i.text

def showState : CredState → String
  | .modifiable => "modifiable"
  | .deleteOnly => "deleteonly"
  | .accessDeny => "accessdeny"
  | .policyDeny => "policydeny"

def showAcct (a : Account) : String :=
  s!"primary={showStored a.primary} unix={showStored a.unix}"

def input? (g score t : String) : Option Input := do
  let g ← nat? g
  let sc ← nat? score
  let t ← text? t
  pure ⟨t, g, sc⟩

def sessOp (st : St) (f : Session → Except Err Session) : St × String :=
  match st.sess with
  | none => (st, "nosession")
  | some s =>
    match f s with
    | .ok s' => ({ st with sess := some s' }, "ok")
    | .error e => (st, showErr e)

def handle (st : St) (line : String) : St × String :=
  match tokens line with
  | ["reset"] => ({}, "ok")
  | ["low", t, l] =>
    match text? t, text? l with
    | some t, some l => ({ st with tbl := (t, l) :: st.tbl }, "ok")
    | _, _ => (st, "bad-op")
  | ["lowg", t] =>
    match text? t with
    | some t => (st, showText (lowerGreek t))
    | none => (st, "bad-op")
  | ["check", which, pol, radius, related, bad, g, score, t] =>
    match policies? pol, optText? radius, textList? related, textList? bad, input? g score t with
    | some pol, some radius, some related, some bad, some i =>
      let ctx : Ctx := { badlist := storeBadlist st.lower bad, radius := radius, related := related }
      let r :=
        if which == "cu" then some (cuCheck st.lower ctx (foldFrom pol) i)
        else if which == "posix" then some (posixCheck st.lower ctx (foldFrom pol) i)
        else none
      match r with
      | some none => (st, "ok")
      | some (some rej) => (st, showReject rej)
      | none => (st, "bad-op")
    | _, _, _, _, _ => (st, "bad-op")
  | ["acct", posix, hp, hu, radius, related] =>
    match bool? posix, bool? hp, bool? hu, optText? radius, textList? related with
    | some posix, some hp, some hu, some radius, some related =>
      let a : Account :=
        { primary := if hp then some (.old 0) else none
          unix := if hu then some (.old 1) else none
          isPosix := posix, radius := radius, related := related }
      ({ st with acct := a, sess := none }, "ok")
    | _, _, _, _, _ => (st, "bad-op")
  | ["init", pol, pe, ue] =>
    match policies? pol, bool? pe, bool? ue with
    | some pol, some pe, some ue =>
      let s := initSession (foldFrom pol) st.acct ⟨pe, ue⟩
      ({ st with sess := some s }, s!"{showState s.primaryState} {showState s.unixState}")
    | _, _, _ => (st, "bad-op")
  | [op, bad, g, score, t] =>
    match textList? bad, input? g score t with
    | some bad, some i =>
      let bl := storeBadlist st.lower bad
      if op == "sp" then sessOp st (fun s => setPrimary st.lower bl s i)
      else if op == "su" then sessOp st (fun s => setUnix st.lower bl s i)
      else (st, "bad-op")
    | _, _ => (st, "bad-op")
  | ["dp"] => sessOp st deletePrimary
  | ["du"] => sessOp st deleteUnix
  | ["commit", cc] =>
    match bool? cc, st.sess with
    | some cc, some s =>
      let a := commit s st.acct cc
      ({ st with acct := a, sess := none }, showAcct a)
    | _, _ => (st, "bad-op")
  | ["direct", pol, allowed, bad, g, score, t] =>
    match policies? pol, bool? allowed, textList? bad, input? g score t with
    | some pol, some allowed, some bad, some i =>
      match setUnixDirect st.lower (storeBadlist st.lower bad) (foldFrom pol) st.acct allowed i with
      | .ok a => ({ st with acct := a }, "ok")
      | .error e => (st, showErr e)
    | _, _, _, _ => (st, "bad-op")
  | ["show"] => (st, showAcct st.acct)
  | _ => (st, "bad-op")

def main : IO Unit := run ({} : St) handle
