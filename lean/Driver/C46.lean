import KanidmModel.Proto
import KanidmModel.Radius
/-!
Driver for C46.  One request per line:

  `auth <required> <defaultVlan> <groupcfgs> <dir> <san> <cn> <user>`

* `required`  : `a,b,c` | `-`
* `groupcfgs` : `spn:vlan:attrs` joined by `,` | `-`;  attrs = `k=v` joined by `+` | `-`
* `dir`       : entries joined by `;` | `-`;  entry = `id=ok:name:uuid:secret:groups` | `id=st:code` | `id=br`;
                groups = `spn/uuid` joined by `+` | `-`;  ids not listed answer status 404
* `san cn user` : a natural | `-`

Reply: `accept <name> <uuid> <secret> <vlan> <attrs>` (attrs `k=v,…` | `-`) or `err <AuthError variant>`.
-/
open Kanidm Kanidm.Proto Kanidm.Radius Kanidm.Gen.Radius

def plusList (s : String) : List String :=
  if s == "-" || s == "" then [] else s.splitOn "+"

def parseAttrs (s : String) : Option (List (Nat × Nat)) :=
  (plusList s).mapM fun kv =>
    match kv.splitOn "=" with
    | [k, v] => do pure ((← nat? k), (← nat? v))
    | _ => none

def parseGroupCfgs (s : String) : Option (List GroupCfg) :=
  (splitList s).mapM fun it =>
    match it.splitOn ":" with
    | [spn, vlan, attrs] => do pure ⟨← nat? spn, ← nat? vlan, ← parseAttrs attrs⟩
    | _ => none

def parseGroups (s : String) : Option (List Group) :=
  (plusList s).mapM fun g =>
    match g.splitOn "/" with
    | [spn, uuid] => do pure ⟨← nat? spn, ← nat? uuid⟩
    | _ => none

def parseDir (s : String) : Option (List (Nat × Http)) :=
  (if s == "-" || s == "" then [] else s.splitOn ";").mapM fun e =>
    match e.splitOn "=" with
    | [id, v] =>
      match v.splitOn ":" with
      | ["ok", name, uuid, secret, groups] => do
        pure (← nat? id, .ok ⟨← nat? name, ← nat? uuid, ← nat? secret, ← parseGroups groups⟩)
      | ["st", code] => do pure (← nat? id, .status (← nat? code))
      | ["br"] => do pure (← nat? id, .broken)
      | _ => none
    | _ => none

def dirOf (l : List (Nat × Http)) (id : Nat) : Http :=
  match l.find? (·.1 == id) with
  | some e => e.2
  | none => .status 404

def optNat? (s : String) : Option (Option Nat) :=
  if s == "-" then some none else (nat? s).map some

def showOutcome : Outcome → String
  | .accept r =>
    s!"accept {r.name} {r.uuid} {r.secret} {r.vlan} " ++
      showList (fun kv : Nat × Nat => s!"{kv.1}={kv.2}") r.attrs
  | .err e => "err " ++ e.name

def handle (line : String) : String :=
  match tokens line with
  | ["auth", req, dv, gcs, dir, san, cn, user] =>
    match natList? req, nat? dv, parseGroupCfgs gcs, parseDir dir, optNat? san, optNat? cn, optNat? user with
    | some req, some dv, some gcs, some dir, some san, some cn, some user =>
      showOutcome (authorise ⟨req, dv, gcs⟩ (dirOf dir) ⟨san, cn, user⟩)
    | _, _, _, _, _, _, _ => "bad-op"
  | _ => "bad-op"

def main : IO Unit := runPure handle
