import KanidmModel.Proto
import KanidmModel.SessionPlugin
/-! Driver for C36 (stateful; accounts are independent entries, one `Entry` per account index).

State ops (reply `ok`):
  `reset` · `acct a c|-` (fresh entry with that primary credential)
  `w a ct cid <mod>` — one local modify = modlist then plugin; `<mod>` is one of
     `prim c|-` · `upd fresh` · `pk+ c` · `pk- c` · `apk+ c` · `apk- c` · `o2c c|-`
     `rec s cred exp|- issued` · `rev s` · `purge` · `grant o parent|- exp|- issued` · `revo2 o` · `touch`
  `rep a absent|empty` — how the implementation currently represents an empty login-session attribute
Queries:
  `uats a`  → `absent` | `-` | `k:E<exp>|N|R:cred,…` (sorted by session id)
  `o2s a`   → `-` | `k:E<exp>|N|R:parent|-:issued,…`
  `creds a` → sorted `cred_ids`
  `chk a sid parent|- iatSecs ct` → `1` | `0`  (`check_oauth2_account_uuid_valid`)
-/
open Kanidm Kanidm.Proto Kanidm.SessionPlugin Kanidm.SessionMerge Kanidm.Gen.SessionOrd

abbrev St := List (Nat × Entry)

def getE (st : St) (a : Nat) : Option Entry := (st.find? (·.1 == a)).map (·.2)

def setE (st : St) (a : Nat) (e : Entry) : St := (a, e) :: st.filter (·.1 != a)

def optNat? (s : String) : Option (Option Nat) :=
  if s == "-" then some none else (nat? s).map some

def showOpt : Option Nat → String
  | some n => toString n
  | none => "-"

def showState : SState → String
  | .expiresAt e => s!"E{e}"
  | .neverExpires => "N"
  | .revokedAt _ => "R"

def showUat (e : Nat × Sess) : String := s!"{e.1}:{showState e.2.state}:{credOf e.2}"

def showO2 (e : Nat × Sess) : String :=
  s!"{e.1}:{showState e.2.state}:{showOpt (parentOf e.2)}:{e.2.issued}"

def parseMod : List String → Option Mod
  | ["prim", c] => (optNat? c).map .setPrimary
  | ["upd", c] => (nat? c).map .updatePrimary
  | ["pk+", c] => (nat? c).map .addPasskey
  | ["pk-", c] => (nat? c).map .delPasskey
  | ["apk+", c] => (nat? c).map .addAttested
  | ["apk-", c] => (nat? c).map .delAttested
  | ["o2c", c] => (optNat? c).map .setOauth2Cred
  | ["rec", s, c, e, i] => do
    let s ← nat? s; let c ← nat? c; let e ← optNat? e; let i ← nat? i
    pure (.record s c e i)
  | ["rev", s] => (nat? s).map .revoke
  | ["purge"] => some .purgeUats
  | ["grant", o, p, e, i] => do
    let o ← nat? o; let p ← optNat? p; let e ← optNat? e; let i ← nat? i
    pure (.grant o p e i)
  | ["revo2", o] => (nat? o).map .revokeO2
  | ["touch"] => some .touch
  | _ => none

def handle (st : St) (line : String) : St × String :=
  match tokens line with
  | ["reset"] => ([], "ok")
  | ["acct", a, c] =>
    match nat? a, optNat? c with
    | some a, some c => (setE st a (Entry.fresh c), "ok")
    | _, _ => (st, "bad-op")
  | "w" :: a :: ct :: cid :: rest =>
    match nat? a, nat? ct, nat? cid, parseMod rest with
    | some a, some ct, some cid, some m =>
      match getE st a with
      | some e => (setE st a (step e (.write m ct cid)), "ok")
      | none => (st, "no-acct")
    | _, _, _, _ => (st, "bad-op")
  | ["rep", a, r] =>
    -- representation of an *empty* login-session attribute (absent vs empty map) follows the
    -- implementation's entry cache / store round trip (D27); only an empty map can be re-labelled
    match (nat? a).bind (getE st) , nat? a with
    | some e, some a =>
      if (e.uats.getD []).isEmpty then
        (setE st a { e with uats := if r == "absent" then none else some [] }, "ok")
      else (st, "nonempty")
    | _, _ => (st, "bad-op")
  | ["uats", a] =>
    match (nat? a).bind (getE st) with
    | some e =>
      match e.uats with
      | none => (st, "absent")
      | some m => (st, showList showUat (sortByKey m))
    | none => (st, "bad-op")
  | ["o2s", a] =>
    match (nat? a).bind (getE st) with
    | some e => (st, showList showO2 (sortByKey e.o2s))
    | none => (st, "bad-op")
  | ["creds", a] =>
    match (nat? a).bind (getE st) with
    | some e => (st, showNatList (sortNats (credIds e)))
    | none => (st, "bad-op")
  | ["chk", a, sid, p, iat, ct] =>
    match (nat? a).bind (getE st), nat? sid, optNat? p, nat? iat, nat? ct with
    | some e, some sid, some p, some iat, some ct => (st, showBool (o2Check e sid p iat ct))
    | _, _, _, _, _ => (st, "bad-op")
  | _ => (st, "bad-op")

def main : IO Unit := run ([] : St) handle
