import KanidmModel.Proto
import KanidmModel.PwFormat
/-! Driver for C30.
  `parse <hex of the UTF-8 import string | ->`  → `ok <TAG> fields…` | `err <Kind>`
  `sc <5|6> <hex>`                              → `ok <rounds> <salt hex> <hash hex>` | `bad`
  `guard <len>`                                 → `1` when verify refuses a cleartext of that byte length
  `render <kind> …`                             → hex of the rendered import string
-/
open Kanidm Kanidm.Proto Kanidm.PwFormat Kanidm.Gen.PwFormat

def hexNib (c : Char) : Option Nat := hexVal c

def unhex (s : String) : Option ByteArray :=
  if s == "-" then some ByteArray.empty
  else (hexDecode s.toList).map fun bs => ByteArray.mk (bs.map (·.toUInt8)).toArray

def unhexStr (s : String) : Option (List Char) :=
  (unhex s).bind fun b => (String.fromUTF8? b).map (·.toList)

def unhexBytes (s : String) : Option Bytes := (unhex s).map fun b => b.toList.map (·.toNat)

def hx (b : Bytes) : String :=
  if b.isEmpty then "-" else String.ofList (hexEncode false b)

def tagName : KdfTag → String
  | .TPM_ARGON2ID => "TPM_ARGON2ID" | .ARGON2ID => "ARGON2ID" | .PBKDF2 => "PBKDF2"
  | .PBKDF2_SHA1 => "PBKDF2_SHA1" | .PBKDF2_SHA512 => "PBKDF2_SHA512" | .SHA1 => "SHA1" | .SSHA1 => "SSHA1"
  | .SHA256 => "SHA256" | .SSHA256 => "SSHA256" | .SHA512 => "SHA512" | .SSHA512 => "SSHA512"
  | .NT_MD4 => "NT_MD4" | .CRYPT_MD5 => "CRYPT_MD5" | .CRYPT_SHA256 => "CRYPT_SHA256" | .CRYPT_SHA512 => "CRYPT_SHA512"

def showKdf (k : Kdf) : String :=
  let t := tagName k.tag
  match k.tag with
  | .TPM_ARGON2ID | .ARGON2ID => s!"ok {t} {k.m} {k.t} {k.p} {k.v} {hx k.salt} {hx k.hash}"
  | .PBKDF2 | .PBKDF2_SHA1 | .PBKDF2_SHA512 => s!"ok {t} {k.cost} {hx k.salt} {hx k.hash}"
  | .SHA1 | .SHA256 | .SHA512 | .NT_MD4 => s!"ok {t} {hx k.hash}"
  | .SSHA1 | .SSHA256 | .SSHA512 | .CRYPT_MD5 => s!"ok {t} {hx k.salt} {hx k.hash}"
  | .CRYPT_SHA256 | .CRYPT_SHA512 => s!"ok {t} {hx (utf8 k.text)}"

def showErr : PwErr → String
  | .Base64Decoding => "err Base64Decoding" | .InvalidFormat => "err InvalidFormat"
  | .InvalidKeyLength => "err InvalidKeyLength" | .InvalidLength => "err InvalidLength"
  | .InvalidSaltLength => "err InvalidSaltLength" | .UnsupportedAlgorithm => "err UnsupportedAlgorithm"
  | .NoDecoderFound => "err NoDecoderFound" | .ParsingFailed => "err ParsingFailed"

def hexOfStr (s : List Char) : String := hx (utf8 s)

def handle (line : String) : String :=
  match tokens line with
  | ["parse", h] =>
    match unhexStr h with
    | some s => match parse s with
      | .ok k => showKdf k
      | .error e => showErr e
    | none => "bad-op"
  | ["sc", id, h] =>
    match unhexStr h, id.toList with
    | some s, [c] => match shaCryptRead c s with
      | some r => s!"ok {r.rounds} {hexOfStr r.salt} {hexOfStr r.hash}"
      | none => "bad"
    | _, _ => "bad-op"
  | ["guard", n] =>
    match nat? n with
    | some n => showBool (tooLong n)
    | none => "bad-op"
  | ["render", "django", c, salt, hash] =>
    match nat? c, unhexStr salt, unhexBytes hash with
    | some c, some s, some h => hexOfStr (renderDjango c s h)
    | _, _, _ => "bad-op"
  | ["render", "pbkdf2", tag, c, salt, hash] =>
    match nat? c, unhexStr tag, unhexBytes salt, unhexBytes hash with
    | some c, some tg, some s, some h => hexOfStr (renderPbkdf2 tg c s h)
    | _, _, _, _ => "bad-op"
  | ["render", "ds", tag, hash, salt] =>
    match unhexStr tag, unhexBytes hash, unhexBytes salt with
    | some tg, some h, some s => hexOfStr (renderDs tg h s)
    | _, _, _ => "bad-op"
  | ["render", "samba", up, hash] =>
    match bool? up, unhexBytes hash with
    | some u, some h => hexOfStr (renderSambaNt u h)
    | _, _ => "bad-op"
  | ["render", "ipa", pad, hash] =>
    match bool? pad, unhexBytes hash with
    | some u, some h => hexOfStr (renderIpaNtHash u h)
    | _, _ => "bad-op"
  | ["render", "md5", tag, salt, hash] =>
    match unhexStr tag, unhexStr salt, unhexStr hash with
    | some tg, some s, some h => hexOfStr (renderCryptMd5 tg s h)
    | _, _, _ => "bad-op"
  | _ => "bad-op"

def main : IO Unit := runPure handle
