import KanidmModel.Proto
import KanidmModel.Unique
/-!
Driver for C19.  Stateful part (one server):

* `init <entry>*`                      → `ok uniq=<0|1> <state>`
* `op create <entry>+` | `op modify <ids> <sets>` | `op delete <ids>` | `op revive <ids>`
                                       → `<ok|err:kind> uniq=<0|1> <state>`
Stateless part (replication):
* `conflict <entry>*`                  → `uniq=<0|1> <state after conflictStep with every uuid reported as arrived>`
* `conflictc <candIds> <entry>*`       → same with an explicit candidate list
* `resolve <self> <inAt> <inOrigin> <dbAt> <dbOrigin>` → `<incoming|db> copy=<0|1>`

`<entry>` = `id/L|R|C|T/keys`, keys `a:v,a:v` or `-` (sorted on output); `<sets>` = `a=v+v;a=` …;
`<state>` = entries by ascending id (`-` when empty).
-/
open Kanidm Kanidm.Proto Kanidm.Unique

def splitOnChar (c : Char) (s : String) : List String := s.splitOn (String.singleton c)

def key? (s : String) : Option Key :=
  match splitOnChar ':' s with
  | [a, v] => do pure ((← nat? a), (← nat? v))
  | _ => none

def status? : String → Option Status
  | "L" => some .live | "R" => some .recycled | "C" => some .conflict | "T" => some .tombstone
  | _ => none

def entry? (tok : String) : Option Entry :=
  match splitOnChar '/' tok with
  | [id, st, keys] => do
    let id ← nat? id
    let st ← status? st
    let keys ← (splitList keys).mapM key?
    pure ⟨id, st, keys⟩
  | _ => none

def set? (s : String) : Option (Nat × List Nat) :=
  match splitOnChar '=' s with
  | [a, vs] => do
    let a ← nat? a
    let vs ← (if vs == "" then some [] else (splitOnChar '+' vs).mapM nat?)
    pure (a, vs)
  | _ => none

def sets? (s : String) : Option (List (Nat × List Nat)) := (splitOnChar ';' s).mapM set?

def insertKey (k : Key) : List Key → List Key
  | [] => [k]
  | y :: ys => if k.1 < y.1 || (k.1 == y.1 && k.2 ≤ y.2) then k :: y :: ys else y :: insertKey k ys

def showStatus : Status → String
  | .live => "L" | .recycled => "R" | .conflict => "C" | .tombstone => "T"

def showEntry (e : Entry) : String :=
  "/".intercalate [toString e.id, showStatus e.st,
    showList (fun (k : Key) => toString k.1 ++ ":" ++ toString k.2) (e.keys.foldr insertKey [])]

def insertEntry (e : Entry) : List Entry → List Entry
  | [] => [e]
  | y :: ys => if e.id ≤ y.id then e :: y :: ys else y :: insertEntry e ys

def showState (s : State) : String :=
  if s.isEmpty then "-" else " ".intercalate ((s.foldr insertEntry []).map showEntry)

def flags (s : State) : String := "uniq=" ++ showBool (uniqB s)

def parseOp : List String → Option Op
  | "create" :: es => do
    let es ← es.mapM entry?
    pure (.create es)
  | ["modify", ids, sets] => do pure (.modify (← natList? ids) (← sets? sets))
  | ["delete", ids] => do pure (.delete (← natList? ids))
  | ["revive", ids] => do pure (.revive (← natList? ids))
  | _ => none

def showKind : ErrKind → String
  | .empty => "empty" | .exists => "exists" | .unique => "unique" | .noMatch => "nomatch"

def stepLine (s : State) (line : String) : State × String :=
  match tokens line with
  | "init" :: es =>
    match es.mapM entry? with
    | some es => (es, "ok " ++ flags es ++ " " ++ showState es)
    | none => (s, "bad-init")
  | "op" :: rest =>
    match parseOp rest with
    | some op =>
      match stepRes s op with
      | .ok s' => (s', "ok " ++ flags s' ++ " " ++ showState s')
      | .err k => (s, "err:" ++ showKind k ++ " " ++ flags s ++ " " ++ showState s)
    | none => (s, "bad-op")
  | "conflict" :: es =>
    match es.mapM entry? with
    | some db =>
      let r := conflictStep db (db.map (·.id))
      (s, flags r ++ " " ++ showState r)
    | none => (s, "bad-entries")
  | "conflictc" :: cands :: es =>
    match natList? cands, es.mapM entry? with
    | some c, some db =>
      let r := conflictStep db c
      (s, flags r ++ " " ++ showState r)
    | _, _ => (s, "bad-entries")
  | ["resolve", self, ia, io, da, dorig] =>
    match nat? self, nat? ia, nat? io, nat? da, nat? dorig with
    | some self, some ia, some io, some da, some dorig =>
      let inc : AtEntry := ⟨⟨0, .live, []⟩, ia, io⟩
      let db : AtEntry := ⟨⟨0, .live, []⟩, da, dorig⟩
      let r := resolveAdd self inc db
      (s, (if r.1.cat == ia && r.1.origin == io then "incoming" else "db") ++ " copy=" ++ showBool r.2)
    | _, _, _, _, _ => (s, "bad-resolve")
  | ["state"] => (s, showState s)
  | _ => (s, "bad-request")

def main : IO Unit := run ([] : State) stepLine
