import KanidmModel.Proto
import KanidmModel.TxnCommit
/-! Driver for C04 (stateful: the model server state is threaded through `txn` requests).
```
steps                         -> idx:name:fallible(0|1):publishes(0|1),…   the flattened commit (generated order)
bound                         -> <n>                                      index of the first publication
reset                         -> ok                                       all cells / db at version 0
txn <cells|-> <db 0|1> <v> <finish>  -> ok|err|dropped <cell=ver,…> db=<ver>
      stage version <v> into the listed cells (and the db), then finish = drop | commit | fail:<i>
      (`runTxn`); the reply lists the committed version of every listed cell and of the db afterwards
vis <cells|->                 -> <cell=ver,…> db=<ver>                    committed versions now
```
-/
open Kanidm Kanidm.Proto Kanidm.TxnCommit Kanidm.Gen.CommitOrder

def cellOf? (n : String) : Option Cell := Cell.all.find? (fun c => c.name == n)

def showVis (s : St) (cs : List Cell) : String :=
  showList (fun c => s!"{c.name}={(s.cells c).committed}") cs ++ s!" db={s.db.committed}"

def finish? (f : String) : Option (Option (Option Nat)) :=
  if f == "drop" then some none
  else if f == "commit" then some (some none)
  else match f.splitOn ":" with
    | ["fail", i] => (nat? i).map (fun i => some (some i))
    | _ => none

def handle (s : St) (line : String) : St × String :=
  match tokens line with
  | ["steps"] =>
    (s, showList (fun (p : Nat × CStep) =>
      s!"{p.1}:{stepName p.2.id}:{showBool p.2.fallible}:{showBool (publishes p.2)}") (List.zipIdx flatSteps |>.map (fun p => (p.2, p.1))))
  | ["bound"] => (s, toString (firstPublish flatSteps))
  | ["reset"] => (zero, "ok")
  | ["txn", cells, db, v, fin] =>
    match (splitList cells).mapM cellOf?, bool? db, nat? v, finish? fin with
    | some cs, some db, some v, some fin =>
      let ops := cs.map (fun c => Op.stage c v) ++ (if db then [Op.dbStage v] else [])
      let r := runTxn s ⟨ops, fin⟩
      let tag := match fin with
        | none => "dropped"
        | some _ => if r.2 then "ok" else "err"
      (r.1, s!"{tag} {showVis r.1 cs}")
    | _, _, _, _ => (s, "bad-op")
  | ["vis", cells] =>
    match (splitList cells).mapM cellOf? with
    | some cs => (s, showVis s cs)
    | none => (s, "bad-op")
  | _ => (s, "bad-op")

def main : IO Unit := Proto.run zero handle
