import KanidmModel.Proto
import KanidmModel.OfflineCache
/-!
Driver for C44.  One request per line, one reply per line; the driver keeps the model state (the
directory as the host sees it, the resolver state incl. open login sessions) between lines.  The
host's own machine key is key `0`.

* `check <key> <blob> <cred>`          pure `checkCached` with host key `<key>`; reply `1` | `0`
* `update <key> <kdfok> <cred>`        pure `updateCached`; reply blob
* `reset`                              new host: empty cache, provider in `check`, empty directory
* `srv <id> <pw|-> <valid>`            the directory's account `<id>` (`-` = removed)
* `self <0|1>`                         the online probe fails / succeeds
* `tokfault <f>` / `authfault <f>`     f = `-` | `tr` | `bad` | `st:<status>:<oe>`
* `inval` | `clear` | `offline` | `nextcheck`
* `plant <id> <blob>`                  overwrite the cached credential of the row (if any)
* `lookup <id>`                        reply `look <some|none> <net> <nx> <row> <evs>`
* `auth <id> <cred>`                   reply `auth <init> <path> <step|-> <net> <row> <evs>`
* `init <slot> <id>`                   reply `init <init> <path> <net> <row> <evs>`
* `step <slot> <cred> <id>`            reply `step <res> <path> <net> <row> <evs>`

blob: `-` | `junk` | `k:<TAG>:<pw>:<key>`;  row: `-` | `<valid>:<expired>:<blob without pw>`;
evs: `p` | `t<id>` | `a<id>:<cred>:<ok>` joined by `,` | `-`.
-/
open Kanidm Kanidm.Proto Kanidm.OfflineCache Kanidm.Gen.OfflineCache
open Kanidm.Gen.HostAuthz (DirReply classifyHttp)
open Kanidm.Gen.PwFormat (KdfTag)

def allTags : List KdfTag :=
  [.TPM_ARGON2ID, .ARGON2ID, .PBKDF2, .PBKDF2_SHA1, .PBKDF2_SHA512, .SHA1, .SSHA1, .SHA256, .SSHA256,
   .SHA512, .SSHA512, .NT_MD4, .CRYPT_MD5, .CRYPT_SHA256, .CRYPT_SHA512]

def tagName (t : KdfTag) : String := ((toString (repr t)).splitOn ".").getLast!

def tag? (s : String) : Option KdfTag := allTags.find? fun t => tagName t == s

def blob? (s : String) : Option (Option Blob) :=
  match s.splitOn ":" with
  | ["-"] => some none
  | ["junk"] => some (some .junk)
  | ["k", t, pw, key] => do pure (some (.kdf (← tag? t) (← nat? pw) (← nat? key)))
  | _ => none

def showBlob : Option Blob → String
  | none => "-"
  | some .junk => "junk"
  | some (.kdf t pw key) => s!"k:{tagName t}:{pw}:{key}"

def showBlobShort : Option Blob → String
  | none => "-"
  | some .junk => "junk"
  | some (.kdf t _ key) => s!"{tagName t}/{key}"

def showRow (st : St) (id : Nat) : String :=
  match st.cache id with
  | none => "-"
  | some r => s!"{showBool r.tok.valid}:{showBool r.expired}:{showBlobShort r.tok.cred}"

def showNet (n : Net) : String := if n = .online then "on" else "off"

def showEvs (evs : List Ev) : String :=
  let net := evs.filterMap fun e =>
    match e with
    | .probe => some "p"
    | .tokReq id => some s!"t{id}"
    | .auth id cred ok => some s!"a{id}:{cred}:{showBool ok}"
    | _ => none
  if net.isEmpty then "-" else ",".intercalate net

def showInit : InitRes → String
  | .password => "password"
  | .unknown => "unknown"
  | .err => "err"

def showPam : PamOut → String
  | .success => "success"
  | .denied => "denied"
  | .unknown => "unknown"
  | .err => "err"

def showPath : Path → String
  | .none => "none"
  | .online => "online"
  | .offline => "offline"

def tokFault? (s : String) : Option (Option DirReply) :=
  match s.splitOn ":" with
  | ["-"] => some none
  | ["tr"] => some (some .transport)
  | ["bad"] => some (some .otherErr)
  | ["st", code, oe] => do pure (some (classifyHttp (← nat? code) (if oe == "-" then "" else oe)))
  | _ => none

def authFault? (s : String) : Option (Option AuthReply) :=
  match s.splitOn ":" with
  | ["-"] => some none
  | ["tr"] => some (some .transport)
  | ["bad"] => some (some .otherErr)
  | ["st", code, oe] => do pure (some (classifyAuthHttp (← nat? code) (if oe == "-" then "" else oe)))
  | _ => none

structure DState where
  w : World
  st : St

def dstate0 : DState := { w := World.init, st := St.init }

def hostKey : Nat := 0

def apply (d : DState) (op : Op) : DState × Reply × List Ev :=
  match step hostKey d.w d.st op with
  | (w', st', r, evs) => ({ w := w', st := st' }, r, evs)

def quiet (d : DState) (op : Op) : DState × String := ((apply d op).1, "ok")

def handle (d : DState) (line : String) : DState × String :=
  match tokens line with
  | ["check", key, blob, cred] =>
    match nat? key, blob? blob, nat? cred with
    | some k, some b, some c => (d, showBool (checkCached k b c))
    | _, _, _ => (d, "bad-op")
  | ["update", key, ok, cred] =>
    match nat? key, bool? ok, nat? cred with
    | some k, some o, some c => (d, showBlob (updateCached k o c none))
    | _, _, _ => (d, "bad-op")
  | ["reset"] => (dstate0, "ok")
  | ["srv", id, pw, valid] =>
    match nat? id, bool? valid with
    | some id, some v =>
      if pw == "-" then quiet d (.srv id none)
      else match nat? pw with
        | some p => quiet d (.srv id (some ⟨p, v⟩))
        | none => (d, "bad-op")
    | _, _ => (d, "bad-op")
  | ["self", b] =>
    match bool? b with
    | some b => quiet d (.setSelf b)
    | none => (d, "bad-op")
  | ["tokfault", f] =>
    match tokFault? f with
    | some r => quiet d (.tokFault r)
    | none => (d, "bad-op")
  | ["authfault", f] =>
    match authFault? f with
    | some r => quiet d (.authFault r)
    | none => (d, "bad-op")
  | ["inval"] => quiet d .invalidate
  | ["clear"] => quiet d .clearCache
  | ["offline"] => quiet d .markOffline
  | ["nextcheck"] => quiet d .markNextCheck
  | ["plant", id, blob] =>
    match nat? id, blob? blob with
    | some id, some b => quiet d (.plant id b)
    | _, _ => (d, "bad-op")
  | ["lookup", id] =>
    match nat? id with
    | some id =>
      match apply d (.lookup id) with
      | (d', .look t, evs) =>
        let ts := match t with
          | some _ => "some"
          | none => "none"
        (d', s!"look {ts} {showNet d'.st.net} {showBool (d'.st.nx id)} {showRow d'.st id} {showEvs evs}")
      | (d', _, _) => (d', "bad-op")
    | none => (d, "bad-op")
  | ["auth", id, cred] =>
    match nat? id, nat? cred with
    | some id, some c =>
      match apply d (.auth id c) with
      | (d', .auth i p s, evs) =>
        let ss := match s with
          | some r => showPam r
          | none => "-"
        (d', s!"auth {showInit i} {showPath p} {ss} {showNet d'.st.net} {showRow d'.st id} {showEvs evs}")
      | (d', _, _) => (d', "bad-op")
    | _, _ => (d, "bad-op")
  | ["init", slot, id] =>
    match nat? slot, nat? id with
    | some slot, some id =>
      match apply d (.init slot id) with
      | (d', .init i p, evs) =>
        (d', s!"init {showInit i} {showPath p} {showNet d'.st.net} {showRow d'.st id} {showEvs evs}")
      | (d', _, _) => (d', "bad-op")
    | _, _ => (d, "bad-op")
  | ["step", slot, cred, id] =>
    match nat? slot, nat? cred, nat? id with
    | some slot, some c, some id =>
      match apply d (.stepS slot c) with
      | (d', .step r p, evs) =>
        (d', s!"step {showPam r} {showPath p} {showNet d'.st.net} {showRow d'.st id} {showEvs evs}")
      | (d', _, _) => (d', "bad-op")
    | _, _, _ => (d, "bad-op")
  | _ => (d, "bad-op")

def main : IO Unit := run dstate0 handle
