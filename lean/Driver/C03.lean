import KanidmModel.Proto
import KanidmModel.Filter.Sexp
import KanidmModel.IndexMaint
/-!
Driver for C03 (stateful: one backend). Requests (fields separated by ` | `):

  `reset | a:t,a:t`                     → `ok`           `Backend::new` with this index metadata (`-` = none)
  `create | uuid:E;uuid:E`              → `ok <ids>` | `err`      (E = `a=V+V,a=V` | `-`)
  `modify | id:uuid:E~id:uuid:E;…`      → `ok` | `err`            (pre~post pairs)
  `reap | id,id`                        → `ok` | `err`
  `setmeta | a:t,a:t`                   → `ok`
  `reindex`                             → `ok` | `err`
  `reopen`                              → `ok`           `Backend::new` on the existing database
  `upgrade <v>`                         → `ok` | `err`
  `incupdate <uuid> | E`                → `ok` | `err`
  `dump`                                → canonical text of every table (see `dumpText`)
  `ents`                                → `id:uuid,…`
  `diff | id:uuid:E~id:uuid:E`          → the `idx_diff` of one pair under the current metadata, canonical
-/
open Kanidm Kanidm.Proto Kanidm.Filter Kanidm.Index

def fields (line : String) : List String :=
  (line.splitOn "|").map (fun s => s.trimAscii.toString)

def itypeOf (s : String) : Option IType :=
  match s with
  | "e" => some .equality | "s" => some .substring | "p" => some .presence | "o" => some .ordering
  | _ => none

def itypeChar : IType → String
  | .equality => "e" | .substring => "s" | .presence => "p" | .ordering => "o"

def parseMeta (s : String) : Option (List (Nat × IType)) :=
  (splitList s).mapM fun item =>
    match item.splitOn ":" with
    | [a, t] => do pure (← a.toNat?, ← itypeOf t)
    | _ => none

def parseNew (s : String) : Option (Nat × Entry) :=
  match s.splitOn ":" with
  | [u, body] => do pure (← u.toNat?, Entry.ofList (← Entry.parseAssoc body))
  | _ => none

def parseSEnt (s : String) : Option SEnt :=
  match s.splitOn ":" with
  | [id, u, body] => do pure ⟨← id.toNat?, ← u.toNat?, Entry.ofList (← Entry.parseAssoc body)⟩
  | _ => none

def parsePair (s : String) : Option (SEnt × SEnt) :=
  match s.splitOn "~" with
  | [a, b] => do pure (← parseSEnt a, ← parseSEnt b)
  | _ => none

def parseSemi {α : Type} (f : String → Option α) (s : String) : Option (List α) :=
  if s == "-" || s == "" then some [] else (s.splitOn ";").mapM f

def sortStrs (l : List String) : List String := l.mergeSort (fun a b => !decide (b < a))

def dedupStrs : List String → List String
  | [] => []
  | [a] => [a]
  | a :: b :: r => if a == b then dedupStrs (b :: r) else a :: dedupStrs (b :: r)

def showIds (l : List Nat) : String := ".".intercalate ((sortNats l).map toString)

def bytesText (l : List Nat) : String := "s" ++ ".".intercalate (l.map toString)

def nameAttrText : NameAttr → String
  | .spn => "spn" | .name => "name" | .gidNumber => "gidnumber" | .syncExternalId => "extid"

def nameVText : NameV → String
  | .ofAttr a v => s!"{nameAttrText a}:{v.render}"
  | .ofUuid u => s!"uuid:{u}"

/-- keys of an association list, first binding wins (shadowed bindings are dead) -/
def liveKeys {κ ν : Type} [DecidableEq κ] (m : List (κ × ν)) : List κ :=
  (m.map (·.1)).eraseDups

def tableText (t : Tables) (k : Nat × IType) : String :=
  let rows := (aget t.idx k).getD []
  let rs := (liveKeys rows).filterMap fun key =>
    let ids := (aget rows key).getD []
    if ids.isEmpty then none else some s!"{key.render}={showIds ids}"
  s!"{k.1}:{itypeChar k.2}[" ++ ";".intercalate (sortStrs rs) ++ "]"

def dumpText (t : Tables) : String :=
  let tabs := sortStrs ((liveKeys t.idx).map (tableText t))
  let n2u := sortStrs ((liveKeys t.n2u).filterMap fun n => (aget t.n2u n).map fun u => s!"{bytesText n}={u}")
  let e2u := sortStrs ((liveKeys t.e2u).filterMap fun n => (aget t.e2u n).map fun u => s!"{bytesText n}={u}")
  let u2s := sortStrs ((liveKeys t.u2s).filterMap fun u => (aget t.u2s u).map fun v => s!"{u}={nameVText v}")
  let u2r := sortStrs ((liveKeys t.u2r).filterMap fun u => (aget t.u2r u).map fun v => s!"{u}={nameVText v}")
  "T " ++ ",".intercalate tabs ++ " | N " ++ ";".intercalate n2u ++ " | X " ++ ";".intercalate e2u
    ++ " | S " ++ ";".intercalate u2s ++ " | R " ++ ";".intercalate u2r

def actText (x : Act) : String :=
  s!"{if x.add then "+" else "-"}{x.a}:{itypeChar x.it}:{x.k.render}"

def reply (s : BeState) (r : Option BeState) : BeState × String :=
  match r with
  | some s' => (s', "ok")
  | none => (s, "err")

def handle (s : BeState) (line : String) : BeState × String :=
  match fields line with
  | [hd] =>
    match tokens hd with
    | ["reindex"] => reply s (reindex s)
    | ["reopen"] => (reopen s, "ok")
    | ["upgrade", v] =>
      match v.toInt? with
      | some v => reply s (upgradeReindex v s)
      | none => (s, "bad-args")
    | ["dump"] => (s, dumpText s.tbl)
    | ["ents"] => (s, showList (fun e : SEnt => s!"{e.id}:{e.uuid}") s.ents)
    | _ => (s, "bad-op")
  | [hd, x] =>
    match tokens hd with
    | ["reset"] =>
      match parseMeta x with
      | some m => (BeState.init m, "ok")
      | none => (s, "bad-args")
    | ["setmeta"] =>
      match parseMeta x with
      | some m => (setMeta m s, "ok")
      | none => (s, "bad-args")
    | ["create"] =>
      match parseSemi parseNew x with
      | some es =>
        match create es s with
        | some s' => (s', "ok " ++ showNatList ((s'.ents.drop s.ents.length).map (·.id)))
        | none => (s, "err")
      | none => (s, "bad-args")
    | ["modify"] =>
      match parseSemi parsePair x with
      | some ps => reply s (modify ps s)
      | none => (s, "bad-args")
    | ["reap"] =>
      match natList? x with
      | some ids => reply s (reap ids s)
      | none => (s, "bad-args")
    | ["incupdate", u] =>
      match u.toNat?, Entry.parseAssoc x with
      | some u, some l => reply s (incUpdate u (Entry.ofList l) s)
      | _, _ => (s, "bad-args")
    | ["diff"] =>
      match parsePair x with
      | some (a, b) => (s, showList id (sortStrs ((idxDiff s.idxmeta (some a) (some b)).map actText)))
      | none => (s, "bad-args")
    | _ => (s, "bad-op")
  | _ => (s, "bad-op")

def main : IO Unit := run (BeState.init []) handle
