import KanidmModel.Proto
import KanidmModel.AuthSession
/-! Driver for C27 (stateful: one session at a time).

* `new <anon> <prim> <passkeys> <attested> <calist> <oauth2> <validFrom|-> <expire|-> <ct>`
  with `prim ∈ none|pw|gpw|wn|mfa<t><s><b>` (e.g. `mfa101`) — starts a session, replies like `auth(Init)`
* `begin <mech> <locked>`
* `cred anon <locked>` | `cred pw <ok> <badlisted> <locked>` | `cred totp <ok> <locked>` |
  `cred sk <ok> <locked>` | `cred bc <ok> <locked>` | `cred pk <ok> <idKnown> <attOk> <locked>`

Replies: `choose a,b` | `continue a,b` | `external` | `denied <reason>` | `success <authtype>` |
`err <kind>`. -/
open Kanidm Kanidm.Proto Kanidm.AuthSession

def showMech : Mech → String
  | .anonymous => "anonymous" | .password => "password"
  | .passwordBackupCode => "passwordbackupcode" | .passwordTotp => "passwordtotp"
  | .passwordSecurityKey => "passwordsecuritykey" | .passkey => "passkey"
  | .oAuth2Trust => "oauth2trust"

def mech? (s : String) : Option Mech :=
  Mech.all.find? (fun m => showMech m == s)

def showAllowed : Allowed → String
  | .anonymous => "anonymous" | .backupCode => "backupcode" | .password => "password"
  | .totp => "totp" | .securityKey => "securitykey" | .passkey => "passkey"

def showReason : Reason → String
  | .badPassword => "badpassword" | .badTotp => "badtotp" | .badWebauthn => "badwebauthn"
  | .badAccountPolicy => "badaccountpolicy" | .badBackupCode => "badbackupcode"
  | .badAuthType => "badauthtype" | .badCredentials => "badcredentials"
  | .accountExpired => "accountexpired" | .pwBadlist => "pwbadlist"
  | .invalidCredState => "invalidcredstate" | .locked => "locked" | .external => "external"

def showAuthType : AuthType → String
  | .anonymous => "anonymous" | .password => "password"
  | .generatedPassword => "generatedpassword" | .passwordTotp => "passwordtotp"
  | .passwordBackupCode => "passwordbackupcode"
  | .passwordSecurityKey => "passwordsecuritykey" | .passkey => "passkey"
  | .attestedPasskey => "attestedpasskey" | .oAuth2Trust => "oauth2trust"

def showReply : Reply → String
  | .choose ms => "choose " ++ showList showMech ms
  | .continue_ al => "continue " ++ showList showAllowed al
  | .external => "external"
  | .denied r => "denied " ++ showReason r
  | .success t => "success " ++ showAuthType t
  | .err .invalidAuthState => "err invalidauthstate"
  | .err .au0001InvalidState => "err au0001invalidstate"
  | .err .invalidSessionState => "err invalidsessionstate"

def prim? (s : String) : Option (Option Primary) :=
  match s with
  | "none" => some none
  | "pw" => some (some .password)
  | "gpw" => some (some .generatedPassword)
  | "wn" => some (some .webauthn)
  | _ =>
    match s.toList with
    | ['m', 'f', 'a', t, k, b] =>
      let bit (c : Char) : Option Bool :=
        if c == '1' then some true else if c == '0' then some false else none
      match bit t, bit k, bit b with
      | some t, some k, some b => some (some (.passwordMfa t k b))
      | _, _, _ => none
    | _ => none

def optNat? (s : String) : Option (Option Nat) :=
  if s == "-" then some none else (nat? s).map some

def handle (s : State) (line : String) : State × String :=
  match tokens line with
  | ["new", anon, prim, pk, att, ca, o2, vf, ex, ct] =>
    match bool? anon, prim? prim, bool? pk, bool? att, bool? ca, bool? o2, optNat? vf,
          optNat? ex, nat? ct with
    | some anon, some prim, some pk, some att, some ca, some o2, some vf, some ex, some ct =>
      let a : Acct := { anonymous := anon, primary := prim, passkeys := pk, attested := att,
                        attCaList := ca, oauth2 := o2, validFrom := vf, expire := ex }
      let r := newSession a ct
      (r.1, showReply r.2)
    | _, _, _, _, _, _, _, _, _ => (s, "bad-op")
  | ["begin", m, l] =>
    match mech? m, bool? l with
    | some m, some l => let r := step s ⟨.begin m, l⟩; (r.1, showReply r.2)
    | _, _ => (s, "bad-op")
  | "cred" :: kind :: rest =>
    let bools := rest.mapM bool?
    let c : Option (Cred × Bool) :=
      match kind, bools with
      | "anon", some [l] => some (.anonymous, l)
      | "pw", some [ok, bad, l] => some (.password ok bad, l)
      | "totp", some [ok, l] => some (.totp ok, l)
      | "sk", some [ok, l] => some (.securityKey ok, l)
      | "bc", some [ok, l] => some (.backupCode ok, l)
      | "pk", some [ok, idk, att, l] => some (.passkey ok idk att, l)
      | _, _ => none
    match c with
    | some (c, l) => let r := step s ⟨.cred c, l⟩; (r.1, showReply r.2)
    | none => (s, "bad-op")
  | _ => (s, "bad-op")

def main : IO Unit := run State.noSession handle
