import KanidmModel.Proto
import KanidmModel.Actors
/-! Driver for C47.
`acc <ev,ev,...>`  replay an observed trace (supervisor-internal steps inserted on demand)
`run <ev,ev,...>`  replay a complete schedule (every step explicit, `t:<s>` = supervisor step)
reply: `ok <node>;<node>;...` with node = `id:kind:pc:pending:late:orphan:sent:returned:sawStop:cleaned:handled`
or `reject <n>` (n = length of the longest accepted prefix) or `bad-op`.
events: `ss:-`/`ss:<p>` spawnSup, `sa:<p>` spawnActor, `te:<r>` terminate, `xr:<r>` execReturn,
`sq:<s>` stopReq, `sr:<s>` stopReturn, `dh:<s>` dropHandle, `t:<s>` supStep, `su:<a>` setupDone,
`rd:<a>` ready, `sd:<a>` stepDone, `sf:<a>` selfStop, `st:<a>` seeStop, `cd:<a>` cleanupDone. -/
open Kanidm Kanidm.Proto Kanidm.Actors

def parseEv (s : String) : Option Ev :=
  match s.splitOn ":" with
  | ["ss", "-"] => some (.spawnSup none)
  | [k, v] => do
    let n ← nat? v
    match k with
    | "ss" => some (.spawnSup (some n))
    | "sa" => some (.spawnActor n)
    | "te" => some (.terminate n)
    | "xr" => some (.execReturn n)
    | "sq" => some (.stopReq n)
    | "sr" => some (.stopReturn n)
    | "dh" => some (.dropHandle n)
    | "t" => some (.supStep n)
    | "su" => some (.setupDone n)
    | "rd" => some (.ready n)
    | "sd" => some (.stepDone n)
    | "sf" => some (.selfStop n)
    | "st" => some (.seeStop n)
    | "cd" => some (.cleanupDone n)
    | _ => none
  | _ => none

def showNode (i : Nat) (n : Node) : String :=
  let k := match n.kind with | .sup => "s" | .actor => "a"
  ":".intercalate [toString i, k, toString n.pc, showBool n.pending, showBool n.late,
    showBool n.orphan, showBool n.sent, showBool n.returned, showBool n.sawStop,
    showBool n.cleaned, toString n.handled]

def showState (σ : State) : String :=
  ";".intercalate ((List.range σ.size).filterMap fun i => (σ.nodes i).map (showNode i))

/-- length of the longest prefix for which `f` still succeeds -/
def longestPrefix (f : List Ev → Bool) (evs : List Ev) : Nat :=
  let rec go (k : Nat) (fuel : Nat) : Nat :=
    match fuel with
    | 0 => k
    | fuel + 1 => if k < evs.length && f (evs.take (k + 1)) then go (k + 1) fuel else k
  go 0 evs.length

def handle (line : String) : String :=
  match tokens line with
  | [mode, t] =>
    match (splitList t).mapM parseEv with
    | some evs =>
      let f : List Ev → Option State :=
        if mode == "acc" then accept init else if mode == "run" then run init else fun _ => none
      if mode != "acc" && mode != "run" then "bad-op" else
      match f evs with
      | some σ => "ok " ++ showState σ
      | none => "reject " ++ toString (longestPrefix (fun p => (f p).isSome) evs)
    | none => "bad-op"
  | _ => "bad-op"

def main : IO Unit := runPure handle
