import KanidmModel.Proto
import KanidmModel.LdapGateway
/-!
Driver for C40 (stateful: one world + one LDAP connection).  Strings (DNs, names) travel as
dot-separated code points (`-` = empty); naturals in decimal; `-` = `None` / empty list.

  world <ct> <flag 0|1> <anonymous> <maxattrs> <basedn>      start a new world (no accounts); the connection stays
  ct <n> | flag <0|1>                                         change the time / the unix-bind flag
  name <chars> <uuid>                                         `name_to_uuid` row (lower-cased input)
  acct <uuid> <isAccount> <validFrom|-> <expire|-> <unixPw|-> <needsUpgrade> <memberOf,..|-> <app:pw,..|->
  rmacct <uuid>
  app <chars> <uuid> <linkedGroup>
  tok <pw> uat <account> <session> <expiry|-> <ro | rw:<expiry|->>
  tok <pw> apit <account> <tokenId> <issuedAt> <expiry|-> <ro|rw|sync>
  apisess <ids|->   uatvalid <ids|->
  conn                                                        new connection (unbound)
  bind <dn> <pw> <softlocked 0|1> | search <base> <base|one|sub|children> <nattrs> <late code|-> | compare <dn> <late code|-> | op <WireOp>
        → `<outcome> sess=<session|-> closed=<0|1> ident=<entry:scope | err:<e> | -> delayed=<kind:uuid:pw,..|->`
     `ident` = `validate_ldap_session` of the connection's session after the request.
  native <pw>                                                 → `<entry:scope | err:<e>>` (`nativeTokenIdent`)
  dbsteps <WireOp> <bound 0|1>                                → transaction kinds the request opens, e.g. `auth:read,proxyRead:read`
-/
open Kanidm Kanidm.Proto Kanidm.Ldap Kanidm.Ldap.Gen

structure St where
  w : World
  c : Conn

def chars? (s : String) : Option (List Char) :=
  if s == "-" then some [] else (s.splitOn ".").mapM (fun t => (nat? t).map Char.ofNat)

def opt? (s : String) : Option (Option Nat) :=
  if s == "-" then some none else (nat? s).map some

def pairs? (s : String) : Option (List (Nat × Nat)) :=
  (splitList s).mapM fun it =>
    match it.splitOn ":" with
    | [a, b] => do let a ← nat? a; let b ← nat? b; pure (a, b)
    | _ => none

def showScope : Scope → String
  | .readOnly => "ro" | .readWrite => "rw" | .synchronise => "sync"

def showErr : Err → String
  | .noMatchingEntries => "NoMatchingEntries" | .notAuthenticated => "NotAuthenticated"
  | .sessionExpired => "SessionExpired" | .invalidUuid => "InvalidUuid"
  | .invalidRequestState => "InvalidRequestState" | .resourceLimit => "ResourceLimit"
  | .notAnAccount => "NotAnAccount" | .invalidState => "InvalidState"

def showCode : Code → String
  | .success => "success" | .invalidCredentials => "invalidCredentials"
  | .constraintViolation => "constraintViolation" | .invalidAttributeSyntax => "invalidAttributeSyntax"
  | .unwillingToPerform => "unwillingToPerform" | .other => "other" | .operationsError => "operationsError"
  | .protocolError => "protocolError" | .noSuchObject => "noSuchObject"
  | .compareTrue => "compareTrue" | .compareFalse => "compareFalse"

def showSession : Session → String
  | .unixBind u => s!"unix({u})"
  | .userAuthToken a s _ _ => s!"uat({a},{s})"
  | .apiToken a t _ _ _ => s!"apit({a},{t})"
  | .applicationPasswordBind x u => s!"app({x},{u})"

def showTok : Option Token → String
  | none => "-"
  | some t => s!"{t.owner}:{showSession t.session}"

def showIdent : Except Err Ident → String
  | .ok id => s!"{id.entry}:{showScope id.scope}"
  | .error e => s!"err:{showErr e}"

def showOutcome : Outcome → String
  | .unbind => "unbind"
  | .disconnect c => s!"disconnect:{showCode c}"
  | .bound t => s!"bound:{showTok (some t)}"
  | .respond c e => s!"respond:{showCode c}:{match e with | some e => showErr e | none => "-"}"
  | .rootDse i => s!"rootdse:{showTok i}"
  | .emptyOk i => s!"emptyok:{showTok i}"
  | .query id ext i => s!"query:{id.entry}:{showScope id.scope}:{ext}:{showTok i}"
  | .compare id i => s!"compare:{id.entry}:{showScope id.scope}:{showTok i}"
  | .whoami o => s!"whoami:{o}"

def showDelayed (d : List (DelayedKind × Nat × Nat)) : String :=
  showList (fun (k, u, p) => s!"{match k with | .unixPwUpgrade => "UnixPwUpgrade" | .other => "Other"}:{u}:{p}") d

def wireOp? (s : String) : Option WireOp :=
  (WireOp.all.zip ["bindSimple", "bindSasl", "bindResponse", "unbindRequest", "searchRequest",
    "searchResultEntry", "searchResultDone", "searchResultReference", "modifyRequest", "modifyResponse",
    "addRequest", "addResponse", "delRequest", "delResponse", "modifyDNRequest", "modifyDNResponse",
    "compareRequest", "compareResult", "abandonRequest", "extendedWhoami", "extendedOther",
    "extendedResponse", "intermediateResponse"]).find? (·.2 == s) |>.map (·.1)

/-- `-` = the search itself succeeds; otherwise the result code of its failure. -/
def code? (s : String) : Option (Option Code) :=
  if s == "-" then some none
  else ([Code.success, .invalidCredentials, .constraintViolation, .invalidAttributeSyntax, .unwillingToPerform,
         .other, .operationsError, .protocolError, .noSuchObject, .compareTrue, .compareFalse].find?
          (fun c => showCode c == s)).map some

def scope? (s : String) : Option SScope :=
  match s with
  | "base" => some .base | "one" => some .oneLevel | "sub" => some .subtree | "children" => some .children
  | _ => none

/-- Run one request on the connection. -/
def request (st : St) (m : Msg) : St × String :=
  let r := st.c.step st.w m
  let c' := r.1
  let o := r.2.1
  -- the identity `validate_ldap_session` derives for the connection's session after the request
  let ident := match c'.session with
    | some t => showIdent (validateLdapSession st.w t.session)
    | none => "-"
  ({ st with c := c' },
   s!"{showOutcome o} sess={showTok c'.session} closed={showBool c'.closed} ident={ident} delayed={showDelayed r.2.2}")

def showTxn : TxnCtor → String
  | .auth => "auth" | .proxyRead => "proxyRead" | .proxyWrite => "proxyWrite"

def showQs : QsKind → String
  | .read => "read" | .write => "write"

def handle (st : St) (line : String) : St × String :=
  match tokens line with
  | ["world", ct, flag, anon, maxa, base] =>
    match nat? ct, bool? flag, nat? anon, nat? maxa, chars? base with
    | some ct, some flag, some anon, some maxa, some base =>
      let w : World := { ct := ct, basedn := base, anonymous := anon, names := [], accts := [], apps := [],
                         allowUnixPwBind := flag, tokens := [], apiSessions := [], uatValid := [], maxAttrs := maxa }
      ({ st with w := w }, "ok")
    | _, _, _, _, _ => (st, "bad-op")
  | ["ct", n] => match nat? n with
    | some n => ({ st with w := { st.w with ct := n } }, "ok") | none => (st, "bad-op")
  | ["flag", f] => match bool? f with
    | some f => ({ st with w := { st.w with allowUnixPwBind := f } }, "ok") | none => (st, "bad-op")
  | ["name", n, u] => match chars? n, nat? u with
    | some n, some u => ({ st with w := { st.w with names := st.w.names ++ [(n, u)] } }, "ok")
    | _, _ => (st, "bad-op")
  | ["acct", u, ia, vf, ex, up, nu, mo, ap] =>
    match nat? u, bool? ia, opt? vf, opt? ex, opt? up, bool? nu, natList? mo, pairs? ap with
    | some u, some ia, some vf, some ex, some up, some nu, some mo, some ap =>
      let a : Acct := { uuid := u, isAccount := ia, validFrom := vf, expire := ex, unixPw := up,
                        unixNeedsUpgrade := nu, memberOf := mo, appPws := ap }
      ({ st with w := { st.w with accts := (st.w.accts.filter (·.uuid != u)) ++ [a] } }, "ok")
    | _, _, _, _, _, _, _, _ => (st, "bad-op")
  | ["rmacct", u] => match nat? u with
    | some u => ({ st with w := { st.w with accts := st.w.accts.filter (·.uuid != u) } }, "ok")
    | none => (st, "bad-op")
  | ["app", n, u, g] => match chars? n, nat? u, nat? g with
    | some n, some u, some g => ({ st with w := { st.w with apps := st.w.apps ++ [⟨n, u, g⟩] } }, "ok")
    | _, _, _ => (st, "bad-op")
  | ["tok", pw, "uat", a, s, e, pu] =>
    let pu? : Option UatPurpose :=
      if pu == "ro" then some .readOnly
      else match pu.splitOn ":" with
        | ["rw", x] => (opt? x).map .readWrite
        | _ => none
    match nat? pw, nat? a, nat? s, opt? e, pu? with
    | some pw, some a, some s, some e, some pu =>
      ({ st with w := { st.w with tokens := (st.w.tokens.filter (·.1 != pw)) ++ [(pw, .uat a s e pu)] } }, "ok")
    | _, _, _, _, _ => (st, "bad-op")
  | ["tok", pw, "apit", a, t, i, e, pu] =>
    let pu? : Option ApiPurpose :=
      match pu with | "ro" => some .readOnly | "rw" => some .readWrite | "sync" => some .synchronise | _ => none
    match nat? pw, nat? a, nat? t, nat? i, opt? e, pu? with
    | some pw, some a, some t, some i, some e, some pu =>
      ({ st with w := { st.w with tokens := (st.w.tokens.filter (·.1 != pw)) ++ [(pw, .apit a t i e pu)] } }, "ok")
    | _, _, _, _, _, _ => (st, "bad-op")
  | ["rmtok", pw] => match nat? pw with
    | some pw => ({ st with w := { st.w with tokens := st.w.tokens.filter (·.1 != pw) } }, "ok")
    | none => (st, "bad-op")
  | ["apisess", l] => match natList? l with
    | some l => ({ st with w := { st.w with apiSessions := l } }, "ok") | none => (st, "bad-op")
  | ["uatvalid", l] => match natList? l with
    | some l => ({ st with w := { st.w with uatValid := l } }, "ok") | none => (st, "bad-op")
  | ["conn"] => ({ st with c := Conn.start }, "ok")
  | ["bind", dn, pw, sl] => match chars? dn, nat? pw, bool? sl with
    | some dn, some pw, some sl => request st (.bind dn pw sl)
    | _, _, _ => (st, "bad-op")
  | ["search", base, sc, n, late] => match chars? base, scope? sc, nat? n, code? late with
    | some base, some sc, some n, some late => request st (.search base sc n late)
    | _, _, _, _ => (st, "bad-op")
  | ["compare", dn, late] => match chars? dn, code? late with
    | some dn, some late => request st (.compare dn late)
    | _, _ => (st, "bad-op")
  | ["op", o] => match wireOp? o with
    | some o => request st (.other o)
    | none => (st, "bad-op")
  | ["native", pw] => match nat? pw with
    | some pw => (st, showIdent (nativeTokenIdent st.w pw))
    | none => (st, "bad-op")
  | ["dbsteps", o, b] => match wireOp? o, bool? b with
    | some o, some b =>
      match wireDispatch o with
      | none => (st, "-")
      | some op =>
        let txns := (doOpCalls op b).flatMap handlerTxns
        (st, showList (fun t => s!"{showTxn t}:{showQs (txnQs t)}") txns)
    | _, _ => (st, "bad-op")
  | _ => (st, "bad-op")

def main : IO Unit := run ({ w := default, c := Conn.start } : St) handle
