import KanidmModel.Proto
import KanidmModel.ReplSystem
/-! Driver for C08 (and C09's entry-level requests).

A cid is `ts:sid`.  A state is `T/ts:sid` (tombstone) or `L/ts:sid/<changes>/<attrs>` with
`<changes>` = `a=ts:sid;a=ts:sid` (or `-`) and `<attrs>` = `a=v;a=v` (or `-`).  `<nr>` is the list of
attributes that are not replicated (`-` = all replicated).  Ranges: `sid:lo:hi,sid:lo:hi` or `-`.

* `merge <nr> <incoming> <db>`            → `<state> lastmod=<cid>`          (`Entry::merge_state`)
* `conflict <incoming> <db>`              → `0|1`                            (`Entry::is_add_conflict`)
* `resolve <txn> <incoming> <db>`         → `copy=0|1 <state>`               (`Entry::resolve_add_conflict`)
* `apply <nr> <txn> <incoming> <db>`      → `<state>`                        (conflict test, then resolve or merge)
* `delta <nr> <ranges> <state>`           → `<state>`                        (`ReplIncrementalEntryV1::new`)
* `copy <txn> <srcattr> <uuidattr> <clsattr> <clsval> <uuidval> <srcval> <state>` → `<state>` (the conflict copy)
* `sys <n> <op> <op> …`                   → `same=0|1 | u=<state> … | u=<state> …`  (system layer, `n` replicas;
  ops `c.r.u.a=v;a=v`, `s.r.u.a.v` (`-` = purge), `t.r.u`, `r.src.dst`)
-/
open Kanidm Kanidm.Proto Kanidm.Cid Kanidm.ReplMerge Kanidm.ReplSystem

def showCid (c : Kanidm.Cid.Cid) : String := s!"{c.ts}:{c.sUuid}"

def parseCid (s : String) : Option Kanidm.Cid.Cid :=
  match s.splitOn ":" with
  | [a, b] => do let a ← nat? a; let b ← nat? b; pure ⟨a, b⟩
  | _ => none

def splitSemi (s : String) : List String := if s == "-" || s == "" then [] else s.splitOn ";"

def parseChanges (s : String) : Option (List (Nat × Kanidm.Cid.Cid)) :=
  (splitSemi s).mapM fun item =>
    match item.splitOn "=" with
    | [a, c] => do let a ← nat? a; let c ← parseCid c; pure (a, c)
    | _ => none

def parseAttrs (s : String) : Option (List (Nat × Nat)) :=
  (splitSemi s).mapM fun item =>
    match item.splitOn "=" with
    | [a, v] => do let a ← nat? a; let v ← nat? v; pure (a, v)
    | _ => none

def parseSt (s : String) : Option St :=
  match s.splitOn "/" with
  | ["T", c] => do let c ← parseCid c; pure (.tomb c)
  | ["L", c, ch, av] => do
    let c ← parseCid c; let ch ← parseChanges ch; let av ← parseAttrs av
    pure (.live ⟨c, ch, av⟩)
  | _ => none

def showSt : St → String
  | .tomb c => s!"T/{showCid c}"
  | .live e =>
    let ck := sortDedup (e.changes.map (·.1))
    let ak := sortDedup (e.attrs.map (·.1))
    let chs := ck.filterMap (fun a => (lookup e.changes a).map (fun c => s!"{a}={showCid c}"))
    let ats := ak.filterMap (fun a => (lookup e.attrs a).map (fun v => s!"{a}={v}"))
    let j := fun (l : List String) => if l.isEmpty then "-" else ";".intercalate l
    s!"L/{showCid e.crAt}/{j chs}/{j ats}"

def parseNr (s : String) : Option (Nat → Bool) := do
  let l ← natList? s
  pure (fun a => !(l.contains a))

def parseRanges (s : String) : Option Ranges :=
  (splitList s).mapM fun item =>
    match item.splitOn ":" with
    | [o, lo, hi] => do let o ← nat? o; let lo ← nat? lo; let hi ← nat? hi; pure (o, (lo, hi))
    | _ => none

def parseOp (s : String) : Option Op :=
  match s.splitOn "." with
  | ["c", r, u, as] => do let r ← nat? r; let u ← nat? u; let as ← parseAttrs as; pure (.create r u as)
  | ["s", r, u, a, v] => do
    let r ← nat? r; let u ← nat? u; let a ← nat? a
    if v == "-" then pure (.set r u a none) else do let v ← nat? v; pure (.set r u a (some v))
  | ["t", r, u] => do let r ← nat? r; let u ← nat? u; pure (.tomb r u)
  | ["r", s, d] => do let s ← nat? s; let d ← nat? d; pure (.repl s d)
  | _ => none

def bootN (n : Nat) : List Replica := (List.range n).map (fun i => ⟨i + 1, [], [], 0⟩)

def showReplica (r : Replica) : String :=
  let us := sortDedup (r.ents.map (·.1))
  let items := us.filterMap (fun u => (lookup r.ents u).map (fun s => s!"{u}={showSt s}"))
  if items.isEmpty then "-" else " ".intercalate items

def handle (line : String) : String :=
  match tokens line with
  | ["merge", nr, l, r] =>
    match parseNr nr, parseSt l, parseSt r with
    | some nr, some l, some r =>
      let m := mergeState vm0 nr l r
      s!"{showSt m} lastmod={showCid (lastMod m)}"
    | _, _, _ => "bad-op"
  | ["conflict", l, r] =>
    match parseSt l, parseSt r with
    | some l, some r => showBool (isAddConflict l r)
    | _, _ => "bad-op"
  | ["resolve", txn, l, r] =>
    match parseCid txn, parseSt l, parseSt r with
    | some txn, some (.live L), some (.live R) =>
      let x := resolveAdd txn L R
      s!"copy={showBool x.1} {showSt (.live x.2)}"
    | _, _, _ => "bad-op"
  | ["apply", nr, txn, l, r] =>
    match parseNr nr, parseCid txn, parseSt l, parseSt r with
    | some nr, some txn, some l, some r => showSt (applyEntry vm0 nr txn l r)
    | _, _, _, _ => "bad-op"
  | ["delta", nr, rg, s] =>
    match parseNr nr, parseRanges rg, parseSt s with
    | some nr, some rg, some s => showSt (delta nr rg s)
    | _, _, _ => "bad-op"
  | ["copy", txn, sa, ua, ca, cv, uv, sv, s] =>
    match parseCid txn, nat? sa, nat? ua, nat? ca, nat? cv, nat? uv, nat? sv, parseSt s with
    | some txn, some sa, some ua, some ca, some cv, some uv, some sv, some (.live R) =>
      showSt (.live (conflictCopy ⟨sa, ua, ca⟩ (cv, uv, sv) txn R))
    | _, _, _, _, _, _, _, _ => "bad-op"
  | "sys" :: n :: ops =>
    match nat? n, ops.mapM parseOp with
    | some n, some ops =>
      let reps := run ops (bootN n)
      s!"same={showBool (sameOnAll reps)} | " ++ " | ".intercalate (reps.map showReplica)
    | _, _ => "bad-op"
  | _ => "bad-op"

def main : IO Unit := runPure handle
