import KanidmModel.Proto
import KanidmModel.Filter.Sexp
import KanidmModel.Filter.Optimise
/-!
Driver for C02. Requests (fields separated by ` | `):

  `opt full|fast | <F original> | <F rewritten>`
      → `<exact|tie|DIFF> <cert|nocert> [<model's optimised form>]`
      exact  = the model's `optimise` / `fastOptimise` (stable sorts) equals the rewritten filter
      tie    = equal after re-ordering `cmp`-ties canonically and de-duplicating again
               (the only freedom `sort_unstable` has)
      cert   = `isOptimiseOf original rewritten`
  `res idx|noidx <self V> <uuidA> <nameA> <a:t:s,…|-> | <FC> | <F resolved>`
      → `same` | `DIFF <model's resolution>`        (t ∈ e s p o)
  `ents | <entries>` → `ok <n>`   (sets the entry universe)
  `mm | <F>`         → bit string: `F.matches ValSem.std e` for every entry of the universe
-/
open Kanidm Kanidm.Proto Kanidm.Filter

def fields (line : String) : List String :=
  (line.splitOn "|").map (fun s => s.trimAscii.toString)

/-- total order used only to break `cmp`-ties canonically: by the text of the canonical form -/
def tieLe (desc : Bool) (x y : F × String) : Bool :=
  let c := if desc then y.1.cmp x.1 else x.1.cmp y.1
  c == .lt || (c == .eq && x.2 ≤ y.2)

def insertP (le : α → α → Bool) (x : α) : List α → List α
  | [] => [x]
  | y :: ys => if le x y then x :: y :: ys else y :: insertP le x ys

/-- canonical form: children re-sorted by (`cmp`, canonical text), then `dedup` again -/
partial def canonTie : F → F
  | .and l s => .and (canonList false l) s
  | .inclusion l s => .inclusion (canonList false l) s
  | .or l s => .or (canonList true l) s
  | .andnot f s => .andnot (canonTie f) s
  | f => f
where
  canonList (desc : Bool) (l : List F) : List F :=
    let keyed := l.map (fun f => let c := canonTie f; (c, c.render))
    dedup ((keyed.foldr (insertP (tieLe desc)) []).map (·.1))

def sortedDir (desc : Bool) : List F → Bool
  | x :: y :: rest => (if desc then y.cmp x != .gt else x.cmp y != .gt) && sortedDir desc (y :: rest)
  | _ => true

/-- `g` differs from the model's output `m` only by the order of `cmp`-ties (and the de-duplication
that follows from it): wherever the model's list is sorted, `g`'s must be sorted too and agree after
canonical tie-breaking; wherever it is not (lists `fast_optimise` does not touch), element by element. -/
partial def tieEq : F → F → Bool
  | .and l1 s1, .and l2 s2 => s1 == s2 && listTie false l1 l2
  | .inclusion l1 s1, .inclusion l2 s2 => s1 == s2 && listTie false l1 l2
  | .or l1 s1, .or l2 s2 => s1 == s2 && listTie true l1 l2
  | .andnot f1 s1, .andnot f2 s2 => s1 == s2 && tieEq f1 f2
  | x, y => x.render == y.render
where
  listTie (desc : Bool) (l1 l2 : List F) : Bool :=
    if sortedDir desc l1 then
      sortedDir desc l2 &&
        (canonTie.canonList desc l1).map F.render == (canonTie.canonList desc l2).map F.render
    else
      l1.length == l2.length && (l1.zip l2).all (fun p => tieEq p.1 p.2)

def itypeOf (s : String) : Option IType :=
  match s with
  | "e" => some .equality | "s" => some .substring | "p" => some .presence | "o" => some .ordering
  | _ => none

def parseIdxMeta (s : String) : Option (List (Nat × IType × Nat)) :=
  (splitList s).mapM fun item =>
    match item.splitOn ":" with
    | [a, t, sl] => do pure (← a.toNat?, ← itypeOf t, ← sl.toNat?)
    | _ => none

def idxLookup (l : List (Nat × IType × Nat)) (a : Nat) (t : IType) : Option Nat :=
  (l.find? (fun p => p.1 == a && p.2.1 == t)).map (·.2.2)

def handle (ents : List Entry) (line : String) : List Entry × String :=
  match fields line with
  | [hd, f, g] =>
    match tokens hd with
    | ["opt", mode] =>
      match F.parse f, F.parse g with
      | some f, some g =>
        let m := if mode == "fast" then f.fastOptimise sortAsc else f.optimise sortAsc sortDesc
        let cert := if isOptimiseOf f g then "cert" else "nocert"
        if m.render == g.render then (ents, s!"exact {cert}")
        else if tieEq m g then (ents, s!"tie {cert}")
        else (ents, s!"DIFF {cert} {m.render}")
      | _, _ => (ents, "bad-filter")
    | ["res", mode, self, uuidA, nameA, imeta] =>
      match Val.ofString self, uuidA.toNat?, nameA.toNat?, parseIdxMeta imeta, FC.parse f, F.parse g with
      | some self, some uuidA, some nameA, some imeta, some fc, some g =>
        let c : AttrConsts := ⟨uuidA, nameA⟩
        let r := if mode == "noidx" then fc.resolveNoIdx c self else fc.resolveIdx c self (idxLookup imeta)
        match r with
        | some r => if r.render == g.render then (ents, "same") else (ents, s!"DIFF {r.render}")
        | none => (ents, "DIFF none")
      | _, _, _, _, _, _ => (ents, "bad-args")
    | _ => (ents, "bad-op")
  | [hd, x] =>
    match tokens hd with
    | ["ents"] =>
      match parseEntries x with
      | some es => (es, s!"ok {es.length}")
      | none => (ents, "bad-entries")
    | ["mm"] =>
      match F.parse x with
      | some f => (ents, String.ofList (ents.map fun e => if f.matches ValSem.std e then '1' else '0'))
      | none => (ents, "bad-filter")
    | _ => (ents, "bad-op")
  | _ => (ents, "bad-op")

def main : IO Unit := run ([] : List Entry) handle
