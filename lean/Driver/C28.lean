import KanidmModel.Proto
import KanidmModel.SoftLock
/-!
Driver for C28 (stateful: one soft lock at a time). Times are nanoseconds; `-` = `None`.

  new pw | new totp:<step> | new wan | new unr     → state line
  step <ct> <expire|->                             → state line   (apply_time_step)
  fail <ct>                                        → state line   (record_failure)
  att <ct> <expire|-> <ok 0|1>                     → <refused|success|failed> state line

state line: `<is_valid 0|1> init|locked:<count>:<reset_at>:<unlock_at>|unlocked:<count>:<reset_at> <last_expire_at>`
-/
open Kanidm Kanidm.Proto Kanidm.SoftLock

def showState (s : SoftLock) : String :=
  let st := match s.state with
    | .init => "init"
    | .locked c r u => s!"locked:{c}:{r}:{u}"
    | .unlocked c r => s!"unlocked:{c}:{r}"
  s!"{showBool (isValid s)} {st} {s.lastExpireAt}"

def parsePolicy (s : String) : Option Policy :=
  match s.splitOn ":" with
  | ["pw"] => some .password
  | ["wan"] => some .webauthn
  | ["unr"] => some .unrestricted
  | ["totp", n] => (nat? n).map .totp
  | _ => none

def parseOpt (s : String) : Option (Option Nat) :=
  if s == "-" then some none else (nat? s).map some

def showOutcome : Outcome → String
  | .refused => "refused"
  | .success => "success"
  | .failed => "failed"

def handle (s : SoftLock) (line : String) : SoftLock × String :=
  match tokens line with
  | ["new", p] =>
    match parsePolicy p with
    | some p => let s' := SoftLock.new p; (s', showState s')
    | none => (s, "bad-op")
  | ["step", ct, e] =>
    match nat? ct, parseOpt e with
    | some ct, some e => let s' := applyTimeStep s ct e; (s', showState s')
    | _, _ => (s, "bad-op")
  | ["fail", ct] =>
    match nat? ct with
    | some ct => let s' := recordFailure s ct; (s', showState s')
    | none => (s, "bad-op")
  | ["att", ct, e, ok] =>
    match nat? ct, parseOpt e, bool? ok with
    | some ct, some e, some ok =>
      let r := attempt s ct e ok
      (r.1, showOutcome r.2 ++ " " ++ showState r.1)
    | _, _, _ => (s, "bad-op")
  | _ => (s, "bad-op")

def main : IO Unit := run (SoftLock.new .unrestricted) handle
