import KanidmModel.Proto
import KanidmModel.Privilege
/-! Driver for C33 (stateful: one world = one account's sessions + the tokens handed out).

* `reset <now>`                                          → `ok`
* `auth <authtype> <privileged> <anon> <persist> <sess> <priv>` → `token …` | `err <kind>`
* `reauth <tok> <rw|verify> <authtype> <sess> <priv>`    → `token …` | `err <kind>`
* `advance <dt>`                                         → `ok`
* `use <tok>`                                            → `scope ro|rw|sync` | `err <kind>`
* `useat <tok> <ct>`   (same as `use` at instant `ct`, the clock is not changed)
* `process <tok> <ct>` (`process_uat_to_identity` alone: no token-expiry check)
* `revoke <sid>`                                         → `ok`
* `forge <sid> <issuedAt> <expiry|-> <purpose> <anon>`   → `token …` (adds an arbitrary token;
  the harness signs the same one with the server's key)
* `touat <scope> <ct> <sess> <priv>`                     → `uat <issuedAt> <expiry> <purpose>` | `none`
* `reissue <scope> <rw> <ct> <sess> <priv> <sessExp|->`  → likewise
* `api <rw>` | `cert` | `ldap` | `certuat <ct>`          → `scope …`

`token` reply: `token <sid> <issuedAt> <expiry|-> <purpose>`, purpose = `ro` | `rwnone` | `rw:<ns>`.
All instants in nanoseconds, policy values in seconds. -/
open Kanidm Kanidm.Proto Kanidm.Privilege Kanidm.Gen.AuthTypes

def showAuthType : AuthType → String
  | .anonymous => "anonymous" | .password => "password"
  | .generatedPassword => "generatedpassword" | .passwordTotp => "passwordtotp"
  | .passwordBackupCode => "passwordbackupcode"
  | .passwordSecurityKey => "passwordsecuritykey" | .passkey => "passkey"
  | .attestedPasskey => "attestedpasskey" | .oAuth2Trust => "oauth2trust"

def authType? (s : String) : Option AuthType :=
  AuthType.all.find? (fun t => showAuthType t == s)

def showSessionScope : SessionScope → String
  | .readOnly => "readonly" | .readWrite => "readwrite"
  | .privilegeCapable => "privilegecapable" | .synchronise => "synchronise"

def sessionScope? (s : String) : Option SessionScope :=
  SessionScope.all.find? (fun t => showSessionScope t == s)

def optNat? (s : String) : Option (Option Nat) :=
  if s == "-" then some none else (nat? s).map some

def showOptNat : Option Nat → String
  | none => "-"
  | some n => toString n

def showPurpose : Purpose → String
  | .readOnly => "ro"
  | .readWrite none => "rwnone"
  | .readWrite (some e) => "rw:" ++ toString e

def purpose? (s : String) : Option Purpose :=
  if s == "ro" then some .readOnly
  else if s == "rwnone" then some (.readWrite none)
  else match s.splitOn ":" with
    | ["rw", n] => (nat? n).map (fun e => .readWrite (some e))
    | _ => none

def showAccess : AccessScope → String
  | .readOnly => "scope ro" | .readWrite => "scope rw" | .synchronise => "scope sync"

def showErr : Err → String
  | .au0004 => "au0004" | .au0006 => "au0006" | .au0007 => "au0007"
  | .sessionExpired => "sessionexpired" | .invalidState => "invalidstate"
  | .sessionMayNotReauth => "sessionmaynotreauth" | .denied => "denied"
  | .noSuchToken => "nosuchtoken"

def showUat (u : Uat) : String :=
  s!"token {u.sessionId} {u.issuedAt} {showOptNat u.expiry} {showPurpose u.purpose}"

def showReply : Reply → String
  | .ok => "ok"
  | .token u => showUat u
  | .scope s => showAccess s
  | .err e => "err " ++ showErr e

def req? (s : String) : Option ReauthRequest :=
  if s == "rw" then some .grantReadWrite
  else if s == "verify" then some .verifyCredentials else none

def doStep (w : World) (op : Op) : World × String :=
  let r := step w op
  (r.1, showReply r.2)

def handle (w : World) (line : String) : World × String :=
  match tokens line with
  | ["reset", now] =>
    match nat? now with
    | some now => (World.init now, "ok")
    | none => (w, "bad-op")
  | ["auth", t, p, a, ps, sess, priv] =>
    match authType? t, bool? p, bool? a, bool? ps, nat? sess, nat? priv with
    | some t, some p, some a, some ps, some sess, some priv => doStep w (.auth t p a ps ⟨sess, priv⟩)
    | _, _, _, _, _, _ => (w, "bad-op")
  | ["reauth", tok, r, t, sess, priv] =>
    match nat? tok, req? r, authType? t, nat? sess, nat? priv with
    | some tok, some r, some t, some sess, some priv => doStep w (.reauth tok r t ⟨sess, priv⟩)
    | _, _, _, _, _ => (w, "bad-op")
  | ["advance", dt] =>
    match nat? dt with
    | some dt => doStep w (.advance dt)
    | none => (w, "bad-op")
  | ["use", tok] =>
    match nat? tok with
    | some tok => doStep w (.use tok)
    | none => (w, "bad-op")
  | ["useat", tok, ct] =>
    match nat? tok, nat? ct with
    | some tok, some ct => (w, showReply (step { w with now := ct } (.use tok)).2)
    | _, _ => (w, "bad-op")
  | ["process", tok, ct] =>
    match nat? tok, nat? ct with
    | some tok, some ct =>
      match w.tokens[tok]? with
      | none => (w, "err nosuchtoken")
      | some u =>
        match processUat w.sessions u ct with
        | .ok s => (w, showAccess s)
        | .error e => (w, "err " ++ showErr e)
    | _, _ => (w, "bad-op")
  | ["revoke", sid] =>
    match nat? sid with
    | some sid => doStep w (.revoke sid)
    | none => (w, "bad-op")
  | ["forge", sid, ia, ex, p, a] =>
    match nat? sid, nat? ia, optNat? ex, purpose? p, bool? a with
    | some sid, some ia, some ex, some p, some a =>
      let u : Uat := { sessionId := sid, issuedAt := ia, expiry := ex, purpose := p, anon := a }
      ({ w with tokens := w.tokens ++ [u] }, showUat u)
    | _, _, _, _, _ => (w, "bad-op")
  | ["touat", sc, ct, sess, priv] =>
    match sessionScope? sc, nat? ct, nat? sess, nat? priv with
    | some sc, some ct, some sess, some priv =>
      match toUat 0 false sc ct ⟨sess, priv⟩ with
      | some u => (w, s!"uat {u.issuedAt} {showOptNat u.expiry} {showPurpose u.purpose}")
      | none => (w, "none")
    | _, _, _, _ => (w, "bad-op")
  | ["reissue", sc, rw, ct, sess, priv, se] =>
    match sessionScope? sc, bool? rw, nat? ct, nat? sess, nat? priv, optNat? se with
    | some sc, some rw, some ct, some sess, some priv, some se =>
      match toReissueUat 0 false se sc rw ct ⟨sess, priv⟩ with
      | some u => (w, s!"uat {u.issuedAt} {showOptNat u.expiry} {showPurpose u.purpose}")
      | none => (w, "none")
    | _, _, _, _, _, _ => (w, "bad-op")
  | ["api", rw] =>
    match bool? rw with
    | some rw => (w, showAccess (apiTokenAccess rw))
    | none => (w, "bad-op")
  | ["cert"] => (w, showAccess certScope)
  | ["ldap"] => (w, showAccess ldapScope)
  | ["certuat", ct] =>
    match nat? ct with
    | some ct => (w, showAccess (certUatAccess ct))
    | none => (w, "bad-op")
  | _ => (w, "bad-op")

def main : IO Unit := run (World.init 0) handle
