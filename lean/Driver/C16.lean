import KanidmModel.Proto
import KanidmModel.Refint
/-!
Driver for C16 (stateful): the model state follows the harness' history.

* `reset`                → `ok`
* `op <o>`               → `<ok|err:kind> <state>`   (a refused operation keeps the state)
* `state`                → `<state>`
* `dangling`             → `id>ref,…` for every live entry with a non-exempt active reference to a
                           non-live uuid (`-` if none) — the model-side statement of the property

`<o>`:
  `create <entry>…` | `mod <u> <mod>…` | `del <ids> [<u>>g.g …]` (stash) | `rev <ids>` | `prec` |
  `ptomb` | `repl <conflict ids> <entry>…`
`<entry>` = `uuid/L|R|T/dyn 0|1/must/attrs` ; must = `a.b` or `-` ; attrs = `a=vs;a=vs` or `-` ;
`<vs>` = `r:1.2` (refer) | `s:1.2` (scope map) | `p:1.2` (application password) | `u:1.2` (plain uuid)
        | `c:n>1.2+n>-` (claim map) | `x:sid>rs>0|1+…` (oauth2 sessions)
`<mod>` = `+a=<val>` | `-a=u` | `!a` ; `<val>` = `r:5|s:5|p:5|u:5|c:n>5|n:n|x:sid>rs>0|1`
`<state>`: entries by ascending uuid, attributes by ascending id, sets ascending.
-/
open Kanidm Kanidm.Proto Kanidm.Refint

def dotList? (s : String) : Option (List Nat) :=
  if s == "-" || s == "" then some [] else (s.splitOn ".").mapM nat?

def showDots (l : List Nat) : String :=
  if l.isEmpty then "-" else ".".intercalate (l.map toString)

def parseSess (s : String) : Option Sess :=
  match s.splitOn ">" with
  | [a, b, c] => do pure ⟨← nat? a, ← nat? b, (← nat? c) != 0⟩
  | _ => none

def parseVS (s : String) : Option VS :=
  match s.splitOn ":" with
  | ["r", l] => do pure (.keys .refer (← dotList? l))
  | ["s", l] => do pure (.keys .scopeMap (← dotList? l))
  | ["p", l] => do pure (.keys .appPwd (← dotList? l))
  | ["u", l] => do pure (.keys .plainUuid (← dotList? l))
  | ["c", l] => do
    let cs ← (l.splitOn "+").mapM (fun c => match c.splitOn ">" with
      | [n, g] => do pure ((← nat? n), (← dotList? g))
      | _ => none)
    pure (.claims cs)
  | ["x", l] => do pure (.sessions (← (l.splitOn "+").mapM parseSess))
  | _ => none

def parseAttrs (s : String) : Option (List (Nat × VS)) :=
  if s == "-" || s == "" then some []
  else (s.splitOn ";").mapM (fun p => match p.splitOn "=" with
    | [a, v] => do pure ((← nat? a), (← parseVS v))
    | _ => none)

def parseEntry (s : String) : Option Entry :=
  match s.splitOn "/" with
  | [u, st, d, m, ats] => do
    let st ← (if st == "L" then some St.live else if st == "R" then some St.recycled
      else if st == "T" then some St.tombstone else none)
    pure ⟨← nat? u, st, (← nat? d) != 0, ← dotList? m, ← parseAttrs ats⟩
  | _ => none

def parseVal (s : String) : Option Val :=
  match s.splitOn ":" with
  | ["r", u] => do pure (.key .refer (← nat? u))
  | ["s", u] => do pure (.key .scopeMap (← nat? u))
  | ["p", u] => do pure (.key .appPwd (← nat? u))
  | ["u", u] => do pure (.key .plainUuid (← nat? u))
  | ["c", c] => match c.splitOn ">" with
    | [n, g] => do pure (.claim (← nat? n) (← nat? g))
    | _ => none
  | ["n", n] => do pure (.claimName (← nat? n))
  | ["x", x] => do pure (.sess (← parseSess x))
  | _ => none

def parseMod (s : String) : Option Mod :=
  let body := (s.drop 1).toString
  if s.startsWith "+" then
    match body.splitOn "=" with
    | [a, v] => do pure (.present (← nat? a) (← parseVal v))
    | _ => none
  else if s.startsWith "-" then
    match body.splitOn "=" with
    | [a, u] => do pure (.removed (← nat? a) (← nat? u))
    | _ => none
  else if s.startsWith "!" then do pure (.purged (← nat? body))
  else none

def parseStash (s : String) : Option (Nat × List Nat) :=
  match s.splitOn ">" with
  | [u, g] => do pure ((← nat? u), (← dotList? g))
  | _ => none

def parseOp : List String → Option Op
  | "create" :: es => do pure (.create (← es.mapM parseEntry))
  | "mod" :: u :: ms => do pure (.modify (← nat? u) (← ms.mapM parseMod))
  | "del" :: ids :: st => do pure (.delete (← natList? ids) (← st.mapM parseStash))
  | ["rev", ids] => do pure (.revive (← natList? ids))
  | ["prec"] => some .purgeRecycled
  | ["ptomb"] => some .purgeTombstones
  | "repl" :: k :: es => do pure (.repl (← es.mapM parseEntry) (← natList? k))
  | _ => none

/-! canonical output -/

def insertBy {α : Type} (key : α → Nat) (x : α) : List α → List α
  | [] => [x]
  | y :: ys => if key x ≤ key y then x :: y :: ys else y :: insertBy key x ys

def sortBy {α : Type} (key : α → Nat) (l : List α) : List α := l.foldr (insertBy key) []

def showSess (x : Sess) : String :=
  toString x.sid ++ ">" ++ toString x.rs ++ ">" ++ (if x.revoked then "1" else "0")

def showVS : VS → String
  | .keys .refer ks => "r:" ++ showDots (sortDedup ks)
  | .keys .scopeMap ks => "s:" ++ showDots (sortDedup ks)
  | .keys .appPwd ks => "p:" ++ showDots (sortDedup ks)
  | .keys .plainUuid ks => "u:" ++ showDots (sortDedup ks)
  | .claims m => "c:" ++ "+".intercalate ((sortBy (·.1) m).map (fun c => toString c.1 ++ ">" ++ showDots (sortDedup c.2)))
  | .sessions m => "x:" ++ "+".intercalate ((sortBy (·.sid) m).map showSess)

/-- Revoked sessions are not displayed (the code trims them lazily, see the model's header). -/
def visible (p : Nat × VS) : Option (Nat × VS) :=
  match p.2 with
  | .sessions m =>
    let m' := m.filter (fun x => !x.revoked)
    if m'.isEmpty then none else some (p.1, .sessions m')
  | _ => some p

def showEntry (e : Entry) : String :=
  let ats := sortBy (·.1) (e.attrs.filterMap visible)
  "/".intercalate [toString e.uuid,
    (match e.st with | .live => "L" | .recycled => "R" | .tombstone => "T"),
    (if ats.isEmpty then "-" else ";".intercalate (ats.map (fun p => toString p.1 ++ "=" ++ showVS p.2)))]

def showState (s : State) : String :=
  if s.isEmpty then "-" else " ".intercalate ((sortBy (·.uuid) s).map showEntry)

def showErr : Err → String
  | .refint => "refint" | .refLoop => "loop" | .noMatch => "nomatch" | .uuidExists => "exists"
  | .denied => "denied" | .invalid => "invalid"

/-- Non-exempt active references of live entries that do not resolve to a live entry. -/
def dangling (s : State) : List (Nat × Nat) :=
  (s.filter (·.st == .live)).flatMap (fun e =>
    (e.attrs.flatMap (fun p =>
      if p.1 == aMemberOf || (e.dyn && p.1 == aDynMember) then [] else p.2.active)).filterMap
      (fun r => if isLive s r then none else some (e.uuid, r)))

def stepLine (s : State) (line : String) : State × String :=
  match tokens line with
  | ["reset"] => ([], "ok")
  | ["state"] => (s, showState s)
  | ["dangling"] =>
    let d := dangling s
    (s, if d.isEmpty then "-" else ",".intercalate (d.map (fun p => toString p.1 ++ ">" ++ toString p.2)))
  | "op" :: rest =>
    match parseOp rest with
    | some op =>
      match step s op with
      | .ok s' => (s', "ok " ++ showState s')
      | .err e => (s, "err:" ++ showErr e ++ " " ++ showState s)
    | none => (s, "bad-op")
  | _ => (s, "bad-op")

def main : IO Unit := run ([] : State) stepLine
