import KanidmModel.Proto
import KanidmModel.Filter.Sexp
import KanidmModel.BaseProtect
/-!
Driver for C20 (`km_c20`). Fields of a request are separated by TAB; the formats of IDENT,
AGREEMENTS, ACPS_*, ENTRIES, MODLIST are those of `km_c24` (`Driver/C24.lean`). For a modification
of the `uuid` attribute the value field is the uuid as a number.

  tables                                                 → classes=<names>;attrs=<names>
  consts                                                 → anon=<n>;dne=<n>;dynmin=<n>
  mod     IDENT AGREEMENTS ACPS_M ENTRIES MODLIST        → ModOut        (`modifyStage`)
  bat     IDENT AGREEMENTS ACPS_M NMODSET PAIRS          → ModOut        (`batchStage`)
  cre     IDENT ACPS_C FRESH DB REQS                     → emptyRequest | accessDenied | base:<err>
                                                           | proceed <uuid>:<classes+>,…
  del     IDENT ACPS_D ENTRIES                           → OpResult      (`deleteStage`)
  basecre INTERNAL(0|1) FRESH DB CANDS                   → err:<err> | ok <uuid>:<classes+>,…
  basemod MODLIST                                        → 0 | 1         (`runPreModify`)
  basebat MODLIST|MODLIST…                               → 0 | 1         (`runPreBatchModify`)
  v4      N                                              → the uuid `from_random_bytes(N)` as a number

  REQS    uuids|!~classes|!~attrs~fe ^ …     uuids / classes: a+b    CANDS  uuids|!~classes ^ …
  FRESH, DB   a,b,c | -
-/
open Kanidm Kanidm.Proto Kanidm.Filter Kanidm.Access.Write Kanidm.BaseProtect

def optList? (s : String) : Option (Option (List Nat)) :=
  if s == "!" then some none else (natList? s).map some

def optNat? (s : String) : Option (Option Nat) :=
  if s == "!" then some none else (nat? s).map some

def scope? (s : String) : Option Scope :=
  match s with
  | "0" => some .readOnly | "1" => some .readWrite | "2" => some .synchronise | _ => none

def role? (s : String) : Option Role :=
  match s with
  | "0" => some .system | "1" => some .migration | "2" => some .accountRequest
  | "3" => some .messageQueue | _ => none

def ident? (s : String) : Option Ident :=
  match s.splitOn ":" with
  | ["U", u, sc, mo] => do
    pure ⟨.user (← nat? u) (← optList? mo), ← scope? sc⟩
  | ["S", u, sc] => do pure ⟨.synch (← nat? u), ← scope? sc⟩
  | ["I", r, sc] => do pure ⟨.internal (← role? r), ← scope? sc⟩
  | _ => none

def plusList? (s : String) : Option (List Nat) :=
  if s == "-" || s == "" then some [] else (s.splitOn "+").mapM nat?

def optPlusList? (s : String) : Option (Option (List Nat)) :=
  if s == "!" then some none else (plusList? s).map some

def agreements? (s : String) : Option (List (Nat × List Nat)) :=
  if s == "-" || s == "" then some [] else
  (s.splitOn ";").mapM fun item =>
    match item.splitOn "=" with
    | [u, l] => do pure (← nat? u, ← plusList? l)
    | _ => none

def recv? (s : String) : Option Receiver :=
  if s == "N" then some .none
  else if s == "M" then some .entryManager
  else match s.splitOn ":" with
    | ["G", l] => (natList? l).map .group
    | _ => none

def target? (s : String) : Option (Option FC) :=
  if s == "!" then some none else (FC.parse s).map some

def listOf? {α : Type} (sep : String) (f : String → Option α) (s : String) : Option (List α) :=
  if s == "-" || s == "" then some [] else (s.splitOn sep).mapM f

def acpM? (s : String) : Option AcpModify :=
  match s.splitOn "~" with
  | [r, t, p, rm, pc, rc] => do
    pure ⟨⟨← recv? r, ← target? t⟩, ← natList? p, ← natList? rm, ← natList? pc, ← natList? rc⟩
  | _ => none

def acpC? (s : String) : Option AcpCreate :=
  match s.splitOn "~" with
  | [r, t, a, c] => do pure ⟨⟨← recv? r, ← target? t⟩, ← natList? a, ← natList? c⟩
  | _ => none

def acpD? (s : String) : Option AcpDelete :=
  match s.splitOn "~" with
  | [r, t] => do pure ⟨⟨← recv? r, ← target? t⟩⟩
  | _ => none

def ent? (s : String) : Option Ent :=
  match s.splitOn "~" with
  | [u, c, m, sp, fe] => do
    pure ⟨← nat? u, ← optList? c, ← optList? m, ← optNat? sp, Entry.ofList (← Entry.parseAssoc fe)⟩
  | _ => none

def req? (s : String) : Option CreateReq :=
  match s.splitOn "~" with
  | [u, c, a, fe] => do
    pure ⟨← optPlusList? u, ← optPlusList? c, ← natList? a, Entry.ofList (← Entry.parseAssoc fe)⟩
  | _ => none

def cand? (s : String) : Option Cand :=
  match s.splitOn "~" with
  | [u, c] => do pure ⟨← optPlusList? u, ← plusList? c⟩
  | _ => none

def mod? (s : String) : Option Mod :=
  match s.splitOn ":" with
  | ["p", a, v] => do pure (.present (← nat? a) (← nat? v))
  | ["r", a, v] => do pure (.removed (← nat? a) (← nat? v))
  | ["u", a] => do pure (.purged (← nat? a))
  | ["s", a, vs] => do pure (.set (← nat? a) (← plusList? vs))
  | ["a", a, v] => do pure (.assert (← nat? a) (← nat? v))
  | _ => none

def modlist? (s : String) : Option (List Mod) := listOf? "," mod? s

def pair? (s : String) : Option (Ent × Option (List Mod)) :=
  match s.splitOn "@" with
  | [e, ml] => do
    let e ← ent? e
    if ml == "!" then pure (e, none) else pure (e, some (← modlist? ml))
  | _ => none

def showOp : OpResult → String
  | .emptyRequest => "emptyRequest"
  | .noMatchingEntries => "noMatchingEntries"
  | .accessDenied => "accessDenied"
  | .nothingToDo => "nothingToDo"
  | .proceed => "proceed"

def showModOut : ModOut → String
  | .emptyRequest => "emptyRequest"
  | .noMatchingEntries => "noMatchingEntries"
  | .nothingToDo => "nothingToDo"
  | .accessDenied => "accessDenied"
  | .missingEntries => "missingEntries"
  | .assertFailed => "assertFailed"
  | .protectedAttr => "protectedAttr"
  | .proceed => "proceed"

def showErr : BaseErr → String
  | .uuidCount => "uuidCount"
  | .dupInRequest => "dupInRequest"
  | .protectedRange => "protectedRange"
  | .doesNotExist => "doesNotExist"
  | .existsInDb => "existsInDb"

def showEnts (es : List (Nat × List Nat)) : String :=
  showList (fun p => s!"{p.1}:" ++
    (if p.2.isEmpty then "-" else "+".intercalate ((sortNats p.2.eraseDups).map toString))) es

def showCreate : CreateOut → String
  | .emptyRequest => "emptyRequest"
  | .accessDenied => "accessDenied"
  | .base e => "base:" ++ showErr e
  | .proceed es => "proceed " ++ showEnts es

def freshOf (l : List Nat) : Nat → Nat := fun i => l.getD i 0

def bad : String := "bad-op"

def handle (line : String) : String :=
  let line := line.trimAscii.toString
  match line.splitOn "\t" with
  | ["tables"] =>
    "classes=" ++ ",".intercalate Kanidm.Gen.Access.classNames ++ ";attrs=" ++
      ",".intercalate Kanidm.Gen.Access.attrNames
  | ["consts"] =>
    s!"anon={Kanidm.Gen.BaseProtect.uuidAnonymous};dne={Kanidm.Gen.BaseProtect.uuidDoesNotExist};dynmin={Kanidm.Gen.BaseProtect.dynamicRangeMinimum}"
  | ["v4", n] =>
    match nat? n with
    | some n => toString (v4 n)
    | none => bad
  | ["basemod", ml] =>
    match modlist? ml with
    | some ml => showBool (runPreModify ml)
    | none => bad
  | ["basebat", mls] =>
    match listOf? "|" modlist? mls with
    | some mls => showBool (runPreBatchModify mls)
    | none => bad
  | ["mod", i, ag, acps, es, ml] =>
    match ident? i, agreements? ag, listOf? "|" acpM? acps, listOf? "^" ent? es, modlist? ml with
    | some i, some ag, some acps, some es, some ml => showModOut (modifyStage i acps ag es ml)
    | _, _, _, _, _ => bad
  | ["bat", i, ag, acps, n, ps] =>
    match ident? i, agreements? ag, listOf? "|" acpM? acps, nat? n, listOf? "^" pair? ps with
    | some i, some ag, some acps, some n, some ps => showModOut (batchStage i acps ag n ps)
    | _, _, _, _, _ => bad
  | ["cre", i, acps, fresh, db, reqs] =>
    match ident? i, listOf? "|" acpC? acps, natList? fresh, natList? db, listOf? "^" req? reqs with
    | some i, some acps, some fresh, some db, some reqs =>
      showCreate (createStage i acps (freshOf fresh) db reqs)
    | _, _, _, _, _ => bad
  | ["del", i, acps, es] =>
    match ident? i, listOf? "|" acpD? acps, listOf? "^" ent? es with
    | some i, some acps, some es => showOp (deleteStage i acps es)
    | _, _, _ => bad
  | ["basecre", internal, fresh, db, cands] =>
    match bool? internal, natList? fresh, natList? db, listOf? "^" cand? cands with
    | some internal, some fresh, some db, some cands =>
      (match runPreCreateTransform internal (freshOf fresh) db cands with
       | .ok es => "ok " ++ showEnts es
       | .error e => "err:" ++ showErr e)
    | _, _, _, _ => bad
  | _ => bad

def main : IO Unit := runPure handle
