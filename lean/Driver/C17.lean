import KanidmModel.Proto
import KanidmModel.MemberOf
/-!
Driver for C17 (stateful): the model state follows the harness' history.

* `reset`                      → `ok`
* `op <o>` / `peek <o>`        → `<ok|err|diverge[!]> <state>` (`peek` does not keep the new state);
  `<o>` = `cg id members` | `cp id` | `set g members` | `add g m` | `rem g m` | `del ids` | `rev id`
  (`diverge!` = a configuration of the worklist loop repeated: the loop provably never ends)
* `state`                      → `<state>`
* `closure`                    → for every live entry `id/closure`
`<state>`: entries by ascending id, `id/g|p/L|R/member/mo/dmo/rdmo`, lists `a,b` or `-`.
-/
open Kanidm Kanidm.Proto Kanidm.MemberOf

def driverFuel : Nat := 400

def showEntry (e : Entry) : String :=
  "/".intercalate [toString e.id, (if e.grp then "g" else "p"), (if e.live then "L" else "R"),
    showNatList (sortNats (norm e.member)), showNatList (sortNats (norm e.mo)),
    showNatList (sortNats (norm e.dmo)), showNatList (sortNats (norm e.rdmo))]

def insertEntry (e : Entry) : List Entry → List Entry
  | [] => [e]
  | y :: ys => if e.id ≤ y.id then e :: y :: ys else y :: insertEntry e ys

def showState (s : State) : String :=
  if s.isEmpty then "-" else " ".intercalate ((s.foldr insertEntry []).map showEntry)

def parseOp (s : State) : List String → Option Op
  | ["cg", id, ms] => do pure (.create (← nat? id) true (← natList? ms))
  | ["cp", id] => do pure (.create (← nat? id) false [])
  | ["set", g, ms] => do pure (.setMembers (← nat? g) (← natList? ms))
  | ["add", g, m] => do
    let g ← nat? g; let m ← nat? m
    match find s g with
    | some e => pure (.setMembers g (ins m e.member))
    | none => pure (.setMembers g [m])
  | ["rem", g, m] => do
    let g ← nat? g; let m ← nat? m
    match find s g with
    | some e => pure (.setMembers g (sdiff e.member [m]))
    | none => pure (.setMembers g [])
  | ["del", ids] => do pure (.delete (← natList? ids))
  | ["rev", id] => do pure (.revive (← nat? id))
  | _ => none

/-- Does the worklist loop started by this configuration revisit a configuration? -/
def loops (fuel : Nat) (s : State) (w : List Nat) (seen : List (State × List Nat)) : Bool :=
  match fuel with
  | 0 => false
  | n + 1 =>
    if w.isEmpty then false
    else if seen.contains (s, w) then true
    else loops n (roundStep s w).1 (roundStep s w).2 ((s, w) :: seen)

/-- The `apply_memberof` call an operation makes last (state and affected set), re-derived
to certify a divergence; only used for the `!` suffix. -/
def lastCall (s : State) : Op → Option (State × List Nat)
  | .create id grp ms =>
    let ms := if grp then norm ms else []
    some (s ++ [⟨id, grp, true, ms, [], [], []⟩], id :: ms)
  | .setMembers g ms =>
    match find s g with
    | some e => some (setMem s g (norm ms), modifyAffected g e.member (norm ms))
    | none => none
  | .delete ids =>
    let t := (norm ids).filter (isLive s)
    some ((s.map (recycle t)).map (unref t), deleteAffected s t)
  | .revive _ => none

def showRes (s : State) (op : Op) : Res → State × String
  | .ok s' => (s', "ok " ++ showState s')
  | .err => (s, "err " ++ showState s)
  | .diverge =>
    let certain := match lastCall s op with
      | some (s1, w) => loops 300 s1 w []
      | none => false
    (s, (if certain then "diverge! " else "diverge ") ++ showState s)

def showClosure (s : State) : String :=
  let live := (s.foldr insertEntry []).filter (·.live)
  if live.isEmpty then "-"
  else " ".intercalate (live.map fun e => toString e.id ++ "/" ++ showNatList (sortNats (closure s e.id)))

def stepLine (s : State) (line : String) : State × String :=
  match tokens line with
  | ["reset"] => ([], "ok")
  | ["state"] => (s, showState s)
  | ["closure"] => (s, showClosure s)
  | "op" :: rest =>
    match parseOp s rest with
    | some op => showRes s op (step driverFuel s op)
    | none => (s, "bad-op")
  | "peek" :: rest =>
    match parseOp s rest with
    | some op => (s, (showRes s op (step driverFuel s op)).2)
    | none => (s, "bad-op")
  | _ => (s, "bad-op")

def main : IO Unit := run ([] : State) stepLine
