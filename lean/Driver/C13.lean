import KanidmModel.Proto
import KanidmModel.Backup
/-! Driver for C13 (stateless; every request carries the state it works on).

```
backup <series> <state>                        -> ok <doc> | err <code>
restore <series> <sqliteOk 0|1> <doc> <state>  -> <code> <state>      the write transaction when `restore` returns
server <series> <sqliteOk 0|1> <doc> <state>   -> <code> <state>      `restore_server_core`: commit only after Ok
reload <state>                                 -> <state>             `Backend::new` on the database
```
`state` = `r=<id:payload:cids,…>;s=<n|->;d=<n|->;t=<n|->;k=<id:val,…>;b=<cid,…>;u=<cid:ids,…>;g=<sid:ts.ts,…>;m=<n>`
(rows, server uuid, domain uuid, ts max, key handles, `ruv` table, in-memory RUV, ranges, cached max id);
a cid is `ts_sid`, ids / cids inside an item are joined by `.`, an empty list is `-`.
`doc` = `none` (does not deserialise) or `<bare 0|1>;<field>=<value>;…` with fields `version sUuid dUuid tsMax`
(a number), `keys`, `replMeta` (cids), `entries` (`payload:cids,…`); the value `!` is a value of the wrong type.
`code` = `ok | serdeJson | invalidDbState | mismatchedVersion | olderVersion | consistency`.
A stored entry is `(payload atom, cids of its change state)`. -/
open Kanidm Kanidm.Proto Kanidm.Backup

abbrev Row := Nat × List Cid

def dotList (s : String) : List String := if s == "" || s == "-" then [] else s.splitOn "."

def cid? (s : String) : Option Cid :=
  match s.splitOn "_" with
  | [a, b] => do let a ← nat? a; let b ← nat? b; pure ⟨a, b⟩
  | _ => none

def cids? (s : String) : Option (List Cid) := (dotList s).mapM cid?

def showCid (c : Cid) : String := s!"{c.ts}_{c.sid}"
def showDots (f : α → String) (l : List α) : String := ".".intercalate (l.map f)

def optNat? (s : String) : Option (Option Nat) := if s == "-" then some none else (nat? s).map some
def showOptNat : Option Nat → String
  | none => "-"
  | some n => toString n

def row? (s : String) : Option (Nat × Row) :=
  match s.splitOn ":" with
  | [i, p, c] => do let i ← nat? i; let p ← nat? p; let c ← cids? c; pure (i, (p, c))
  | _ => none

def ent? (s : String) : Option Row :=
  match s.splitOn ":" with
  | [p, c] => do let p ← nat? p; let c ← cids? c; pure (p, c)
  | _ => none

def pair? (s : String) : Option (Nat × Nat) :=
  match s.splitOn ":" with
  | [a, b] => do let a ← nat? a; let b ← nat? b; pure (a, b)
  | _ => none

def ruvItem? (s : String) : Option (Cid × List Nat) :=
  match s.splitOn ":" with
  | [c, ids] => do let c ← cid? c; let ids ← (dotList ids).mapM nat?; pure (c, ids)
  | _ => none

def rangeItem? (s : String) : Option (Nat × List Nat) :=
  match s.splitOn ":" with
  | [u, ts] => do let u ← nat? u; let ts ← (dotList ts).mapM nat?; pure (u, ts)
  | _ => none

def field (kvs : List (String × String)) (k : String) : Option String := (kvs.find? (·.1 == k)).map (·.2)

def kvs (s : String) : List (String × String) :=
  (s.splitOn ";").filterMap fun item =>
    match item.splitOn "=" with
    | [k, v] => some (k, v)
    | _ => none

def state? (s : String) : Option (Db Row) := do
  let m := kvs s
  let rows ← (splitList (← field m "r")).mapM row?
  let su ← optNat? (← field m "s")
  let du ← optNat? (← field m "d")
  let t ← optNat? (← field m "t")
  let keys ← (splitList (← field m "k")).mapM pair?
  let b ← (splitList (← field m "b")).mapM cid?
  let u ← (splitList (← field m "u")).mapM ruvItem?
  let g ← (splitList (← field m "g")).mapM rangeItem?
  let mx ← nat? (← field m "m")
  pure ⟨rows, su, du, t, keys, b, Kanidm.Index.Tables.empty, 0, u, g, mx⟩

def showRow (r : Nat × Row) : String := s!"{r.1}:{r.2.1}:{showDots showCid r.2.2}"
def showEnt (r : Row) : String := s!"{r.1}:{showDots showCid r.2}"

def showState (s : Db Row) : String :=
  ";".intercalate [
    "r=" ++ showList showRow s.rows,
    "s=" ++ showOptNat s.sUuid, "d=" ++ showOptNat s.dUuid, "t=" ++ showOptNat s.tsMax,
    "k=" ++ showList (fun p => s!"{p.1}:{p.2}") s.keys,
    "b=" ++ showList showCid s.dbRuv,
    "u=" ++ showList (fun p => s!"{showCid p.1}:{showDots toString p.2}") s.ruv,
    "g=" ++ showList (fun p => s!"{p.1}:{showDots toString p.2}") s.ranged,
    "m=" ++ toString s.maxid]

def fieldOfName : String → Option Field
  | "version" => some .version
  | "sUuid" => some .sUuid
  | "dUuid" => some .dUuid
  | "tsMax" => some .tsMax
  | "keys" => some .keys
  | "replMeta" => some .replMeta
  | "entries" => some .entries
  | _ => none

def nameOfField : Field → String
  | .version => "version"
  | .sUuid => "sUuid"
  | .dUuid => "dUuid"
  | .tsMax => "tsMax"
  | .keys => "keys"
  | .replMeta => "replMeta"
  | .entries => "entries"

/-- a value of the wrong type for the field -/
def wrong : Field → FV Row
  | .keys => .nat 0
  | .replMeta => .nat 0
  | .entries => .nat 0
  | _ => .ents []

def fv? (f : Field) (v : String) : Option (FV Row) :=
  if v == "!" then some (wrong f) else
  match f with
  | .keys => ((splitList v).mapM pair?).map .keys
  | .replMeta => ((splitList v).mapM cid?).map .cids
  | .entries => ((splitList v).mapM ent?).map .ents
  | _ => (nat? v).map .nat

/-- `some none` = the document `none`; `none` = a request this driver cannot read -/
def doc? (s : String) : Option (Option (Doc Row)) :=
  if s == "none" then some none else
  match s.splitOn ";" with
  | b :: rest => do
    let bare ← bool? b
    let fs ← rest.mapM fun item =>
      match item.splitOn "=" with
      | [k, v] => do let f ← fieldOfName k; let x ← fv? f v; pure (f, x)
      | _ => none
    pure (some ⟨bare, fs⟩)
  | [] => none

def showFV : FV Row → String
  | .nat n => toString n
  | .keys k => showList (fun p => s!"{p.1}:{p.2}") k
  | .cids c => showList showCid c
  | .ents e => showList showEnt e

def showDoc (d : Doc Row) : String :=
  ";".intercalate (showBool d.bare :: d.fields.map (fun p => s!"{nameOfField p.1}={showFV p.2}"))

def showErr : Err → String
  | .serdeJson => "serdeJson"
  | .invalidDbState => "invalidDbState"
  | .mismatchedVersion => "mismatchedVersion"
  | .olderVersion => "olderVersion"
  | .consistency => "consistency"

def showRes : Except Err Unit → String
  | .ok _ => "ok"
  | .error e => showErr e

def handle (line : String) : String :=
  match tokens line with
  | ["backup", cur, st] =>
    match nat? cur, state? st with
    | some cur, some s =>
      match backup cur s with
      | .ok d => "ok " ++ showDoc d
      | .error e => "err " ++ showErr e
    | _, _ => "bad-op"
  | ["restore", cur, ok, doc, st] =>
    match nat? cur, bool? ok, doc? doc, state? st with
    | some cur, some ok, some doc, some s =>
      let r := restore cur ok doc s
      showRes r.2 ++ " " ++ showState r.1
    | _, _, _, _ => "bad-op"
  | ["server", cur, ok, doc, st] =>
    match nat? cur, bool? ok, doc? doc, state? st with
    | some cur, some ok, some doc, some s =>
      let r := restoreServer cur ok doc s
      showRes r.2 ++ " " ++ showState r.1
    | _, _, _, _ => "bad-op"
  | ["reload", st] =>
    match state? st with
    | some s => showState (reload (fun r => r.2) s)
    | none => "bad-op"
  | _ => "bad-op"

def main : IO Unit := runPure handle
