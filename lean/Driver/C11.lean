import KanidmModel.Proto
import KanidmModel.SessionMerge
/-!
Driver for C11.  Maps are `k:<state>:<issued>:<payload>,…` (sessions; state `r<cid>` / `e<time>` / `n`),
`k:<v|t|x>:<statusCid>:<payload>,…` (keys; valid/retained/revoked), `cid:<text>,…` (audit log); `-` = empty.

  sm <trim> <newer> <older>       ValueSetSession::repl_merge_valueset
  o2 <trim> <newer> <older>       ValueSetOauth2Session::repl_merge_valueset
  km <trim> <newer> <older>       ValueSetKeyInternal::repl_merge_valueset
  au <newer> <older>              ValueSetAuditLogString::repl_merge_valueset
  vm <sm|o2|km|au> <trim> <cidL> <mapL> <cidR> <mapR>   role choice of Entry::merge_state → `<cid> <map>`
Replies are maps sorted by key.
-/
open Kanidm Kanidm.Proto Kanidm.SessionMerge Kanidm.Gen.SessionOrd

def parseState (s : String) : Option SState :=
  match s.toList with
  | ['n'] => some .neverExpires
  | 'r' :: tl => (String.ofList tl).toNat?.map .revokedAt
  | 'e' :: tl => (String.ofList tl).toNat?.map .expiresAt
  | _ => none

def showState : SState → String
  | .neverExpires => "n"
  | .revokedAt c => s!"r{c}"
  | .expiresAt t => s!"e{t}"

def parseSMap (s : String) : Option SMap :=
  (splitList s).mapM fun item =>
    match item.splitOn ":" with
    | [k, st, i, p] => do
      let k ← nat? k; let st ← parseState st; let i ← nat? i; let p ← nat? p
      pure (k, (⟨st, i, p⟩ : Sess))
    | _ => none

def showSMap (m : SMap) : String :=
  showList (fun e => s!"{e.1}:{showState e.2.state}:{e.2.issued}:{e.2.payload}") (sortByKey m)

def parseStatus (s : String) : Option KeyStatus :=
  if s == "v" then some .valid else if s == "t" then some .retained
  else if s == "x" then some .revoked else none

def showStatus : KeyStatus → String
  | .valid => "v" | .retained => "t" | .revoked => "x"

def parseKMap (s : String) : Option KMap :=
  (splitList s).mapM fun item =>
    match item.splitOn ":" with
    | [k, st, c, p] => do
      let k ← nat? k; let st ← parseStatus st; let c ← nat? c; let p ← nat? p
      pure (k, (⟨st, c, p⟩ : KeyData))
    | _ => none

def showKMap (m : KMap) : String :=
  showList (fun e => s!"{e.1}:{showStatus e.2.status}:{e.2.statusCid}:{e.2.payload}") (sortByKey m)

def parseAMap (s : String) : Option AMap :=
  (splitList s).mapM fun item =>
    match item.splitOn ":" with
    | [k, v] => do let k ← nat? k; let v ← nat? v; pure (k, v)
    | _ => none

def showAMap (m : AMap) : String :=
  showList (fun e => s!"{e.1}:{e.2}") (sortByKey m)

/-- The audit merge, cross-checked against the literal `pop_first` loop. -/
def auditChecked (newer older : AMap) (t : Nat) : String :=
  let r := auditReplMerge newer older t
  let u := mergemaps older newer
  let l := removeOldestLoop auditCapacity u.length u
  if showAMap r == showAMap l then showAMap r else "model-inconsistent"

def mergeKind (kind : String) (t : Nat) (newer older : String) : Option String :=
  match kind with
  | "sm" => do let n ← parseSMap newer; let o ← parseSMap older; pure (showSMap (sessReplMerge n o t))
  | "o2" => do let n ← parseSMap newer; let o ← parseSMap older; pure (showSMap (o2ReplMerge n o t))
  | "km" => do let n ← parseKMap newer; let o ← parseKMap older; pure (showKMap (keyReplMerge n o t))
  | "au" => do let n ← parseAMap newer; let o ← parseAMap older; pure (auditChecked n o t)
  | _ => none

/-- `attrMerge` over printed maps (the role choice is the model's generated `takeLeft`). -/
def vmKind (kind : String) (t cl : Nat) (ml : String) (cr : Nat) (mr : String) : Option String :=
  let f : String → String → Nat → String := fun n o t => (mergeKind kind t n o).getD "bad-op"
  let r := attrMerge f t (cl, ml) (cr, mr)
  if r.2 == "bad-op" then none else some s!"{r.1} {r.2}"

def handle (line : String) : String :=
  match tokens line with
  | ["au", n, o] => (mergeKind "au" 0 n o).getD "bad-op"
  | [k, t, n, o] =>
    match nat? t with
    | some t => (mergeKind k t n o).getD "bad-op"
    | none => "bad-op"
  | ["vm", k, t, cl, ml, cr, mr] =>
    match nat? t, nat? cl, nat? cr with
    | some t, some cl, some cr => (vmKind k t cl ml cr mr).getD "bad-op"
    | _, _, _ => "bad-op"
  | _ => "bad-op"

def main : IO Unit := runPure handle
