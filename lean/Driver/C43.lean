import KanidmModel.Proto
import KanidmModel.PamAuth
/-!
Driver for C43.  One request per line (stateless), one reply per line.

* `conn <ufp> <iuu> <svc> <acct> <tok> <prompts> <script>`                      `connected`
* `fb <ufp> <iuu> <acct> <tok> <prompts> <now> <users> <shadow> <verifies>`      `fallback`
* `acctd <ufp> <iuu> <svc> <acct> <script>`                                      `acctMgmt`, daemon reachable
* `acctf <ufp> <iuu> <svc> <acct> <now> <users> <shadow>`                        `acctMgmt`, daemon unreachable
* `crypt <hexpw>`                                                                `parseCrypt` (variant name)

`ufp iuu` : `use_first_pass`, `ignore_unknown_user` (`0|1`).
handler answers (`svc acct tok`, items of `prompts`): `o<n>` = `Ok(Some(n))`, `on` = `Ok(None)` / `Ok(())`,
`e<code>` = `Err(code)` (numeric `PamResultCode`); `svc`: `on` | `e<code>`; `prompts`: `a,b,…` | `-`.
`script` : events joined by `;` | `-`: `s:<PamAuthResponse variant>:<sid>`, `p:<1|0|n>` (`PamStatus`),
`o:<ClientResponse variant>`, `f` (the call fails).
`users` : `a,b,…` | `-`; `shadow` : `name:hexpw:expire` joined by `;` | `-` (`expire` = seconds | `n`);
`verifies` : `hexpw/cred` joined by `,` | `-` (the (hash, credential) pairs the scheme's verifier accepts).
`hexpw` : the ASCII bytes of the password field in hex (`-` = empty).

Reply: `code=<PAM_NAME> sent=<requests> calls=<handler calls> consumed=<n>`.
-/
open Kanidm Kanidm.Proto Kanidm.Pam Kanidm.Gen.Pam

def codeOf? (n : Nat) : Option PamCode := PamCode.all.find? (·.toNat == n)

def pres? (s : String) : Option PRes :=
  if s == "on" then some (.ok none)
  else if s.startsWith "o" then (nat? (s.drop 1).toString).map fun n => .ok (some n)
  else if s.startsWith "e" then do
    let n ← nat? (s.drop 1).toString
    let c ← codeOf? n
    pure (.err c)
  else none

def svc? (s : String) : Option (Option PamCode) :=
  match pres? s with
  | some (.ok _) => some none
  | some (.err c) => some (some c)
  | none => none

def semiList (s : String) : List String :=
  if s == "-" || s == "" then [] else s.splitOn ";"

def event? (s : String) : Option DEvent :=
  match s.splitOn ":" with
  | ["f"] => some .fail
  | ["s", k, sid] => do
    let kind ← StepKind.all.find? (·.name == k)
    pure (.reply (.step kind (← nat? sid)))
  | ["p", "1"] => some (.reply (.pamStatus (some true)))
  | ["p", "0"] => some (.reply (.pamStatus (some false)))
  | ["p", "n"] => some (.reply (.pamStatus none))
  | ["o", k] => do
    let kind ← OtherKind.all.find? (·.name == k)
    pure (.reply (.other kind))
  | _ => none

def hexVal (c : Char) : Option Nat :=
  if '0' ≤ c && c ≤ '9' then some (c.toNat - '0'.toNat)
  else if 'a' ≤ c && c ≤ 'f' then some (c.toNat - 'a'.toNat + 10)
  else none

def hexChars : List Char → Option (List Char)
  | [] => some []
  | [_] => none
  | a :: b :: rest => do
    let x ← hexVal a
    let y ← hexVal b
    let tl ← hexChars rest
    pure (Char.ofNat (x * 16 + y) :: tl)

def hexpw? (s : String) : Option (List Char) :=
  if s == "-" then some [] else hexChars s.toList

def shadow? (s : String) : Option Shadow :=
  match s.splitOn ":" with
  | [name, pw, ex] => do
    let n ← nat? name
    let p ← hexpw? pw
    let e ← if ex == "n" then some none else (int? ex).map some
    pure ⟨n, p, e⟩
  | _ => none

def verif? (s : String) : Option (List Char × Nat) :=
  match s.splitOn "/" with
  | [pw, cred] => do pure (← hexpw? pw, ← nat? cred)
  | _ => none

def showReq : Req → String
  | .init a => s!"init:{a}"
  | .step q cred sid =>
    let c := match cred with | some c => toString c | none => "-"
    s!"step:{q.name}:{c}:{sid}"
  | .accountAllowed a => s!"acct:{a}"

def showCall : Call → String
  | .serviceInfo => "si" | .accountId => "ai" | .authtok => "at"
  | .message => "msg" | .deviceGrant => "dg" | .promptPassword => "pw"
  | .promptMfa => "mfa" | .promptPin => "pin"

def showOut (o : Out) : String :=
  let sent := if o.sent.isEmpty then "-" else ";".intercalate (o.sent.map showReq)
  s!"code={o.code.name} sent={sent} calls={showList showCall o.calls} consumed={o.consumed.length}"

def handle (line : String) : String :=
  match tokens line with
  | ["conn", ufp, iuu, svc, acct, tok, prompts, script] =>
    match bool? ufp, bool? iuu, svc? svc, pres? acct, pres? tok, (splitList prompts).mapM pres?,
        (semiList script).mapM event? with
    | some u, some i, some sv, some ac, some tk, some ps, some sc =>
      showOut (connected ⟨u, i⟩ ⟨sv, ac, tk, ps⟩ sc)
    | _, _, _, _, _, _, _ => "bad-op"
  | ["fb", ufp, iuu, acct, tok, prompts, now, users, shadow, verifs] =>
    match bool? ufp, bool? iuu, pres? acct, pres? tok, (splitList prompts).mapM pres?, int? now,
        natList? users, (semiList shadow).mapM shadow?, (splitList verifs).mapM verif? with
    | some u, some i, some ac, some tk, some ps, some nw, some us, some sh, some vs =>
      showOut (fallback (fun _ s c => vs.contains (s, c)) ⟨u, i⟩ ⟨none, ac, tk, ps⟩ nw us sh)
    | _, _, _, _, _, _, _, _, _ => "bad-op"
  | ["acctd", ufp, iuu, svc, acct, script] =>
    match bool? ufp, bool? iuu, svc? svc, pres? acct, (semiList script).mapM event? with
    | some u, some i, some sv, some ac, some sc =>
      showOut (acctMgmt ⟨u, i⟩ ⟨sv, ac, .ok none, []⟩ 0 (.daemon sc))
    | _, _, _, _, _ => "bad-op"
  | ["acctf", ufp, iuu, svc, acct, now, users, shadow] =>
    match bool? ufp, bool? iuu, svc? svc, pres? acct, int? now, natList? users, (semiList shadow).mapM shadow? with
    | some u, some i, some sv, some ac, some nw, some us, some sh =>
      showOut (acctMgmt ⟨u, i⟩ ⟨sv, ac, .ok none, []⟩ nw (.fallback us sh))
    | _, _, _, _, _, _, _ => "bad-op"
  | ["crypt", pw] =>
    match hexpw? pw with
    | some p => (parseCrypt p).name
    | none => "bad-op"
  | _ => "bad-op"

def main : IO Unit := runPure handle
