import KanidmModel.Proto
import KanidmModel.HostAuthz
/-!
Driver for C45.  One request per line, one reply per line; the driver keeps the model state
(configuration, world, resolver state) between lines.

* `auth <allow> <valid> <groups>`           pure `unixUserAuthorise`; reply `1` | `0` | `none`
* `reset <sys> <allow>`                     new host: empty cache, provider in `check`, directory
                                            answers 404/nomatchingentries for everyone; reply `ok`
* `dir <id> tok:<valid>:<groups>`           directory now serves this token for `<id>`
* `dir <id> tr`                             connection dropped (transport error)
* `dir <id> st:<status>:<oe>`               HTTP error status with OperationError variant (lower case) or `-`
* `dir <id> bad`                            200 with an undecodable body
* `self <0|1>`                              the online probe fails / succeeds
* `inval` | `offline` | `nextcheck`         `Resolver::invalidate` / `mark_offline` / `mark_next_check_now`
* `seed <id> <known> <valid> <expired> <groups>`   a row of `account_t` present at start
* `q <id>`                                  `pam_account_allowed`; reply `<ans> <net> <nx>` with
                                            ans = `1` | `0` | `none` | `err`, net = `on` | `off` | `chk`
                                            (provider state afterwards), nx = `1` iff `<id>` is in the nxcache
* `shapes`                                  the generated "record is gone" table `status:oe,…`

lists: `a,b,c` | `-`;  groups: `name/uuid` joined by `+` | `-`.
-/
open Kanidm Kanidm.Proto Kanidm.HostAuthz Kanidm.Gen.HostAuthz

def parseGroups (s : String) : Option (List GroupTok) :=
  (if s == "-" || s == "" then [] else s.splitOn "+").mapM fun g =>
    match g.splitOn "/" with
    | [n, u] => do pure ⟨← nat? n, ← nat? u⟩
    | _ => none

def parseDir (s : String) : Option Dir :=
  match s.splitOn ":" with
  | ["tok", v, gs] => do pure (.tok (← parseGroups gs) (← bool? v))
  | ["tr"] => some (.other .transport)
  | ["bad"] => some (.other .otherErr)
  | ["st", code, oe] => do pure (.other (classifyHttp (← nat? code) (if oe == "-" then "" else oe)))
  | _ => none

def showAns : Res → String
  | .ok (some true) => "1"
  | .ok (some false) => "0"
  | .ok none => "none"
  | .err => "err"

def showOpt : Option Bool → String
  | some true => "1"
  | some false => "0"
  | none => "none"

def showNet : Net → String
  | .online => "on"
  | .offline => "off"
  | .check => "chk"

structure DState where
  cfg : Cfg
  w : World
  st : St

def world0 : World := { selfOk := true, dir := fun _ => .other (classifyHttp 404 "nomatchingentries") }

def dstate0 : DState := { cfg := ⟨[], []⟩, w := world0, st := St.init }

def apply (d : DState) (op : Op) : DState × Option Res :=
  match step d.cfg d.w d.st op with
  | (w', st', r) => ({ d with w := w', st := st' }, r)

def handle (d : DState) (line : String) : DState × String :=
  match tokens line with
  | ["auth", allow, valid, groups] =>
    match natList? allow, bool? valid, parseGroups groups with
    | some a, some v, some gs => (d, showOpt (unixUserAuthorise a ⟨true, gs, v⟩))
    | _, _, _ => (d, "bad-op")
  | ["reset", sys, allow] =>
    match natList? sys, natList? allow with
    | some s, some a => ({ cfg := ⟨s, a⟩, w := world0, st := St.init }, "ok")
    | _, _ => (d, "bad-op")
  | ["dir", id, e] =>
    match nat? id, parseDir e with
    | some id, some e => ((apply d (.setDir id e)).1, "ok")
    | _, _ => (d, "bad-op")
  | ["self", b] =>
    match bool? b with
    | some b => ((apply d (.setSelf b)).1, "ok")
    | none => (d, "bad-op")
  | ["inval"] => ((apply d .invalidate).1, "ok")
  | ["offline"] => ((apply d .markOffline).1, "ok")
  | ["nextcheck"] => ((apply d .markNextCheck).1, "ok")
  | ["seed", id, known, valid, expired, groups] =>
    match nat? id, bool? known, bool? valid, bool? expired, parseGroups groups with
    | some id, some k, some v, some ex, some gs =>
      ((apply d (.seed id ⟨⟨k, gs, v⟩, ex⟩)).1, "ok")
    | _, _, _, _, _ => (d, "bad-op")
  | ["q", id] =>
    match nat? id with
    | some id =>
      match apply d (.query id) with
      | (d', some r) => (d', s!"{showAns r} {showNet d'.st.net} {showBool (d'.st.nx.contains id)}")
      | (d', none) => (d', "bad-op")
    | none => (d, "bad-op")
  | ["shapes"] => (d, showList (fun p : Nat × String => s!"{p.1}:{p.2}") goneShapes)
  | _ => (d, "bad-op")

def main : IO Unit := run dstate0 handle
