import KanidmModel.Proto
import KanidmModel.Filter.Sexp
import KanidmModel.ProtoFilterEnv
/-!
Driver for C41 (environment: `stdEnv`, folding: `lowerByte`). Requests (fields separated by ` | `):

  `ldap <maxElems> | <LF>`  → `ok <valid 0|1> <debug text>` | `err <OperationError>`
  `scim <maxElems> | <SF>`  → same
       debug text = what `{:?}` prints for the real `FilterComp` (filter.rs l.159)
  `ents | <entries>`        → `ok <n>`           (sets the entry universe; Sexp.lean entry syntax)
  `lmm <maxElems> | <LF>`   → bit string: the translated filter's `FC.matches` on every entry | `err …`
  `smm <maxElems> | <SF>`   → same
  `lsem | <LF>`             → bit string: `ldapSem` (RFC 4511 reference) on every entry
  `ssem | <SF>`             → bit string: `scimSem` (RFC 7644 reference)

  bytes B := `b` dot-separated naturals (`b` alone = empty)        optional bytes := B | `-`
  LF := (and LF*) (or LF*) (not LF) (eq B B) (sub B optB (any B*) optB) (ge B B) (le B B)
        (pres B) (approx B B) (ext)
  J  := `js`<dot-separated naturals> | `jn`<nat> | `jt` | `jf` | `jo`
  SF := (cmp OP <atom> <sub 0|1> J) (not SF) (or SF SF) (and SF SF) (complex)
-/
open Kanidm Kanidm.Proto Kanidm.Filter Kanidm.ProtoFilter

def fields (line : String) : List String :=
  (line.splitOn "|").map (fun s => s.trimAscii.toString)

def bytesOf (s : String) : Option (List Nat) :=
  match s.toList with
  | 'b' :: rest =>
    let body := String.ofList rest
    if body.isEmpty then some [] else (body.splitOn ".").mapM String.toNat?
  | _ => none

def optBytesOf (s : String) : Option (Option (List Nat)) :=
  if s == "-" then some none else (bytesOf s).map some

partial def lfOfSx : Sx → Option LF
  | .list (.atom "and" :: rest) => do pure (.and (← rest.mapM lfOfSx))
  | .list (.atom "or" :: rest) => do pure (.or (← rest.mapM lfOfSx))
  | .list [.atom "not", f] => do pure (.not (← lfOfSx f))
  | .list [.atom "eq", .atom a, .atom v] => do pure (.equality (← bytesOf a) (← bytesOf v))
  | .list [.atom "sub", .atom a, .atom i, .list (.atom "any" :: xs), .atom f] => do
    let xs ← xs.mapM (fun x => match x with | .atom t => bytesOf t | _ => none)
    pure (.substring (← bytesOf a) (← optBytesOf i) xs (← optBytesOf f))
  | .list [.atom "ge", .atom a, .atom v] => do pure (.greaterOrEqual (← bytesOf a) (← bytesOf v))
  | .list [.atom "le", .atom a, .atom v] => do pure (.lessOrEqual (← bytesOf a) (← bytesOf v))
  | .list [.atom "pres", .atom a] => do pure (.present (← bytesOf a))
  | .list [.atom "approx", .atom a, .atom v] => do pure (.approx (← bytesOf a) (← bytesOf v))
  | .list [.atom "ext"] => some .extensible
  | _ => none

def jOf (s : String) : Option J :=
  match s.toList with
  | 'j' :: 's' :: rest =>
    let body := String.ofList rest
    if body.isEmpty then some (.str []) else ((body.splitOn ".").mapM String.toNat?).map J.str
  | 'j' :: 'n' :: rest => (String.ofList rest).toNat?.map J.num
  | ['j', 't'] => some (.bool true)
  | ['j', 'f'] => some (.bool false)
  | ['j', 'o'] => some .other
  | _ => none

def sopOf : String → Option SOp
  | "pr" => some .pr | "eq" => some .eq | "ne" => some .ne | "co" => some .co | "sw" => some .sw
  | "ew" => some .ew | "gt" => some .gt | "lt" => some .lt | "ge" => some .ge | "le" => some .le
  | _ => none

partial def sfOfSx : Sx → Option SF
  | .list [.atom "cmp", .atom op, .atom a, .atom sub, .atom j] => do
    pure (.cmp (← sopOf op) (← a.toNat?) (← bool? sub) (← jOf j))
  | .list [.atom "not", f] => do pure (.not (← sfOfSx f))
  | .list [.atom "or", l, r] => do pure (.or (← sfOfSx l) (← sfOfSx r))
  | .list [.atom "and", l, r] => do pure (.and (← sfOfSx l) (← sfOfSx r))
  | .list [.atom "complex"] => some .complex
  | _ => none

def showErr : TErr → String
  | .resourceLimit => "ResourceLimit"
  | .filterGeneration => "FilterGeneration"
  | .invalidAttributeName => "InvalidAttributeName"
  | .invalidAttribute => "InvalidAttribute"

/-! ### `{:?}` of `FilterComp` -/

def textOf (s : List Nat) : String := String.ofList (s.map Char.ofNat)

def hexNib (n : Nat) : Char := if n < 10 then Char.ofNat (48 + n) else Char.ofNat (87 + n)

def hexFixed (width n : Nat) : String :=
  String.ofList ((List.range width).reverse.map (fun i => hexNib ((n / 16 ^ i) % 16)))

def uuidText (n : Nat) : String :=
  let h := hexFixed 32 n
  let cs := h.toList
  String.ofList (cs.take 8) ++ "-" ++ String.ofList ((cs.drop 8).take 4) ++ "-" ++
    String.ofList ((cs.drop 12).take 4) ++ "-" ++ String.ofList ((cs.drop 16).take 4) ++ "-" ++
    String.ofList (cs.drop 20)

def attrText (a : Nat) : String :=
  match rowOfAtom a with
  | some r => textOf r.name
  | none => "?"

/-- `{:?}` of the `PartialValue` the attribute's syntax produces -/
def pvText (a : Nat) (v : Val) : String :=
  match rowOfAtom a, v with
  | some r, .str s =>
    match r.kind with
    | .iutf8 => s!"Iutf8(\"{textOf s}\")"
    | .iname => s!"Iname(\"{textOf s}\")"
    | .utf8 => s!"Utf8(\"{textOf s}\")"
    | .email => s!"EmailAddress(\"{textOf s}\")"
    | .spn =>
      match s.span (· != 64) with
      | (n, _ :: r) => s!"Spn(\"{textOf n}\", \"{textOf r}\")"
      | _ => "Spn(?)"
    | _ => "?"
  | some r, .num n =>
    match r.kind with
    | .uint32 => s!"Uint32({n})"
    | .uuid => s!"Uuid({uuidText n})"
    | _ => "?"
  | none, _ => "?"

partial def fcText : FC → String
  | .eq a v => s!"{attrText a} eq {pvText a v}"
  | .cnt a v => s!"{attrText a} cnt {pvText a v}"
  | .stw a v => s!"{attrText a} stw {pvText a v}"
  | .enw a v => s!"{attrText a} enw {pvText a v}"
  | .pres a => s!"{attrText a} pres"
  | .lessThan a v => s!"{attrText a} lt {pvText a v}"
  | .and l => "(" ++ " and ".intercalate (l.map fcText) ++ ")"
  | .or l => "(" ++ " or ".intercalate (l.map fcText) ++ ")"
  | .inclusion l => "(" ++ " inc ".intercalate (l.map fcText) ++ ")"
  | .andnot f => s!"not ( {fcText f} )"
  | .selfUuid => "uuid eq self"
  | .invalid a => "invalid ( " ++ (match rowOfAtom a with
      | some r => (textOf r.name).capitalize
      | none => "?") ++ " )"

def bits (l : List Bool) : String := String.ofList (l.map (fun b => if b then '1' else '0'))

def trReply (r : Except TErr FC) : String :=
  match r with
  | .error e => s!"err {showErr e}"
  | .ok fc => s!"ok {showBool (fcValidate stdEnv fc)} {fcText fc}"

def mmReply (ents : List Entry) (r : Except TErr FC) : String :=
  match r with
  | .error e => s!"err {showErr e}"
  | .ok fc => bits (ents.map (fun e => fc.matches (foldSem lowerByte) (.num 0) 6 e))

def handle (ents : List Entry) (line : String) : List Entry × String :=
  match fields line with
  | ["ents", es] =>
    match parseEntries es with
    | some l => (l, s!"ok {l.length}")
    | none => (ents, "bad-op")
  | [cmd, body] =>
    match tokens cmd with
    | ["ldap", n] =>
      match n.toNat?, (parseSxAll body).bind lfOfSx with
      | some n, some lf => (ents, trReply (ldapTrTop stdEnv n lf))
      | _, _ => (ents, "bad-op")
    | ["scim", n] =>
      match n.toNat?, (parseSxAll body).bind sfOfSx with
      | some n, some sf => (ents, trReply (scimTrTop stdEnv n sf))
      | _, _ => (ents, "bad-op")
    | ["lmm", n] =>
      match n.toNat?, (parseSxAll body).bind lfOfSx with
      | some n, some lf => (ents, mmReply ents (ldapTrTop stdEnv n lf))
      | _, _ => (ents, "bad-op")
    | ["smm", n] =>
      match n.toNat?, (parseSxAll body).bind sfOfSx with
      | some n, some sf => (ents, mmReply ents (scimTrTop stdEnv n sf))
      | _, _ => (ents, "bad-op")
    | ["lsem"] =>
      match (parseSxAll body).bind lfOfSx with
      | some lf => (ents, bits (ents.map (fun e => ldapSem lowerByte stdEnv e lf)))
      | none => (ents, "bad-op")
    | ["ssem"] =>
      match (parseSxAll body).bind sfOfSx with
      | some sf => (ents, bits (ents.map (fun e => scimSem lowerByte stdEnv e sf)))
      | none => (ents, "bad-op")
    | _ => (ents, "bad-op")
  | _ => (ents, "bad-op")

def main : IO Unit := run ([] : List Entry) handle
