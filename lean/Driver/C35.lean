import KanidmModel.Proto
import KanidmModel.AccountPolicy
/-!
Driver for C35: `fold <policy> <policy> …` (zero or more), reply = the resolved policy.

policy   = `priv;sess;pwmin;cred;ca;limf;limr;fb`   each scalar a natural or `-` (attribute absent)
ca       = `-` (absent) | `~` (present, empty) | `kid:B|kid:g1+g2|…`  (`B` = blanket allow)
reply    = `priv sess pwmin pwmax cred ca limf limr fb`
-/
open Kanidm Kanidm.Proto Kanidm.AccountPolicy

def optNat? (s : String) : Option (Option Nat) :=
  if s == "-" then some none else (nat? s).map some

def optBool? (s : String) : Option (Option Bool) :=
  if s == "-" then some none else (bool? s).map some

def parseEntry (s : String) : Option (Nat × CaEntry) :=
  match s.splitOn ":" with
  | [k, "B"] => (nat? k).map fun k => (k, .blanket)
  | [k, gs] => do
    let k ← nat? k
    let gs ← (gs.splitOn "+").mapM nat?
    pure (k, .devices gs)
  | _ => none

def parseCa (s : String) : Option (Option CaList) :=
  if s == "-" then some none
  else if s == "~" then some (some [])
  else ((s.splitOn "|").mapM parseEntry).map some

def parsePolicy (s : String) : Option AccountPolicy :=
  match s.splitOn ";" with
  | [a, b, c, d, ca, lf, lr, fb] => do
    let a ← optNat? a; let b ← optNat? b; let c ← optNat? c; let d ← optNat? d
    let ca ← parseCa ca; let lf ← optNat? lf; let lr ← optNat? lr; let fb ← optBool? fb
    pure (fromEntry { privilegeExpiry := a, authsessionExpiry := b, pwMinLength := c,
                      credentialPolicy := d, caList := ca, limitFilterTest := lf,
                      limitResults := lr, allowFallback := fb })
  | _ => none

def showOptNat : Option Nat → String
  | none => "-"
  | some n => toString n

def showEntry (ke : Nat × CaEntry) : String :=
  match ke.2 with
  | .blanket => s!"{ke.1}:B"
  | .devices d => s!"{ke.1}:" ++ "+".intercalate (d.map toString)

def showCa : Option CaList → String
  | none => "-"
  | some [] => "~"
  | some l => "|".intercalate (l.map showEntry)

def showResolved (r : Resolved) : String :=
  let fb := match r.allowFallback with | none => "-" | some b => showBool b
  s!"{r.privilegeExpiry} {r.authsessionExpiry} {r.pwMinLength} {r.pwMaxLength} {r.credentialPolicy} {showCa r.caList} {showOptNat r.limitFilterTest} {showOptNat r.limitResults} {fb}"

def handle (line : String) : String :=
  match tokens line with
  | "fold" :: ps =>
    match ps.mapM parsePolicy with
    | some l => showResolved (foldFrom l)
    | none => "bad-op"
  | _ => "bad-op"

def main : IO Unit := runPure handle
