import KanidmModel.Proto
import KanidmModel.Intent
/-!
Driver for C37 (stateful: one server state). Times are nanoseconds; `-` = `None`.

  new                                   → ok
  init <acct> <ttl|-> <ct>              → link <id> <expiry>
  xchg <link> <ct> <sid>                → token <t> <sid> <maxTtl>
  direct <acct> <ct> <sid>              → token <t> <sid> <maxTtl>
  setpw <t> <sid> <maxTtl> <v> <ct>     → pwset
  commit <t> <sid> <maxTtl> <ct>        → committed <link|-> <acct> <cred|->
  cancel <t> <sid> <maxTtl> <ct>        → cancelled <link|->
  revoke <link> <ct>                    → revoked
  (any of them)                         → err <OperationError variant>

Every reply is followed by ` | L <links> | C <creds> | S <sessions>`:
links `id:acct:V:max`, `id:acct:P:max:t:sid:sessTtl`, `id:acct:C:max` in list order (= allocation
order), creds `acct=v`, sessions `t.sid:link:acct:primary`.
-/
open Kanidm Kanidm.Proto Kanidm.Intent

def showOpt : Option Nat → String
  | none => "-"
  | some n => toString n

def showLink (l : Link) : String :=
  match l.st with
  | .valid m => s!"{l.id}:{l.acct}:V:{m}"
  | .inProgress m se t => s!"{l.id}:{l.acct}:P:{m}:{se.t}:{se.sid}:{t}"
  | .consumed m => s!"{l.id}:{l.acct}:C:{m}"

def showSess (se : Sess) : String :=
  s!"{se.id.t}.{se.id.sid}:{showOpt se.link}:{se.acct}:{showOpt se.primary}"

def showState (s : State) : String :=
  let creds := (sortNats (s.creds.map (·.1))).map (fun a => s!"{a}={showOpt (getCred a s.creds)}")
  s!"L {showList showLink s.links} | C {showList id creds} | S {showList showSess s.sessions}"

def showErr : Err → String
  | .wait => "Wait"
  | .invalidState => "InvalidState"
  | .sessionExpired => "SessionExpired"
  | .cu0004SessionInconsistent => "CU0004SessionInconsistent"
  | .cu0005IntentTokenConflict => "CU0005IntentTokenConflict"
  | .cu0006IntentTokenInvalidated => "CU0006IntentTokenInvalidated"
  | .emptyRequest => "EmptyRequest"

def showRes : Res → String
  | .link i e => s!"link {i} {e}"
  | .token k => s!"token {k.sess.t} {k.sess.sid} {k.maxTtl}"
  | .pwset => "pwset"
  | .committed l a c => s!"committed {showOpt l} {a} {showOpt c}"
  | .cancelled l => s!"cancelled {showOpt l}"
  | .revoked => "revoked"
  | .err e => s!"err {showErr e}"

def optNat? (s : String) : Option (Option Nat) :=
  if s == "-" then some none else (nat? s).map some

def tok? (t sid m : String) : Option Token :=
  match nat? t, nat? sid, nat? m with
  | some t, some sid, some m => some ⟨⟨t, sid⟩, m⟩
  | _, _, _ => none

def parseOp (line : String) : Option Op :=
  match tokens line with
  | ["init", a, ttl, ct] =>
    match nat? a, optNat? ttl, nat? ct with
    | some a, some ttl, some ct => some (.init a ttl ct)
    | _, _, _ => none
  | ["xchg", l, ct, sid] =>
    match nat? l, nat? ct, nat? sid with
    | some l, some ct, some sid => some (.exchange l ct sid)
    | _, _, _ => none
  | ["direct", a, ct, sid] =>
    match nat? a, nat? ct, nat? sid with
    | some a, some ct, some sid => some (.direct a ct sid)
    | _, _, _ => none
  | ["setpw", t, sid, m, v, ct] =>
    match tok? t sid m, nat? v, nat? ct with
    | some k, some v, some ct => some (.setpw k v ct)
    | _, _, _ => none
  | ["commit", t, sid, m, ct] =>
    match tok? t sid m, nat? ct with
    | some k, some ct => some (.commit k ct)
    | _, _ => none
  | ["cancel", t, sid, m, ct] =>
    match tok? t sid m, nat? ct with
    | some k, some ct => some (.cancel k ct)
    | _, _ => none
  | ["revoke", l, ct] =>
    match nat? l, nat? ct with
    | some l, some ct => some (.revoke l ct)
    | _, _ => none
  | _ => none

def handle (s : State) (line : String) : State × String :=
  match tokens line with
  | ["new"] => (State.empty, "ok")
  | _ =>
    match parseOp line with
    | none => (s, "bad-op")
    | some op =>
      let r := step s op
      (r.1, showRes r.2 ++ " | " ++ showState r.1)

def main : IO Unit := run State.empty handle
