import KanidmModel.Proto
import KanidmModel.Filter.Sexp
import KanidmModel.DynGroup
/-!
Driver for C18 (stateful): the model state follows the harness' history. Fields are separated by ` | `.

* `init | <classA> <nameA> <uuidA> <trackLo> | <recycled> <tombstone> <dyngroup> <self> | <layout> | <ents>`
      → `ok <n> <initB>`    constants (values in `Val` syntax), index layout `a:t,…` (t ∈ e s p o), the
      stored entries; the cache is set to the live dyngroups (what `DynGroup::reload` builds)
* `op create | <ents>` · `op mod | <ids> | <a>=<vals>,…` · `op filt | <ids> | <FC>` ·
  `op del | <ids>` · `op rev | <id>`                         → `ok <view>` | `err <view>`
* `view`                                                      → `<view>`
* `scope`   → `<covered> <exact>`: the history so far satisfies the hypotheses of
              `dyn_exact_partial` (`initB`, then `opSafeB` and `noDynB` at every committed operation);
              the model state satisfies the property (`exactB`)
* `exact`   → for every live dyngroup `id=<ids>`: the live entries satisfying its filter
              (`FC.matches`, the specification), `;`-separated
* `cls | <FC>` → `<fcOk> <safe>`: resolvable, and its resolved + optimised form is `F.safe`

`<ents>` = `id/attrs/filter[/dyn/mem/rdmo]` joined by `;`; attrs `a=V+V,a=V` or `-`; filter an FC
s-expression or `-`; id lists `a.b.c` or `-`.
`<view>` = every entry that is a dyngroup or has `id ≥ trackLo`, ascending id:
`id/L|R/attrs/dyn/mem/rdmo` joined by `;` (attrs sorted, class values restricted by the harness).
-/
open Kanidm Kanidm.Proto Kanidm.Filter Kanidm.DynGroup

structure St where
  env : Env
  st : State
  trackLo : Nat
  /-- the history so far is one the partial theorem covers (`initB` and, per committed operation,
  `opSafeB` and `noDynB`: the conjuncts of `safeRunB`) -/
  covered : Bool

def envInit : Env := ⟨0, ⟨99, 1⟩, .str [], .str [], .str [], .num 0, fun _ _ => false⟩

def St.init : St := ⟨envInit, ⟨[], fun _ => [], fun _ => [], fun _ => [], []⟩, 0, false⟩

def fields (line : String) : List String :=
  (line.splitOn "|").map (fun s => s.trimAscii.toString)

def ids? (s : String) : Option (List Nat) :=
  if s == "-" || s == "" then some [] else (s.splitOn ".").mapM String.toNat?

def showIds (l : List Nat) : String :=
  if l.isEmpty then "-" else ".".intercalate ((sortNats l.eraseDups).map toString)

def itypeOf (s : String) : Option IType :=
  match s with
  | "e" => some .equality | "s" => some .substring | "p" => some .presence | "o" => some .ordering
  | _ => none

def parseLayout (s : String) : Option (List (Nat × IType)) :=
  (splitList s).mapM fun item =>
    match item.splitOn ":" with
    | [a, t] => do pure (← a.toNat?, ← itypeOf t)
    | _ => none

def parseFilt (s : String) : Option (Option FC) :=
  if s == "-" then some none else (FC.parse s).map some

/-- an entry with its three reference attributes -/
structure EntX where
  e : Ent
  dyn : List Nat
  mem : List Nat
  rdmo : List Nat

def parseEnt (s : String) : Option EntX :=
  match s.splitOn "/" with
  | [id, attrs, f] => do
    pure ⟨⟨← id.toNat?, ← Entry.parseAssoc attrs, ← parseFilt f⟩, [], [], []⟩
  | [id, attrs, f, d, m, r] => do
    pure ⟨⟨← id.toNat?, ← Entry.parseAssoc attrs, ← parseFilt f⟩, ← ids? d, ← ids? m, ← ids? r⟩
  | _ => none

def parseEnts (s : String) : Option (List EntX) :=
  if s == "-" || s == "" then some [] else (s.splitOn ";").mapM parseEnt

def tableOf (es : List EntX) (f : EntX → List Nat) : Nat → List Nat := fun u =>
  match es.find? (fun x => x.e.id == u) with
  | some x => f x
  | none => []

def insertStr (x : String) : List String → List String
  | [] => [x]
  | y :: ys => if x ≤ y then x :: y :: ys else y :: insertStr x ys

def sortStrs (l : List String) : List String := l.foldr insertStr []

def showAttrs (e : Ent) : String :=
  let keys := sortNats (e.attrs.map (·.1)).eraseDups
  let parts := keys.filterMap fun a =>
    let vs := e.entry a
    if vs.isEmpty then none
    else some (toString a ++ "=" ++ "+".intercalate (sortStrs (vs.map Val.render)))
  if parts.isEmpty then "-" else ",".intercalate parts

def insertEnt (e : Ent) : List Ent → List Ent
  | [] => [e]
  | y :: ys => if e.id ≤ y.id then e :: y :: ys else y :: insertEnt e ys

def showEnt (env : Env) (st : State) (e : Ent) : String :=
  "/".intercalate [toString e.id, (if env.live e then "L" else "R"), showAttrs e,
    showIds (st.dyn e.id), showIds (st.mem e.id), showIds (st.rdmo e.id)]

def view (s : St) : String :=
  let es := (s.st.ents.filter (fun e => e.filt.isSome || decide (s.trackLo ≤ e.id))).foldr insertEnt []
  if es.isEmpty then "-" else ";".intercalate (es.map (showEnt s.env s.st))

def exactView (s : St) : String :=
  let gs := (s.st.ents.filter (fun g => s.env.live g && s.env.isDyn g.entry)).foldr insertEnt []
  let parts := gs.filterMap fun g =>
    g.filt.map fun fc => toString g.id ++ "=" ++ showIds (specMembers s.env s.st.ents fc)
  if parts.isEmpty then "-" else ";".intercalate parts

def doOp (s : St) (op : Op) : St × String :=
  match step s.env s.st op with
  | some st' =>
    let s' := { s with st := st', covered := s.covered && opSafeB s.env s.st op && noDynB s.env st'.ents }
    (s', "ok " ++ view s')
  | none => (s, "err " ++ view s)

def parseVals (s : String) : Option (List Val) :=
  if s == "-" || s == "" then some [] else (s.splitOn "+").mapM Val.ofString

/-- `a=V+V,b=-` -/
def parseChange (s : String) : Option (List (Nat × List Val)) :=
  (s.splitOn ",").mapM fun item =>
    match item.splitOn "=" with
    | [a, vs] => do pure (← a.toNat?, ← parseVals vs)
    | _ => none

def handle (s : St) (line : String) : St × String :=
  match fields line with
  | ["view"] => (s, view s)
  | ["scope"] => (s, s!"{showBool s.covered} {showBool (exactB s.env s.st)}")
  | ["exact"] => (s, exactView s)
  | ["cls", f] =>
    match FC.parse f with
    | some fc =>
      let safe := match resolvedFull s.env fc with
        | some g => g.safe
        | none => false
      (s, s!"{showBool (fcOk fc)} {showBool safe}")
    | none => (s, "bad-filter")
  | ["init", consts, vals, layout, ents] =>
    match tokens consts, tokens vals, parseLayout layout, parseEnts ents with
    | [ca, na, ua, lo], [r, t, d, sf], some lay, some es =>
      match ca.toNat?, na.toNat?, ua.toNat?, lo.toNat?, Val.ofString r, Val.ofString t, Val.ofString d, Val.ofString sf with
      | some ca, some na, some ua, some lo, some r, some t, some d, some sf =>
        let env : Env := ⟨ca, ⟨ua, na⟩, r, t, d, sf, fun a ty => lay.contains (a, ty)⟩
        let st := State.load env (es.map (·.e)) (tableOf es (·.dyn)) (tableOf es (·.mem)) (tableOf es (·.rdmo))
        (⟨env, st, lo, initB env st⟩, s!"ok {es.length} {showBool (initB env st)}")
      | _, _, _, _, _, _, _, _ => (s, "bad-init")
    | _, _, _, _ => (s, "bad-init")
  | ["op create", ents] =>
    match parseEnts ents with
    | some es => doOp s (.create (es.map (·.e)))
    | none => (s, "bad-ents")
  | ["op mod", ids, ch] =>
    match ids? ids, parseChange ch with
    | some ids, some l => doOp s (.modify ids (.attrs l))
    | _, _ => (s, "bad-args")
  | ["op filt", ids, f] =>
    match ids? ids, FC.parse f with
    | some ids, some fc => doOp s (.modify ids (.filt fc))
    | _, _ => (s, "bad-args")
  | ["op del", ids] =>
    match ids? ids with
    | some ids => doOp s (.delete ids)
    | none => (s, "bad-args")
  | ["op rev", id] =>
    match id.toNat? with
    | some id => doOp s (.revive id)
    | none => (s, "bad-args")
  | _ => (s, "bad-op")

def main : IO Unit := run St.init handle
