import KanidmModel.Proto
import KanidmModel.Recycle
/-!
Driver for C26 (stateful): the model state follows the harness' history.

* `reset <maxTs> <sid>`   → `ok`          (empty slot; committed cid_max.ts and server uuid)
* `step <ct> <op>`        → `<res> | <state> | vis=<ids> rec=<ids> tomb=<ids>`
  `<op>` = `cp id` | `cg id members` | `cc id p` | `add g m` | `rem g m` | `touch id` |
  `del ids` | `rev id` | `purgerc` | `purgets`
  `<res>` = `ok` | `ok <n>` | `err:<OperationError variant>` | `unsupported` | `panic`
* `state`                 → `<state>`
`<state>`: entries by ascending id, `id / p|g|c|? / L|R|T / lastmod or - / member / dmo / rdmo / refers / casc` (no spaces)
(lists `a,b` or `-`, options `n` or `-`; lastmod is shown for recycled entries and tombstones).
-/
open Kanidm Kanidm.Proto Kanidm.Recycle

def showOpt : Option Nat → String
  | some n => toString n
  | none => "-"

def showEntry (e : Entry) : String :=
  "/".intercalate [toString e.id,
    (if e.st == .tomb then "?" else match e.kind with | .person => "p" | .group => "g" | .cert => "c"),
    (match e.st with | .live => "L" | .recycled => "R" | .tomb => "T"),
    (if e.st == .live then "-" else toString e.lastMod),
    showNatList (sortNats e.member), showNatList (sortNats e.dmo), showNatList (sortNats e.rdmo),
    showOpt e.refers, showOpt e.casc]

def insertEntry (e : Entry) : List Entry → List Entry
  | [] => [e]
  | y :: ys => if e.id ≤ y.id then e :: y :: ys else y :: insertEntry e ys

def showEntries (es : List Entry) : String :=
  if es.isEmpty then "-" else " ".intercalate ((es.foldr insertEntry []).map showEntry)

def showAll (s : State) : String :=
  showEntries s.es ++ " | vis=" ++ showNatList (sortNats (searchNormal s.es)) ++
    " rec=" ++ showNatList (sortNats (searchRecycleBin s.es)) ++
    " tomb=" ++ showNatList (sortNats (searchTombstones s.es))

def parseOp : List String → Option Op
  | ["cp", id] => do pure (.createPerson (← nat? id))
  | ["cg", id, ms] => do pure (.createGroup (← nat? id) (← natList? ms))
  | ["cc", id, p] => do pure (.createCert (← nat? id) (← nat? p))
  | ["add", g, m] => do pure (.addMember (← nat? g) (← nat? m))
  | ["rem", g, m] => do pure (.remMember (← nat? g) (← nat? m))
  | ["touch", id] => do pure (.touch (← nat? id))
  | ["del", ids] => do pure (.delete (← natList? ids))
  | ["rev", id] => do pure (.revive (← nat? id))
  | ["purgerc"] => some .purgeRecycled
  | ["purgets"] => some .purgeTombstones
  | _ => none

def showErr : Err → String
  | .noMatch => "NoMatchingEntries"
  | .plugin => "Plugin"
  | .schema => "SchemaViolation"
  | .refLoop => "ReferenceLoop"
  | .replCid => "InvalidReplChangeId"

def showRes : Res → String
  | .ok _ none => "ok"
  | .ok _ (some n) => "ok " ++ toString n
  | .err e => "err:" ++ showErr e
  | .unsupported => "unsupported"
  | .panic => "panic"

def stepLine (s : State) (line : String) : State × String :=
  match tokens line with
  | ["reset", m, sid] =>
    match nat? m, nat? sid with
    | some m, some sid => (⟨[], m, sid⟩, "ok")
    | _, _ => (s, "bad-op")
  | ["state"] => (s, showAll s)
  | "step" :: ct :: rest =>
    match nat? ct, parseOp rest with
    | some ct, some op =>
      let s' := next s ct op
      (s', showRes (apply s ct op) ++ " | " ++ showAll s')
    | _, _ => (s, "bad-op")
  | _ => (s, "bad-op")

def main : IO Unit := run (⟨[], 0, 1⟩ : State) stepLine
