import KanidmModel.Proto
import KanidmModel.Bearer
/-! Driver for C32 (stateful; one world per `reset`).

State ops (reply `ok`):
  `reset` · `acct a c|-` · `rec a s c e|- t` · `rev a s t` · `cred a c|- t` · `valid a vf|- ex|- t`
  `del a` · `apiissue a tid e|- iat t` · `apidestroy a tid t` · `key k` · `keyrevoke k`
Queries:
  `val <tok> ct` / `valpre <tok> ct` → `ident a s` | `notauth` | `expired`
  `sess a` → the account's UserAuthTokenSession map over every session id seen so far,
             `s:E<exp>:c` | `s:N:c` | `s:R:c`, comma separated (`-` = empty, `absent` = no entry)
  `api a`  → the account's ApiTokenSession ids
Tokens: `uat:kid:sig:uuid:sid:iat:exp|-` · `apit:kid:sig:a:tid:iat:exp|-` · `apic:kid:sig:sid` · `other:kid:sig`
-/
open Kanidm Kanidm.Proto Kanidm.Bearer

structure St where
  w : World
  sids : List Nat
  tids : List Nat

def St.init : St := ⟨World.empty, [], []⟩

def optNat? (s : String) : Option (Option Nat) :=
  if s == "-" then some none else (nat? s).map some

def parseTok (s : String) : Option Token :=
  match s.splitOn ":" with
  | ["uat", k, g, u, sid, iat, e] => do
    let k ← nat? k; let g ← bool? g; let u ← nat? u; let sid ← nat? sid; let iat ← nat? iat
    let e ← optNat? e
    pure ⟨k, g, .uat u sid iat e⟩
  | ["apit", k, g, a, tid, iat, e] => do
    let k ← nat? k; let g ← bool? g; let a ← nat? a; let tid ← nat? tid; let iat ← nat? iat
    let e ← optNat? e
    pure ⟨k, g, .apit a tid iat e⟩
  | ["apic", k, g, sid] => do
    let k ← nat? k; let g ← bool? g; let sid ← nat? sid
    pure ⟨k, g, .apic sid⟩
  | ["other", k, g] => do
    let k ← nat? k; let g ← bool? g
    pure ⟨k, g, .other⟩
  | _ => none

def showReply : Reply → String
  | .ident a s => s!"ident {a} {s}"
  | .notAuthenticated => "notauth"
  | .sessionExpired => "expired"

def showSess (s : Nat) (v : Session) : String :=
  let st := match v.state with
    | .expiresAt e => s!"E{e}"
    | .neverExpires => "N"
    | .revokedAt => "R"
  s!"{s}:{st}:{v.cred}"

def addOnce (x : Nat) (l : List Nat) : List Nat := if l.contains x then l else l ++ [x]

def apply (st : St) (op : Op) : St × String := ({ st with w := step st.w op }, "ok")

def handle (st : St) (line : String) : St × String :=
  match tokens line with
  | ["reset"] => (St.init, "ok")
  | ["acct", a, c] =>
    match nat? a, optNat? c with
    | some a, some c => apply st (.addAccount a c)
    | _, _ => (st, "bad-op")
  | ["rec", a, s, c, e, t] =>
    match nat? a, nat? s, nat? c, optNat? e, nat? t with
    | some a, some s, some c, some e, some t =>
      apply { st with sids := addOnce s st.sids } (.record a s c e t)
    | _, _, _, _, _ => (st, "bad-op")
  | ["rev", a, s, t] =>
    match nat? a, nat? s, nat? t with
    | some a, some s, some t => apply st (.revoke a s t)
    | _, _, _ => (st, "bad-op")
  | ["cred", a, c, t] =>
    match nat? a, optNat? c, nat? t with
    | some a, some c, some t => apply st (.setCred a c t)
    | _, _, _ => (st, "bad-op")
  | ["valid", a, vf, ex, t] =>
    match nat? a, optNat? vf, optNat? ex, nat? t with
    | some a, some vf, some ex, some t => apply st (.setValid a vf ex t)
    | _, _, _, _ => (st, "bad-op")
  | ["del", a] =>
    match nat? a with
    | some a => apply st (.delete a)
    | none => (st, "bad-op")
  | ["apiissue", a, tid, e, iat, t] =>
    match nat? a, nat? tid, optNat? e, nat? iat, nat? t with
    | some a, some tid, some e, some iat, some t =>
      apply { st with tids := addOnce tid st.tids } (.apiIssue a tid e iat t)
    | _, _, _, _, _ => (st, "bad-op")
  | ["apidestroy", a, tid, t] =>
    match nat? a, nat? tid, nat? t with
    | some a, some tid, some t => apply st (.apiDestroy a tid t)
    | _, _, _ => (st, "bad-op")
  | ["key", k] =>
    match nat? k with
    | some k => apply st (.keyAdd k)
    | none => (st, "bad-op")
  | ["keyrevoke", k] =>
    match nat? k with
    | some k => apply st (.keyRevoke k)
    | none => (st, "bad-op")
  | ["val", tok, ct] =>
    match parseTok tok, nat? ct with
    | some tok, some ct => (st, showReply (validate st.w tok ct))
    | _, _ => (st, "bad-op")
  | ["valpre", tok, ct] =>
    match parseTok tok, nat? ct with
    | some tok, some ct => (st, showReply (validatePre st.w tok ct))
    | _, _ => (st, "bad-op")
  | ["sess", a] =>
    match nat? a with
    | some a =>
      match st.w.accounts a with
      | none => (st, "absent")
      | some acc =>
        let items := (sortNats st.sids).filterMap fun s => (acc.sessions s).map (showSess s)
        (st, showList id items)
    | none => (st, "bad-op")
  | ["api", a] =>
    match nat? a with
    | some a =>
      match st.w.accounts a with
      | none => (st, "absent")
      | some acc =>
        let items := (sortNats st.tids).filter fun t => (acc.apiTokens t).isSome
        (st, showNatList items)
    | none => (st, "bad-op")
  | _ => (st, "bad-op")

def main : IO Unit := run St.init handle
