import KanidmModel.Proto
import KanidmModel.Filter.Sexp
import KanidmModel.Access.Write
/-!
Driver for C24 (`km_c24`). Fields of a request are separated by TAB.

  tables                                              → classes=<names>;attrs=<names>
  mod    IDENT AGREEMENTS ACPS_M ENTRIES MODLIST      → 1 | 0     (`modify_allow_operation`)
  bat    IDENT AGREEMENTS ACPS_M PAIRS                → 1 | 0     (`batch_modify_allow_operation`)
  cre    IDENT ACPS_C NEWENTRIES                      → 1 | 0     (`create_allow_operation`)
  del    IDENT ACPS_D ENTRIES                         → 1 | 0     (`delete_allow_operation`)
  modop / creop / delop / revop (revop has no MODLIST) → emptyRequest | noMatchingEntries |
                                                        accessDenied | nothingToDo | proceed
  apply  IDENT AGREEMENTS ACPS_M ENTRY                → deny | grant | allow p=..;r=..;pc=..;rc=..

  IDENT      U:<uuid>:<scope>:<memberof|!>   S:<uuid>:<scope>   I:<role 0-3>:<scope>   scope 0 ro,1 rw,2 sync
  AGREEMENTS - | uuid=a+b;uuid=
  ACPS_M     - | RECV~TARGET~pres~rem~prescls~remcls | …      lists: - or a,b,c
  ACPS_C     - | RECV~TARGET~attrs~classes | …
  ACPS_D     - | RECV~TARGET | …
  RECV       N | M | G:<groups>          TARGET   ! | FC s-expression
  ENTRIES    - | uuid~classes|!~managedby|!~syncparent|!~fe ^ …       fe as in Filter.Sexp
  NEWENTRIES - | uuid|!~classes|!~attrs~fe ^ …
  PAIRS      ENTRY@MODLIST ^ ENTRY@! ^ …
  MODLIST    - | p:a:v , r:a:v , u:a , s:a:v+v , a:a:v
-/
open Kanidm Kanidm.Proto Kanidm.Filter Kanidm.Access.Write

def optList? (s : String) : Option (Option (List Nat)) :=
  if s == "!" then some none else (natList? s).map some

def optNat? (s : String) : Option (Option Nat) :=
  if s == "!" then some none else (nat? s).map some

def scope? (s : String) : Option Scope :=
  match s with
  | "0" => some .readOnly | "1" => some .readWrite | "2" => some .synchronise | _ => none

def role? (s : String) : Option Role :=
  match s with
  | "0" => some .system | "1" => some .migration | "2" => some .accountRequest
  | "3" => some .messageQueue | _ => none

def ident? (s : String) : Option Ident :=
  match s.splitOn ":" with
  | ["U", u, sc, mo] => do
    pure ⟨.user (← nat? u) (← optList? mo), ← scope? sc⟩
  | ["S", u, sc] => do pure ⟨.synch (← nat? u), ← scope? sc⟩
  | ["I", r, sc] => do pure ⟨.internal (← role? r), ← scope? sc⟩
  | _ => none

def plusList? (s : String) : Option (List Nat) :=
  if s == "-" || s == "" then some [] else (s.splitOn "+").mapM nat?

def agreements? (s : String) : Option (List (Nat × List Nat)) :=
  if s == "-" || s == "" then some [] else
  (s.splitOn ";").mapM fun item =>
    match item.splitOn "=" with
    | [u, l] => do pure (← nat? u, ← plusList? l)
    | _ => none

def recv? (s : String) : Option Receiver :=
  if s == "N" then some .none
  else if s == "M" then some .entryManager
  else match s.splitOn ":" with
    | ["G", l] => (natList? l).map .group
    | _ => none

def target? (s : String) : Option (Option FC) :=
  if s == "!" then some none else (FC.parse s).map some

def listOf? {α : Type} (sep : String) (f : String → Option α) (s : String) : Option (List α) :=
  if s == "-" || s == "" then some [] else (s.splitOn sep).mapM f

def acpM? (s : String) : Option AcpModify :=
  match s.splitOn "~" with
  | [r, t, p, rm, pc, rc] => do
    pure ⟨⟨← recv? r, ← target? t⟩, ← natList? p, ← natList? rm, ← natList? pc, ← natList? rc⟩
  | _ => none

def acpC? (s : String) : Option AcpCreate :=
  match s.splitOn "~" with
  | [r, t, a, c] => do pure ⟨⟨← recv? r, ← target? t⟩, ← natList? a, ← natList? c⟩
  | _ => none

def acpD? (s : String) : Option AcpDelete :=
  match s.splitOn "~" with
  | [r, t] => do pure ⟨⟨← recv? r, ← target? t⟩⟩
  | _ => none

def ent? (s : String) : Option Ent :=
  match s.splitOn "~" with
  | [u, c, m, sp, fe] => do
    pure ⟨← nat? u, ← optList? c, ← optList? m, ← optNat? sp, Entry.ofList (← Entry.parseAssoc fe)⟩
  | _ => none

def newEnt? (s : String) : Option NewEnt :=
  match s.splitOn "~" with
  | [u, c, a, fe] => do
    pure ⟨← optNat? u, ← optList? c, ← natList? a, Entry.ofList (← Entry.parseAssoc fe)⟩
  | _ => none

def mod? (s : String) : Option Mod :=
  match s.splitOn ":" with
  | ["p", a, v] => do pure (.present (← nat? a) (← nat? v))
  | ["r", a, v] => do pure (.removed (← nat? a) (← nat? v))
  | ["u", a] => do pure (.purged (← nat? a))
  | ["s", a, vs] => do pure (.set (← nat? a) (← plusList? vs))
  | ["a", a, v] => do pure (.assert (← nat? a) (← nat? v))
  | _ => none

def modlist? (s : String) : Option (List Mod) := listOf? "," mod? s

def pair? (s : String) : Option (Ent × Option (List Mod)) :=
  match s.splitOn "@" with
  | [e, ml] => do
    let e ← ent? e
    if ml == "!" then pure (e, none) else pure (e, some (← modlist? ml))
  | _ => none

def showOp : OpResult → String
  | .emptyRequest => "emptyRequest"
  | .noMatchingEntries => "noMatchingEntries"
  | .accessDenied => "accessDenied"
  | .nothingToDo => "nothingToDo"
  | .proceed => "proceed"

def showSet (l : List Nat) : String := showNatList (sortNats l.eraseDups)

def showApply : ModifyResult → String
  | .deny => "deny"
  | .grant => "grant"
  | .allow a => s!"allow p={showSet a.pres};r={showSet a.rem};pc={showSet a.presCls};rc={showSet a.remCls}"

def bad : String := "bad-op"

def handle (line : String) : String :=
  let line := line.trimAscii.toString
  match line.splitOn "\t" with
  | ["tables"] =>
    "classes=" ++ ",".intercalate Kanidm.Gen.Access.classNames ++ ";attrs=" ++
      ",".intercalate Kanidm.Gen.Access.attrNames
  | [op, i, ag, acps, es, ml] =>
    match ident? i, agreements? ag, listOf? "|" acpM? acps, listOf? "^" ent? es, modlist? ml with
    | some i, some ag, some acps, some es, some ml =>
      if op == "mod" then showBool (modifyAllowOperation i acps ag es ml)
      else if op == "modop" then showOp (modifyOp i acps ag es ml)
      else bad
    | _, _, _, _, _ => bad
  | [op, i, ag, acps, x] =>
    match ident? i, agreements? ag, listOf? "|" acpM? acps with
    | some i, some ag, some acps =>
      if op == "bat" then
        match listOf? "^" pair? x with
        | some ps => showBool (batchModifyAllowOperation i acps ag ps)
        | none => bad
      else if op == "revop" then
        match listOf? "^" ent? x with
        | some es => showOp (reviveOp i acps ag es)
        | none => bad
      else if op == "apply" then
        match ent? x with
        | some e => showApply (applyModifyAccess i (modifyRelatedAcp i acps) ag e)
        | none => bad
      else bad
    | _, _, _ => bad
  | [op, i, acps, es] =>
    match ident? i with
    | none => bad
    | some i =>
      if op == "cre" || op == "creop" then
        match listOf? "|" acpC? acps, listOf? "^" newEnt? es with
        | some acps, some es =>
          if op == "cre" then showBool (createAllowOperation i acps es)
          else showOp (createOp i acps es)
        | _, _ => bad
      else if op == "del" || op == "delop" then
        match listOf? "|" acpD? acps, listOf? "^" ent? es with
        | some acps, some es =>
          if op == "del" then showBool (deleteAllowOperation i acps es)
          else showOp (deleteOp i acps es)
        | _, _ => bad
      else bad
  | _ => bad

def main : IO Unit := runPure handle
