import KanidmModel.Proto
import KanidmModel.StoreCodec
/-! Driver for C12 (`km_c12`). One request line → one reply line.

* `pairs` / `names <pair>` / `dbnames <pair>` → comma separated table / variant names
* `tag <pair> <MemVariant>`            → `ok <DbVariant> <serde> <MemVariant'|reject>`
* `dispatch <ValueSetStruct>`          → `ok <DbCtor> <serde> <Struct'|reject> <syntax id|none>`
* `dbctor <serde>`                     → `ok <DbCtor> <Struct|reject>`
* `restore <password|intent-token-state> <DbVariant> <f,f,…>`
                                       → `ok <DbVariant'> <f,f,…>` (stored → memory → stored)
* `msgexp <nanos>`                     → the message expiry time after store + load
* `entry <uuidKey> <id> <uuid> <cs> <attrs>`  → `ok <uuid> <cs> <attrs>` | `none`
* `repl <full|incr> <keys within> <id> <uuid> <cs> <attrs>` → `ok <uuid> <cs> <attrs>` | `none`

`cs` = `tag/at/k:c,k:c`; `attrs` = `k:Struct:e.e.e;k:Struct:-` (`-` alone = no attributes). -/
open Kanidm Kanidm.Proto Kanidm.StoreCodec Kanidm.Gen.StoreCodec

def idxOf (names : List String) (n : String) : Option Nat :=
  let i := names.findIdx (· == n)
  if i < names.length then some i else none

def nameOf (names : List String) (i : Nat) : String := (names[i]?).getD s!"#{i}"

def allPairs : List TagPair := valuesetDispatch :: pairs

def findPair (n : String) : Option TagPair := allPairs.find? (·.name == n)

def showDecoded (names : List String) : Option Nat → String
  | some a => nameOf names a
  | none => "reject"

def handleTag (p : TagPair) (mem : String) : String :=
  match idxOf p.memNames mem with
  | none => "unknown"
  | some a =>
    match p.encode a with
    | none => "noenc"
    | some d => s!"ok {nameOf p.dbNames d} {nameOf p.dbSerde d} {showDecoded p.memNames (p.decode d)}"

def showSyntax (s : Nat) : String :=
  match (structSyntax[s]?).join with
  | some id => toString id
  | none => "none"

def recPairOf (n : String) : Option (RecPair × TagPair) :=
  if n == "password" then some (passwordRec, password)
  else if n == "intent-token-state" then some (intentTokenStateRec, intentTokenState)
  else none

def dotList (s : String) : Option (List Nat) :=
  if s == "-" || s == "" then some [] else (s.splitOn ".").mapM nat?

def showDots (l : List Nat) : String :=
  if l.isEmpty then "-" else ".".intercalate (l.map toString)

def parsePairs (s : String) : Option (List (Nat × Nat)) :=
  (splitList s).mapM fun it =>
    match it.splitOn ":" with
    | [k, c] => do pure ((← nat? k), (← nat? c))
    | _ => none

def showPairs (l : List (Nat × Nat)) : String := showList (fun kc => s!"{kc.1}:{kc.2}") l

def parseCs (s : String) : Option CState :=
  match s.splitOn "/" with
  | [t, a, ch] => do pure ⟨← nat? t, ← nat? a, ← parsePairs ch⟩
  | _ => none

def showCs (c : CState) : String := s!"{c.tag}/{c.atCid}/{showPairs c.changes}"

def parseAttrs (s : String) : Option (List (Nat × VS)) :=
  if s == "-" then some [] else
  (s.splitOn ";").mapM fun it =>
    match it.splitOn ":" with
    | [k, st, es] => do
      pure ((← nat? k), (⟨← idxOf valuesetDispatch.memNames st, ← dotList es⟩ : VS))
    | _ => none

def showAttrs (l : List (Nat × VS)) : String :=
  if l.isEmpty then "-" else
  ";".intercalate (l.map fun kv => s!"{kv.1}:{nameOf valuesetDispatch.memNames kv.2.kind}:{showDots kv.2.elems}")

def uuidKind : Option Nat := idxOf valuesetDispatch.memNames "ValueSetUuid"

/-- `ValueSetT::to_uuid_single`: only `ValueSetUuid` overrides the default `None`. -/
def single (v : VS) : Option Nat :=
  if some v.kind = uuidKind ∧ v.elems.length = 1 then v.elems.head? else none

def handle (line : String) : String :=
  match tokens line with
  | ["pairs"] => ",".intercalate (allPairs.map (·.name))
  | ["accfields"] =>
    -- fields of value set structs that a decoder rebuilds by accumulation (derived state)
    ",".intercalate (decodeCtors.flatMap fun c => c.literals.flatMap fun l =>
      (l.filter (·.kind == 1)).map fun f => s!"{c.structName}.{f.name}")
  | ["multifield"] =>
    -- structs with more than one field: something besides the element collection is kept
    ",".intercalate ((decodeCtors.filter (·.nFields > 1)).map fun c =>
      s!"{c.structName}({",".intercalate c.fieldNames})")
  | ["decoder", st] =>
    match decodeCtors.find? (·.structName == st) with
    | none => "unknown"
    | some c => s!"{if c.ok then "ok" else "broken"} {c.nFields} {match c.via with | some v => v | none => s!"literal:{c.literals.length}"}"
  | ["names", pn] =>
    match findPair pn with
    | some p => ",".intercalate p.memNames
    | none => "bad-pair"
  | ["dbnames", pn] =>
    match findPair pn with
    | some p => ",".intercalate p.dbNames
    | none => "bad-pair"
  | ["msgexp", t] =>
    match nat? t with
    | some t => toString (messageExpiryCodec.load (messageExpiryCodec.store t))
    | none => "bad-op"
  | ["tag", pn, mem] =>
    match findPair pn with
    | some p => handleTag p mem
    | none => "bad-pair"
  | ["dispatch", st] =>
    match idxOf valuesetDispatch.memNames st with
    | none => "unknown"
    | some s =>
      match valuesetDispatch.encode s with
      | none => "noenc"
      | some d =>
        s!"ok {nameOf valuesetDispatch.dbNames d} {nameOf valuesetDispatch.dbSerde d} {showDecoded valuesetDispatch.memNames (valuesetDispatch.decode d)} {showSyntax s}"
  | ["dbctor", key] =>
    match idxOf valuesetDispatch.dbSerde key with
    | none => "unknown"
    | some d => s!"ok {nameOf valuesetDispatch.dbNames d} {showDecoded valuesetDispatch.memNames (valuesetDispatch.decode d)}"
  | ["restore", pn, dbv, fs] =>
    match recPairOf pn, natList? fs with
    | some (rp, tp), some fields =>
      match idxOf tp.dbNames dbv with
      | none => "unknown"
      | some d =>
        match rp.restore ⟨d, fields⟩ with
        | some r => s!"ok {nameOf tp.dbNames r.tag} {showNatList r.fields}"
        | none => "reject"
    | _, _ => "bad-op"
  | ["entry", uk, id, uuid, cs, attrs] =>
    match nat? uk, nat? id, nat? uuid, parseCs cs, parseAttrs attrs with
    | some uk, some id, some uuid, some cs, some attrs =>
      let e : Entry := ⟨uuid, id, cs, attrs⟩
      match (toDbEntry valuesetDispatch changestate e).bind
          (fun d => fromDbEntry valuesetDispatch changestate single uk d id) with
      | some e' => s!"ok {e'.uuid} {showCs e'.cs} {showAttrs e'.attrs}"
      | none => "none"
    | _, _, _, _, _ => "bad-op"
  | ["repl", mode, keys, id, uuid, cs, attrs] =>
    match natList? keys, nat? id, nat? uuid, parseCs cs, parseAttrs attrs with
    | some keys, some id, some uuid, some cs, some attrs =>
      let rst := if mode == "incr" then replIncrState else replState
      let e : Entry := ⟨uuid, id, cs, attrs⟩
      match (replNew valuesetDispatch rst (fun k _ => keys.contains k) e).bind
          (replRehydrate valuesetDispatch rst) with
      | some (u, cs', as) => s!"ok {u} {showCs cs'} {showAttrs as}"
      | none => "none"
    | _, _, _, _, _ => "bad-op"
  | _ => "bad-op"

def main : IO Unit := runPure handle
