import KanidmModel.Proto
import KanidmModel.Totp
/-!
Driver for C29 (one request per line, one reply per line):

* `verify A D STEP SECS KEY CHALS` — `Totp::new(KEY, STEP, A, D).verify(chal, SECS)` for every
  chal of the comma list; reply one letter per chal: `a` accept, `r` reject, `p` panic.
* `pverify A N STEP SECS KEY CHALS` — token built through `TryFrom<ProtoTotp>` with `digits = N`
  (`u8`); `err` when the conversion fails.
* `dverify A N STEP SECS KEY CHALS` — token built through `TryFrom<DbTotpV1>` with `digits = N`
  (`u8`, or `none` for an absent field); `err` when the conversion fails.
* `code A D STEP SECS KEY` — `do_totp_duration_from_epoch`: `ok N`, `err E`, `panic`.
* `rfc A NDIGITS STEP SECS KEY` — the specification: `Rfc.totp` at SECS and at SECS - STEP.
* `hmac A KEY COUNTER` — `TotpAlgo::digest` as hex.

`A` ∈ {1, 256, 512}; `D` ∈ {6, 8} names the `TotpDigits` variant; KEY is hex or `-`.
-/
open Kanidm Kanidm.Proto Kanidm.Totp Kanidm.Gen.Totp

def hexVal (c : Char) : Option Nat :=
  if '0' ≤ c ∧ c ≤ '9' then some (c.toNat - '0'.toNat)
  else if 'a' ≤ c ∧ c ≤ 'f' then some (c.toNat - 'a'.toNat + 10)
  else none

def hexBytes : List Char → Option (List Nat)
  | [] => some []
  | [_] => none
  | a :: b :: rest => do
    let x ← hexVal a; let y ← hexVal b; let r ← hexBytes rest
    pure ((x * 16 + y) :: r)

def key? (s : String) : Option (List Nat) := if s == "-" then some [] else hexBytes s.toList

def algo? (s : String) : Option Algo :=
  if s == "1" then some .Sha1 else if s == "256" then some .Sha256
  else if s == "512" then some .Sha512 else none

def dbAlgo? (s : String) : Option DbAlgo :=
  if s == "1" then some .S1 else if s == "256" then some .S256
  else if s == "512" then some .S512 else none

def optNat? (s : String) : Option (Option Nat) :=
  if s == "none" then some none else (nat? s).map some

def digits? (s : String) : Option Digits :=
  if s == "6" then some .Six else if s == "8" then some .Eight else none

def hexDigit (n : Nat) : Char := if n < 10 then Char.ofNat (48 + n) else Char.ofNat (87 + n)
def showHex (l : List Nat) : String :=
  String.ofList (l.flatMap fun b => [hexDigit (b / 16), hexDigit (b % 16)])

def showErr : TotpError → String
  | .invalidKeyError => "InvalidKeyError"
  | .hmacError => "HmacError"
  | .timeError => "TimeError"

def showVerdicts (l : List (Option Bool)) : String :=
  String.ofList (l.map fun | none => 'p' | some true => 'a' | some false => 'r')

def showDigest : Option (Except TotpError Nat) → String
  | none => "panic"
  | some (.ok n) => s!"ok {n}"
  | some (.error e) => s!"err {showErr e}"

def handle (line : String) : String :=
  match tokens line with
  | ["verify", a, d, step, secs, key, chals] =>
    match algo? a, digits? d, nat? step, nat? secs, key? key, natList? chals with
    | some a, some d, some step, some secs, some key, some chals =>
      showVerdicts (verifyMany ⟨key, step, a, d⟩ chals secs)
    | _, _, _, _, _, _ => "bad-op"
  | ["pverify", a, n, step, secs, key, chals] =>
    match algo? a, nat? n, nat? step, nat? secs, key? key, natList? chals with
    | some a, some n, some step, some secs, some key, some chals =>
      match ofProto key a step n with
      | none => "err"
      | some t => showVerdicts (verifyMany t chals secs)
    | _, _, _, _, _, _ => "bad-op"
  | ["dverify", a, n, step, secs, key, chals] =>
    match dbAlgo? a, optNat? n, nat? step, nat? secs, key? key, natList? chals with
    | some a, some n, some step, some secs, some key, some chals =>
      match ofDb key a step n with
      | none => "err"
      | some t => showVerdicts (verifyMany t chals secs)
    | _, _, _, _, _, _ => "bad-op"
  | ["code", a, d, step, secs, key] =>
    match algo? a, digits? d, nat? step, nat? secs, key? key with
    | some a, some d, some step, some secs, some key => showDigest (doTotp ⟨key, step, a, d⟩ secs)
    | _, _, _, _, _ => "bad-op"
  | ["rfc", a, n, step, secs, key] =>
    match algo? a, nat? n, nat? step, nat? secs, key? key with
    | some a, some n, some step, some secs, some key =>
      s!"{Rfc.totp a key step n secs} {Rfc.totp a key step n (secs - step)}"
    | _, _, _, _, _ => "bad-op"
  | ["hmac", a, key, counter] =>
    match algo? a, key? key, nat? counter with
    | some a, some key, some c =>
      match algoDigest a key c with
      | .ok h => showHex h
      | .error e => s!"err {showErr e}"
    | _, _, _ => "bad-op"
  | _ => "bad-op"

def main : IO Unit := runPure handle
