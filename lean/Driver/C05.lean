import KanidmModel.Proto
import KanidmModel.Crash
/-! Driver for C05 (stateless).
```
load <tok> <tok> …   the storage-call trace of one write transaction, in order:
                     B / b = before / after `BEGIN EXCLUSIVE`, C / c = before / after `COMMIT`,
                     <n>  = a `get_conn()` call whose caller sits at source line n of idl_sqlite.rs
  -> ok flip=<k> writes=<tbl,…> n=<len>
        the process killed AT point N (1-based; nothing at or after that point has run) leaves the
        `before` database iff N <= k, else the `after` one; `writes` = tables the calls may change
  -> bad <reason>     unknown line / discipline broken / order differs from the generated commit order /
                      the model's own spot check of `crashAt` failed
```
The trace is replayed through the model's own definitions: `fnOfLine` and `synthWrites` (generated
span / table data), `connOf`, `shapeRun`, `commitIdx`, `crashAt`, `after`, `commitFlat`. -/
open Kanidm Kanidm.Proto Kanidm.Crash Kanidm.Gen.Crash

def tblName (t : Tbl) : String :=
  match (reprStr t).splitOn "." |>.getLast? with
  | some s => s
  | none => "?"

/-- Token → operation (and the function index for storage calls). -/
def opOf (pos : Nat) (tok : String) : Option (Op × Option Nat) :=
  if tok == "B" then some (.begin txnConn, none)
  else if tok == "C" then some (.commit txnConn, none)
  else if tok == "b" || tok == "c" then some (.mem 0, none)
  else match nat? tok with
    | some line =>
      match fnOfLine line with
      | some fn => some (.stmt (connOf fn) (synthWrites fn pos), some fn)
      | none => none
    | none => none

def buildOps : List String → Nat → List (Op × Option Nat) → Except String (List (Op × Option Nat))
  | [], _, acc => .ok acc.reverse
  | t :: r, pos, acc =>
    match opOf pos t with
    | some x => buildOps r (pos + 1) (x :: acc)
    | none => .error s!"unknown-token {t} at {pos + 1}"

/-- Does the tail of the trace (functions called before `COMMIT`, latest first) match the
generated commit order read backwards from `sqlCommit`? -/
def conformsRev : List Flat → List Nat → Bool
  | [], _ => true
  | .mem :: r, fs => conformsRev r fs
  | .sqlCommit :: _, _ => false
  | .flush _ fns :: r, fs => conformsRev r (fs.dropWhile (fns.contains ·))
  | .be fn :: r, fs =>
    match fs with
    | f :: _ => f == fn && conformsRev r (fs.dropWhile (· == fn))
    | [] => false
  | .ts :: r, fs =>
    match fs with
    | f :: _ => f == tsMaxFn && conformsRev r (fs.dropWhile (· == tsMaxFn))
    | [] => false

def dedup (l : List String) : List String :=
  l.foldl (fun acc x => if acc.contains x then acc else acc ++ [x]) []

def everyNth (n : Nat) (l : List α) : List α :=
  let rec go : List α → Nat → List α
    | [], _ => []
    | x :: r, i => if i % n == 0 then x :: go r (i + 1) else go r (i + 1)
  go l 0

def handle (line : String) : String :=
  match tokens line with
  | "load" :: toks =>
    match buildOps toks 0 [] with
    | .error e => s!"bad {e}"
    | .ok xs =>
      let ops := xs.map (·.1)
      match shapeRun txnConn .idle ops with
      | some .done =>
        let ci := commitIdx ops
        let fnsBefore := (xs.take ci).filterMap (·.2)
        let flatBefore := (commitFlat.takeWhile (· != .sqlCommit)).reverse
        if !conformsRev flatBefore fnsBefore.reverse then "bad order-differs-from-generated-commit-order"
        else
          let allWrites : List Write := ops.flatMap fun o => match o with | .stmt _ ws => ws | _ => []
          let sample := everyNth (allWrites.length / 40 + 1) allWrites
          let dAfter := after ops Disk.empty
          let okAt (k : Nat) (wantAfter : Bool) : Bool :=
            let dk := crashAt k ops Disk.empty
            sample.all fun w => dk w.tbl w.key == (if wantAfter then dAfter w.tbl w.key else none)
          let spot := okAt 0 false && okAt ci false && okAt (ci + 1) true && okAt ops.length true &&
            (sample.isEmpty || sample.any fun w => (dAfter w.tbl w.key).isSome)
          if !spot then "bad spot-check"
          else
            let ws := dedup (allWrites.map (tblName ·.tbl))
            s!"ok flip={ci + 1} writes={",".intercalate ws} n={ops.length}"
      | some p => s!"bad discipline: ends in phase {reprStr p}"
      | none => "bad discipline: a write outside BEGIN…COMMIT or on a foreign connection"
  | _ => "bad-op"

def main : IO Unit := runPure handle
