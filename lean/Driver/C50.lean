import KanidmModel.Proto
import KanidmModel.Filter.Sexp
import KanidmModel.SyncScope
/-!
Driver for C50 (`km_c50`). Stateful: it holds the schema facts and the stored entries of the
current world. Fields of a request are separated by TAB. IDENT, ACPS_M, MODLIST as in `km_c24`.

  tables                                   → classes=<names>;attrs=<names>
  consts                                   → dynmin=<n>;base=<attrs>;imports=<a>b,..>;structural=<attrs>;order=<..>
  schema   CLASSES ATTRS REFATTRS          → ok wf=<0|1>         (resets the state)
             CLASSES  name:sa:a+b+c ; …    ATTRS  name:sa:ph ; …   REFATTRS a,b
  ent      ENTRY                           → ok                  (appends a stored entry)
  sync     IDENT FROM TO ENTRIES RETAIN LATER → ok | err:<kind>  (`apply`, committed iff ok)
             FROM/TO  R | A:<cookie>     RETAIN  I | R:ids | D:ids      LATER 0|1
             ENTRIES  id~ext|!~schemas~attrs ^ …   schemas  c+c (`!` = not a sync schema)
                      attrs  a=v+v , a=! (`!` = conversion fails; `a=` = no values)
  user     IDENT ACPS_M TARGET MODLIST LATER → ok | err:<kind>   (`userModify`)
  yield    SU ATTRS|!                      → ok | err:<kind>     (`setYield`)
  dump                                     → ENTRY ; ENTRY …     (sorted by uuid)
  agreements                               → su=a+b;…            (`agreementsOf`)

  ENTRY  uuid|life|classes|parent|extid|syncclasses|cookie|yield|attrs
         life 0 live 1 recycled 2 tombstone; optional fields `!` when absent; lists a+b; attrs a=v+v,…
-/
open Kanidm Kanidm.Proto Kanidm.Access.Write Kanidm.SyncScope
open Kanidm.Filter (FC)

def optNat? (s : String) : Option (Option Nat) :=
  if s == "!" then some none else (nat? s).map some

def scope? (s : String) : Option Scope :=
  match s with
  | "0" => some .readOnly | "1" => some .readWrite | "2" => some .synchronise | _ => none

def role? (s : String) : Option Role :=
  match s with
  | "0" => some .system | "1" => some .migration | "2" => some .accountRequest
  | "3" => some .messageQueue | _ => none

def optList? (s : String) : Option (Option (List Nat)) :=
  if s == "!" then some none else (natList? s).map some

def ident? (s : String) : Option Ident :=
  match s.splitOn ":" with
  | ["U", u, sc, mo] => do
    pure ⟨.user (← nat? u) (← optList? mo), ← scope? sc⟩
  | ["S", u, sc] => do pure ⟨.synch (← nat? u), ← scope? sc⟩
  | ["I", r, sc] => do pure ⟨.internal (← role? r), ← scope? sc⟩
  | _ => none

def plusList? (s : String) : Option (List Nat) :=
  if s == "-" || s == "" then some [] else (s.splitOn "+").mapM nat?

def optPlusList? (s : String) : Option (Option (List Nat)) :=
  if s == "!" then some none else (plusList? s).map some

def recv? (s : String) : Option Receiver :=
  if s == "N" then some .none
  else if s == "M" then some .entryManager
  else match s.splitOn ":" with
    | ["G", l] => (natList? l).map .group
    | _ => none

def target? (s : String) : Option (Option FC) :=
  if s == "!" then some none else (FC.parse s).map some

def listOf? {α : Type} (sep : String) (f : String → Option α) (s : String) : Option (List α) :=
  if s == "-" || s == "" then some [] else (s.splitOn sep).mapM f

def acpM? (s : String) : Option AcpModify :=
  match s.splitOn "~" with
  | [r, t, p, rm, pc, rc] => do
    pure ⟨⟨← recv? r, ← target? t⟩, ← natList? p, ← natList? rm, ← natList? pc, ← natList? rc⟩
  | _ => none

def mod? (s : String) : Option Mod :=
  match s.splitOn ":" with
  | ["p", a, v] => do pure (.present (← nat? a) (← nat? v))
  | ["r", a, v] => do pure (.removed (← nat? a) (← nat? v))
  | ["u", a] => do pure (.purged (← nat? a))
  | ["s", a, vs] => do pure (.set (← nat? a) (← plusList? vs))
  | ["a", a, v] => do pure (.assert (← nat? a) (← nat? v))
  | _ => none

def modlist? (s : String) : Option (List Mod) := listOf? "," mod? s

def life? (s : String) : Option Life :=
  match s with
  | "0" => some .live | "1" => some .recycled | "2" => some .tombstone | _ => none

def attrPair? (s : String) : Option (Nat × List Nat) :=
  match s.splitOn "=" with
  | [a, vs] => do pure (← nat? a, ← plusList? vs)
  | _ => none

def entry? (s : String) : Option Entry :=
  match s.splitOn "|" with
  | [u, l, c, p, x, sc, ck, y, att] => do
    pure { uuid := ← nat? u, life := ← life? l, classes := ← plusList? c, syncParent := ← optNat? p,
           extId := ← optNat? x, syncClasses := ← plusList? sc, cookie := ← optNat? ck,
           yieldAuth := ← optPlusList? y, attrs := ← listOf? "," attrPair? att }
  | _ => none

def classDef? (s : String) : Option ClassDef :=
  match s.splitOn ":" with
  | [n, sa, att] => do pure ⟨← nat? n, ← bool? sa, ← plusList? att⟩
  | _ => none

def attrDef? (s : String) : Option AttrDef :=
  match s.splitOn ":" with
  | [n, sa, ph] => do pure ⟨← nat? n, ← bool? sa, ← bool? ph⟩
  | _ => none

def syncState? (s : String) : Option SyncState :=
  if s == "R" then some .refresh
  else match s.splitOn ":" with
    | ["A", c] => (nat? c).map .active
    | _ => none

def retention? (s : String) : Option Retention :=
  if s == "I" then some .ignore
  else match s.splitOn ":" with
    | ["R", ids] => (natList? ids).map .retain
    | ["D", ids] => (natList? ids).map .delete
    | _ => none

def schemaRef? (s : String) : Option (Option Nat) :=
  if s == "!" then some none else (nat? s).map some

def scimAttr? (s : String) : Option (Nat × Option (List Nat)) :=
  match s.splitOn "=" with
  | [a, vs] => do
    let a ← nat? a
    if vs == "!" then pure (a, none) else pure (a, some (← plusList? vs))
  | _ => none

def scimEntry? (s : String) : Option ScimEntry :=
  match s.splitOn "~" with
  | [i, x, sc, att] => do
    pure { id := ← nat? i, extId := ← optNat? x, schemas := ← listOf? "+" schemaRef? sc,
           attrs := ← listOf? "," scimAttr? att }
  | _ => none

def showOptNat : Option Nat → String
  | none => "!"
  | some n => toString n

def showPlus (l : List Nat) : String :=
  if l.isEmpty then "-" else "+".intercalate (l.map toString)

def showSetPlus (l : List Nat) : String := showPlus (sortNats l.eraseDups)

def showLife : Life → String
  | .live => "0" | .recycled => "1" | .tombstone => "2"

def insertPair (x : Nat × List Nat) : List (Nat × List Nat) → List (Nat × List Nat)
  | [] => [x]
  | y :: ys => if x.1 ≤ y.1 then x :: y :: ys else y :: insertPair x ys

def showAttrs (m : List (Nat × List Nat)) : String :=
  let keys := sortNats (m.map (·.1)).eraseDups
  let ps := (keys.map fun a => (a, getA m a)).filter fun p => !p.2.isEmpty
  if ps.isEmpty then "-" else ",".intercalate (ps.map fun (p : Nat × List Nat) => s!"{p.1}={showSetPlus p.2}")

def showEntry (e : Entry) : String :=
  "|".intercalate
    [toString e.uuid, showLife e.life, showSetPlus e.classes, showOptNat e.syncParent,
     showOptNat e.extId, showSetPlus e.syncClasses, showOptNat e.cookie,
     (match e.yieldAuth with | none => "!" | some y => showSetPlus y), showAttrs e.attrs]

def insertEntry (x : Entry) : List Entry → List Entry
  | [] => [x]
  | y :: ys => if x.uuid ≤ y.uuid then x :: y :: ys else y :: insertEntry x ys

def showState (st : State) : String :=
  if st.isEmpty then "-" else ";".intercalate ((st.foldr insertEntry []).map showEntry)

def showErr : Err → String
  | .accessDenied => "accessDenied"
  | .noMatchingEntries => "noMatchingEntries"
  | .invalidSyncState => "invalidSyncState"
  | .invalidEntryState => "invalidEntryState"
  | .emptyRequest => "emptyRequest"
  | .modifyAssertionFailed => "modifyAssertionFailed"
  | .invalidAttribute => "invalidAttribute"
  | .missingEntries => "missingEntries"
  | .structural => "structural"
  | .later => "later"

structure DState where
  sch : Schema
  st : State

def bad : String := "bad-op"

def showImports : String :=
  ",".intercalate (Kanidm.Gen.SyncScope.credImportTargets.map fun (p : Nat × Nat) => s!"{p.1}>{p.2}")

def showAgreements (ag : List (Nat × List Nat)) : String :=
  if ag.isEmpty then "-" else ";".intercalate (ag.map fun (p : Nat × List Nat) => s!"{p.1}={showSetPlus p.2}")

def finish (s : DState) (r : Except Err State) : DState × String :=
  match r with
  | .ok st' => ({ s with st := st' }, "ok")
  | .error e => (s, "err:" ++ showErr e)

def handle (s : DState) (line : String) : DState × String :=
  let line := line.trimAscii.toString
  match line.splitOn "\t" with
  | ["tables"] =>
    (s, "classes=" ++ ",".intercalate Kanidm.Gen.Access.classNames ++ ";attrs=" ++
      ",".intercalate Kanidm.Gen.Access.attrNames)
  | ["consts"] =>
    (s, s!"dynmin={Kanidm.Gen.SyncScope.dynamicRangeMinimum};base={showNatList Kanidm.Gen.Access.syncConstrainBase};imports={showImports};structural={showNatList structuralAttrs};order={showNatList Kanidm.Gen.SyncScope.applyPhaseOrder}")
  | ["schema", cs, as, rs] =>
    match listOf? ";" classDef? cs, listOf? ";" attrDef? as, natList? rs with
    | some cs, some as, some rs =>
      let sch : Schema := ⟨cs, as, rs⟩
      ({ sch := sch, st := [] }, s!"ok wf={showBool sch.structuralNotSyncable}")
    | _, _, _ => (s, bad)
  | ["ent", e] =>
    match entry? e with
    | some e => ({ s with st := s.st ++ [e] }, "ok")
    | none => (s, bad)
  | ["sync", i, f, t, es, r, l] =>
    match ident? i, syncState? f, syncState? t, listOf? "^" scimEntry? es, retention? r, bool? l with
    | some i, some f, some t, some es, some r, some l =>
      finish s (stepRes s.sch s.st (.sync i ⟨f, t, es, r⟩ l))
    | _, _, _, _, _, _ => (s, bad)
  | ["user", i, acps, t, ml, l] =>
    match ident? i, listOf? "^" acpM? acps, nat? t, modlist? ml, bool? l with
    | some i, some acps, some t, some ml, some l =>
      finish s (stepRes s.sch s.st (.user i acps t ml l))
    | _, _, _, _, _ => (s, bad)
  | ["yield", su, y] =>
    match nat? su, optPlusList? y with
    | some su, some y => finish s (stepRes s.sch s.st (.yield su y))
    | _, _ => (s, bad)
  | ["dump"] => (s, showState s.st)
  | ["agreements"] =>
    (s, showAgreements (agreementsOf s.st))
  | _ => (s, bad)

def main : IO Unit := run (⟨⟨[], [], []⟩, []⟩ : DState) handle
