import KanidmModel.Proto
import KanidmModel.KeyObject
/-! Driver for C34 (stateful): any number of servers, each the stored key map of one key object.
```
reset                                        -> ok
create <srv> <classes> <now> <cid> <fresh>   -> ok | err     pre_create_transform of the entry
txn <srv> <now> <cid> <trim> <act> [| <act>]*-> ok | err     one committed write txn; err = dropped
      act = rv=<kids|-> rt=<secs|-> f=<fresh>
repl <to> <from> <trim> <kid|->              -> 1 | 0        incremental replication: 1 = the supplier
                                                             offers KeyInternalData and the consumer merges
                                                             it (with key <kid> retired to Retained in
                                                             flight), 0 = not offered, entry untouched
copy <to> <from> <origin>                    -> ok           <to> := copy of <from> (initial replication);
                                                             <origin> = cid origin code of server <to>
state <srv>                                  -> kid:usage:vf:status:cid,…@attrCid   (by kid)
sign <srv> <usage> <t>                       -> <kid> | none  key used by sign/encipher/expand
probe <srv> <usage> <kids>                   -> 1,0,…        accepts a token made with each kid
```
usage: e (JwsEs256) h (JwsHs256) r (JwsRs256) j (JweA128GCM) k (HkdfS256); status: V T X;
`classes`: list of usages; `fresh`: list of `usage/valid_from/kid` (the key ids the real code
generated), `-` if none.
-/
open Kanidm Kanidm.Proto Kanidm.KeyObject Kanidm.Gen.KeyObjectOps Kanidm.Gen.SessionOrd

def usage? : String → Option Usage
  | "e" => some .jwsEs256
  | "h" => some .jwsHs256
  | "r" => some .jwsRs256
  | "j" => some .jweA128GCM
  | "k" => some .hkdfS256
  | _ => none

def showUsage : Usage → String
  | .jwsEs256 => "e"
  | .jwsHs256 => "h"
  | .jwsRs256 => "r"
  | .jweA128GCM => "j"
  | .hkdfS256 => "k"

def showStatus : KeyStatus → String
  | .valid => "V"
  | .retained => "T"
  | .revoked => "X"

def fresh? (s : String) : Option Fresh :=
  let items := (splitList s).mapM (fun it =>
    match it.splitOn "/" with
    | [u, vf, kid] =>
      match usage? u, nat? vf, nat? kid with
      | some u, some vf, some kid => some (u, vf, kid)
      | _, _, _ => none
    | _ => none)
  items.map (fun l => fun u vf =>
    match l.find? (fun e => e.1 == u && e.2.1 == vf) with
    | some e => e.2.2
    | none => 0)

def optNat? (s : String) : Option (Option Nat) :=
  if s == "-" then some none else (nat? s).map some

def field (pfx : String) (s : String) : Option String :=
  if s.startsWith pfx then some (s.drop pfx.length).toString else none

def act? (toks : List String) : Option (Action × Fresh) :=
  match toks with
  | [rv, rt, f] =>
    match field "rv=" rv, field "rt=" rt, field "f=" f with
    | some rv, some rt, some f =>
      let rvl : Option (Option (List Nat)) :=
        if rv == "-" then some none else (natList? rv).map some
      match rvl, optNat? rt, fresh? f with
      | some rv, some rt, some f => some ({ revoke := rv, rotate := rt }, f)
      | _, _, _ => none
    | _, _, _ => none
  | _ => none

/-- Split a token list at `|`. -/
def splitBar : List String → List (List String)
  | [] => [[]]
  | t :: tl =>
    if t == "|" then [] :: splitBar tl
    else
      match splitBar tl with
      | [] => [[t]]
      | g :: gs => (t :: g) :: gs

abbrev St := List (Nat × Node)

def getNode (st : St) (i : Nat) : Option Node := (st.find? (·.1 == i)).map (·.2)
def getSrv (st : St) (i : Nat) : Option Srv := (getNode st i).map (·.srv)
def putNode (st : St) (i : Nat) (n : Node) : St := (i, n) :: st.filter (fun e => !(e.1 == i))

def showMap (m : KMap) : String :=
  showList (fun (e : Nat × KRec) =>
    s!"{e.1}:{showUsage e.2.usage}:{e.2.validFrom}:{showStatus e.2.status}:{e.2.statusCid}")
    (Kanidm.SessionMerge.sortByKey m)

def handle (st : St) (line : String) : St × String :=
  match tokens line with
  | ["reset"] => ([], "ok")
  | ["create", i, cls, now, cid, f] =>
    match nat? i, (splitList cls).mapM usage?, nat? now, nat? cid, fresh? f with
    | some i, some cls, some now, some cid, some f =>
      match createEntry cls now cid f with
      | some m =>
        (putNode st i ⟨cidOrigin cid, ⟨cls, m, cid⟩, [(cidOrigin cid, cidTs cid)]⟩, "ok")
      | none => (st, "err")
    | _, _, _, _, _ => (st, "bad-op")
  | "txn" :: i :: now :: cid :: trim :: rest =>
    match nat? i, nat? now, nat? cid, nat? trim, (splitBar rest).mapM act? with
    | some i, some now, some cid, some trim, some acts =>
      match getNode st i with
      | none => (st, "nosrv")
      | some n =>
        let ok := (txnMap n.srv.loaded n.srv.classes now cid trim n.srv.map acts).isSome
        (putNode st i (n.txn acts now cid trim), if ok then "ok" else "err")
    | _, _, _, _, _ => (st, "bad-op")
  | ["repl", to, frm, trim, rn] =>
    match nat? to, nat? frm, nat? trim, optNat? rn with
    | some to, some frm, some trim, some rn =>
      match getNode st to, getNode st frm with
      | some c, some sup =>
        let supMap := match rn with
          | some k => retainMap sup.srv.map k
          | none => sup.srv.map
        (putNode st to (c.pull sup supMap trim), showBool (offered sup c))
      | _, _ => (st, "nosrv")
    | _, _, _, _ => (st, "bad-op")
  | ["copy", to, frm, org] =>
    match nat? to, nat? frm, nat? org with
    | some to, some frm, some org =>
      match getNode st frm with
      | some sup => (putNode st to { sup with id := org }, "ok")
      | none => (st, "nosrv")
    | _, _, _ => (st, "bad-op")
  | ["state", i] =>
    match (nat? i).bind (getSrv st) with
    | some s => (st, s!"{showMap s.map}@{s.attrCid}")
    | none => (st, "nosrv")
  | ["sign", i, u, t] =>
    match (nat? i).bind (getSrv st), usage? u, nat? t with
    | some s, some u, some t =>
      (st, match s.sign u t with | some k => toString k | none => "none")
    | _, _, _ => (st, "bad-op")
  | ["probe", i, u, ks] =>
    match (nat? i).bind (getSrv st), usage? u, natList? ks with
    | some s, some u, some ks => (st, showList (fun k => showBool (s.accepts u k)) ks)
    | _, _, _ => (st, "bad-op")
  | _ => (st, "bad-op")

def main : IO Unit := Proto.run ([] : St) handle
