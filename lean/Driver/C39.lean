import KanidmModel.Proto
import KanidmModel.OAuth2.Token
/-! Driver for C39 (stateful: one `World` plus the table of tokens the server issued).

Setup (reply `ok`): `reset` ·
  `client <hexname> <uuid> b:<enablePkce>|p <secret> <refreshExpiry> <clientScopes> <clientSupScopes>` ·
  `account <uuid> <validFrom|-> <expire|-> <cred>` · `uat <acct> <sid> <cred> <exp|-> <issued>`
Tokens (reply `tok <n>`): `code <key> <acct> <sess> <exp> <chal|-> <uri> <scopes> <nonce|->` · `badtok`
Token endpoint: `xcode <auth> <tok> <uri> <verifierHash|-> <ct>` · `xrefresh <auth> <tok> <scopes|*> <ct>` ·
  `xcc <auth> <scopes|*> <ct>`, `<auth>` = `none` | `<hexid>:<secret|->`
  → `ok sid= acct= parent= scopes= iat= aexp= rexp= idtoken= access=<n> refresh=<n|->` | `err <Oauth2Error>`
`introspect <tok> <ct>` → `active sid= acct= scopes= iat= exp= client=<hexname>` | `inactive` | `err …`
`userinfo <hexclient> <tok> <ct>` → `ok iat= exp=` | `err …` · `revoke <tok> <ct>` → `ok` | `err …`
Directory: `sessrevoke <acct> <sid> <ct>` · `setexpire <acct> <t|-> <ct>` · `setvalidfrom <acct> <t|-> <ct>` ·
  `touch <acct> <ct>` → `ok`
`state <acct>` → `u<sid>=<E<t>|N|R> … o<sid>=<state>,<issued>,<parent|->` | `-` | `absent`
SHA-256 is the identity on atoms here (the harness sends the atom of the verifier's hash).
-/
open Kanidm Kanidm.Proto Kanidm.OAuth2 Kanidm.OAuth2.Token Kanidm.SessionMerge Kanidm.Gen.SessionOrd

structure DSt where
  w : World
  toks : Array Tok

def emptyW : World := ⟨[], [], 1000, 1⟩

def optNat? (s : String) : Option (Option Nat) :=
  if s == "-" then some none else (nat? s).map some

def showOpt : Option Nat → String
  | some n => toString n
  | none => "-"

def hexVal (c : Char) : Nat :=
  if c.isDigit then c.toNat - '0'.toNat else if 'a' ≤ c ∧ c ≤ 'f' then c.toNat - 'a'.toNat + 10 else 0

def unhex : List Char → List Char
  | a :: b :: tl => Char.ofNat (hexVal a * 16 + hexVal b) :: unhex tl
  | _ => []

def unhexS (s : String) : List Char := if s == "-" then [] else unhex s.toList

def hexDigit (n : Nat) : Char := if n < 10 then Char.ofNat ('0'.toNat + n) else Char.ofNat ('a'.toNat + n - 10)

def hexS (l : List Char) : String :=
  if l.isEmpty then "-" else String.ofList (l.flatMap (fun c => [hexDigit (c.toNat / 16), hexDigit (c.toNat % 16)]))

def showSet (l : List Nat) : String := showNatList (sortNats l).eraseDups

def setOf? (s : String) : Option (List Nat) := (natList? s).map (fun l => (sortNats l).eraseDups)

def errName : OErr → String
  | .authenticationRequired => "AuthenticationRequired"
  | .invalidClientId => "InvalidClientId"
  | .invalidOrigin => "InvalidOrigin"
  | .invalidRequest => "InvalidRequest"
  | .invalidGrant => "InvalidGrant"
  | .unauthorizedClient => "UnauthorizedClient"
  | .accessDenied => "AccessDenied"
  | .unsupportedResponseType => "UnsupportedResponseType"
  | .invalidScope => "InvalidScope"
  | .serverError => "ServerError"
  | .temporarilyUnavailable => "TemporarilyUnavailable"
  | .invalidToken => "InvalidToken"
  | .insufficientScope => "InsufficientScope"
  | .unsupportedTokenType => "UnsupportedTokenType"
  | .slowDown => "SlowDown"
  | .authorizationPending => "AuthorizationPending"
  | .expiredToken => "ExpiredToken"
  | .invalidTarget => "InvalidTarget"
  | .loginRequired => "LoginRequired"
  | .interactionRequired => "InteractionRequired"

def auth? (s : String) : Option (Option (List Char × Option Nat)) :=
  if s == "none" then some none
  else
    match s.splitOn ":" with
    | [id, sec] => (optNat? sec).map (fun x => some (unhexS id, x))
    | _ => none

def tok? (st : DSt) (s : String) : Option Tok := (nat? s).bind (fun i => st.toks[i]?)

def scopesReq? (s : String) : Option (Option (List Nat)) :=
  if s == "*" then some none else (setOf? s).map some

def showState : SState → String
  | .expiresAt e => s!"E{e}"
  | .neverExpires => "N"
  | .revokedAt _ => "R"

def showAcct (e : SessionPlugin.Entry) : String :=
  let us := (sortByKey (e.uats.getD [])).map (fun p => s!"u{p.1}={showState p.2.state}")
  let os := (sortByKey e.o2s).map (fun p =>
    s!"o{p.1}={showState p.2.state},{p.2.issued},{showOpt (SessionPlugin.parentOf p.2)}")
  if (us ++ os).isEmpty then "-" else " ".intercalate (us ++ os)

def clientName (w : World) (uuid : Nat) : List Char :=
  match w.reg.find? (fun p => p.2.base.uuid == uuid) with
  | some p => p.1
  | none => []

/-- Reply of the token endpoint; issued tokens are appended to the table. -/
def tokenReply (st : DSt) (r : World × Except OErr Resp) : DSt × String :=
  match r with
  | (w, .error e) => ({ st with w := w }, s!"err {errName e}")
  | (w, .ok x) =>
    let toks := st.toks.push x.access
    let ai := toks.size - 1
    let (toks, ri) := match x.refresh with
      | some t => (toks.push t, s!"{toks.size}")
      | none => (toks, "-")
    ({ w := w, toks := toks },
      s!"ok sid={x.sid} acct={x.acct} parent={showOpt x.parent} scopes={showSet x.scopes} iat={x.iat} aexp={x.aexp} rexp={showOpt x.rexp} idtoken={showBool x.idToken} access={ai} refresh={ri}")

def dirOp (st : DSt) (r : Option World) : DSt × String :=
  match r with
  | some w => ({ st with w := w }, "ok")
  | none => (st, "no-acct")

def handle (st : DSt) (line : String) : DSt × String :=
  let bad := (st, "bad-op")
  match tokens line with
  | ["reset"] => ({ w := emptyW, toks := #[] }, "ok")
  | ["client", name, uuid, ty, sec, re, cc, ccs] =>
    match nat? uuid, nat? sec, nat? re, setOf? cc, setOf? ccs with
    | some uuid, some sec, some re, some cc, some ccs =>
      let ct : Option ClientType := match ty with
        | "b:1" => some (.basic true false)
        | "b:0" => some (.basic false false)
        | "p" => some (.pub false)
        | _ => none
      match ct with
      | some ct =>
        let c : TClient := ⟨⟨uuid, ct, [], [], false, [], []⟩, sec, re, cc, ccs⟩
        let w := st.w
        ({ st with w := { w with reg := w.reg ++ [((unhexS name).map Char.toLower, c)],
                                 accts := w.accts ++ [(uuid, SessionPlugin.Entry.fresh none)] } }, "ok")
      | none => bad
    | _, _, _, _, _ => bad
  | ["account", a, vf, ex, cred] =>
    match nat? a, optNat? vf, optNat? ex, nat? cred with
    | some a, some vf, some ex, some cred =>
      let e := { SessionPlugin.Entry.fresh (some cred) with validFrom := vf, expire := ex }
      let w := st.w
      ({ st with w := { w with accts := w.accts ++ [(a, e)] } }, "ok")
    | _, _, _, _ => bad
  | ["uat", a, sid, cred, exp, issued] =>
    match nat? a, nat? sid, nat? cred, optNat? exp, nat? issued with
    | some a, some sid, some cred, some exp, some issued =>
      match st.w.acct a with
      | some e =>
        let w := st.w
        ({ st with w := { w with accts := setAcct w.accts a (SessionPlugin.applyMod 0 e (.record sid cred exp issued)) } }, "ok")
      | none => (st, "no-acct")
    | _, _, _, _, _ => bad
  | ["code", key, acct, sess, exp, chal, uri, scopes, nonce] =>
    match nat? key, nat? acct, nat? sess, nat? exp, optNat? chal, nat? uri, setOf? scopes, optNat? nonce with
    | some key, some acct, some sess, some exp, some chal, some uri, some scopes, some nonce =>
      ({ st with toks := st.toks.push (.code key ⟨acct, sess, exp, chal, uri, scopes, nonce, none⟩) }, s!"tok {st.toks.size}")
    | _, _, _, _, _, _, _, _ => bad
  | ["badtok"] => ({ st with toks := st.toks.push .garbage }, s!"tok {st.toks.size}")
  | ["xcode", auth, tok, uri, v, ct] =>
    match auth? auth, tok? st tok, nat? uri, optNat? v, nat? ct with
    | some auth, some t, some uri, some v, some ct => tokenReply st (tokenEndpoint id st.w auth (.code t uri v) ct)
    | _, _, _, _, _ => bad
  | ["xrefresh", auth, tok, scopes, ct] =>
    match auth? auth, tok? st tok, scopesReq? scopes, nat? ct with
    | some auth, some t, some s, some ct => tokenReply st (tokenEndpoint id st.w auth (.refresh t s) ct)
    | _, _, _, _ => bad
  | ["xcc", auth, scopes, ct] =>
    match auth? auth, scopesReq? scopes, nat? ct with
    | some auth, some s, some ct => tokenReply st (tokenEndpoint id st.w auth (.cc s) ct)
    | _, _, _ => bad
  | ["introspect", tok, ct] =>
    match tok? st tok, nat? ct with
    | some t, some ct =>
      match introspect st.w t ct with
      | .error e => (st, s!"err {errName e}")
      | .ok .inactive => (st, "inactive")
      | .ok (.active sid acct scopes iat exp client) =>
        (st, s!"active sid={sid} acct={acct} scopes={showSet scopes} iat={iat} exp={exp} client={hexS (clientName st.w client)}")
    | _, _ => bad
  | ["userinfo", client, tok, ct] =>
    match tok? st tok, nat? ct with
    | some t, some ct =>
      match userinfo st.w (unhexS client) t ct with
      | .error e => (st, s!"err {errName e}")
      | .ok (iat, exp) => (st, s!"ok iat={iat} exp={exp}")
    | _, _ => bad
  | ["revoke", tok, ct] =>
    match tok? st tok, nat? ct with
    | some t, some ct =>
      match revoke st.w t ct with
      | (w, .ok ()) => ({ st with w := w }, "ok")
      | (_, .error e) => (st, s!"err {errName e}")
    | _, _ => bad
  | ["sessrevoke", a, s, ct] =>
    match nat? a, nat? s, nat? ct with
    | some a, some s, some ct => dirOp st (st.w.write a (.revoke s) ct)
    | _, _, _ => bad
  | ["setexpire", a, t, ct] =>
    match nat? a, optNat? t, nat? ct with
    | some a, some t, some ct => dirOp st (st.w.update a (fun e => { e with expire := t }) .touch ct)
    | _, _, _ => bad
  | ["setvalidfrom", a, t, ct] =>
    match nat? a, optNat? t, nat? ct with
    | some a, some t, some ct => dirOp st (st.w.update a (fun e => { e with validFrom := t }) .touch ct)
    | _, _, _ => bad
  | ["touch", a, ct] =>
    match nat? a, nat? ct with
    | some a, some ct => dirOp st (st.w.write a .touch ct)
    | _, _ => bad
  | ["state", a] =>
    match nat? a with
    | some a =>
      match st.w.acct a with
      | some e => (st, showAcct e)
      | none => (st, "absent")
    | none => bad
  | _ => bad

def main : IO Unit := run ({ w := emptyW, toks := #[] } : DSt) handle
