import KanidmModel.Proto
import KanidmModel.ScimFilter
/-!
Driver for C42.  Text travels as decimal code points.

Requests
* `p cp cp …`   parse as `ScimFilter`          → `ok <tree>` | `reject`
* `c cp cp …`   parse as `ScimComplexFilter`   → `ok <ctree>` | `reject`
* `wf <tree>`   print a `ScimFilter`           → `t cp cp …`
* `wc <ctree>`  print a `ScimComplexFilter`    → `t cp cp …`

Trees are in Polish notation, tokens separated by one space:
`or X Y`, `and X Y`, `not X`, `pr NAME SUB`, `<Variant> NAME SUB VAL`, `cx NAME CTREE`;
complex trees: `or`, `and`, `not`, `pr NAME`, `<Variant> NAME VAL`.
`NAME` = code points joined by `.` (`_` = empty), `SUB` = `-` or a NAME,
`VAL` = `null` | `true` | `false` | `n NAME` | `s NAME`.
-/
open Kanidm Kanidm.Proto Kanidm.ScimFilter Kanidm.Gen.ScimFilter

def showName (s : Str) : String :=
  if s.isEmpty then "_" else ".".intercalate (s.map fun c => toString c.toNat)

def readName (t : String) : Option Str :=
  if t == "_" then some []
  else (t.splitOn ".").mapM fun x => (nat? x).map Char.ofNat

def showVal : Val → String
  | .null => "null"
  | .bool true => "true"
  | .bool false => "false"
  | .num t => "n " ++ showName t
  | .str s => "s " ++ showName s

def showTree (sl : α → String) : Tree α → String
  | .or a b => "or " ++ showTree sl a ++ " " ++ showTree sl b
  | .and a b => "and " ++ showTree sl a ++ " " ++ showTree sl b
  | .not a => "not " ++ showTree sl a
  | .leaf l => sl l

def showCLeaf : CLeaf → String
  | .pres s => "pr " ++ showName s
  | .cmp op s v => op.name ++ " " ++ showName s ++ " " ++ showVal v

def showFLeaf : FLeaf → String
  | .pres p => "pr " ++ showName p.a ++ " " ++ (match p.s with | some s => showName s | none => "-")
  | .cmp op p v =>
    op.name ++ " " ++ showName p.a ++ " " ++ (match p.s with | some s => showName s | none => "-") ++ " " ++ showVal v
  | .complex a c => "cx " ++ showName a ++ " " ++ showTree showCLeaf c

def readOp (t : String) : Option Op := Op.all.find? (fun o => o.name == t)

def readVal : List String → Option (Val × List String)
  | "null" :: r => some (.null, r)
  | "true" :: r => some (.bool true, r)
  | "false" :: r => some (.bool false, r)
  | "n" :: x :: r => (readName x).map fun s => (.num s, r)
  | "s" :: x :: r => (readName x).map fun s => (.str s, r)
  | _ => none

def readTree (rl : List String → Option (α × List String)) : Nat → List String → Option (Tree α × List String)
  | 0, _ => none
  | fuel + 1, ts =>
    match ts with
    | "or" :: r =>
      match readTree rl fuel r with
      | some (a, r1) => match readTree rl fuel r1 with
        | some (b, r2) => some (.or a b, r2)
        | none => none
      | none => none
    | "and" :: r =>
      match readTree rl fuel r with
      | some (a, r1) => match readTree rl fuel r1 with
        | some (b, r2) => some (.and a b, r2)
        | none => none
      | none => none
    | "not" :: r =>
      match readTree rl fuel r with
      | some (a, r1) => some (.not a, r1)
      | none => none
    | _ => match rl ts with
      | some (l, r) => some (.leaf l, r)
      | none => none

def readCLeaf : List String → Option (CLeaf × List String)
  | "pr" :: x :: r => (readName x).map fun s => (.pres s, r)
  | o :: x :: r =>
    match readOp o, readName x, readVal r with
    | some op, some s, some (v, r') => some (.cmp op s v, r')
    | _, _, _ => none
  | _ => none

def readSub (t : String) : Option (Option Str) :=
  if t == "-" then some none else (readName t).map some

def readFLeaf (fuel : Nat) : List String → Option (FLeaf × List String)
  | "pr" :: x :: y :: r =>
    match readName x, readSub y with
    | some a, some s => some (.pres ⟨a, s⟩, r)
    | _, _ => none
  | "cx" :: x :: r =>
    match readName x, readTree readCLeaf fuel r with
    | some a, some (c, r') => some (.complex a c, r')
    | _, _ => none
  | o :: x :: y :: r =>
    match readOp o, readName x, readSub y, readVal r with
    | some op, some a, some s, some (v, r') => some (.cmp op ⟨a, s⟩ v, r')
    | _, _, _, _ => none
  | _ => none

def readText (ts : List String) : Option Str :=
  ts.mapM fun x => (nat? x).map Char.ofNat

def showText (s : Str) : String :=
  " ".intercalate ("t" :: s.map fun c => toString c.toNat)

def handle (line : String) : String :=
  match tokens line with
  | "p" :: ts =>
    match readText ts with
    | none => "bad-op"
    | some s => match parse s with
      | some f => "ok " ++ showTree showFLeaf f
      | none => "reject"
  | "c" :: ts =>
    match readText ts with
    | none => "bad-op"
    | some s => match parseComplex s with
      | some f => "ok " ++ showTree showCLeaf f
      | none => "reject"
  | "wf" :: ts =>
    match readTree (readFLeaf (ts.length + 1)) (ts.length + 1) ts with
    | some (f, []) => showText (printF f)
    | _ => "bad-op"
  | "wc" :: ts =>
    match readTree readCLeaf (ts.length + 1) ts with
    | some (c, []) => showText (printC c)
    | _ => "bad-op"
  | _ => "bad-op"

def main : IO Unit := runPure handle
