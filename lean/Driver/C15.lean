import KanidmModel.Proto
import KanidmModel.SchemaCheck
/-! Driver for C15 (stateful: the schema is loaded line by line).

* `R`                                   reset the schema
* `A name syn mv ph`                    add an attribute definition
* `C name sysmust must sysmay may syssup sup sysexc exc`   add a class (lists `a,b` or `-`)
* `V entry` / `I entry`                 `validate` / `validateInvalid` (create, modify, refresh entry point)
* `P uuid entry`                        `validateRepl`: reply `classes|has_source_uuid|validate-after`
* `L cid entry`                         `validate` of the sealed entry
* `W name`                              is the regenerated store path `name` well ordered
* `T name entries`                      run the store path `name` on candidates (entries joined by `/`) with an
                                        identity environment: `ok n` (n entries written) or the error

entry = `attr:syn:vals;attr:syn:vals…` (or `-`), vals = `atom.ok,atom.ok` or `-`.
Replies: `ok` | `err <variant> <payload>`.
-/
open Kanidm Kanidm.Proto Kanidm.SchemaCheck Kanidm.SchemaCheck.Gen

def parseVal (s : String) : Option Val :=
  match s.splitOn "." with
  | [a, o] => do let a ← nat? a; let o ← bool? o; pure ⟨a, o⟩
  | _ => none

def parseAva (s : String) : Option (Nat × Ava) :=
  match s.splitOn ":" with
  | [a, syn, vs] => do
    let a ← nat? a; let syn ← nat? syn
    let vs ← (splitList vs).mapM parseVal
    pure (a, ⟨syn, vs⟩)
  | _ => none

def parseEntry (s : String) : Option Entry :=
  if s == "-" then some [] else (s.splitOn ";").mapM parseAva

def showErr : SErr → String
  | .noClassFound => "err NoClassFound -"
  | .invalidClass l => s!"err InvalidClass {showNatList l}"
  | .supplementsNotSatisfied l => s!"err SupplementsNotSatisfied {showNatList l}"
  | .excludesNotSatisfied l => s!"err ExcludesNotSatisfied {showNatList l}"
  | .corrupted => "err Corrupted -"
  | .missingMustAttribute l => s!"err MissingMustAttribute {showNatList l}"
  | .phantomAttribute a => s!"err PhantomAttribute {a}"
  | .invalidAttribute a => s!"err InvalidAttribute {a}"
  | .attributeNotValidForClass a => s!"err AttributeNotValidForClass {a}"
  | .invalidAttributeSyntax a => s!"err InvalidAttributeSyntax {a}"

def showRes : Except SErr Unit → String
  | .ok _ => "ok"
  | .error e => showErr e

def idEnv : Env :=
  { rewrite := fun _ e => e, refuse := fun _ _ => false, conflictCopies := [], cid := 0,
    uuidOf := fun e => match getAva e aUuid with
      | some ava => (ava.vals.head?.map (·.atom)).getD 0
      | none => 0 }

def step (s : Schema) (line : String) : Schema × String :=
  match tokens line with
  | ["R"] => (⟨[], []⟩, "ok")
  | ["A", n, syn, mv, ph] =>
    match nat? n, nat? syn, bool? mv, bool? ph with
    | some n, some syn, some mv, some ph => ({ s with attrs := s.attrs ++ [⟨n, syn, mv, ph⟩] }, "ok")
    | _, _, _, _ => (s, "bad-op")
  | ["C", n, a, b, c, d, e, f, g, h] =>
    match nat? n, natList? a, natList? b, natList? c, natList? d, natList? e, natList? f, natList? g, natList? h with
    | some n, some a, some b, some c, some d, some e, some f, some g, some h =>
      ({ s with classes := s.classes ++ [⟨n, a, b, c, d, e, f, g, h⟩] }, "ok")
    | _, _, _, _, _, _, _, _, _ => (s, "bad-op")
  | ["V", e] =>
    match parseEntry e with
    | some e => (s, showRes (validate s e))
    | none => (s, "bad-op")
  | ["I", e] =>
    match parseEntry e with
    | some e => (s, showRes (validateInvalid s e))
    | none => (s, "bad-op")
  | ["P", u, e] =>
    match nat? u, parseEntry e with
    | some u, some e =>
      let r := validateRepl s u e
      let cls := match classSet r with
        | some l => showNatList (sortNats l)
        | none => "none"
      (s, s!"{cls}|{showBool (getAva r aSourceUuid).isSome}|{showRes (validate s r)}")
    | _, _ => (s, "bad-op")
  | ["L", c, e] =>
    match nat? c, parseEntry e with
    | some c, some e => (s, showRes (validate s (sealEntry c e)))
    | _, _ => (s, "bad-op")
  | ["W", n] =>
    match pipelines.lookup n with
    | some p => (s, showBool (wellOrdered p))
    | none => (s, "unknown-path")
  | ["T", n, es] =>
    match pipelines.lookup n, (es.splitOn "/").mapM parseEntry with
    | some p, some cs =>
      match runSteps idEnv s p cs [] with
      | .ok w => (s, s!"ok {w.length}")
      | .error (.schema x) => (s, showErr x)
      | .error (.plugin t) => (s, s!"plugin {t}")
    | _, _ => (s, "bad-op")
  | _ => (s, "bad-op")

def main : IO Unit := run (⟨[], []⟩ : Schema) step
