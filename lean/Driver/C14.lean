import KanidmModel.Proto
import KanidmModel.Codec
/-!
Driver for C14.

`run <max> <bad> <chunk> <chunk> …` — feed the chunks (hex, `-` = empty read) in order to a fresh
connection with frame limit `max`.  The payload codec is instantiated as: message = payload
bytes; a payload is unparseable iff its FNV-1a hash is `<bad>` (decimal, `-` = none) — the
harness passes the hash of the payload serde_json rejected, if any.
Reply: one item per chunk, `;`-separated: the frames yielded by that read as `f<len>:<fnv>`
(`,`-separated) followed by `n<buffered>` (needs more, buffer length), `e<kind>:<buffered>`
(stream ended with that error) or `d` (already dead).

`enc <hex payload> <hex dst>` — the encoder: reply is the hex of `dst ++ frame`.
`step <max> <hex src>` — one `decodeStep`: `need` | `err <kind>` | `frame <len> <restlen>` | `panic`.
-/
open Kanidm Kanidm.Proto Kanidm.Codec

def hexVal (c : Char) : Option Nat :=
  if '0' ≤ c ∧ c ≤ '9' then some (c.toNat - '0'.toNat)
  else if 'a' ≤ c ∧ c ≤ 'f' then some (c.toNat - 'a'.toNat + 10)
  else none

def parseHexAux : List Char → List UInt8 → Option (List UInt8)
  | [], acc => some acc.reverse
  | [_], _ => none
  | a :: b :: rest, acc =>
    match hexVal a, hexVal b with
    | some x, some y => parseHexAux rest (UInt8.ofNat (x * 16 + y) :: acc)
    | _, _ => none

def parseHex (s : String) : Option Bytes :=
  if s == "-" then some [] else parseHexAux s.toList []

def hexDigit (n : Nat) : Char := if n < 10 then Char.ofNat (48 + n) else Char.ofNat (87 + n)

def showHex (b : Bytes) : String :=
  if b.isEmpty then "-"
  else String.ofList (b.foldr (fun x acc => hexDigit (x.toNat / 16) :: hexDigit (x.toNat % 16) :: acc) [])

def fnv (b : Bytes) : UInt64 :=
  b.foldl (fun h x => (h ^^^ x.toUInt64) * 0x100000001b3) 0xcbf29ce484222325

def showFault : Fault → String
  | .invalidInput => "zero"
  | .outOfMemory => "big"
  | .other => "other"
  | .badPayload => "json"
  | .panic => "panic"

def mkParse (bad : Option Nat) : Bytes → Option Bytes := fun p =>
  match bad with
  | some h => if (fnv p).toNat = h then none else some p
  | none => some p

def showRead (before : Conn) (r : Conn × List Bytes) : String :=
  match before.fault with
  | some _ => "d"
  | none =>
    let fr := ",".intercalate (r.2.map fun p => s!"f{p.length}:{(fnv p).toNat}")
    let tail := match r.1.fault with
      | none => s!"n{r.1.buf.length}"
      | some e => s!"e{showFault e}:{r.1.buf.length}"
    if fr.isEmpty then tail else fr ++ " " ++ tail

/-- Runs the reads one by one with the model's own `feed` (so the reply shows per-read results)
and cross-checks the total against `feedAll`, the function the theorems are about. -/
def runReads (parse : Bytes → Option Bytes) (max : Nat) (chunks : List Bytes) : String :=
  let rec go (c : Conn) (cs : List Bytes) (acc : List String) (all : List Bytes) :
      List String × Conn × List Bytes :=
    match cs with
    | [] => (acc.reverse, c, all)
    | x :: rest =>
      let r := feed parse max c x
      go r.1 rest (showRead c r :: acc) (all ++ r.2)
  let (items, c, all) := go {} chunks [] []
  let whole := feedAll parse max {} chunks
  if whole.1 == c && whole.2 == all then ";".intercalate items else "model-inconsistent"

def handle (line : String) : String :=
  match tokens line with
  | "run" :: max :: bad :: chunks =>
    match nat? max, chunks.mapM parseHex with
    | some max, some cs =>
      let bad := if bad == "-" then none else nat? bad
      runReads (mkParse bad) max cs
    | _, _ => "bad-op"
  | ["enc", p, dst] =>
    match parseHex p, parseHex dst with
    | some p, some dst => showHex (encode (fun (x : Bytes) => x) p dst)
    | _, _ => "bad-op"
  | ["step", max, src] =>
    match nat? max, parseHex src with
    | some max, some src =>
      match decodeStep max src with
      | .needMore => "need"
      | .err e => s!"err {showFault e}"
      | .frame p rest => s!"frame {p.length} {rest.length}"
      | .panic => "panic"
    | _, _ => "bad-op"
  | _ => "bad-op"

def main : IO Unit := runPure handle
