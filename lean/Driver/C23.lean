import KanidmModel.Proto
import KanidmModel.Filter.Sexp
import KanidmModel.Access.Search
/-!
Driver for C23 (search access). Fields separated by ` | `; stateful.

  `atoms`                                  → `name=atom,…;free=<firstFree>` (the attribute numbering)
  `db | E;E;…`                             → `ok <n>`       E := `<V uuid>@<a=V+V,a=V…|->`
  `acps | P;P;…`                           → `ok <n>`       P := `<recv>~<raw attrs a,b|->~<FC|none>`
                                                             recv := `g:V+V…` | `g:` | `em` | `none`
  `id | user|synch|internal | ro|rw|sync | <E | V | role>` → `ok`
  `q | search_ext|search|exists | hidden|recycled|raw | <attrs a,b | *> | <FC>`
        search_ext → `ok <uuid>:<a,b|->;…` (sorted by uuid text; attributes = released keys, sorted) | `err`
        search     → `ok <uuid>;…` | `err`
        exists     → `ok 0|1` | `err`
  `access | <E index>`                     → `deny` | `grant` | `allow a,b` (apply_search_access with
                                             the unrestricted related set, on db entry #index)
-/
open Kanidm Kanidm.Proto Kanidm.Filter Kanidm.Access

structure St where
  db : List (DbEntry × List Nat) := []
  acps : List SearchAcp := []
  id : Identity := ⟨.internal .system, .readWrite⟩

def fields (line : String) : List String :=
  (line.splitOn "|").map (fun s => s.trimAscii.toString)

def parseEntry (s : String) : Option (DbEntry × List Nat) :=
  match s.splitOn "@" with
  | [u, assoc] => do
    let u ← Val.ofString u
    let l ← Entry.parseAssoc assoc
    pure (⟨u, Entry.ofList l⟩, l.map (·.1))
  | _ => none

def parseVals (s : String) : Option (List Val) :=
  if s == "" || s == "-" then some [] else (s.splitOn "+").mapM Val.ofString

def parseAcp (s : String) : Option SearchAcp :=
  match s.splitOn "~" with
  | [r, attrs, t] => do
    let recv ←
      if r == "em" then some Receiver.entryManager
      else if r == "none" then some Receiver.none
      else match r.splitOn ":" with
        | ["g", vs] => (parseVals vs).map Receiver.group
        | _ => none
    let attrs ← natList? attrs
    let target ← if t == "none" then some Target.none else (FC.parse t).map Target.scope
    pure (SearchAcp.ofRaw ⟨recv, target⟩ attrs)
  | _ => none

def splitSemi (s : String) : List String :=
  if s == "" || s == "-" then [] else s.splitOn ";"

def renderUuid (v : Val) : String := v.render

def sortStrings (l : List String) : List String :=
  let ins (x : String) (acc : List String) : List String :=
    let rec go : List String → List String
      | [] => [x]
      | y :: ys => if x ≤ y then x :: y :: ys else y :: go ys
    go acc
  l.foldr ins []

def dedupNats : List Nat → List Nat
  | [] => []
  | x :: xs => if xs.contains x then dedupNats xs else x :: dedupNats xs

def handle (st : St) (line : String) : St × String :=
  match fields line with
  | ["atoms"] =>
    (st, ",".intercalate (Attr.names.map (fun p => s!"{p.1}={p.2}")) ++ s!";free={Attr.firstFree}")
  | ["db", es] =>
    match (splitSemi es).mapM parseEntry with
    | some l => ({ st with db := l }, s!"ok {l.length}")
    | none => (st, "bad-db")
  | ["acps", ps] =>
    match (splitSemi ps).mapM parseAcp with
    | some l => ({ st with acps := l }, s!"ok {l.length}")
    | none => (st, "bad-acps")
  | ["id", kind, scope, arg] =>
    let scope? : Option Scope :=
      match scope with
      | "ro" => some .readOnly | "rw" => some .readWrite | "sync" => some .synchronise | _ => none
    let origin? : Option Origin :=
      match kind with
      | "user" => (parseEntry arg).map (fun p => Origin.user p.1)
      | "synch" => (Val.ofString arg).map Origin.synch
      | "internal" =>
        match arg with
        | "system" => some (.internal .system)
        | "migration" => some (.internal .migration)
        | "accountRequest" => some (.internal .accountRequest)
        | "messageQueue" => some (.internal .messageQueue)
        | _ => none
      | _ => none
    match scope?, origin? with
    | some s, some o => ({ st with id := ⟨o, s⟩ }, "ok")
    | _, _ => (st, "bad-id")
  | ["q", kind, wrap, attrs, f] =>
    match FC.parse f, (if attrs == "*" then some none else (natList? attrs).map some) with
    | some fc, some req =>
      let db := st.db.map (·.1)
      let (filter, filterOrig) :=
        match wrap with
        | "hidden" => (Gen.AccessSearch.ignoreHidden fc, fc)
        | "recycled" => (Gen.AccessSearch.recycledOnly fc, Gen.AccessSearch.recycledOnly fc)
        | _ => (fc, fc)
      match kind with
      | "search_ext" =>
        match searchExt db st.acps st.id filter filterOrig req with
        | none => (st, "err")
        | some res =>
          let rows := res.map (fun r =>
            let keys := match st.db.find? (fun p => p.1.uuid == r.uuid) with
              | some p => p.2
              | none => []
            let rel := sortNats (dedupNats (keys.filter (fun a => !(r.attrs a).isEmpty)))
            s!"{renderUuid r.uuid}:{showNatList rel}")
          (st, "ok " ++ ";".intercalate (sortStrings rows))
      | "search" =>
        match search db st.acps st.id filter filterOrig with
        | none => (st, "err")
        | some res => (st, "ok " ++ ";".intercalate (sortStrings (res.map (fun r => renderUuid r.uuid))))
      | "exists" =>
        match exists_ db st.acps st.id filter filterOrig with
        | none => (st, "err")
        | some b => (st, s!"ok {showBool b}")
      | _ => (st, "bad-kind")
    | _, _ => (st, "bad-query")
  | ["access", idx] =>
    match idx.toNat?.bind (fun i => st.db[i]?) with
    | some p =>
      match applySearchAccess st.id (searchRelatedAcp st.id st.acps none) p.1 with
      | .deny => (st, "deny")
      | .grant => (st, "grant")
      | .allow a => (st, s!"allow {showNatList (sortNats (dedupNats a))}")
    | none => (st, "bad-index")
  | _ => (st, "bad-op")

def main : IO Unit := run ({} : St) handle
