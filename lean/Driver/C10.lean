import KanidmModel.Proto
import KanidmModel.RangeDiff
import KanidmModel.RangeEntries
/-! Driver for C10: `rd <consumer> <supplier>` (range_diff) and `sp <same-domain 0|1> <consumer> <supplier>`
(supplier_provide_changes decision); a map is `k:min:max,k:min:max` or `-`. -/
open Kanidm Kanidm.Proto Kanidm.RangeDiff Kanidm.RangeEntries

def parseRuv (s : String) : Option Ruv :=
  (splitList s).mapM fun item =>
    match item.splitOn ":" with
    | [k, a, b] => do
      let k ← nat? k; let a ← nat? a; let b ← nat? b
      pure (k, (⟨a, b⟩ : Range))
    | _ => none

/-! `se <ranged> <ruv> <entries> <ranges>` (entries the supplier sends): ranged `s:ts.ts,…`; ruv `s.ts:id.id,…`;
entries `id:T:s.ts` or `id:L:s.ts:attr.s.ts.repl;attr.s.ts.repl` (`;`-list may be empty); reply
`id:T:s.ts` / `id:L:s.ts:attr.s.ts;…` joined by `,` or `-`. -/
def dotNats (s : String) : Option (List Nat) :=
  if s == "" then some [] else (s.splitOn ".").mapM nat?

def parseRanged (s : String) : Option Ranged :=
  (splitList s).mapM fun item =>
    match item.splitOn ":" with
    | [k, tss] => do pure ((← nat? k), (← dotNats tss))
    | _ => none

def parseCid (s : String) : Option Cid :=
  match dotNats s with
  | some [a, b] => some ⟨a, b⟩
  | _ => none

def parseRuvIdx (s : String) : Option RuvIdx :=
  (splitList s).mapM fun item =>
    match item.splitOn ":" with
    | [c, ids] => do pure ((← parseCid c), (← dotNats ids))
    | _ => none

def parseEntries (s : String) : Option (List Entry) :=
  (splitList s).mapM fun item =>
    match item.splitOn ":" with
    | [id, "T", c] => do pure ⟨(← nat? id), .tombstone (← parseCid c)⟩
    | [id, "L", c, chs] => do
      let chs ← (if chs == "" then some [] else (chs.splitOn ";").mapM fun ch =>
        match dotNats ch with
        | some [a, s, ts, r] => some (a, (⟨s, ts⟩ : Cid), r != 0)
        | _ => none)
      pure ⟨(← nat? id), .live (← parseCid c) chs⟩
    | _ => none

def showSent (l : List Sent) : String :=
  if l.isEmpty then "-" else
  ",".intercalate (l.map fun
    | .tombstone id c => s!"{id}:T:{c.s}.{c.ts}"
    | .live id c attrs =>
      s!"{id}:L:{c.s}.{c.ts}:" ++ ";".intercalate (attrs.map fun (a, c) => s!"{a}.{c.s}.{c.ts}"))

def handle (line : String) : String :=
  match tokens line with
  | ["rd", c, s] =>
    match parseRuv c, parseRuv s with
    | some c, some s => showStatus (rangeDiff c s)
    | _, _ => "bad-op"
  | ["sp", d, c, s] =>
    match parseRuv c, parseRuv s with
    | some c, some s =>
      if d = "1" then showDecision (supplierProvide true c s)
      else if d = "0" then showDecision (supplierProvide false c s)
      else "bad-op"
    | _, _ => "bad-op"
  | ["se", rg, rv, es, cx] =>
    match parseRanged rg, parseRuvIdx rv, parseEntries es, parseRuv cx with
    | some rg, some rv, some es, some cx => showSent (supplyEntries rg rv es cx)
    | _, _, _, _ => "bad-op"
  | _ => "bad-op"

def main : IO Unit := runPure handle
