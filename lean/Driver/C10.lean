import KanidmModel.Proto
import KanidmModel.RangeDiff
/-! Driver for C10: `rd <consumer> <supplier>` (range_diff) and `sp <same-domain 0|1> <consumer> <supplier>`
(supplier_provide_changes decision); a map is `k:min:max,k:min:max` or `-`. -/
open Kanidm Kanidm.Proto Kanidm.RangeDiff

def parseRuv (s : String) : Option Ruv :=
  (splitList s).mapM fun item =>
    match item.splitOn ":" with
    | [k, a, b] => do
      let k ← nat? k; let a ← nat? a; let b ← nat? b
      pure (k, (⟨a, b⟩ : Range))
    | _ => none

def handle (line : String) : String :=
  match tokens line with
  | ["rd", c, s] =>
    match parseRuv c, parseRuv s with
    | some c, some s => showStatus (rangeDiff c s)
    | _, _ => "bad-op"
  | ["sp", d, c, s] =>
    match parseRuv c, parseRuv s with
    | some c, some s =>
      if d = "1" then showDecision (supplierProvide true c s)
      else if d = "0" then showDecision (supplierProvide false c s)
      else "bad-op"
    | _, _ => "bad-op"
  | _ => "bad-op"

def main : IO Unit := runPure handle
