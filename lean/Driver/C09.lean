import KanidmModel.Proto
import KanidmModel.ReplReap
/-! Driver for C09.  A cid is `ts:sid`; an update vector is `ts:sid,ts:sid,…` (or `-`); ranges are
`k:min:max,…` (or `-`); entries are `u=T/ts:sid` (tombstone) or `u=L` (live), space separated after
the fixed arguments.

* `trimcid <now>`                              → `<cid>` | `err`             (`cid.sub_secs(CHANGELOG_MAX_AGE)`)
* `cutoff <now>`                               → `<cid>` | `err`             (`cid.sub_secs(RECYCLEBIN_MAX_AGE)`)
* `ranges <ruv>`                               → `<ranges>`                  (`current_ruv_range`)
* `view <trim> <ruv>`                          → `<ranges>`                  (`filter_ruv_range(trim)`)
* `reap <now> <trim> <ruv> <entry>…`           → `ranges=<ranges> kept=<uuids>`  (`purge_tombstones`)
* `decide <consumer ranges> <trim> <ruv>`      → reply / `supply <ranges>`   (`supplier_provide_changes`)
* `expire <now> <cutoff> <recycled 0|1> <lastmod>` → `tomb <now>` | `keep`   (`purge_recycled`, one entry)
-/
open Kanidm Kanidm.Proto Kanidm.Cid Kanidm.ReplMerge Kanidm.ReplReap Kanidm.RangeDiff

def showCid9 (c : Kanidm.Cid.Cid) : String := s!"{c.ts}:{c.sUuid}"

def parseCid9 (s : String) : Option Kanidm.Cid.Cid :=
  match s.splitOn ":" with
  | [a, b] => do let a ← nat? a; let b ← nat? b; pure ⟨a, b⟩
  | _ => none

def parseRuvData (s : String) : Option RuvData := (splitList s).mapM parseCid9

def parseRuv9 (s : String) : Option Ruv :=
  (splitList s).mapM fun item =>
    match item.splitOn ":" with
    | [k, a, b] => do let k ← nat? k; let a ← nat? a; let b ← nat? b; pure (k, (⟨a, b⟩ : Range))
    | _ => none

def parseEnt (s : String) : Option (Nat × St) :=
  match s.splitOn "=" with
  | [u, "L"] => do let u ← nat? u; pure (u, .live ⟨⟨0, 0⟩, [], []⟩)
  | [u, t] =>
    match t.splitOn "/" with
    | ["T", c] => do let u ← nat? u; let c ← parseCid9 c; pure (u, .tomb c)
    | _ => none
  | _ => none

def handle (line : String) : String :=
  match tokens line with
  | ["trimcid", now] =>
    match parseCid9 now with
    | some n => match trimCid n with
      | some c => showCid9 c
      | none => "err"
    | none => "bad-op"
  | ["cutoff", now] =>
    match parseCid9 now with
    | some n => match subSecs n Kanidm.Gen.ReapOps.recyclebinMaxAge with
      | some c => showCid9 c
      | none => "err"
    | none => "bad-op"
  | ["ranges", d] =>
    match parseRuvData d with
    | some d => showRuv (rangesOf d)
    | none => "bad-op"
  | ["view", t, d] =>
    match parseCid9 t, parseRuvData d with
    | some t, some d => showRuv (filterView t (rangesOf d))
    | _, _ => "bad-op"
  | "reap" :: now :: t :: d :: ents =>
    match parseCid9 now, parseCid9 t, parseRuvData d, ents.mapM parseEnt with
    | some now, some t, some d, some es =>
      let r := reap now t ⟨now.sUuid, es, d⟩
      s!"ranges={showRuv (rangesOf r.ruv)} kept={showNatList (sortNats (r.ents.map (·.1)))}"
    | _, _, _, _ => "bad-op"
  | ["decide", c, t, d] =>
    match parseRuv9 c, parseCid9 t, parseRuvData d with
    | some c, some t, some d => showDecision (supplyDecision c d t)
    | _, _, _ => "bad-op"
  | ["expire", now, cutoff, rec, lm] =>
    match parseCid9 now, parseCid9 cutoff, bool? rec, parseCid9 lm with
    | some now, some cutoff, some rec, some lm =>
      -- a live entry whose last-modified cid is `lm` (one attribute state carrying it)
      match purgeRecycledEntry (fun _ => rec) now cutoff (.live ⟨lm, [(0, lm)], []⟩) with
      | .tomb c => s!"tomb {showCid9 c}"
      | .live _ => "keep"
    | _, _, _, _ => "bad-op"
  | _ => "bad-op"

def main : IO Unit := runPure handle
