import KanidmModel.Proto
import KanidmModel.TxnSnapshot
/-! Driver for C06 (stateless).
```
steps                          -> idx:name:fallible:publishes,…   the writer's flattened commit (generated order)
readsteps                      -> cell|dbBegin,…                  the reader's acquisitions (generated order)
deferred                       -> 0|1                             is the SQLite snapshot deferred to the first select
obs <cells|-> <db 0|1> <k> <sel>      -> <cell=ver,…> db=<ver>
      the writer staged version 1 into the listed cells (and the db), everything else is 0; the
      reader's whole read() happens when the writer has executed k steps of commit(), its first
      select when it has executed sel steps (`observe (applyOps zero ops) (atomicRead k sel)`)
obsx <cells|-> <db 0|1> <k1,k2,…> <sel>  -> same, with one writer position per acquisition
```
-/
open Kanidm Kanidm.Proto Kanidm.TxnCommit Kanidm.TxnSnapshot Kanidm.Gen.CommitOrder Kanidm.Gen.ReadOrder

def cellOf? (n : String) : Option Cell := Cell.all.find? (fun c => c.name == n)

def showObs (o : Obs) (cs : List Cell) : String :=
  showList (fun (p : Cell × Nat) => s!"{p.1.name}={p.2}") (o.cells.filter (fun p => cs.contains p.1)) ++ s!" db={o.db}"

def stagedSt (cs : List Cell) (db : Bool) : St :=
  applyOps zero (cs.map (fun c => Op.stage c 1) ++ (if db then [Op.dbStage 1] else []))

def handle (line : String) : String :=
  match tokens line with
  | ["steps"] =>
    showList (fun (p : CStep × Nat) =>
      s!"{p.2}:{stepName p.1.id}:{showBool p.1.fallible}:{showBool (publishes p.1)}") (List.zipIdx flatSteps)
  | ["readsteps"] =>
    showList (fun (a : Acq) => match a with | .cell c => c.name | .dbBegin => "dbBegin") readSteps
  | ["deferred"] => showBool dbSnapshotDeferred
  | ["obs", cells, db, k, sel] =>
    match (splitList cells).mapM cellOf?, bool? db, nat? k, nat? sel with
    | some cs, some db, some k, some sel => showObs (observe (stagedSt cs db) (atomicRead k sel)) cs
    | _, _, _, _ => "bad-op"
  | ["obsx", cells, db, ks, sel] =>
    match (splitList cells).mapM cellOf?, bool? db, natList? ks, nat? sel with
    | some cs, some db, some ks, some sel => showObs (observe (stagedSt cs db) ⟨ks, sel⟩) cs
    | _, _, _, _ => "bad-op"
  | _ => "bad-op"

def main : IO Unit := Proto.runPure handle
