import KanidmModel.Proto
import KanidmModel.Gid
/-! Driver for C21.
```
gen <x>                          -> <gen x>
uuid <b0,…,b15>                  -> <gen (uuidToGid bytes)>          (bytes in decimal)
accept <g>                       -> 0 | 1
apply <posix 0|1> <-|g|multi> <-|uuid bytes>  -> ok <-|g|multi> | overlaps | invalid
```
-/
open Kanidm Kanidm.Proto Kanidm.Gid Kanidm.Gen.Gid

def showAttr : GidAttr → String
  | .absent => "-"
  | .single g => toString g
  | .other => "multi"

def parseAttr (s : String) : Option GidAttr :=
  if s == "-" then some .absent
  else if s == "multi" then some .other
  else (nat? s).map .single

def handle (line : String) : String :=
  match tokens line with
  | ["gen", x] =>
    match nat? x with
    | some x => toString (gen x)
    | none => "bad-op"
  | ["uuid", bs] =>
    match natList? bs with
    | some bs => if bs.length == 16 && bs.all (· < 256) then toString (gen (uuidToGid bs)) else "bad-op"
    | none => "bad-op"
  | ["accept", g] =>
    match nat? g with
    | some g => showBool (accept g)
    | none => "bad-op"
  | ["apply", p, a, u] =>
    match bool? p, parseAttr a with
    | some p, some a =>
      let ul : Option (Option Nat) :=
        if u == "-" then some none
        else match natList? u with
          | some bs => if bs.length == 16 && bs.all (· < 256) then some (some (uuidToGid bs)) else none
          | none => none
      match ul with
      | some ul =>
        match applyGid ⟨p, a, ul⟩ with
        | .ok a' => s!"ok {showAttr a'}"
        | .overlapsSystemRange => "overlaps"
        | .invalidEntryState => "invalid"
      | none => "bad-op"
    | _, _ => "bad-op"
  | _ => "bad-op"

def main : IO Unit := runPure handle
