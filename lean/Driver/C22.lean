import KanidmModel.Proto
import KanidmModel.Spn
/-!
Driver for C22 (stateful): the model state follows the harness' history.

* `init <dom> <entry>*`              → `ok <flags> <state>` (in-memory and stored domain name = `<dom>`)
* `op create <entry>+` | `op modify <ids> <mod>+` | `op drename <dom>` | `op delete <ids>` |
  `op revive <ids>`                   → `<ok|err:kind> <flags> <state>`
* `gen <entry> <dom>`                 → what `Entry::generate_spn` returns (`<spn>` or `none`)

`<entry>` = `id/kind/L|R/names/spn`; kind `g` group, `a` account (`p` person / `s` service account
on input), `ga` both, `o` neither;
names `-` or `n1,n2` (sorted on output); spn `-` absent, `S=n@d;n2@d2` SPN syntax (sorted on
output), `I=n` single stashed iname, `O` other syntax.
`<mod>` = `pn` | `+n=s` | `-n=s` | `ps` | `+s=n@d` | `-s=n@d`.
`<flags>` = `inv=<0|1> named=<0|1>` (the theorems' hypotheses, evaluated on the state shown).
`<state>` = `<domMem> <domDb> <entry>*` by ascending id.
-/
open Kanidm Kanidm.Proto Kanidm.Spn

def splitChars (c : Char) : List Char → List (List Char)
  | [] => [[]]
  | x :: xs =>
    match splitChars c xs with
    | [] => [[]]
    | h :: t => if x == c then [] :: h :: t else (x :: h) :: t

def str (l : List Char) : String := String.ofList l

def insertStr (x : String) : List String → List String
  | [] => [x]
  | y :: ys => if x ≤ y then x :: y :: ys else y :: insertStr x ys

def sortStrs (l : List String) : List String := l.foldr insertStr []

def pair? (l : List Char) : Option (Str × Str) :=
  match splitChars '@' l with
  | [n, d] => some (n, d)
  | _ => none

def spn? (l : List Char) : Option (Option SpnVs) :=
  match l with
  | ['-'] => some none
  | ['O'] => some (some .other)
  | 'I' :: '=' :: n => some (some (.iname n))
  | 'S' :: '=' :: rest => do
    let ps ← (splitChars ';' rest).mapM pair?
    pure (some (.spn ps))
  | _ => none

def kind? (l : List Char) : Option (Bool × Bool) :=
  match l with
  | ['g'] => some (true, false)
  | ['a'] => some (false, true)
  | ['p'] => some (false, true)
  | ['s'] => some (false, true)
  | ['g', 'a'] => some (true, true)
  | ['o'] => some (false, false)
  | _ => none

def entry? (tok : String) : Option Entry :=
  match splitChars '/' tok.toList with
  | [id, k, lv, names, spn] => do
    let id ← nat? (str id)
    let (g, a) ← kind? k
    let live ← (match lv with | ['L'] => some true | ['R'] => some false | _ => none)
    let names := if names == ['-'] then [] else splitChars ',' names
    let spn ← spn? spn
    pure ⟨id, g, a, live, names, spn⟩
  | _ => none

def mod? (tok : String) : Option Mod :=
  match tok.toList with
  | ['p', 'n'] => some .purgeName
  | ['p', 's'] => some .purgeSpn
  | '+' :: 'n' :: '=' :: n => some (.presentName n)
  | '-' :: 'n' :: '=' :: n => some (.removedName n)
  | '+' :: 's' :: '=' :: p => (pair? p).map .presentSpn
  | '-' :: 's' :: '=' :: p => (pair? p).map .removedSpn
  | _ => none

def showSpn : Option SpnVs → String
  | none => "-"
  | some .other => "O"
  | some (.iname n) => "I=" ++ str n
  | some (.spn vs) => "S=" ++ ";".intercalate (sortStrs (vs.map fun p => str (render p)))

def showEntry (e : Entry) : String :=
  "/".intercalate [toString e.id,
    (if e.grp && e.acct then "ga" else if e.grp then "g" else if e.acct then "a" else "o"),
    (if e.live then "L" else "R"),
    (if e.name.isEmpty then "-" else ",".intercalate (sortStrs (e.name.map str))),
    showSpn e.spn]

def insertEntry (e : Entry) : List Entry → List Entry
  | [] => [e]
  | y :: ys => if e.id ≤ y.id then e :: y :: ys else y :: insertEntry e ys

def showState (s : State) : String :=
  " ".intercalate (str s.domMem :: str s.domDb :: (s.entries.foldr insertEntry []).map showEntry)

def flags (s : State) : String :=
  "inv=" ++ showBool (invB s) ++ " named=" ++ showBool (namedB s)

def parseOp : List String → Option Op
  | "create" :: es => do
    let es ← es.mapM entry?
    if es.isEmpty then none else pure (.create es)
  | "modify" :: ids :: mods => do
    let ids ← natList? ids
    let mods ← mods.mapM mod?
    pure (.modify ids mods)
  | ["drename", d] => some (.domainRename d.toList)
  | ["delete", ids] => do pure (.delete (← natList? ids))
  | ["revive", ids] => do pure (.revive (← natList? ids))
  | _ => none

def showKind : ErrKind → String
  | .empty => "empty" | .exists => "exists" | .spn => "spn" | .unique => "unique"
  | .schema => "schema" | .noMatch => "nomatch"

def stepLine (s : State) (line : String) : State × String :=
  match tokens line with
  | "init" :: dom :: es =>
    match es.mapM entry? with
    | some es =>
      let s' : State := ⟨dom.toList, dom.toList, es⟩
      (s', "ok " ++ flags s' ++ " " ++ showState s')
    | none => (s, "bad-init")
  | "op" :: rest =>
    match parseOp rest with
    | some op =>
      match stepRes s op with
      | .ok s' => (s', "ok " ++ flags s' ++ " " ++ showState s')
      | .err k => (s, "err:" ++ showKind k ++ " " ++ flags s ++ " " ++ showState s)
    | none => (s, "bad-op")
  | ["gen", e, dom] =>
    match entry? e with
    | some e => (s, match generateSpn e dom.toList with | some v => showSpn (some v) | none => "none")
    | none => (s, "bad-entry")
  | ["state"] => (s, showState s)
  | _ => (s, "bad-request")

def main : IO Unit := run (⟨[], [], []⟩ : State) stepLine
