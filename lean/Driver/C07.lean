import KanidmModel.Proto
import KanidmModel.Cid
/-! Driver for C07 (stateful): one server per process, reset by `boot`.
```
boot <uuid> <ts>      -> ok                      QueryServer::new over a fresh database
begin <ts>            -> cid <ts> <uuid> | busy  QueryServer::write(curtime)
commit                -> ok | notxn              txn.commit() with no failing step
commitfail <i>        -> ok | err | notxn        the i-th generated step fails if it is fallible
abort                 -> ok | notxn              drop(txn)
restart <ts>          -> ok                      new QueryServer over the same database
init <ts>             -> ok | busy               initialise_helper(ts) = one write transaction
reset <uuid>          -> ok | notxn              reset_server_uuid
hist                  -> ts:uuid,ts:uuid,… | -   committed cids, oldest first
state                 -> mem=<ts>:<uuid> db=<ts|-> open=<0|1>
```
-/
open Kanidm Kanidm.Proto Kanidm.Cid

def showCid (c : Cid) : String := s!"{c.ts}:{c.sUuid}"

def showReply : Reply → String
  | .stamped c => s!"cid {c.ts} {c.sUuid}"
  | .ok => "ok"
  | .err => "err"
  | .busy => "busy"
  | .noTxn => "notxn"

def ev (s : Server) (e : Event) : Server × String :=
  let r := stepR s e
  (r.1, showReply r.2)

def handle (s : Server) (line : String) : Server × String :=
  match tokens line with
  | ["boot", u, ts] =>
    match nat? u, nat? ts with
    | some u, some ts => (boot u ts, "ok")
    | _, _ => (s, "bad-op")
  | ["begin", ts] =>
    match nat? ts with
    | some ts => ev s (.begin ts)
    | none => (s, "bad-op")
  | ["commit"] => ev s (.commit none)
  | ["commitfail", i] =>
    match nat? i with
    | some i => ev s (.commit (some i))
    | none => (s, "bad-op")
  | ["abort"] => ev s .abort
  | ["restart", ts] =>
    match nat? ts with
    | some ts => ev s (.restart ts)
    | none => (s, "bad-op")
  | ["init", ts] =>
    match nat? ts with
    | some ts =>
      match s.txn with
      | some _ => (s, "busy")
      | none => (run s [.begin ts, .commit none], "ok")
    | none => (s, "bad-op")
  | ["reset", u] =>
    match nat? u with
    | some u => ev s (.resetUuid u)
    | none => (s, "bad-op")
  | ["hist"] => (s, showList showCid s.hist)
  | ["state"] =>
    let db := match s.dbTs with | some d => toString d | none => "-"
    (s, s!"mem={showCid s.mem} db={db} open={showBool s.txn.isSome}")
  | _ => (s, "bad-op")

def main : IO Unit := Proto.run (boot 0 0) handle
