import KanidmModel.Proto
import KanidmModel.Filter.Sexp
import KanidmModel.Access.DefaultRoles
/-!
Driver for C25 (`km_c25`). Fields of a request are separated by TAB. Formats as in `Driver/C24.lean`
(IDENT, ENTRIES, NEWENTRIES, MODLIST, AGREEMENTS); the profiles are **not** part of a request: they
are the generated default tables `Kanidm.Gen.Default.*` the theorems of `KanidmProofs/C25.lean`
are about.

  tables                           → classes=<names>;attrs=<names>
  defaults hp|groups|managers|memberof|accounts|dyn|modify|create|delete
                                   → canonical text of the generated table (compared by the
                                     harness with what the booted server holds)
  sens                             → names of the sensitive attributes (spec list)
  hpgroups | nonhp                 → sorted uuids
  closure  <direct list>           → sorted `memberofClosure Default.groups direct`
  safe                             → names of default profiles that are *not* safe (expected: -)
  mod    IDENT AGREEMENTS ENTRIES MODLIST   → 1 | 0    (`modify_allow_operation`, default profiles)
  modop  IDENT AGREEMENTS ENTRIES MODLIST   → emptyRequest | noMatchingEntries | accessDenied |
                                              nothingToDo | proceed
  cre / creop  IDENT NEWENTRIES
  del / delop  IDENT ENTRIES
  open   IDENT ENTRY               → deny | grant | allow p=..;r=..   (attribute sets left open)
-/
open Kanidm Kanidm.Proto Kanidm.Filter Kanidm.Access.Write Kanidm.Access.Default

def optList? (s : String) : Option (Option (List Nat)) :=
  if s == "!" then some none else (natList? s).map some

def optNat? (s : String) : Option (Option Nat) :=
  if s == "!" then some none else (nat? s).map some

def scope? (s : String) : Option Scope :=
  match s with
  | "0" => some .readOnly | "1" => some .readWrite | "2" => some .synchronise | _ => none

def role? (s : String) : Option Role :=
  match s with
  | "0" => some .system | "1" => some .migration | "2" => some .accountRequest
  | "3" => some .messageQueue | _ => none

def ident? (s : String) : Option Ident :=
  match s.splitOn ":" with
  | ["U", u, sc, mo] => do
    pure ⟨.user (← nat? u) (← optList? mo), ← scope? sc⟩
  | ["S", u, sc] => do pure ⟨.synch (← nat? u), ← scope? sc⟩
  | ["I", r, sc] => do pure ⟨.internal (← role? r), ← scope? sc⟩
  | _ => none

def plusList? (s : String) : Option (List Nat) :=
  if s == "-" || s == "" then some [] else (s.splitOn "+").mapM nat?

def agreements? (s : String) : Option (List (Nat × List Nat)) :=
  if s == "-" || s == "" then some [] else
  (s.splitOn ";").mapM fun item =>
    match item.splitOn "=" with
    | [u, l] => do pure (← nat? u, ← plusList? l)
    | _ => none

def listOf? {α : Type} (sep : String) (f : String → Option α) (s : String) : Option (List α) :=
  if s == "-" || s == "" then some [] else (s.splitOn sep).mapM f

def ent? (s : String) : Option Ent :=
  match s.splitOn "~" with
  | [u, c, m, sp, fe] => do
    pure ⟨← nat? u, ← optList? c, ← optList? m, ← optNat? sp, Entry.ofList (← Entry.parseAssoc fe)⟩
  | _ => none

def newEnt? (s : String) : Option NewEnt :=
  match s.splitOn "~" with
  | [u, c, a, fe] => do
    pure ⟨← optNat? u, ← optList? c, ← natList? a, Entry.ofList (← Entry.parseAssoc fe)⟩
  | _ => none

def mod? (s : String) : Option Mod :=
  match s.splitOn ":" with
  | ["p", a, v] => do pure (.present (← nat? a) (← nat? v))
  | ["r", a, v] => do pure (.removed (← nat? a) (← nat? v))
  | ["u", a] => do pure (.purged (← nat? a))
  | ["s", a, vs] => do pure (.set (← nat? a) (← plusList? vs))
  | ["a", a, v] => do pure (.assert (← nat? a) (← nat? v))
  | _ => none

def modlist? (s : String) : Option (List Mod) := listOf? "," mod? s

def showOp : OpResult → String
  | .emptyRequest => "emptyRequest"
  | .noMatchingEntries => "noMatchingEntries"
  | .accessDenied => "accessDenied"
  | .nothingToDo => "nothingToDo"
  | .proceed => "proceed"

def showSet (l : List Nat) : String := showNatList (sortNats l.eraseDups)

/-! rendering of the generated tables -/

partial def renderFC : FC → String
  | .eq a v => s!"(eq {a} {v.render})"
  | .cnt a v => s!"(cnt {a} {v.render})"
  | .stw a v => s!"(stw {a} {v.render})"
  | .enw a v => s!"(enw {a} {v.render})"
  | .pres a => s!"(pres {a})"
  | .lessThan a v => s!"(lt {a} {v.render})"
  | .or l => "(or " ++ " ".intercalate (l.map renderFC) ++ ")"
  | .and l => "(and " ++ " ".intercalate (l.map renderFC) ++ ")"
  | .inclusion l => "(inc " ++ " ".intercalate (l.map renderFC) ++ ")"
  | .andnot f => s!"(not {renderFC f})"
  | .selfUuid => "(self)"
  | .invalid a => s!"(inv {a})"

def renderProfile (p : Profile) : String :=
  let r := match p.receiver with
    | .none => "N"
    | .entryManager => "M"
    | .group gs => "G:" ++ showNatList gs
  let t := match p.target with
    | none => "!"
    | some f => renderFC f
  r ++ "~" ++ t

def zipNames {α : Type} (names : List String) (l : List α) (f : α → String) : String :=
  if l.isEmpty then "-" else
  "|".intercalate ((names.zip l).map fun (n, a) => n ++ "=" ++ f a)

def renderPairs (l : List (Nat × List Nat)) : String :=
  if l.isEmpty then "-" else
  ";".intercalate (l.map fun (g, ms) => s!"{g}:{showNatList ms}")

def attrName (a : Nat) : String := (Kanidm.Gen.Access.attrNames[a]?).getD s!"#{a}"

def unsafeNames : List String :=
  ((Gen.Default.modifyAcpNames.zip Gen.Default.modifyAcps).filter (fun p => !safeModify p.2)).map
      (fun p => "modify:" ++ p.1)
    ++ ((Gen.Default.createAcpNames.zip Gen.Default.createAcps).filter
      (fun p => !safeProfile p.2.acp)).map (fun p => "create:" ++ p.1)
    ++ ((Gen.Default.deleteAcpNames.zip Gen.Default.deleteAcps).filter
      (fun p => !safeProfile p.2.acp)).map (fun p => "delete:" ++ p.1)

def defaults (what : String) : String :=
  match what with
  | "hp" => toString Gen.Default.uuidHighPrivilege
  | "groups" => renderPairs Gen.Default.groups
  | "names" => ",".intercalate Gen.Default.groupNames
  | "managers" => renderPairs Gen.Default.groupManagers
  | "memberof" => renderPairs Gen.Default.groupMemberOf
  | "accounts" => renderPairs Gen.Default.accounts
  | "dyn" => showNatList Gen.Default.dynGroups
  | "modify" =>
    zipNames Gen.Default.modifyAcpNames Gen.Default.modifyAcps fun a =>
      s!"{renderProfile a.acp}~{showNatList a.presAttrs}~{showNatList a.remAttrs}~{showNatList a.presClasses}~{showNatList a.remClasses}"
  | "create" =>
    zipNames Gen.Default.createAcpNames Gen.Default.createAcps fun a =>
      s!"{renderProfile a.acp}~{showNatList a.attrs}~{showNatList a.classes}"
  | "delete" =>
    zipNames Gen.Default.deleteAcpNames Gen.Default.deleteAcps fun a => renderProfile a.acp
  | _ => "bad-op"

def showOpen : ModifyResult → String
  | .deny => "deny"
  | .grant => "grant"
  | .allow a => s!"allow p={showSet a.pres};r={showSet a.rem}"

def bad : String := "bad-op"

def handle (line : String) : String :=
  let line := line.trimAscii.toString
  match line.splitOn "\t" with
  | ["tables"] =>
    "classes=" ++ ",".intercalate Kanidm.Gen.Access.classNames ++ ";attrs=" ++
      ",".intercalate Kanidm.Gen.Access.attrNames
  | ["defaults", what] => defaults what
  | ["sens"] => ",".intercalate (sensitiveAttrs.map attrName)
  | ["hpgroups"] => showNatList (sortNats hpGroups)
  | ["nonhp"] => showNatList (sortNats nonHpGroups)
  | ["safe"] => if unsafeNames.isEmpty then "-" else ",".intercalate unsafeNames
  | ["closure", l] =>
    match natList? l with
    | some d => showNatList (sortNats (memberofClosure Gen.Default.groups d))
    | none => bad
  | [op, i, ag, es, ml] =>
    match ident? i, agreements? ag, listOf? "^" ent? es, modlist? ml with
    | some i, some ag, some es, some ml =>
      if op == "mod" then showBool (modifyDecision i ag es ml)
      else if op == "modop" then showOp (modifyOperation i ag es ml)
      else bad
    | _, _, _, _ => bad
  | [op, i, es] =>
    match ident? i with
    | none => bad
    | some i =>
      if op == "cre" || op == "creop" then
        match listOf? "^" newEnt? es with
        | some es => if op == "cre" then showBool (createDecision i es) else showOp (createOperation i es)
        | none => bad
      else if op == "del" || op == "delop" then
        match listOf? "^" ent? es with
        | some es => if op == "del" then showBool (deleteDecision i es) else showOp (deleteOperation i es)
        | none => bad
      else if op == "open" then
        match ent? es with
        | some e =>
          showOpen (applyModifyAccess i (modifyRelatedAcp i Gen.Default.modifyAcps) [] e)
        | none => bad
      else bad
  | _ => bad

def main : IO Unit := runPure handle
