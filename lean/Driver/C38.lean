import KanidmModel.Proto
import KanidmModel.OAuth2.Authorise
/-! Driver for C38 (stateful: the loaded clients + the consent tokens handed out).

* `reset`                                                         → `ok`
* `client <nameHex> <uuid> <type> <landing> <extras> <maps> <supmaps>`
    type `b:<d>:<p>` (disable-pkce flag, consent-prompt flag; each `-`|`0`|`1`) or `p:<l>`;
    url `<atom>:<s|h|o>` (https / http / other); extras `u,u`|`-`; maps `g=s.s,g=s`|`-`
    → `ok uris=<..> opaque=<..> secure=<b> pkce=<b> prompt=<b> localhost=<b> basic=<b>`
* `delclient <nameHex>`                                            → `ok`
* `auth <clientIdHex> <rtype> <rmode> <prompts> <pkce> <uri> <scopes> <badscopes> <state> <nonce>
        <maxage> <resumed> <ct> <ident>`
    uri `<atom>:<https>:<host>`, host `-`|`4.a.b.c.d`|`6.s0…s7`|`d.<hex>`; pkce `-`|`<chal>:<isS256>`;
    ident = 6 tokens `<none|internal|synch|user> <uuid> <session> <lastVerified|-> <memberOf> <consent>`,
    consent `rs=s.s,rs=`|`-`
    → `err <e>` | `authreq` | `reauth` | `consent tok=<n> …` | `permitted …`
* `permit <tok> <ct> <ident>`                                      → `ok …` | `err <e>`
All instants in nanoseconds. Sets are printed sorted without duplicates. -/
open Kanidm Kanidm.Proto Kanidm.OAuth2

structure World where
  reg : Registry := []
  toks : Array ConsentToken := #[]

def hexVal (c : Char) : Option Nat :=
  if '0' ≤ c ∧ c ≤ '9' then some (c.toNat - '0'.toNat)
  else if 'a' ≤ c ∧ c ≤ 'f' then some (c.toNat - 'a'.toNat + 10)
  else none

def unhexAux : List Char → Option (List Char)
  | [] => some []
  | [_] => none
  | a :: b :: rest => do
    let x ← hexVal a; let y ← hexVal b
    let tl ← unhexAux rest
    pure (Char.ofNat (x * 16 + y) :: tl)

/-- `-` is the empty string. -/
def unhex (s : String) : Option (List Char) :=
  if s == "-" then some [] else unhexAux s.toList

def hexDigit (n : Nat) : Char :=
  if n < 10 then Char.ofNat ('0'.toNat + n) else Char.ofNat ('a'.toNat + n - 10)

def hex (l : List Char) : String :=
  if l.isEmpty then "-" else
  String.ofList (l.flatMap fun c => [hexDigit (c.toNat / 16 % 16), hexDigit (c.toNat % 16)])

def dedupSorted : List Nat → List Nat
  | a :: b :: rest => if a == b then dedupSorted (b :: rest) else a :: dedupSorted (b :: rest)
  | l => l

def showSet (l : List Nat) : String := showNatList (dedupSorted (sortNats l))

def optNat? (s : String) : Option (Option Nat) :=
  if s == "-" then some none else (nat? s).map some

def optInt? (s : String) : Option (Option Int) :=
  if s == "-" then some none else (int? s).map some

def optBool? (s : String) : Option (Option Bool) :=
  if s == "-" then some none else (bool? s).map some

def showOptNat : Option Nat → String
  | none => "-" | some n => toString n

def showOptInt : Option Int → String
  | none => "-" | some n => toString n

def dotNats? (s : String) : Option (List Nat) :=
  if s == "" then some [] else (s.splitOn ".").mapM nat?

def maps? (s : String) : Option (List (Nat × List Nat)) :=
  (splitList s).mapM fun item =>
    match item.splitOn "=" with
    | [g, ss] => do let g ← nat? g; let ss ← dotNats? ss; pure (g, ss)
    | _ => none

def confUrl? (s : String) : Option ConfUrl :=
  match s.splitOn ":" with
  | [a, k] => do
    let a ← nat? a
    let k ← if k == "s" then some Scheme.https else if k == "h" then some Scheme.http
             else if k == "o" then some Scheme.other else none
    pure ⟨a, k⟩
  | _ => none

def confType? (s : String) : Option ConfType :=
  match s.splitOn ":" with
  | ["b", d, p] => do let d ← optBool? d; let p ← optBool? p; pure (.basic d p)
  | ["p", l] => do let l ← optBool? l; pure (.pub l)
  | _ => none

def host? (s : String) : Option (Option Host) :=
  if s == "-" then some none else
  match s.splitOn "." with
  | ["4", a, b, c, d] => do
    let a ← nat? a; let b ← nat? b; let c ← nat? c; let d ← nat? d
    pure (some (.ipv4 a b c d))
  | "6" :: segs => do let segs ← segs.mapM nat?; pure (some (.ipv6 segs))
  | ["d", h] => do let n ← unhex h; pure (some (.domain n))
  | _ => none

def uri? (s : String) : Option Uri :=
  match s.splitOn ":" with
  | [a, h, host] => do let a ← nat? a; let h ← bool? h; let host ← host? host; pure ⟨a, h, host⟩
  | _ => none

def rtype? (s : String) : Option ResponseType :=
  if s == "code" then some .code else if s == "token" then some .token
  else if s == "id_token" then some .idToken else none

def rmode? (s : String) : Option (Option ResponseMode) :=
  if s == "-" then some none else if s == "query" then some (some .query)
  else if s == "fragment" then some (some .fragment) else if s == "form_post" then some (some .formPost)
  else if s == "invalid" then some (some .invalid) else none

def prompt? (s : String) : Option Prompt :=
  if s == "none" then some .none else if s == "login" then some .login
  else if s == "consent" then some .consent else if s == "select_account" then some .selectAccount
  else if s == "invalid" then some .invalid else none

def pkce? (s : String) : Option (Option Pkce) :=
  if s == "-" then some none else
  match s.splitOn ":" with
  | [c, m] => do let c ← nat? c; let m ← bool? m; pure (some ⟨c, m⟩)
  | _ => none

def ident? : List String → Option (Option Ident)
  | [k, u, s, lva, mo, cons] =>
    if k == "none" then some none else do
    let kind ← if k == "internal" then some IdentKind.internal else if k == "synch" then some IdentKind.synch
                else if k == "user" then some IdentKind.user else none
    let u ← nat? u; let s ← nat? s; let lva ← optInt? lva
    let mo ← natList? mo; let cons ← maps? cons
    pure (some ⟨kind, u, s, lva, mo, cons⟩)
  | _ => none

def showKind : IdentKind → String
  | .internal => "internal" | .synch => "synch" | .user => "user"

def showMode : SupportedResponseMode → String
  | .query => "query" | .fragment => "fragment"

def showErr : Err → String
  | .unsupportedResponseType => "UnsupportedResponseType" | .invalidRequest => "InvalidRequest"
  | .invalidClientId => "InvalidClientId" | .invalidOrigin => "InvalidOrigin"
  | .loginRequired => "LoginRequired" | .accessDenied => "AccessDenied"
  | .invalidScope => "InvalidScope" | .interactionRequired => "InteractionRequired"

def showPermitErr : PermitErr → String
  | .invalidSessionState => "InvalidSessionState" | .cryptographyError => "CryptographyError"
  | .invalidRequestState => "InvalidRequestState"

def showCode (c : ExchangeCode) : String :=
  s!"acct={c.accountUuid} sess={c.sessionId} exp={c.expiry} chal={showOptNat c.codeChallenge} uri={c.redirectUri} scopes={showSet c.scopes} nonce={showOptNat c.nonce} authtime={showOptInt c.authTime}"

def showClient (c : Client) : String :=
  s!"ok uris={showSet c.redirectUris} opaque={showSet c.opaqueOrigins} secure={showBool c.originSecureRequired} pkce={showBool c.requirePkce} prompt={showBool c.enableConsentPrompt} localhost={showBool c.allowLocalhostRedirect} basic={showBool c.isBasic}"

def step (w : World) (line : String) : World × String :=
  match tokens line with
  | ["reset"] => ({}, "ok")
  | ["client", name, uuid, ty, landing, extras, maps, sups] =>
    match unhex name, nat? uuid, confType? ty, confUrl? landing, (splitList extras).mapM confUrl?,
          maps? maps, maps? sups with
    | some name, some uuid, some ty, some landing, some extras, some maps, some sups =>
      let c := Client.ofConf ⟨uuid, ty, landing, extras, maps, sups⟩
      ({ w with reg := w.reg.filter (fun e => e.1 ≠ name) ++ [(name, c)] }, showClient c)
    | _, _, _, _, _, _, _ => (w, "bad-op")
  | ["delclient", name] =>
    match unhex name with
    | some name => ({ w with reg := w.reg.filter (fun e => e.1 ≠ name) }, "ok")
    | none => (w, "bad-op")
  | "auth" :: cid :: rt :: rm :: prompts :: pk :: uri :: scopes :: bad :: st :: nonce :: maxage :: resumed
      :: ct :: identToks =>
    match unhex cid, rtype? rt, rmode? rm, (splitList prompts).mapM prompt?, pkce? pk, uri? uri,
          natList? scopes, natList? bad with
    | some cid, some rt, some rm, some prompts, some pk, some uri, some scopes, some bad =>
      match optNat? st, optNat? nonce, optInt? maxage, bool? resumed, nat? ct, ident? identToks with
      | some st, some nonce, some maxage, some resumed, some ct, some ident =>
        let req : Request :=
          { responseType := rt, responseMode := rm, clientId := cid, state := st, pkce := pk,
            redirectUri := uri, scope := scopes, nonce := nonce, maxAge := maxage, prompt := prompts }
        match authorise (fun s => !bad.contains s) w.reg ident req resumed ct with
        | .err e => (w, "err " ++ showErr e)
        | .authenticationRequired => (w, "authreq")
        | .reauthenticationRequired => (w, "reauth")
        | .consentRequested tok pii =>
          ({ w with toks := w.toks.push tok },
            s!"consent tok={w.toks.size} scopes={showSet tok.scopes} pii={showSet pii} cid={hex tok.clientId} sess={tok.sessionId} exp={tok.expiry} ident={showKind tok.identId.1}:{tok.identId.2} state={showOptNat tok.state} chal={showOptNat tok.codeChallenge} uri={tok.redirectUri} nonce={showOptNat tok.nonce} mode={showMode tok.responseMode}")
        | .permitted code state mode =>
          (w, s!"permitted {showCode code} state={showOptNat state} mode={showMode mode}")
      | _, _, _, _, _, _ => (w, "bad-op")
    | _, _, _, _, _, _, _, _ => (w, "bad-op")
  | "permit" :: tok :: ct :: identToks =>
    match nat? tok, nat? ct, ident? identToks with
    | some tok, some ct, some (some i) =>
      match w.toks[tok]? with
      | none => (w, "bad-op")
      | some t =>
        match permit w.reg t i ct with
        | .error e => (w, "err " ++ showPermitErr e)
        | .ok p =>
          (w, s!"ok {showCode p.code} ruri={p.redirectUri} state={showOptNat p.state} mode={showMode p.responseMode} consent={p.consentClient}:{showSet p.consentScopes}")
    | _, _, _ => (w, "bad-op")
  | _ => (w, "bad-op")

def main : IO Unit := run ({} : World) step
