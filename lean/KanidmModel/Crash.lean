import KanidmModel.Generated.CrashOps
import KanidmModel.Cid
/-
C05 — model of a write transaction's storage calls, a crash at any point, and the restart.

Transcribes
  * the storage discipline of `server/lib/src/be/idl_sqlite.rs`: `IdlSqliteWriteTransaction::new`
    issues `BEGIN EXCLUSIVE TRANSACTION` on the connection it keeps, every other function issues
    its SQL through `self.get_conn()` (that same connection), `commit` issues `COMMIT TRANSACTION`
    on it — which function writes which tables, and on which connection, is regenerated
    (`Generated/CrashOps.lean`: `sqliteFns`);
  * the three commit layers above it, in their regenerated orders:
    `QueryServerWriteTransaction::commit` (`Generated/CidCommit.lean`, shared with C07),
    `BackendWriteTransaction::commit` (`beCommitSteps`: `write_db_ruv`, `idlayer.commit()`,
    publications) and `IdlArcSqliteWriteTransaction::commit` (`arcCommitSteps`: flush the dirty
    entry / idl / name caches, `db.commit()?`, publications of the in-memory cells);
  * a crash: the process dies between two storage calls; every in-memory cell and the
    uncommitted part of the SQLite transaction are lost.

TRUSTED (hypothesis `H_sqlite_atomic`, the `step` function below): a SQLite transaction in WAL mode is
atomic and durable at `COMMIT` — statements issued between `BEGIN` and `COMMIT` on one connection
become visible to a later process all together exactly when `COMMIT` has returned, never partially;
a statement issued outside a transaction commits on its own at once (autocommit).  The model is
deliberately pessimistic about foreign connections: a write on any other connection is applied
immediately, so a single such write breaks the theorems.

Rows are `(table, key) ↦ value` with `Nat` keys/values; nothing depends on what they encode.
-/
namespace Kanidm.Crash
open Kanidm.Gen.Crash

/-- One row written (`val = none`: the row is deleted). -/
structure Write where
  tbl : Tbl
  key : Nat
  val : Option Nat
deriving DecidableEq, Repr

/-- The durable database: what a fresh process finds in the file. -/
def Disk := Tbl → Nat → Option Nat

def Disk.put (d : Disk) (w : Write) : Disk :=
  fun t k => if t = w.tbl ∧ k = w.key then w.val else d t k

def Disk.apply (d : Disk) (ws : List Write) : Disk := ws.foldl Disk.put d

def Disk.empty : Disk := fun _ _ => none

/-- What the process does, at storage-call granularity. -/
inductive Op where
  /-- `BEGIN EXCLUSIVE TRANSACTION` on connection `c` -/
  | begin (c : Nat)
  /-- SQL issued on connection `c`, writing `ws` (`[]` = a read) -/
  | stmt (c : Nat) (ws : List Write)
  /-- `COMMIT TRANSACTION` on connection `c` -/
  | commit (c : Nat)
  /-- publication of an in-memory cell (CowCell / ARCache commit): nothing durable -/
  | mem (cell : Nat)
deriving Repr

structure Sys where
  disk : Disk
  /-- the connection inside `BEGIN …` and what it wrote so far (invisible to other processes) -/
  txn : Option (Nat × List Write)
  /-- published in-memory cells -/
  mem : List Nat

/-- `H_sqlite_atomic`. -/
def step (s : Sys) : Op → Sys
  | .begin c =>
    match s.txn with
    | none => { s with txn := some (c, []) }
    | some _ => s
  | .stmt c ws =>
    match s.txn with
    | some (c', p) => if c = c' then { s with txn := some (c', p ++ ws) } else { s with disk := s.disk.apply ws }
    | none => { s with disk := s.disk.apply ws }
  | .commit c =>
    match s.txn with
    | some (c', p) => if c = c' then { s with disk := s.disk.apply p, txn := none } else s
    | none => s
  | .mem x => { s with mem := x :: s.mem }

def run (ops : List Op) (s : Sys) : Sys := ops.foldl step s

/-- A freshly started process over database `d`. -/
def boot (d : Disk) : Sys := ⟨d, none, []⟩

/-- The process dies after `k` of the operations; the next process finds this database.  (The open
transaction and the in-memory cells of `run …` are gone: only `.disk` survives.) -/
def crashAt (k : Nat) (ops : List Op) (d : Disk) : Disk := (run (ops.take k) (boot d)).disk

/-- The database after the whole list ran. -/
def after (ops : List Op) (d : Disk) : Disk := crashAt ops.length ops d

/-- Number of operations before the first `COMMIT` (the whole length when there is none). -/
def commitIdx : List Op → Nat
  | [] => 0
  | .commit _ :: _ => 0
  | _ :: rest => commitIdx rest + 1

/-! ### The bracket discipline -/

inductive Phase where
  | idle
  | inTxn
  | done
deriving DecidableEq, Repr

/-- One transaction on connection `c`: `BEGIN c`, then writes only on `c`, then one `COMMIT c`, then
no write at all. Reads (`ws = []`) and in-memory publications are allowed anywhere. -/
def shapeStep (c : Nat) : Phase → Op → Option Phase
  | p, .mem _ => some p
  | .idle, .begin c' => if c' = c then some .inTxn else none
  | .idle, .stmt _ ws => if ws = [] then some .idle else none
  | .idle, .commit _ => none
  | .inTxn, .begin _ => none
  | .inTxn, .stmt c' ws => if c' = c ∨ ws = [] then some .inTxn else none
  | .inTxn, .commit c' => if c' = c then some .done else none
  | .done, .begin _ => none
  | .done, .stmt _ ws => if ws = [] then some .done else none
  | .done, .commit _ => none

def shapeRun (c : Nat) : Phase → List Op → Option Phase
  | p, [] => some p
  | p, op :: rest =>
    match shapeStep c p op with
    | some q => shapeRun c q rest
    | none => none

/-! ### The write transaction of the server, from the regenerated orders -/

def txnConn : Nat := 0
def otherConn : Nat := 1

/-- The connection the SQL of function `fn` (index into `sqliteFns`) runs on. -/
def connOf (fn : Nat) : Nat :=
  match sqliteFns[fn]? with
  | some f => if f.conn = .txn then txnConn else otherConn
  | none => otherConn

/-- One storage call: the function that issued it and the rows it writes. -/
structure Stmt where
  fn : Nat
  ws : List Write
deriving Repr

def stmtOps (ss : List Stmt) : List Op := ss.map fun s => Op.stmt (connOf s.fn) s.ws

/-- The three commit layers flattened into one list. -/
inductive Flat where
  /-- `be_txn.set_db_ts_max(cid.ts)` -/
  | ts
  /-- a write-through call of `BackendWriteTransaction::commit` (`write_db_ruv`) -/
  | be (fn : Nat)
  /-- flush of the `i`-th dirty cache through `fns` -/
  | flush (i : Nat) (fns : List Nat)
  | sqlCommit
  | mem
deriving DecidableEq, Repr

def arcFlat : Nat → List ArcStep → List Flat
  | _, [] => []
  | i, .flush fns :: r => .flush i fns :: arcFlat (i + 1) r
  | i, .dbCommit :: r => .sqlCommit :: arcFlat (i + 1) r
  | i, .publish :: r => .mem :: arcFlat (i + 1) r

def beFlat : List BeStep → List Flat
  | [] => []
  | .direct fn :: r => .be fn :: beFlat r
  | .idlCommit :: r => arcFlat 0 arcCommitSteps ++ beFlat r
  | .publish :: r => .mem :: beFlat r

def qsFlat : List Kanidm.Gen.CidCommit.CStep → List Flat
  | [] => []
  | st :: r =>
    (match st.kind with
      | .persistTsMax => [.ts]
      | .cidCommit => [.mem]
      | .beCommit => beFlat beCommitSteps
      | .other => [.mem]) ++ qsFlat r

/-- `QueryServerWriteTransaction::commit` down to the SQLite `COMMIT`, in source order. -/
def commitFlat : List Flat := qsFlat Kanidm.Gen.CidCommit.commitSteps

/-- What one particular transaction writes. -/
structure Workload where
  /-- storage calls while the operation and `reload()` run (write-through calls and reads) -/
  direct : List Stmt
  /-- rows written by `set_db_ts_max` -/
  tsMax : List Write
  /-- rows written by the backend's write-through call (`write_db_ruv`: removed and added cids) -/
  beDirect : List Write
  /-- dirty items of the `i`-th flush step -/
  flush : Nat → List Stmt

def expand (w : Workload) : Flat → List Op
  | .ts => [.stmt (connOf tsMaxFn) w.tsMax]
  | .be fn => [.stmt (connOf fn) w.beDirect]
  | .flush i _ => stmtOps (w.flush i)
  | .sqlCommit => [.commit txnConn]
  | .mem => [.mem 0]

def expandAll (w : Workload) : List Flat → List Op
  | [] => []
  | f :: r => expand w f ++ expandAll w r

/-- Everything a write transaction does to storage and memory, from `QueryServer::write` to the end
of `commit()`. -/
def txnOps (w : Workload) : List Op :=
  .begin txnConn :: (stmtOps w.direct ++ expandAll w commitFlat)

/-- Every storage call names a function of the SQLite write transaction. -/
structure Workload.WF (w : Workload) : Prop where
  direct : ∀ s ∈ w.direct, s.fn < sqliteFns.length
  flush : ∀ i, ∀ s ∈ w.flush i, s.fn < sqliteFns.length

/-- The commit layers are safe when every write-through / flush step names known functions and
comes before the single `COMMIT`, after which only in-memory publications follow. -/
def flatOk : Bool → List Flat → Bool
  | committed, [] => committed
  | committed, .mem :: r => flatOk committed r
  | false, .sqlCommit :: r => flatOk true r
  | true, .sqlCommit :: _ => false
  | false, .ts :: r => flatOk false r
  | false, .be fn :: r => decide (fn < sqliteFns.length) && flatOk false r
  | false, .flush _ _ :: r => flatOk false r
  | true, .ts :: _ => false
  | true, .be _ :: _ => false
  | true, .flush _ _ :: _ => false

/-! ### Restart: change identifiers (on top of C07's machine) -/

open Kanidm.Cid Kanidm.Gen.CidCommit in
/-- The server at the instant the process dies after `k` steps of `commit()` (C07's generated
step list): what is durable, and whether the transaction made it into the committed history.
The in-memory `mem` is about to be lost; a following `restart` event re-seeds it. -/
def crashCommit (s : Server) (t : Txn) (k : Nat) : Server :=
  let w := (runSteps t.cid (commitSteps.take k) 0 none
    { mem := s.mem, dbTs := s.dbTs, dbUuid := s.dbUuid, pendingTs := none,
      pendingUuid := t.pendingUuid, durable := false }).1
  { mem := w.mem, dbTs := w.dbTs, dbUuid := w.dbUuid, txn := none,
    hist := if w.durable then s.hist ++ [t.cid] else s.hist }

/-! ### Replaying a recorded trace (driver) -/

/-- The function whose source span contains `line`. -/
def fnOfLine (line : Nat) : Option Nat :=
  let rec go : List SqlFn → Nat → Option Nat
    | [], _ => none
    | f :: r, i => if f.lo ≤ line ∧ line ≤ f.hi then some i else go r (i + 1)
  go sqliteFns 0

/-- The rows a call of `fn` at position `pos` is taken to write: one per table it can write. -/
def synthWrites (fn pos : Nat) : List Write :=
  match sqliteFns[fn]? with
  | some f => f.writes.map fun t => ⟨t, pos, some pos⟩
  | none => []

end Kanidm.Crash
