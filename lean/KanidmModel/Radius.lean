import KanidmModel.Generated.RadiusOps
/-
C46 — model of the RADIUS module's authorise decision
(rlm_kanidm/module/src/logic.rs: `AuthRequest::user_id`, `Module::from_config`,
`Module::authorise`, `user_in_required_groups`, `resolve_group_configs`, `fetch_token`).

Strings (group uuids, group spns, configured required-group names, user ids, reply
attribute keys/values) are `Nat` atoms: the code only ever tests them for *equality*
(`BTreeSet::contains`, `BTreeMap::get`) or orders map keys for output; the harness maps atoms
to strings injectively and order-preservingly.  A group's uuid and spn live in the same
name space as the configured names on purpose: `required_groups` is one set that both fields
are looked up in.

The decision-carrying tokens (membership predicate and quantifier, identity preference order,
early-return table, guard polarity, the "not found" status, the lookup key of the VLAN map)
are not written here: they come from `Generated/RadiusOps.lean`, i.e. from the source as it is now.
-/
namespace Kanidm.Radius
open Kanidm.Gen.Radius

structure Group where
  spn : Nat
  uuid : Nat
deriving DecidableEq, Repr

/-- `RadiusAuthToken` (displayname is never read by the module). -/
structure Token where
  name : Nat
  uuid : Nat
  secret : Nat
  groups : List Group
deriving DecidableEq, Repr

/-- `RadiusGroupConfig`; `attrs` is a `BTreeMap<String,String>` (sorted, distinct keys). -/
structure GroupCfg where
  spn : Nat
  vlan : Nat
  attrs : List (Nat × Nat)
deriving DecidableEq, Repr

/-- The fields of `KanidmRadiusConfig` that `authorise` depends on. -/
structure Config where
  required : List Nat
  defaultVlan : Nat
  groups : List GroupCfg
deriving DecidableEq, Repr

/-- What the HTTP lookup `GET /v1/account/{id}/_radius/_token` produced: a decodable token
(status 200), some other status, or a transport / decode failure. -/
inductive Http where
  | ok (t : Token)
  | status (code : Nat)
  | broken
deriving DecidableEq, Repr

/-- The three identity sources of an `AuthRequest`. -/
structure Request where
  san : Option Nat
  cn : Option Nat
  user : Option Nat
deriving DecidableEq, Repr

def Request.field (r : Request) : Nat → Option Nat
  | 0 => r.san
  | 1 => r.cn
  | 2 => r.user
  | _ => none

/-- `AuthRequest::user_id`: `a.or(b).or(c)` = first present, in the generated order. -/
def userId (r : Request) : Option Nat := idOrder.findSome? r.field

structure Reply where
  name : Nat
  uuid : Nat
  secret : Nat
  vlan : Nat
  attrs : List (Nat × Nat)
deriving DecidableEq, Repr

inductive Outcome where
  | accept (r : Reply)
  | err (e : AuthError)
deriving DecidableEq, Repr

/-- The cleartext secret an outcome hands to FreeRADIUS (`control.cleartext_password`). -/
def Outcome.secret : Outcome → Option Nat
  | .accept r => some r.secret
  | .err _ => none

inductive Fetched where
  | tok (t : Token)
  | none
  | err
deriving DecidableEq, Repr

/-- `Module::fetch_token`. -/
def fetchToken : Http → Fetched
  | .ok t => .tok t
  | .status c => if c = notFoundStatus then .none else .err
  | .broken => .err

/-- `Module::user_in_required_groups`; `required_groups` is the `BTreeSet` collected from
`cfg.radius_required_groups`, so `contains` is list membership. -/
def userInRequired (cfg : Config) (gs : List Group) : Bool :=
  if memberAny then gs.any (fun g => memberPred cfg.required g.spn g.uuid)
  else gs.all (fun g => memberPred cfg.required g.spn g.uuid)

/-- `group_configs.get(key)` where `group_configs` was `collect`ed into a `BTreeMap` from
`cfg.radius_groups` keyed by `spn`: later entries overwrite earlier ones. -/
def cfgLookup (gs : List GroupCfg) (key : Nat) : Option GroupCfg :=
  gs.foldl (fun acc g => if g.spn = key then some g else acc) none

/-- `BTreeMap::insert` on a key-sorted association list. -/
def mapInsert (k v : Nat) : List (Nat × Nat) → List (Nat × Nat)
  | [] => [(k, v)]
  | (k', v') :: rest =>
    if k < k' then (k, v) :: (k', v') :: rest
    else if k = k' then (k, v) :: rest
    else (k', v') :: mapInsert k v rest

/-- `BTreeMap::extend`. -/
def mapExtend (m : List (Nat × Nat)) (l : List (Nat × Nat)) : List (Nat × Nat) :=
  l.foldl (fun m kv => mapInsert kv.1 kv.2 m) m

structure Resolved where
  vlan : Nat
  attrs : List (Nat × Nat)
deriving DecidableEq, Repr

/-- Body of `for group in user_groups` in `resolve_group_configs`. -/
def resolveStep (cfg : Config) (acc : Resolved) (g : Group) : Resolved :=
  match cfgLookup cfg.groups (cfgKey g.spn g.uuid) with
  | some c => { vlan := c.vlan, attrs := mapExtend acc.attrs c.attrs }
  | none => acc

/-- `Module::resolve_group_configs`. -/
def resolve (cfg : Config) (gs : List Group) : Resolved :=
  gs.foldl (resolveStep cfg) { vlan := cfg.defaultVlan, attrs := [] }

/-- `Module::authorise`; `dir` is the directory as seen through the HTTP lookup. -/
def authorise (cfg : Config) (dir : Nat → Http) (req : Request) : Outcome :=
  match userId req with
  | none => .err errNoUser
  | some id =>
    match fetchToken (dir id) with
    | .none => .err errNotFound
    | .err => .err errLookup
    | .tok t =>
      if userInRequired cfg t.groups = returnWhenMember then .err errGuard
      else
        let r := resolve cfg t.groups
        .accept { name := t.name, uuid := t.uuid, secret := t.secret, vlan := r.vlan, attrs := r.attrs }

end Kanidm.Radius
