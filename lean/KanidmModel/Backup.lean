import KanidmModel.IndexMaint
import KanidmModel.Generated.BackupOps
/-
C13 model: backup of a backend into a `DbBackup` document and restore of such a document.

Transcribes
  * `/repo/server/lib/src/be/mod.rs`: `BackendTransaction::backup` (l.970), `BackendWriteTransaction::restore`
    (l.1876), `danger_delete_all_db_content` (l.1845), `commit` (l.2081, the RUV part), `ruv_reload` /
    `ruv_rebuild` (l.2028, 2043), the part of `Backend::new` (l.2186) that reloads the caches;
  * `/repo/server/lib/src/be/dbentry.rs`: `enum DbBackup` (serde `untagged`, first fitting variant wins);
  * `/repo/server/lib/src/repl/ruv.rs`: `to_db_backup_ruv` (l.276), `clear` (l.564), `restore` (l.694),
    `rebuild` (l.728), `added` / `removed` (l.964, 984) after a `clear`;
  * `/repo/server/lib/src/be/idl_sqlite.rs`: `write_db_ruv` (l.1089: delete the removed, then insert the added),
    `write_identries_raw` (`INSERT OR REPLACE`), `set_key_handles` (delete all, insert);
  * `/repo/server/lib/src/be/idl_arc_sqlite.rs`: `write_identries_raw` (l.765: whether the cached `maxid` is
    re-read is generated), `danger_purge_id2entry`, `setup` (l.1236: `maxid` = the table's maximum id);
  * `/repo/server/core/src/lib.rs`: `restore_server_core` (l.423: `restore(..).and_then(|_| commit())`, then `reindex`).

The field lists of the `DbBackup` variants, which variant and which sources `backup` writes, the writes and
the `(entries, repl_meta, version)` tuple of every `match` arm of `restore`, the version comparison, the order of
the phases of `restore` / `danger_delete_all_db_content` / `commit` / `write_db_ruv` come from
`KanidmModel.Generated.BackupOps`, rewritten from the source on every run.

A stored entry (`DbEntry`) is an opaque `δ`; what is read out of it (`cid_iter` of its change state, uuid and
index keys) is a parameter where needed.  serde_json and gzip are not modelled: a file is `Option Doc`
(`none` = does not deserialise).  Maps (`BTreeMap`, SQLite tables) are association lists in insertion order.
Import-free (core Lean only).
-/
namespace Kanidm.Backup
open Kanidm.Index (aget insertId Tables)

/-! ### atoms -/

/-- a change identifier: timestamp and server uuid -/
structure Cid where
  ts : Nat
  sid : Nat
  deriving DecidableEq, Repr, Inhabited

/-- the `OperationError`s of backup / restore -/
inductive Err where
  | serdeJson
  | invalidDbState
  /-- `DB0001MismatchedRestoreVersion` -/
  | mismatchedVersion
  /-- `DB0002MismatchedRestoreVersion` -/
  | olderVersion
  | consistency
  deriving DecidableEq, Repr

/-- insert or replace in place; a new key goes to the end -/
def aput {κ ν : Type} [DecidableEq κ] : List (κ × ν) → κ → ν → List (κ × ν)
  | [], k, v => [(k, v)]
  | (k', v') :: r, k, v => if k' = k then (k, v) :: r else (k', v') :: aput r k v

/-- `BTreeMap::extend` / a sequence of `INSERT OR REPLACE` -/
def extend {κ ν : Type} [DecidableEq κ] (m n : List (κ × ν)) : List (κ × ν) :=
  n.foldl (fun m kv => aput m kv.1 kv.2) m

/-! ### state -/

/-- one backend: the durable tables and the caches of the running process -/
structure Db (δ : Type) where
  /-- `id2entry`, in the order `get_identry_raw(AllIds)` returns it -/
  rows : List (Nat × δ)
  /-- `db_sid` -/
  sUuid : Option Nat
  /-- `db_did` -/
  dUuid : Option Nat
  /-- `db_op_ts` -/
  tsMax : Option Nat
  /-- `keyhandles` -/
  keys : List (Nat × Nat)
  /-- the `ruv` table -/
  dbRuv : List Cid
  /-- index and name tables -/
  tbl : Tables
  /-- `db_index_version` -/
  idxVer : Int
  /-- in memory: `ReplicationUpdateVector.data` (cid ↦ ids) -/
  ruv : List (Cid × List Nat)
  /-- in memory: `ReplicationUpdateVector.ranged` (server ↦ timestamps) -/
  ranged : List (Nat × List Nat)
  /-- in memory: the cached `id2entry` maximum id new entries are numbered from -/
  maxid : Nat

/-- an empty database as `Backend::new` leaves it -/
def Db.fresh {δ : Type} : Db δ := ⟨[], none, none, none, [], [], Tables.empty, 0, [], [], 0⟩

/-! ### the document -/

/-- the value of one field of a backup document -/
inductive FV (δ : Type) where
  | nat (n : Nat)
  | keys (k : List (Nat × Nat))
  | cids (c : List Cid)
  | ents (e : List δ)

/-- a deserialisable JSON document: a bare array (`bare`, the tuple variant) or an object with fields -/
structure Doc (δ : Type) where
  bare : Bool
  fields : List (Field × FV δ)

def Doc.get {δ : Type} (d : Doc δ) (f : Field) : Option (FV δ) := aget d.fields f

/-- the Rust type of each field (`String`, `Uuid`, `Duration` are atoms) -/
def fieldOk {δ : Type} : Field → FV δ → Bool
  | .version, .nat _ => true
  | .sUuid, .nat _ => true
  | .dUuid, .nat _ => true
  | .tsMax, .nat _ => true
  | .keys, .keys _ => true
  | .replMeta, .cids _ => true
  | .entries, .ents _ => true
  | _, _ => false

/-- a variant fits when every one of its fields is present with the right type (unknown fields are ignored);
the tuple variant fits a bare array only -/
def fits {δ : Type} (d : Doc δ) (v : Nat × List Field) : Bool :=
  (tupleVariants.contains v.1 == d.bare) &&
    v.2.all (fun f => match d.get f with
      | some x => fieldOk f x
      | none => false)

/-- serde `untagged`: the first variant, in declaration order, that fits -/
def classify {δ : Type} (d : Doc δ) : Option Nat := (variants.find? (fits d)).map (·.1)

/-! ### `backup` -/

def srcVal {δ : Type} (cur : Nat) (s : Db δ) : Src → Option (FV δ)
  | .pkgSeries => some (.nat cur)
  | .dbSUuid => s.sUuid.map .nat
  | .dbDUuid => s.dUuid.map .nat
  | .dbTsMax => s.tsMax.map .nat
  | .keyHandles => some (.keys s.keys)
  | .ruvBackup => some (.cids (s.ruv.map (·.1)))
  | .rawEntries => some (.ents (s.rows.map (·.2)))

def backupFieldsOf {δ : Type} (cur : Nat) (s : Db δ) : List (Field × Src) → Except Err (List (Field × FV δ))
  | [] => .ok []
  | (f, src) :: r =>
    match srcVal cur s src with
    | none => .error .invalidDbState
    | some v =>
      match backupFieldsOf cur s r with
      | .ok l => .ok ((f, v) :: l)
      | .error e => .error e

/-- `BackendTransaction::backup` of a server of series `cur`: the document it serialises -/
def backup {δ : Type} (cur : Nat) (s : Db δ) : Except Err (Doc δ) :=
  match backupFieldsOf cur s backupFields with
  | .ok l => .ok ⟨tupleVariants.contains backupVariant, l⟩
  | .error e => .error e

/-! ### `restore` -/

/-- one of `ruvClear`, `purgeId2entry`, `purgeIdxs` -/
def deleteStep {δ : Type} (s : Db δ) : Step → Db δ
  | .ruvClear => { s with ruv := [], ranged := [] }
  | .purgeId2entry => { s with rows := [] }
  | .purgeIdxs => { s with tbl := Tables.empty }
  | _ => s

/-- `danger_delete_all_db_content` -/
def deleteAll {δ : Type} (s : Db δ) : Db δ := deleteAllSteps.foldl deleteStep s

def applySink {δ : Type} (s : Db δ) : Sink → FV δ → Option (Db δ)
  | .writeSUuid, .nat n => some { s with sUuid := some n }
  | .writeDUuid, .nat n => some { s with dUuid := some n }
  | .setTsMax, .nat n => some { s with tsMax := some n }
  | .setKeyHandles, .keys k => some { s with keys := k }
  | _, _ => none

/-- the `idlayer.write_…(field)?` lines of one arm, in order -/
def applyWrites {δ : Type} (d : Doc δ) : List (Field × Sink) → Db δ → Option (Db δ)
  | [], s => some s
  | (f, k) :: r, s =>
    match d.get f with
    | some v =>
      match applySink s k v with
      | some s' => applyWrites d r s'
      | none => none
    | none => none

/-- `ranged`: add `cid.ts` to the set of `cid.s_uuid` -/
def rangeAdd (r : List (Nat × List Nat)) (c : Cid) : List (Nat × List Nat) :=
  match aget r c.sid with
  | some ts => aput r c.sid (if ts.contains c.ts then ts else ts ++ [c.ts])
  | none => aput r c.sid [c.ts]

/-- one turn of the loop of `ReplicationUpdateVector::restore` -/
def ruvRestoreStep (acc : List (Cid × List Nat) × List (Nat × List Nat)) (c : Cid) :
    List (Cid × List Nat) × List (Nat × List Nat) :=
  (if (aget acc.1 c).isSome then acc.1 else acc.1 ++ [(c, if ruvRestoreEmptyIdl then [] else [0])], rangeAdd acc.2 c)

/-- `ReplicationUpdateVector::restore` (ruv.rs l.694) -/
def ruvRestore {δ : Type} (cids : List Cid) (s : Db δ) : Db δ :=
  let b := cids.foldl ruvRestoreStep ([], [])
  { s with ruv := extend s.ruv b.1, ranged := extend s.ranged b.2 }

/-- `id_max += 1; IdRawEntry { id: id_max, data }` -/
def number {δ : Type} (n : Nat) : List δ → List (Nat × δ)
  | [] => []
  | d :: r => (n, d) :: number (n + 1) r

/-- `get_id2entry_max_id` of the table -/
def maxId {δ : Type} (rows : List (Nat × δ)) : Nat := (rows.map (·.1)).foldl max 0

/-- the phases of `restore` after the version check: RUV, entries (`write_identries_raw`, which since the repair
of the stale id cache also re-reads the cached maximum id), verify -/
def restoreTail {δ : Type} (sqliteOk : Bool) (d : Doc δ) (arm : Arm) (s : Db δ) : Db δ × Except Err Unit :=
  let s3 := match arm.repl.bind d.get with
    | some (.cids c) => ruvRestore c s
    | _ => s
  let ents := match arm.entries.bind d.get with
    | some (.ents e) => e
    | _ => []
  let rows := extend s3.rows (number firstId ents)
  let s4 := { s3 with rows := rows, maxid := if rawWriteRefreshesMaxId then maxId rows else s3.maxid }
  (s4, if sqliteOk then .ok () else .error .consistency)

/-- `BackendWriteTransaction::restore` (l.1876) on a server of series `cur`: the state of the write
transaction when the function returns, and its result.  `sqliteOk` is the outcome of `PRAGMA integrity_check` -/
def restore {δ : Type} (cur : Nat) (sqliteOk : Bool) (doc : Option (Doc δ)) (pre : Db δ) : Db δ × Except Err Unit :=
  match doc.bind (fun d => (classify d).bind (fun v => (restoreArm v).map (fun a => (d, a)))) with
  | none => (pre, .error .serdeJson)
  | some (d, arm) =>
    let s1 := deleteAll pre
    match applyWrites d arm.writes s1 with
    | none => (s1, .error .serdeJson)
    | some s2 =>
      match arm.version.bind d.get with
      | some (.nat v) =>
        if versionRefuse v cur then (s2, .error .mismatchedVersion) else restoreTail sqliteOk d arm s2
      | _ => if noVersionRefused then (s2, .error .olderVersion) else restoreTail sqliteOk d arm s2

/-! ### commit and the caller -/

def addCid (l : List Cid) (c : Cid) : List Cid := if l.contains c then l else l ++ [c]

/-- one statement of `write_db_ruv(added, removed)` -/
def dbRuvStep (removed added : List Cid) (l : List Cid) : Step → List Cid
  | .dbRuvRemove => l.filter (fun c => !removed.contains c)
  | .dbRuvInsert => added.foldl addCid l
  | _ => l

/-- `commit` of the write transaction that ran `restore` (the RUV was cleared in it, so `removed()` is every
cid of the previous in-memory RUV and `added()` every cid now present) -/
def commitRestore {δ : Type} (pre work : Db δ) : Db δ :=
  { work with dbRuv := dbRuvSteps.foldl (dbRuvStep (pre.ruv.map (·.1)) (work.ruv.map (·.1))) pre.dbRuv }

/-- `restore_server_core`: restore, and commit only after `Ok`; otherwise the transaction is dropped -/
def restoreServer {δ : Type} (cur : Nat) (sqliteOk : Bool) (doc : Option (Doc δ)) (pre : Db δ) :
    Db δ × Except Err Unit :=
  let r := restore cur sqliteOk doc pre
  match r.2 with
  | .ok () => (commitRestore pre r.1, .ok ())
  | .error e => (if commitOnlyOnOk then pre else commitRestore pre r.1, .error e)

/-! ### reopening the database -/

/-- one entry's turn of `ReplicationUpdateVector::rebuild` -/
def rebuildRow (id : Nat) (data : List (Cid × List Nat)) (c : Cid) : List (Cid × List Nat) :=
  match aget data c with
  | some idl => aput data c (insertId id idl)
  | none => if ruvRebuildOnlyExisting then data else aput data c [id]

/-- `ReplicationUpdateVector::rebuild` (ruv.rs l.728) -/
def ruvRebuild {δ : Type} (cidsOf : δ → List Cid) (rows : List (Nat × δ)) (data : List (Cid × List Nat)) :
    List (Cid × List Nat) :=
  rows.foldl (fun data r => (cidsOf r.2).foldl (rebuildRow r.1) data) data

/-- `Backend::new` on an existing database: `setup` (cached maximum id) and `ruv_reload` -/
def reload {δ : Type} (cidsOf : δ → List Cid) (s : Db δ) : Db δ :=
  let s1 := ruvRestore s.dbRuv { s with ruv := [], ranged := [] }
  { s1 with ruv := ruvRebuild cidsOf s1.rows s1.ruv, maxid := maxId s.rows }

/-! ### the index layer's view (C03 / C01) -/

/-- the backend state C03 and C01 reason about: `sview` reads uuid and index keys out of a stored entry -/
def toBe {δ : Type} (sview : δ → Nat × Kanidm.Filter.Entry) (idxmeta : List (Nat × Kanidm.Filter.IType)) (s : Db δ) :
    Kanidm.Index.BeState :=
  ⟨s.rows.map (fun r => ⟨r.1, (sview r.2).1, (sview r.2).2⟩), s.maxid, idxmeta, s.tbl, s.idxVer⟩

/-- `reindex` (second half of `restore_server_core`) -/
def reindexDb {δ : Type} (sview : δ → Nat × Kanidm.Filter.Entry) (idxmeta : List (Nat × Kanidm.Filter.IType)) (s : Db δ) :
    Option (Db δ) :=
  (Kanidm.Index.reindex (toBe sview idxmeta s)).map (fun be => { s with tbl := be.tbl })

end Kanidm.Backup
