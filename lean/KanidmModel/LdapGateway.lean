/-
C40 — the LDAP gateway: wire dispatch, connection state machine, bind, session ↦ identity.
Transcribed from

* `ldap3_proto::simple::ServerOps::try_from`                     → `Gen.wireDispatch`   (generated)
* `QueryServerReadV1::handle_ldaprequest` (core/actors/v1_read.rs) → `handleRequest`
* `client_process` (core/ldaps.rs), the per-connection loop        → `Conn.step`, `runConn`
* `LdapServer::do_op`            (idm/ldap.rs l.609)               → `doOp`
* `LdapServer::do_bind`, `bind_target_from_bind_dn` (l.437, l.714) → `doBind`, `bindTarget`, `parseBindDn`
* `LdapServer::do_search` / `do_compare` up to the search itself   → `doSearch`, `doCompare`, `parseBaseDn`
* `IdmServerAuthTransaction::auth_ldap`, `auth_with_unix_pass`, `token_auth_ldap` (idm/server.rs)
* `IdmServerAuthTransaction::application_auth_ldap` (idm/application.rs l.142)
* `IdmServerTransaction::validate_ldap_session`, `process_ldap_uuid_to_identity`,
  `process_apit_to_identity`, `process_uat_to_identity` (idm/server.rs l.1001–1090)
* `operationerr_to_ldapresultcode` (idm/ldap.rs l.786)

Every table-like part (which wire operations exist and where they go, which handlers an operation
calls, which transaction each handler opens and of which kind, which response states set the
session, which session each bind path builds, which identity builder each session kind uses, the
scope constant and the entry of password-bind identities, the unix-bind flag guard, the order of
the application-bind checks) comes from `Generated/LdapGatewayOps.lean`.

Atoms: uuids, secrets (bind passwords / tokens) and times (whole seconds) are naturals; `0` is the
empty secret; DNs are `List Char`.  What the model cannot compute (hash verification, JWS
verification, the name index, the soft lock) is an explicit field of `World` / `Msg`.

The database is abstract (`DB` is a type parameter): the model records *which transactions* a
request opens and lets each handler attempt arbitrary modifications inside them (`Behaviour`);
what a transaction does with attempted modifications depends only on its kind (`commitTxn`).
Import-free apart from the generated tables (core Lean only).
-/
import KanidmModel.LdapGatewayTypes
import KanidmModel.Generated.LdapGatewayOps

namespace Kanidm.Ldap
open Kanidm.Ldap.Gen

/-! ### Errors and result codes -/

/-- The `OperationError`s the gateway paths produce. -/
inductive Err where
  | noMatchingEntries | notAuthenticated | sessionExpired | invalidUuid
  | invalidRequestState | resourceLimit | notAnAccount | invalidState
deriving DecidableEq, Repr, Inhabited

/-- `operationerr_to_ldapresultcode`: `InvalidRequestState ↦ ConstraintViolation`; the attribute
and schema errors (not produced by the modelled prefix) have their own codes; everything else
`Other` with the error's `Debug` text as message. -/
def Err.code : Err → Code
  | .invalidRequestState => .constraintViolation
  | _ => .other

/-! ### World: what the bind and identity code reads -/

/-- An entry as far as the gateway reads it. -/
structure Acct where
  uuid : Nat
  /-- `Account::try_from_entry_*` succeeds (class account, …) -/
  isAccount : Bool
  validFrom : Option Nat
  expire : Option Nat
  /-- cleartext accepted by the credential `auth_with_unix_pass` selects (unix password, or the
  primary password under `allow_primary_cred_fallback`); `none` = no such credential -/
  unixPw : Option Nat
  /-- `password.requires_upgrade()` of that credential -/
  unixNeedsUpgrade : Bool
  /-- `memberof` references -/
  memberOf : List Nat
  /-- application passwords: (application uuid, cleartext) -/
  appPws : List (Nat × Nat)
deriving Repr, Inhabited

/-- `LdapApplications` cache entry. -/
structure App where
  name : List Char
  uuid : Nat
  linkedGroup : Nat
deriving Repr, Inhabited

/-- `UatPurpose` with the privilege expiry already compared with `ct` by the caller's world. -/
inductive UatPurpose where
  | readOnly
  | readWrite (expiry : Option Nat)
deriving DecidableEq, Repr, Inhabited

/-- What `validate_and_parse_token_to_identity_token` finds behind a bind secret (after JWS
verification with the domain key). -/
inductive TokenInfo where
  | uat (account sessionId : Nat) (expiry : Option Nat) (purpose : UatPurpose)
  | apit (account tokenId issuedAt : Nat) (expiry : Option Nat) (purpose : ApiPurpose)
deriving DecidableEq, Repr, Inhabited

structure World where
  /-- current time, seconds -/
  ct : Nat
  basedn : List Char
  anonymous : Nat
  /-- `name_to_uuid` on lower-cased input (names, spns, uuid strings — a uuid-shaped string
  resolves to itself whether or not an entry exists) -/
  names : List (List Char × Nat)
  /-- live entries (`internal_search_uuid` succeeds) -/
  accts : List Acct
  apps : List App
  /-- `d_info.d_ldap_allow_unix_pw_bind` -/
  allowUnixPwBind : Bool
  /-- secrets that verify as a JWS of the domain key, with their content -/
  tokens : List (Nat × TokenInfo)
  /-- api token sessions present on their account (`ApiTokenSession` map keys) -/
  apiSessions : List Nat
  /-- UAT sessions `check_user_auth_token_valid` accepts at `ct` (C32's subject) -/
  uatValid : List Nat
  /-- `AUTH_TOKEN_GRACE_WINDOW` seconds -/
  grace : Nat := 300
  maxAttrs : Nat := 16
deriving Inhabited

def World.acct (w : World) (u : Nat) : Option Acct := w.accts.find? (·.uuid == u)

def lookup {α : Type} [BEq α] (k : α) : List (α × β) → Option β
  | [] => none
  | (a, b) :: rest => if a == k then some b else lookup k rest

/-- `Account::check_within_valid_time` (`vft <= ct`, `ct <= ext`; C27/C32 regenerate the operators). -/
def Acct.withinValidTime (a : Acct) (ct : Nat) : Bool :=
  (match a.validFrom with | some v => decide (v ≤ ct) | none => true) &&
  (match a.expire with | some e => decide (ct ≤ e) | none => true)

/-! ### Sessions, tokens, identities -/

/-- `LdapSession`. -/
inductive Session where
  | unixBind (uuid : Nat)
  | userAuthToken (account sessionId : Nat) (expiry : Option Nat) (purpose : UatPurpose)
  | apiToken (account tokenId issuedAt : Nat) (expiry : Option Nat) (purpose : ApiPurpose)
  | applicationPasswordBind (app uuid : Nat)
deriving DecidableEq, Repr, Inhabited

def Session.kind : Session → SessionKind
  | .unixBind _ => .unixBind
  | .userAuthToken .. => .userAuthToken
  | .apiToken .. => .apiToken
  | .applicationPasswordBind .. => .applicationPasswordBind

/-- `LdapBoundToken`: whose `spn` it shows (whoami) and the effective session. -/
structure Token where
  owner : Nat
  session : Session
deriving DecidableEq, Repr, Inhabited

/-- `Identity`, the fields access decisions read: the entry it impersonates and the scope. -/
structure Ident where
  entry : Nat
  scope : Scope
deriving DecidableEq, Repr, Inhabited

/-- Build a session of the kind the generated table names for a bind path. -/
def mkSession (p : BindPath) (w : World) (account : Nat) (tok : Option TokenInfo) : Session :=
  let subject := if bindSessionIsAnonymousConst p then w.anonymous else account
  match bindSession p, tok with
  | .unixBind, _ => .unixBind subject
  | .applicationPasswordBind, _ => .applicationPasswordBind 0 subject
  | .userAuthToken, some (.uat a s e pu) => .userAuthToken a s e pu
  | .apiToken, some (.apit a t i e pu) => .apiToken a t i e pu
  -- a table that pairs a password path with a token session has nothing to carry: the session
  -- then names the subject with no expiry and the *widest* purpose (so that the theorems fail)
  | .userAuthToken, _ => .userAuthToken subject 0 none (.readWrite none)
  | .apiToken, _ => .apiToken subject 0 0 none .readWrite

/-! ### Bind DN (`binddnre`, `bind_target_from_bind_dn`) -/

def splitOn (c : Char) : List Char → List (List Char)
  | [] => [[]]
  | x :: xs =>
    match splitOn c xs with
    | [] => [[x]]
    | h :: t => if x == c then [] :: h :: t else (x :: h) :: t

def noEq (s : List Char) : Bool := !s.contains '='

/-- `[^=,]+` for a comma-free segment. -/
def plain (s : List Char) : Bool := !s.isEmpty && noEq s

/-- First segment `(([^=,]+)=)?(?P<val>[^=,]+)`: `val` or `attr=val`. -/
def rdnVal (seg : List Char) : Option (List Char) :=
  match splitOn '=' seg with
  | [v] => if plain v then some v else none
  | [a, v] => if plain a && plain v then some v else none
  | _ => none

/-- Segment `app=(?P<app>[^=,]+)`. -/
def appSeg (seg : List Char) : Option (List Char) :=
  match splitOn '=' seg with
  | [a, v] => if a == "app".toList && plain v then some v else none
  | _ => none

/-- Drop the comma-separated components of `basedn` from the end of `segs` (`none` if they are
not there). -/
def stripSuffix (segs base : List (List Char)) : Option (List (List Char)) :=
  if base.length ≤ segs.length ∧ segs.drop (segs.length - base.length) == base
  then some (segs.take (segs.length - base.length)) else none

/-- `^((([^=,]+)=)?(?P<val>[^=,]+))(,app=(?P<app>[^=,]+))?(,{basedn})?$` ↦ (val, app). -/
def parseBindDn (basedn dn : List Char) : Option (List Char × Option (List Char)) :=
  let segs := splitOn ',' dn
  let try_ (ss : List (List Char)) : Option (List Char × Option (List Char)) :=
    match ss with
    | [s] => (rdnVal s).map (fun v => (v, none))
    | [s, a] =>
      match rdnVal s, appSeg a with
      | some v, some ap => some (v, some ap)
      | _, _ => none
    | _ => none
  match try_ segs with
  | some r => some r
  | none =>
    match stripSuffix segs (splitOn ',' basedn) with
    | some ss => try_ ss
    | none => none

/-- `LdapBindTarget`. -/
inductive BindTarget where
  | account (u : Nat)
  | apiToken
  | application (app : List Char) (u : Nat)
deriving DecidableEq, Repr, Inhabited

def lower (s : List Char) : List Char := s.map Char.toLower

/-- `bind_target_from_bind_dn`. `pw = 0` is the empty password. -/
def bindTarget (w : World) (dn : List Char) (pw : Nat) : Except Err BindTarget :=
  if dn.isEmpty then
    if pw == 0 then .ok (.account w.anonymous) else .ok .apiToken
  else if dn == "dn=token".toList then .ok .apiToken
  else
    match parseBindDn w.basedn dn with
    | none => .error .noMatchingEntries
    | some (val, app) =>
      match lookup (lower val) w.names with
      | none => .error .noMatchingEntries
      | some u =>
        match app with
        | some a => .ok (.application a u)
        | none => .ok (.account u)

/-! ### The three authentication functions -/

/-- Result of a bind: `Ok(Some(token))`, `Ok(None)`, `Err(e)`; plus the delayed actions queued. -/
structure BindResult where
  res : Except Err (Option Token)
  delayed : List (DelayedKind × Nat × Nat) := []
deriving Inhabited

/-- `auth_with_unix_pass` (`softlocked` = `!slock.is_valid()` after `apply_time_step`). -/
def authWithUnixPass (w : World) (id pw : Nat) (softlocked : Bool) : Except Err (Option Acct) × Bool :=
  match w.acct id with
  | none => (.error .noMatchingEntries, false)
  | some a =>
    if !a.isAccount then (.error .notAnAccount, false)
    else if !a.withinValidTime w.ct then (.ok none, false)
    else
      match a.unixPw with
      | none => (.ok none, false)
      | some good =>
        if softlocked then (.ok none, false)
        else if pw != good then (.ok none, false)
        else (.ok (some a), a.unixNeedsUpgrade)

/-- `auth_ldap`. -/
def authLdap (w : World) (target pw : Nat) (softlocked : Bool) : BindResult :=
  if anonymousTestIsUuidEq && target == w.anonymous then
    match w.acct target with
    | none => { res := .error .noMatchingEntries }
    | some a =>
      if !a.isAccount then { res := .error .notAnAccount }
      else if !a.withinValidTime w.ct then { res := .ok none }
      else { res := .ok (some ⟨a.uuid, mkSession .anonymous w a.uuid none⟩) }
  else if unixFlagGuard && !w.allowUnixPwBind then { res := .ok none }
  else
    match authWithUnixPass w target pw softlocked with
    | (.error e, _) => { res := .error e }
    | (.ok none, _) => { res := .ok none }
    | (.ok (some a), up) =>
      { res := .ok (some ⟨a.uuid, mkSession .unix w a.uuid none⟩),
        delayed := if up then [(.unixPwUpgrade, a.uuid, pw)] else [] }

/-- One check of `application_auth_ldap`; `none` = passed. -/
def appCheck (w : World) (a : Acct) (appName : List Char) (pw : Nat) :
    AppCheck → Option (Except Err (Option Token))
  | .notAnonymous => if a.uuid == w.anonymous then some (.error .invalidUuid) else none
  | .validTime => if !a.withinValidTime w.ct then some (.error .sessionExpired) else none
  | .appExists => if (w.apps.find? (·.name == appName)).isNone then some (.error .noMatchingEntries) else none
  | .memberOfLinkedGroup =>
    match w.apps.find? (·.name == appName) with
    | none => none
    | some app =>
      if appMemberOfReadsLinkedGroup && !a.memberOf.contains app.linkedGroup then some (.ok none) else none
  | .verifyPassword =>
    match w.apps.find? (·.name == appName) with
    | none => some (.error .noMatchingEntries)
    | some app =>
      if a.appPws.any (fun p => p.1 == app.uuid && p.2 == pw)
      then some (.ok (some ⟨a.uuid, mkSession .application w a.uuid none⟩))
      else some (.ok none)

def runAppChecks (w : World) (a : Acct) (appName : List Char) (pw : Nat) :
    List AppCheck → Except Err (Option Token)
  | [] => .ok none
  | c :: rest =>
    match appCheck w a appName pw c with
    | some r => r
    | none => runAppChecks w a appName pw rest

/-- `application_auth_ldap`: the checks in the order the source makes them. -/
def applicationAuthLdap (w : World) (appName : List Char) (usr pw : Nat) : BindResult :=
  match w.acct usr with
  | none => { res := .error .noMatchingEntries }
  | some a =>
    if !a.isAccount then { res := .error .notAnAccount }
    else { res := runAppChecks w a appName pw appBindChecks }

/-! ### Session ↦ identity (`validate_ldap_session`) -/

/-- `process_ldap_uuid_to_identity`: the bound account must still exist and be valid; the
identity is the anonymous entry's (when the generated flag says so) with the generated scope. -/
def processLdapUuid (w : World) (u : Nat) : Except Err Ident :=
  match w.acct u with
  | none => .error .noMatchingEntries
  | some a =>
    if !a.isAccount then .error .notAnAccount
    else if ldapUuidChecksValidity && !a.withinValidTime w.ct then .error .sessionExpired
    else if ldapUuidEntryAnonymous then
      (if u == w.anonymous then .ok ⟨u, ldapUuidScope⟩
       else match w.acct w.anonymous with
         | none => .error .noMatchingEntries
         | some _ => .ok ⟨w.anonymous, ldapUuidScope⟩)
    else .ok ⟨u, ldapUuidScope⟩

/-- `process_uat_to_identity`: entry present (else `SessionExpired`), `check_user_auth_token_valid`
(world fact), scope from the purpose: read-write only inside the privilege window `ct < expiry`. -/
def processUat (w : World) (a s : Nat) (pu : UatPurpose) : Except Err Ident :=
  match w.acct a with
  | none => .error .sessionExpired
  | some acc =>
    if !(acc.withinValidTime w.ct && w.uatValid.contains s) then .error .sessionExpired
    else
      let scope := match pu with
        | .readOnly => Scope.readOnly
        | .readWrite none => .readOnly
        | .readWrite (some e) => if w.ct < e then .readWrite else .readOnly
      .ok ⟨a, scope⟩

/-- `process_apit_to_identity` after the entry lookup of `validate_ldap_session`:
`check_api_token_valid` (window; session present or inside the grace window), scope from purpose. -/
def processApit (w : World) (a t issuedAt : Nat) (pu : ApiPurpose) : Except Err Ident :=
  match w.acct a with
  | none => .error .noMatchingEntries
  | some acc =>
    if !acc.withinValidTime w.ct then .error .sessionExpired
    else if !(w.apiSessions.contains t || decide (w.ct < issuedAt + w.grace)) then .error .sessionExpired
    else .ok ⟨if apitEntryIsAccounts then a else w.anonymous,
              if apitScopeFromPurpose then apitScope pu else .readWrite⟩

/-- UAT expiry test of `validate_and_parse_token_to_identity_token`: `exp <= ct`. -/
def uatExpired (w : World) : Option Nat → Bool
  | some x => decide (x ≤ w.ct)
  | none => false

/-- api token expiry test: `ct >= expiry`. -/
def apitExpired (w : World) : Option Nat → Bool
  | some x => decide (w.ct ≥ x)
  | none => false

/-- `self.process_*_to_identity(..)?;` ahead of the token: an error refuses the bind. -/
def tokenGate (r : Except Err Ident) (t : Token) : BindResult :=
  match r with
  | .error err => { res := .error err }
  | .ok _ => { res := .ok (some t) }

/-- `token_auth_ldap` on top of `validate_and_parse_token_to_identity_token` (signature, expiry,
the account of an api token must exist), then — when the generated flags say the source does so
— the identity builder of the token kind (account window, stored session). -/
def tokenAuthLdap (w : World) (pw : Nat) : BindResult :=
  match lookup pw w.tokens with
  | none => { res := .error .notAuthenticated }
  | some (.uat a s e pu) =>
    if uatExpired w e then { res := .error .sessionExpired }
    else tokenGate (if tokenBindValidatesUat then processUat w a s pu else .ok ⟨a, .readOnly⟩)
           ⟨a, mkSession .tokenUat w a (some (.uat a s e pu))⟩
  | some (.apit a t i e pu) =>
    if apitExpired w e then { res := .error .sessionExpired }
    else
      match w.acct a with
      | none => { res := .error .notAuthenticated }
      | some _ => tokenGate (if tokenBindValidatesApit then processApit w a t i pu else .ok ⟨a, .readOnly⟩)
                    ⟨a, mkSession .tokenApi w a (some (.apit a t i e pu))⟩

/-- `do_bind`. -/
def doBind (w : World) (dn : List Char) (pw : Nat) (softlocked : Bool) : BindResult :=
  match bindTarget w dn pw with
  | .error e => { res := .error e }
  | .ok (.account u) => authLdap w u pw softlocked
  | .ok .apiToken => tokenAuthLdap w pw
  | .ok (.application a u) => applicationAuthLdap w a u pw

/-- The account a session names. -/
def Session.subject : Session → Nat
  | .unixBind u => u
  | .userAuthToken a .. => a
  | .apiToken a .. => a
  | .applicationPasswordBind _ u => u

/-- `validate_ldap_session`: dispatch by the generated table. -/
def validateLdapSession (w : World) (s : Session) : Except Err Ident :=
  match sessionIdent s.kind, s with
  | .ldapUuid, s => processLdapUuid w s.subject
  | .uat, .userAuthToken a sid _ pu => processUat w a sid pu
  | .apit, .apiToken a t i _ pu => processApit w a t i pu
  -- a table that sends a password session to a token builder (or vice versa): the builder has no
  -- token to read; the model gives the subject's own entry read-write so that the theorems fail
  | _, s => .ok ⟨s.subject, .readWrite⟩

/-- The native API's `validate_client_auth_info_to_ident` for the same secret presented as a
bearer token: `validate_and_parse_token_to_identity_token` (signature, token expiry, the account of
an api token) and then the same two identity builders. -/
def nativeTokenIdent (w : World) (pw : Nat) : Except Err Ident :=
  match lookup pw w.tokens with
  | none => .error .notAuthenticated
  | some (.uat a s e pu) => if uatExpired w e then .error .sessionExpired else processUat w a s pu
  | some (.apit a t i e pu) =>
    if apitExpired w e then .error .sessionExpired
    else
      match w.acct a with
      | none => .error .notAuthenticated
      | some _ => processApit w a t i pu

/-! ### Search / compare up to the point where the query runs -/

inductive SScope where
  | base | oneLevel | subtree | children
deriving DecidableEq, Repr, Inhabited

/-- Segment `attr=val` of a search base. -/
def avaSeg (seg : List Char) : Option (List Char × List Char) :=
  match splitOn '=' seg with
  | [a, v] => if plain a && plain v then some (a, v) else none
  | _ => none

/-- `dnre`: `^((?P<attr>[^=,]+)=(?P<val>[^=,]+),)?(app=(?P<app>[^=,]+),)?({basedn})$`
↦ `none` (no match) / `some rdn`. -/
def parseBaseDn (basedn dn : List Char) : Option (Option (List Char × List Char)) :=
  match stripSuffix (splitOn ',' dn) (splitOn ',' basedn) with
  | none => none
  | some [] => some none
  | some [s] =>
    -- one leading component: with `swap_greed` both optional groups are tried *skipped* first, so
    -- `app=x,` is taken by the second group (no rdn); anything else must be the first group
    match appSeg s with
    | some _ => some none
    | none =>
      match avaSeg s with
      | some (a, v) => some (some (a, v))
      | none => none
  | some [s, a] =>
    match avaSeg s, appSeg a with
    | some av, some _ => some (some av)
    | _, _ => none
  | some _ => none

/-- What a search request turns into before the backend is asked. -/
inductive Plan where
  | rootDse
  | emptyOk
  /-- query with the extra filter class: 0 none, 1 not-domain-info, 2 rdn equality, 3 domain-info -/
  | query (ext : Nat)
deriving DecidableEq, Repr, Inhabited

/-- `do_search` l.180–285: root DSE, base DN, scope × rdn, attribute-count limit. -/
def planSearch (w : World) (base : List Char) (scope : SScope) (nattrs : Nat) : Except Err Plan :=
  if base.isEmpty && scope == .base then .ok .rootDse
  else
    match parseBaseDn w.basedn base with
    | none => .error .invalidRequestState
    | some rdn =>
      let ext : Option Nat :=
        match scope, rdn with
        | .children, some _ | .oneLevel, some _ => none
        | .children, none | .oneLevel, none => some 1
        | .base, some _ | .subtree, some _ => some 2
        | .base, none => some 3
        | .subtree, none => some 0
      match ext with
      | none => .ok .emptyOk
      | some e =>
        if nattrs == 0 || nattrs < w.maxAttrs then .ok (.query e) else .error .resourceLimit

/-- Outcome of one request as the wire layer sees it. -/
inductive Outcome where
  | unbind
  | disconnect (code : Code)
  | bound (tok : Token)
  | respond (code : Code) (err : Option Err)
  | rootDse (implicit : Option Token)
  | emptyOk (implicit : Option Token)
  /-- the search / compare reached the backend as identity `id` -/
  | query (id : Ident) (ext : Nat) (implicit : Option Token)
  | compare (id : Ident) (implicit : Option Token)
  | whoami (owner : Nat)
deriving DecidableEq, Repr, Inhabited

/-- `LdapResponseState` constructor of an outcome. -/
def Outcome.kind : Outcome → RespKind
  | .unbind => .unbind
  | .disconnect _ => .disconnect
  | .bound _ => .bind
  | .respond .. => .respond
  | .rootDse none | .emptyOk none | .query _ _ none | .compare _ none => .multiPart
  | .rootDse (some _) | .emptyOk (some _) | .query _ _ (some _) | .compare _ (some _) => .bindMultiPart
  | .whoami _ => .respond

/-- The token an outcome hands to the wire layer. -/
def Outcome.token : Outcome → Option Token
  | .bound t => some t
  | .rootDse i | .emptyOk i | .query _ _ i | .compare _ i => i
  | _ => none

def errRespond (e : Err) : Outcome := .respond e.code (some e)

/-- `do_search` with token `t` (`implicit` = the token came from the implicit bind). -/
def doSearch (w : World) (t : Token) (implicit : Option Token) (base : List Char) (scope : SScope)
    (nattrs : Nat) (late : Option Code) : Outcome :=
  match planSearch w base scope nattrs with
  | .error e => errRespond e
  | .ok .rootDse => .rootDse implicit
  | .ok .emptyOk => .emptyOk implicit
  | .ok (.query ext) =>
    match validateLdapSession w t.session with
    | .error e => errRespond e
    | .ok id =>
      -- the search itself may still fail (filter conversion, schema, resource limits: C23 / C41)
      match late with
      | some c => .respond c none
      | none => .query id ext implicit

/-- `do_compare`: the entry DN must carry an rdn. -/
def doCompare (w : World) (t : Token) (implicit : Option Token) (entry : List Char)
    (late : Option Code) : Outcome :=
  match parseBaseDn w.basedn entry with
  | none | some none => errRespond .invalidRequestState
  | some (some _) =>
    match validateLdapSession w t.session with
    | .error e => errRespond e
    | .ok id =>
      match late with
      | some c => .respond c none
      | none => .compare id implicit

/-! ### Requests -/

inductive Msg where
  | bind (dn : List Char) (pw : Nat) (softlocked : Bool)
  /-- `late` = the error code of a failure of the search itself, after the identity was built
  (unknown attribute, schema violation, resource limit): an external input here -/
  | search (base : List Char) (scope : SScope) (nattrs : Nat) (late : Option Code)
  | compare (entry : List Char) (late : Option Code)
  /-- any other wire operation (payload irrelevant) -/
  | other (op : WireOp)
deriving DecidableEq, Repr, Inhabited

def Msg.wireOp : Msg → WireOp
  | .bind .. => .bindSimple
  | .search .. => .searchRequest
  | .compare .. => .compareRequest
  | .other op => op

/-- The handler part of `do_op` for an already classified operation.  `calls` is the generated
list of handlers for this operation on this connection; an implicit bind (a `doBind` before the
read handler) is `do_bind(idms, "", "")`. -/
def doOp (w : World) (st : Option Token) (m : Msg) (op : ServerOp) : Outcome × List (DelayedKind × Nat × Nat) :=
  let calls := doOpCalls op st.isSome
  match op, m with
  | .simpleBind, .bind dn pw sl =>
    if calls == [.doBind] then
      let r := doBind w dn pw sl
      match r.res with
      | .ok (some t) => (.bound t, r.delayed)
      | .ok none => (.respond .invalidCredentials none, r.delayed)
      | .error e => (errRespond e, r.delayed)
    else (.disconnect .other, [])
  | .unbind, _ => (.unbind, [])
  | .whoami, _ =>
    match st with
    | some t => (.whoami t.owner, [])
    | none => (.respond .operationsError none, [])
  | .search, .search base scope n late =>
    match st with
    | some t =>
      if calls == [.doSearch] then
        (doSearch w (if boundUsesSessionToken then t else ⟨t.owner, .unixBind t.owner⟩) none base scope n late, [])
      else (.disconnect .other, [])
    | none =>
      if calls == [.doBind, .doSearch] then
        let r := if implicitBindAnonymous then doBind w [] 0 false else doBind w [] 1 false
        match r.res with
        | .ok (some lbt) => (doSearch w lbt (some lbt) base scope n late, r.delayed)
        | .ok none => (.respond .invalidCredentials none, r.delayed)
        | .error e => (errRespond e, r.delayed)
      else (.disconnect .other, [])
  | .compare, .compare entry late =>
    match st with
    | some t =>
      if calls == [.doCompare] then
        (doCompare w (if boundUsesSessionToken then t else ⟨t.owner, .unixBind t.owner⟩) none entry late, [])
      else (.disconnect .other, [])
    | none =>
      if calls == [.doBind, .doCompare] then
        let r := if implicitBindAnonymous then doBind w [] 0 false else doBind w [] 1 false
        match r.res with
        | .ok (some lbt) => (doCompare w lbt (some lbt) entry late, r.delayed)
        | .ok none => (.respond .invalidCredentials none, r.delayed)
        | .error e => (errRespond e, r.delayed)
      else (.disconnect .other, [])
  -- operation and payload disagree: cannot happen (`ServerOps::try_from` builds both from one
  -- message); kept total
  | _, _ => (.disconnect .other, [])

/-- `handle_ldaprequest`: classify, dispatch or refuse. -/
def handleRequest (w : World) (st : Option Token) (m : Msg) : Outcome × List (DelayedKind × Nat × Nat) :=
  match wireDispatch m.wireOp with
  | some op => if wireDispatchesToDoOp then doOp w st m op else (.disconnect wireRefusalCode, [])
  | none =>
    match wireRefusal with
    | .disconnect => (.disconnect wireRefusalCode, [])
    | _ => (.respond wireRefusalCode none, [])

/-! ### Connection loop (`client_process`) -/

structure Conn where
  session : Option Token
  closed : Bool
deriving DecidableEq, Repr, Inhabited

def Conn.start : Conn := ⟨if connectionStartsUnbound then none else some ⟨0, .unixBind 0⟩, false⟩

/-- One iteration: the response state decides whether the session is replaced and whether the
loop ends (generated `respEffect`). -/
def Conn.step (c : Conn) (w : World) (m : Msg) : Conn × Outcome × List (DelayedKind × Nat × Nat) :=
  let (o, d) := handleRequest w c.session m
  let (sets, closes) := respEffect o.kind
  let sess := if sets then (match o.token with | some t => some t | none => c.session) else c.session
  (⟨sess, closes⟩, o, d)

/-- A whole connection: each request meets its own world (anything may change between two
requests); requests after the close are not read. -/
def runConn (c : Conn) : List (World × Msg) → Conn × List Outcome
  | [] => (c, [])
  | (w, m) :: rest =>
    if c.closed then (c, [])
    else
      let (c', o, _) := c.step w m
      let (cf, os) := runConn c' rest
      (cf, o :: os)

/-! ### Transactions and the database -/

/-- What committing a transaction of a given kind does with the modifications attempted inside
it: a read transaction has no way to apply them. -/
def commitTxn {DB Mod : Type} (apply : DB → Mod → DB) (db : DB) (k : QsKind) (mods : List Mod) : DB :=
  match k with
  | .read => db
  | .write => mods.foldl apply db

/-- What the code inside a handler attempts: arbitrary. -/
abbrev Behaviour (DB Mod : Type) := Handler → TxnCtor → DB → World → Msg → List Mod

/-- One handler run: every transaction it opens (generated), committed in order. -/
def runHandler {DB Mod : Type} (apply : DB → Mod → DB) (beh : Behaviour DB Mod) (w : World) (m : Msg)
    (db : DB) (h : Handler) : DB :=
  (handlerTxns h).foldl (fun db t => commitTxn apply db (txnQs t) (beh h t db w m)) db

/-- The database after one request: handlers of the dispatched operation, none for a refused one. -/
def dbAfter {DB Mod : Type} (apply : DB → Mod → DB) (beh : Behaviour DB Mod) (w : World)
    (st : Option Token) (m : Msg) (db : DB) : DB :=
  match wireDispatch m.wireOp with
  | none => db
  | some op => (doOpCalls op st.isSome).foldl (runHandler apply beh w m) db

/-- The database along a whole connection. -/
def dbAlong {DB Mod : Type} (apply : DB → Mod → DB) (beh : Behaviour DB Mod) (c : Conn) (db : DB) :
    List (World × Msg) → DB
  | [] => db
  | (w, m) :: rest =>
    if c.closed then db
    else dbAlong apply beh (c.step w m).1 (dbAfter apply beh w c.session m db) rest

end Kanidm.Ldap
