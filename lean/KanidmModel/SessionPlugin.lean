/-
C36 — removing a credential revokes its sessions.  Transcribed from

* `SessionConsistency::modify_inner`                   (plugins/session.rs:47) — run by `pre_modify`
  and `pre_batch_modify` on every candidate entry of every modify, at the transaction's time
* `ValueSetSession::{insert_checked, remove, purge}`,
  `ValueSetOauth2Session::{insert_checked, remove}`      (valueset/session.rs)
* `IdmServerTransaction::check_oauth2_account_uuid_valid` (idm/server.rs:643) — the test every
  OAuth2 token use goes through (refresh, introspect, userinfo)
* `Entry::invalidate` (entry.rs:2310) — every local modify first trims every value set at
  `trim_cid = cid − CHANGELOG_MAX_AGE` (`ValueSet{Session,Oauth2Session}::trim` = C11's model)
* replication: `ValueSet{Session,Oauth2Session}::repl_merge_valueset` = C11's model
  (`SessionMerge.lean`, imported); the plugin does **not** run on incoming replicated entries
  (`Plugins::run_pre_repl_incremental` has the call commented out).

One account entry is the whole state (the plugin works entry by entry).  Session maps are C11's
`SMap = List (Nat × Sess)` (a `BTreeMap`, keys distinct); `Sess.state` is the generated
`SessionState`, `Sess.issued` is `issued_at`, and `Sess.payload` carries the one other field the
plugin reads: for a login session its `cred_id`, for an OAuth2 session its `parent`
(`0` = `None`, `p + 1` = `Some p`).  Times are nanoseconds since the epoch (`Nat`), `cid`s are
naturals (order preserving).

Every comparison, the `cred_ids` chain, the order of the sweeps, every arm's result and the
leaves of `check_oauth2_account_uuid_valid` come from `Generated/SessionPluginOps.lean`.

The plugin computes a set of ids per sweep and then calls `remove_avas`; since the ids are the
keys of the map being swept and keys are distinct, this is a per-element `map` (`sweep`).
-/
import KanidmModel.SessionMerge
import KanidmModel.SessionPluginTypes
import KanidmModel.Generated.SessionPluginOps

namespace Kanidm.SessionPlugin
open Kanidm.Gen.SessionOrd Kanidm.SessionMerge Kanidm.Gen.SessionPlugin

def nsPerSec : Nat := 1000000000

/-- `AUTH_TOKEN_GRACE_WINDOW` in nanoseconds. -/
def graceWindow : Nat := graceWindowSecs * nsPerSec

/-- The attributes of an account entry the plugin and the OAuth2 validity test read. -/
structure Entry where
  /-- `PrimaryCredential` (its `uuid`) -/
  primary : Option Nat
  /-- keys of `PassKeys` -/
  passkeys : List Nat
  /-- keys of `AttestedPasskeys` -/
  attested : List Nat
  /-- `OAuth2AccountCredentialUuid` -/
  oauth2Cred : Option Nat
  /-- `UserAuthTokenSession`; `none` = attribute absent -/
  uats : Option SMap
  /-- `OAuth2Session` (absent = empty: every reader treats them alike) -/
  o2s : SMap
  /-- keys of `ApiTokenSession` -/
  apis : List Nat
  /-- result of `Account::check_within_valid_time` is a function of these two (C49 owns it) -/
  validFrom : Option Nat
  expire : Option Nat
deriving DecidableEq, Repr

def Entry.fresh (primary : Option Nat) : Entry :=
  ⟨primary, [], [], none, none, [], [], none, none⟩

/-! ### Field views of `Sess` -/

def credOf (s : Sess) : Nat := s.payload

def parentOf (s : Sess) : Option Nat := if s.payload = 0 then none else some (s.payload - 1)

def encParent : Option Nat → Nat
  | none => 0
  | some p => p + 1

def isRevoked : SState → Bool
  | .revokedAt _ => true
  | _ => false

/-! ### The plugin -/

def credsFrom (e : Entry) : CredSrc → List Nat
  | .primary => e.primary.toList
  | .passkeys => e.passkeys
  | .attestedPasskeys => e.attested
  | .oauth2AccountCredential => e.oauth2Cred.toList

/-- `let cred_ids: BTreeSet<Uuid> = … .chain(…) … .collect()` -/
def credIds (e : Entry) : List Nat := credSources.flatMap (credsFrom e)

/-- `ValueSet{Session,Oauth2Session}::remove(Refer(k), cid)` on the value found under `k`:
not yet revoked ⇒ `RevokedAt(cid)`, else untouched. -/
def revoke (cid : Nat) (s : Sess) : Sess :=
  match s.state with
  | .revokedAt _ => s
  | _ => { s with state := .revokedAt cid }

/-- `let ids = map.iter().filter_map(sel).collect(); entry.remove_avas(attr, &ids)` -/
def sweep (cid : Nat) (sel : Sess → Bool) (m : SMap) : SMap :=
  m.map (fun e => if sel e.2 then (e.1, revoke cid e.2) else e)

/-- Sweep 1: `match &session.state { RevokedAt(_) => None, ExpiresAt(_) | NeverExpires =>
if !cred_ids.contains(&session.cred_id) { Some(..) } else { None } }`. -/
def selCredGone (creds : List Nat) (s : Sess) : Bool :=
  match s.state with
  | .revokedAt _ => credPassRevokedArm
  | .expiresAt _ => credPassLiveArm (creds.contains (credOf s))
  | .neverExpires => credPassLiveArm (creds.contains (credOf s))

/-- Sweep 2: `match &session.state { ExpiresAt(exp) if exp <= &curtime_odt => Some(..), _ => None }`. -/
def selUatExpired (ct : Nat) (s : Sess) : Bool :=
  match s.state with
  | .expiresAt exp => if uatExpiredGuard exp ct then uatExpiredArm else uatOtherArm
  | _ => uatOtherArm

/-- The parent test of sweep 3 (`sessions.map(|session_map| …).unwrap_or(false)`). -/
def parentValid (uats : Option SMap) (s : Sess) : Bool :=
  match uats with
  | none => parentNoSessionMap
  | some m =>
    match parentOf s with
    | some p =>
      match lookup m p with
      | some ps => parentFound (isRevoked ps.state)
      | none => parentNotFound
    | none => parentNoId

/-- The `_ =>` arm of sweep 3. -/
def selOrphan (uats : Option SMap) (ct : Nat) (s : Sess) : Bool :=
  if parentValid uats s then parentValidArm else orphanArm s.issued graceWindow ct

/-- Sweep 3: `ExpiresAt(exp) if exp <= &curtime_odt => Some`, `RevokedAt(_) => None`, `_ => …`. -/
def selO2 (uats : Option SMap) (ct : Nat) (s : Sess) : Bool :=
  match s.state with
  | .expiresAt exp => if o2ExpiredGuard exp ct then o2ExpiredArm else selOrphan uats ct s
  | .revokedAt _ => o2RevokedArm
  | .neverExpires => selOrphan uats ct s

/-- One sweep.  `creds` is computed once, before the first sweep (`let cred_ids`); the OAuth2
sweep reads the login sessions as the earlier sweeps left them. -/
def applyPass (creds : List Nat) (ct cid : Nat) (e : Entry) : Pass → Entry
  | .credGone => { e with uats := e.uats.map (sweep cid (selCredGone creds)) }
  | .uatExpired => { e with uats := e.uats.map (sweep cid (selUatExpired ct)) }
  | .oauth2 => { e with o2s := sweep cid (selO2 e.uats ct) e.o2s }

/-- `SessionConsistency::modify_inner` on one candidate entry at transaction time `ct`; `cid` is
the transaction's change id (what a revocation is stamped with). -/
def plugin (ct cid : Nat) (e : Entry) : Entry :=
  passOrder.foldl (applyPass (credIds e) ct cid) e

/-! ### Modifications (the modlist part of a modify; the plugin runs after it) -/

/-- `BTreeMap::insert` into a vacant slot only (`ValueSetSession::insert_checked`). -/
def insertVacant (m : SMap) (k : Nat) (v : Sess) : SMap :=
  match lookup m k with
  | some _ => m
  | none => m ++ [(k, v)]

/-- `ValueSetOauth2Session::insert_checked`: vacant ⇒ insert; occupied ⇒ replace iff
`m.state > e_v.state`. -/
def insertO2 (m : SMap) (k : Nat) (v : Sess) : SMap :=
  match lookup m k with
  | none => m ++ [(k, v)]
  | some _ =>
    m.map (fun e => if e.1 = k then
      (if o2InsertReplaces (SState.cmp v.state e.2.state) then (k, v) else e) else e)

/-- `remove(Refer(k), cid)` at map level. -/
def revokeKey (cid k : Nat) (m : SMap) : SMap :=
  m.map (fun e => if e.1 = k then (e.1, revoke cid e.2) else e)

/-- `purge(cid)`: every session revoked, the attribute stays. -/
def revokeAll (cid : Nat) (m : SMap) : SMap := m.map (fun e => (e.1, revoke cid e.2))

def stateOf : Option Nat → SState
  | some e => .expiresAt e
  | none => .neverExpires

/-- The changes a local write can make to the attributes the plugin reads. -/
inductive Mod where
  /-- purge (`none`) or purge-and-set (`some c`) `PrimaryCredential` (every credential update
  that changes the credential gives it a new uuid — `Credential::update_password` etc.) -/
  | setPrimary (c : Option Nat)
  /-- a credential-update commit that changed the primary credential (`set_password`,
  `append_totp`, `remove_totp`, backup-code changes): `Credential::update_password` & co. build the
  new credential with `uuid: Uuid::new_v4()` (`fresh`) — or keep the old id if they do not rotate
  (generated `credUpdateRotatesId`); without a primary credential a new one is created -/
  | updatePrimary (fresh : Nat)
  | addPasskey (c : Nat)
  | delPasskey (c : Nat)
  | addAttested (c : Nat)
  | delAttested (c : Nat)
  | setOauth2Cred (c : Option Nat)
  /-- `process_authsessionrecord`: `Modify::Present(UserAuthTokenSession, Session{..})` -/
  | record (s cred : Nat) (exp : Option Nat) (issued : Nat)
  /-- `Modify::Removed(UserAuthTokenSession, Refer(s))` (logout / `account_destroy_session_token`) -/
  | revoke (s : Nat)
  /-- `Modify::Purged(UserAuthTokenSession)` -/
  | purgeUats
  /-- `Modify::Present(OAuth2Session, Oauth2Session{parent, ExpiresAt(exp), issued_at})`
  (`generate_access_token_response`; refresh re-inserts under the same id) -/
  | grant (o : Nat) (parent : Option Nat) (exp : Option Nat) (issued : Nat)
  /-- `Modify::Removed(OAuth2Session, Refer(o))` -/
  | revokeO2 (o : Nat)
  /-- a write that touches none of these attributes -/
  | touch
deriving DecidableEq, Repr

def applyMod (cid : Nat) (e : Entry) : Mod → Entry
  | .setPrimary c => { e with primary := c }
  | .updatePrimary fresh =>
    { e with primary := match e.primary with
        | some old => some (if credUpdateRotatesId then fresh else old)
        | none => some fresh }
  | .addPasskey c => { e with passkeys := if e.passkeys.contains c then e.passkeys else e.passkeys ++ [c] }
  | .delPasskey c => { e with passkeys := e.passkeys.filter (· ≠ c) }
  | .addAttested c => { e with attested := if e.attested.contains c then e.attested else e.attested ++ [c] }
  | .delAttested c => { e with attested := e.attested.filter (· ≠ c) }
  | .setOauth2Cred c => { e with oauth2Cred := c }
  | .record s cred exp issued =>
    { e with uats := some (insertVacant (e.uats.getD []) s ⟨stateOf exp, issued, cred⟩) }
  | .revoke s => { e with uats := e.uats.map (revokeKey cid s) }
  | .purgeUats => { e with uats := e.uats.map (revokeAll cid) }
  | .grant o parent exp issued =>
    { e with o2s := insertO2 e.o2s o ⟨stateOf exp, issued, encParent parent⟩ }
  | .revokeO2 o => { e with o2s := revokeKey cid o e.o2s }
  | .touch => e

/-- `CHANGELOG_MAX_AGE` in nanoseconds. -/
def changelogMaxAge : Nat := changelogMaxAgeSecs * nsPerSec

/-- `let trim_cid = cid.sub_secs(CHANGELOG_MAX_AGE)?` of `QueryServer::write` (change ids are
their timestamps in nanoseconds here; an underflow is an error in the code and `0` here). -/
def trimCidOf (cid : Nat) : Nat := cid - changelogMaxAge

/-- `Entry::invalidate(cid, trim_cid)`, the first thing every local modify does to a candidate:
`for vs in self.attrs.values_mut() { vs.trim(trim_cid); }` — C11's `ValueSetSession::trim`
(revocations older than `trim_cid` dropped, then the forced trim down to `SESSION_MAXIMUM`) and
`ValueSetOauth2Session::trim`. -/
def trimEntry (t : Nat) (e : Entry) : Entry :=
  { e with uats := e.uats.map (sessTrimAll t), o2s := trimRevoked o2Trim t e.o2s }

/-- One event of a history. -/
inductive Op where
  /-- a local modify at time `ct` with change id `cid`: trim, modlist, then the plugin -/
  | write (m : Mod) (ct cid : Nat)
  /-- an incoming replicated state of the same entry; `newer` = the incoming attribute's cid is
  the larger one (`Entry::merge_state` takes it as `self`), `t` = trim cid.  The credential
  attributes follow the incoming entry when `takeCreds`.  **No plugin run.** -/
  | merge (inc : Entry) (uatsNewer o2sNewer takeCreds : Bool) (t : Nat)
deriving DecidableEq, Repr

def mergeUats (own inc : Option SMap) (incNewer : Bool) (t : Nat) : Option SMap :=
  match own, inc with
  | some a, some b => some (if incNewer then sessReplMerge b a t else sessReplMerge a b t)
  | some a, none => some a
  | none, some b => some b
  | none, none => none

/-- The modlist and the plugin on an (already trimmed) candidate. -/
def stepCore (e : Entry) (m : Mod) (ct cid : Nat) : Entry := plugin ct cid (applyMod cid e m)

def step (e : Entry) : Op → Entry
  | .write m ct cid => stepCore (trimEntry (trimCidOf cid) e) m ct cid
  | .merge inc un on tc t =>
    { (if tc then { e with primary := inc.primary, passkeys := inc.passkeys,
                           attested := inc.attested, oauth2Cred := inc.oauth2Cred } else e) with
      uats := mergeUats e.uats inc.uats un t
      o2s := if on then o2ReplMerge inc.o2s e.o2s t else o2ReplMerge e.o2s inc.o2s t }

/-- A history, oldest event first. -/
def run (e : Entry) (ops : List Op) : Entry := ops.foldl step e

/-! ### `check_oauth2_account_uuid_valid` -/

/-- `Account::check_within_valid_time` (C49's subject; transcribed plainly here). -/
def withinWindow (e : Entry) (ct : Nat) : Bool :=
  (match e.validFrom with | some v => decide (v ≤ ct) | none => true) &&
  (match e.expire with | some x => decide (ct ≤ x) | none => true)

/-- The closure `session_state_live` of `check_oauth2_account_uuid_valid` (since fix dd5d9e6 an
expired session is refused like a revoked one, without waiting for the plugin's next run). -/
def chkStateLive (ct : Nat) : SState → Bool
  | .revokedAt _ => chkLiveRevoked
  | .expiresAt exp => chkLiveExpires exp ct
  | .neverExpires => chkLiveNever

/-- `check_oauth2_account_uuid_valid(uuid, session_id, parent_session_id, iat, ct)` on the
entry found for `uuid`: `true` = `Ok(Some(entry))`, `false` = `Ok(None)`.
`parent` is what the *token* carries. -/
def o2Check (e : Entry) (sid : Nat) (parent : Option Nat) (iat ct : Nat) : Bool :=
  if !withinWindow e ct then chkOutsideWindow
  else
    let graceValid := chkGraceValid ct iat graceWindow
    match lookup e.o2s sid with
    | some o =>
      if !chkO2SessionValid (chkStateLive ct o.state) then chkO2Invalid
      else
        match parent with
        | some p =>
          match e.uats.bind (fun m => lookup m p) with
          | some u => if chkParentValid (chkStateLive ct u.state) then chkParentLive else chkParentInvalid
          | none =>
            if e.apis.contains p then chkParentMissingApi
            else if graceValid then chkParentMissingGrace
            else chkParentMissingNoGrace
        | none => true
    | none => if graceValid then chkO2MissingGrace else chkO2MissingNoGrace

end Kanidm.SessionPlugin
