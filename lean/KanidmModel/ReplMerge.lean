import KanidmModel.Cid
import KanidmModel.Generated.ReplMergeOps
/-!
# C08 — the entry-level replication merge

Transcribes, from `/repo/server/lib/src`:

* `repl/entry.rs`  `State {Live{at, changes}, Tombstone{at}}`, `EntryChangeState::get_max_cid`;
* `entry.rs`       `Entry::is_add_conflict` (674), `Entry::resolve_add_conflict` (691, incl. the
                   conflict copy written on the loser's origin), `Entry::merge_state` (842: the
                   four change-state arms, the per-attribute loop with its 3 + 8 arms, `retain`,
                   last-modified / created-at);
* `repl/proto.rs`  `ReplIncrementalEntryV1::new` (266: the range filter that decides which
                   attribute states are put on the wire);
* `repl/consumer.rs` `consumer_incremental_apply_entries`: conflict partition, then
                   `resolve_add_conflict` / `merge_state` per entry.

The comparison operators, the arm tables (which cid and which value each arm inserts, in source
order, with guards), the sides kept by the tombstone arms and the range test are **generated**
(`Generated/ReplMergeOps.lean`, translator item `repl-merge-ops`); `Cid` and its derived order are
C07's (`KanidmModel/Cid.lean`, generated field order).

Attributes and values are `Nat` atoms.  A value set is opaque: `vm newer older` stands for
`newer.repl_merge_valueset(older, trim_cid)`; the default trait implementation returns `None`
(the theorems of C08 are about those attributes; the four overriding types are C11's subject).
`repl a` is `schema.is_replicated(a)`.  A `BTreeMap` is an association list observed through
`lookup`; results are emitted in key order.
-/
namespace Kanidm.ReplMerge
open Kanidm.Cid (Cid cidLt)
open Kanidm.Gen.ReplMergeOps

/-- `BTreeMap::get`. -/
def lookup {β : Type} : List (Nat × β) → Nat → Option β
  | [], _ => none
  | (k', v) :: tl, k => if k = k' then some v else lookup tl k

/-- sorted insert without duplicates (`sort_unstable` + `dedup`) -/
def insertKey (x : Nat) : List Nat → List Nat
  | [] => [x]
  | y :: ys => if x < y then x :: y :: ys else if x = y then y :: ys else y :: insertKey x ys

def sortDedup (l : List Nat) : List Nat := l.foldr insertKey []

/-- A live entry: `at`, `changes : BTreeMap<Attribute, Cid>`, `attrs : Eattrs` (only the attributes the
merge looks at; last-modified / created-at are recomputed, see `lastMod`). -/
structure Live where
  crAt : Cid
  changes : List (Nat × Cid)
  attrs : List (Nat × Nat)
deriving DecidableEq, Repr

/-- Change state + attributes of one entry (one uuid). -/
inductive St where
  | live (e : Live)
  | tomb (crAt : Cid)
deriving DecidableEq, Repr

/-- `EntryChangeState::get_max_cid`: `changes.values().max().unwrap_or(at)`. -/
def maxCid (crAt : Cid) : List (Nat × Cid) → Cid
  | [] => crAt
  | (_, c) :: tl =>
    match tl with
    | [] => c
    | _ => let m := maxCid crAt tl; if cidLt m c then c else m

def lastMod : St → Cid
  | .live e => maxCid e.crAt e.changes
  | .tomb a => a

def sideCid (s : Side) (cl cr : Cid) : Cid :=
  match s with
  | .left => cl
  | .right => cr

/-- the value an arm inserts into `eattrs` (`none` = nothing inserted) -/
def pickVal (vm : Nat → Nat → Option Nat) (p : ValPick) (vl vr : Option Nat) : Option Nat :=
  match p with
  | .left => vl
  | .right => vr
  | .mergeLeftNewer =>
    match vl, vr with
    | some a, some b => some ((vm a b).getD a)
    | _, _ => none
  | .mergeRightNewer =>
    match vl, vr with
    | some a, some b => some ((vm b a).getD b)
    | _, _ => none
  | .none => none

/-- first arm (source order) whose pattern matches and whose guard, if any, holds -/
def pickArm (ls rs tl : Bool) : List GuardedArm → Option Arm
  | [] => none
  | g :: rest =>
    if g.leftSome == ls && g.rightSome == rs && (!g.guarded || tl) then some g.arm
    else pickArm ls rs tl rest

/-- One iteration of `for attr_name in attr_set`: the change cid and the value (if any) inserted. -/
def mergeAttr (vm : Nat → Nat → Option Nat) (L R : Live) (a : Nat) : Option Cid × Option Nat :=
  let vl := lookup L.attrs a
  let vr := lookup R.attrs a
  match lookup L.changes a, lookup R.changes a with
  | some cl, some cr =>
    let tl := takeLeft cidLt cl cr
    match pickArm vl.isSome vr.isSome tl bothArms with
    | some arm => (some (sideCid arm.cid cl cr), pickVal vm arm.val vl vr)
    | none => (none, none)   -- not reachable: the generated table is total (`bothArms_total`)
  | some cl, none => (some (sideCid leftOnlyArm.cid cl cl), pickVal vm leftOnlyArm.val vl vr)
  | none, some cr => (some (sideCid rightOnlyArm.cid cr cr), pickVal vm rightOnlyArm.val vl vr)
  | none, none => (none, none)

/-- `changes_left.keys().chain(changes_right.keys())`, sorted, deduplicated. -/
def attrSet (L R : Live) : List Nat :=
  sortDedup (L.changes.map (·.1) ++ R.changes.map (·.1))

def cellsOf (vm : Nat → Nat → Option Nat) (L R : Live) : List (Nat × (Option Cid × Option Nat)) :=
  (attrSet L R).map (fun a => (a, mergeAttr vm L R a))

/-- The Live/Live arm of `merge_state`. -/
def mergeLive (vm : Nat → Nat → Option Nat) (repl : Nat → Bool) (L R : Live) : Live :=
  let cells := cellsOf vm L R
  let changes := cells.filterMap (fun c => c.2.1.map (fun cid => (c.1, cid)))
  { crAt := match liveAtFrom with
      | .left => L.crAt
      | .right => R.crAt
    changes := if retainReplicated then changes.filter (fun c => repl c.1) else changes
    attrs := cells.filterMap (fun c => c.2.2.map (fun v => (c.1, v))) }

/-- `Entry::merge_state(self = l, db_ent = r)`. -/
def mergeState (vm : Nat → Nat → Option Nat) (repl : Nat → Bool) (l r : St) : St :=
  match l, r with
  | .live L, .live R => .live (mergeLive vm repl L R)
  | .tomb a, .live R =>
    match tombLiveKeeps with
    | .left => .tomb a
    | .right => .live R
  | .live L, .tomb b =>
    match liveTombKeeps with
    | .left => .live L
    | .right => .tomb b
  | .tomb a, .tomb b => if tombTombPickLeft cidLt a b then .tomb a else .tomb b

/-- `Entry::is_add_conflict(self = l, db_entry = r)`. -/
def isAddConflict (l r : St) : Bool :=
  match l, r with
  | .live L, .live R => addConflictWhen cidLt L.crAt R.crAt
  | _, _ => false

/-- Attributes the conflict copy gets through `add_ava` / `purge_ava` (hence a change cid of the
consumer's transaction): source_uuid, uuid, class. -/
structure CopyAttrs where
  sourceUuid : Nat
  uuid : Nat
  cls : Nat
deriving DecidableEq, Repr

def setKey {β : Type} (k : Nat) (v : β) : List (Nat × β) → List (Nat × β)
  | [] => [(k, v)]
  | (k', v') :: tl => if k = k' then (k, v) :: tl else (k', v') :: setKey k v tl

/-- The conflict copy of `resolve_add_conflict`: `db_cs.clone()` and `db_ent.attrs.clone()`, then
`add_ava(SourceUuid)`, `purge_ava(Uuid)`, `add_ava(Uuid)`, `add_ava(Class, Recycled)`,
`add_ava(Class, Conflict)` — each stamps the attribute with the transaction cid `txn`; every other
attribute **keeps the change cid it had on the losing entry**.  Values are atoms: `vals` gives the
three new values (the new class set, the fresh uuid, the source uuid). -/
def conflictCopy (ca : CopyAttrs) (vals : Nat × Nat × Nat) (txn : Cid) (R : Live) : Live :=
  { crAt := R.crAt
    changes := setKey ca.cls txn (setKey ca.uuid txn (setKey ca.sourceUuid txn R.changes))
    attrs := setKey ca.cls vals.1 (setKey ca.uuid vals.2.1 (setKey ca.sourceUuid vals.2.2 R.attrs)) }

/-- `Entry::resolve_add_conflict(self = l, cid = txn, db_ent = r)` on two live entries: is a conflict
copy created here, and the entry written for the uuid. -/
def resolveAdd (txn : Cid) (L R : Live) : Bool × Live :=
  if incomingLoses cidLt L.crAt R.crAt then (false, R)
  else ((if copyOnlyAtOrigin then decide (R.crAt.sUuid = txn.sUuid) else true), L)

/-- `Entry::seal`: `ecstate.retain(|k, _| schema.is_replicated(k))` (last-modified / created-at are
recomputed, see `lastMod`). -/
def sealSt (repl : Nat → Bool) : St → St
  | .live e => .live { e with changes := e.changes.filter (fun c => repl c.1) }
  | .tomb a => .tomb a

/-- What `consumer_incremental_apply_entries` writes for the uuid of one incoming entry: the conflict
partition, `resolve_add_conflict` or `merge_state`, then `validate_repl(..).seal(..)` (a merge result
that fails the schema is parked as a conflict by `validate_repl`: not modelled). -/
def applyEntry (vm : Nat → Nat → Option Nat) (repl : Nat → Bool) (txn : Cid) (inc db : St) : St :=
  sealSt repl (match inc, db with
    | .live L, .live R =>
      if isAddConflict inc db then .live (resolveAdd txn L R).2 else mergeState vm repl inc db
    | _, _ => mergeState vm repl inc db)

/-- A requested range `server ↦ (ts_min, ts_max)`. -/
abbrev Ranges := List (Nat × (Nat × Nat))

/-- `ReplIncrementalEntryV1::new`: is the attribute state with change cid `c` put on the wire? -/
def sent (repl : Nat → Bool) (rg : Ranges) (a : Nat) (c : Cid) : Bool :=
  (if rangeRequiresReplicated then repl a else true) &&
    (match lookup rg c.sUuid with
     | some (lo, hi) => withinRange c.ts lo hi
     | none => rangeAbsentDefault)

/-- Is attribute `a` of the live entry `e` put on the wire (decided by its change cid)? -/
def keySent (repl : Nat → Bool) (rg : Ranges) (e : Live) (a : Nat) : Bool :=
  match lookup e.changes a with
  | some c => sent repl rg a c
  | none => false

/-- The incoming entry a consumer rehydrates: the attribute states within the range; a value travels
with its state; attributes without a change cid never travel; a tombstone travels whole. -/
def delta (repl : Nat → Bool) (rg : Ranges) : St → St
  | .tomb a => .tomb a
  | .live e =>
    .live { crAt := e.crAt
            changes := e.changes.filter (fun c => keySent repl rg e c.1)
            attrs := e.attrs.filter (fun v => keySent repl rg e v.1) }

/-! ## What the theorems observe: the replicated stratum -/

/-- change cid and value (if present) of attribute `a`; `none` when the attribute carries no change cid
or is not replicated -/
def rcell (repl : Nat → Bool) (e : Live) (a : Nat) : Option (Cid × Option Nat) :=
  if repl a then (lookup e.changes a).map (fun c => (c, lookup e.attrs a)) else none

/-- attribute-level last-writer-wins, written from the property text: the later change cid wins, the
value travels with it, one side only ⇒ that side -/
def lww (l r : Option (Cid × Option Nat)) : Option (Cid × Option Nat) :=
  match l, r with
  | some (cl, vl), some (cr, vr) => if cidLt cr cl then some (cl, vl) else some (cr, vr)
  | some x, none => some x
  | none, some y => some y
  | none, none => none

/-- The replicated view of an entry state. -/
inductive View where
  | live (crAt : Cid) (cells : Nat → Option (Cid × Option Nat))
  | tomb (crAt : Cid)

def view (repl : Nat → Bool) : St → View
  | .live e => .live e.crAt (rcell repl e)
  | .tomb a => .tomb a

/-- A delivery history for one uuid: states as they leave their writers (`leaf i`), applied in any
order and grouping (`node incoming db`), any number of times. -/
inductive Tree where
  | leaf (i : Nat)
  | node (incoming db : Tree)
deriving Repr

def Tree.leaves : Tree → List Nat
  | .leaf i => [i]
  | .node l r => l.leaves ++ r.leaves

def Tree.eval (vm : Nat → Nat → Option Nat) (repl : Nat → Bool) (w : Nat → St) : Tree → St
  | .leaf i => w i
  | .node l r => mergeState vm repl (l.eval vm repl w) (r.eval vm repl w)

end Kanidm.ReplMerge
