import KanidmModel.Generated.ValidityOps
/-!
# C49 — the account validity window at every authentication surface

What the code does, transcribed:

* `accountGate` = `Account::check_within_valid_time` (idm/account.rs:529) and `radiusGate` =
  `RadiusAccount::is_within_valid_time` (idm/radius.rs:70): both comparisons, both defaults for an
  absent attribute, the `EPOCH + ct` and the conjunction are the *generated* definitions
  (`Kanidm.Gen.Validity.acct*` / `rad*`). Time is `Nat` nanoseconds since the epoch.
* `rows` (generated) is the surface table: for every function of the IDM transaction types that
  authenticates an account or releases one of its credentials, the gate it contains itself (found as
  an early return before every success expression), the entry the gate's attributes are read from
  (`stored` = `internal_search_uuid`, `reduced` = what the asking identity may read), and the gated
  functions its successes flow through.
* `passes s acl w ct` = "the validity tests on the success path of `s` let the request through":
  a function's own gate applied to its view of the entry, and its callees (`all` of them, or `any`
  for a dispatcher). A row with neither gate nor calls passes always — that is what an ungated
  function does.
* `attempt s acl w ct pre` = the reply of surface `s` when every other precondition (right
  password, live session, unexpired token, membership …) is `pre`.

`Acl` is what the asking identity may read of the two attributes (`reduce` drops the rest): the
property quantifies over every asking identity, so theorems are for all `Acl`.
-/
namespace Kanidm.Validity
open Kanidm.Gen.Validity

/-- The two stored attributes `account_valid_from` / `account_expire` (ns since the epoch). -/
structure Window where
  vf : Option Nat := none
  ex : Option Nat := none
  deriving Repr, DecidableEq

/-- `Account::check_within_valid_time(ct, valid_from, expire)`. -/
def accountGate (w : Window) (ct : Nat) : Bool :=
  let cot := acctCot ct
  let vmin := acctVfOk w.vf cot
  let vmax := acctExOk w.ex cot
  acctMix vmin vmax

/-- `RadiusAccount::is_within_valid_time(ct)`. -/
def radiusGate (w : Window) (ct : Nat) : Bool :=
  let cot := radCot ct
  let vmin := radVfOk w.vf cot
  let vmax := radExOk w.ex cot
  radMix vmin vmax

def gateOf : GateKind → Window → Nat → Bool
  | .account => accountGate
  | .radius => radiusGate

/-- Which of the two attributes the asking identity's access controls let it read. -/
structure Acl where
  readVf : Bool
  readEx : Bool
  deriving Repr, DecidableEq

/-- The access-reduced entry: unreadable attributes are absent. -/
def reduce (a : Acl) (w : Window) : Window :=
  ⟨if a.readVf then w.vf else none, if a.readEx then w.ex else none⟩

def viewOf : View → Acl → Window → Window
  | .stored, _, w => w
  | .reduced, a, w => reduce a w

def rowOf (s : Sid) : Option Row := rows.find? (fun r => r.sid == s)

/-- Do the validity tests on the success path of `s` let a request at `ct` through? -/
def passes : Nat → Sid → Acl → Window → Nat → Bool
  | 0, _, _, _, _ => false
  | fuel + 1, s, a, w, ct =>
    match rowOf s with
    | none => false
    | some r =>
      let own := match r.gate with
        | some g => gateOf g (viewOf r.view a w) ct
        | none => true
      let sub :=
        if r.calls.isEmpty then true
        else if r.anyCall then r.calls.any (fun c => passes fuel c a w ct)
        else r.calls.all (fun c => passes fuel c a w ct)
      own && sub

/-- Enough fuel for any acyclic call chain through the table. -/
def depth : Nat := rows.length + 1

inductive Reply where
  | ok
  | refused
  deriving Repr, DecidableEq

/-- Reply of surface `s` asked by an identity with read rights `a` about an account with stored
window `w` at time `ct`; `pre` = every other precondition of the surface holds. -/
def attempt (s : Sid) (a : Acl) (w : Window) (ct : Nat) (pre : Bool) : Reply :=
  if pre && passes depth s a w ct then .ok else .refused

/-- A row is *gated* when it has its own gate, or calls only gated rows (all of them non-empty). -/
def gated : Nat → Sid → Bool
  | 0, _ => false
  | fuel + 1, s =>
    match rowOf s with
    | none => false
    | some r =>
      match r.gate with
      | some _ => r.view == .stored
      | none => !r.calls.isEmpty && r.calls.all (fun c => gated fuel c)

/-- The entry points (public functions) of the table. -/
def entryPoints : List Sid := (rows.filter (·.entry)).map (·.sid)

end Kanidm.Validity
