import KanidmModel.Generated.SchemaCheckOps
/-!
C15 — schema validation of entries, as coded.

* `validate`        = `Entry<EntryValid,_>::validate`            (server/lib/src/entry.rs)
* `validateAva`     = `SchemaAttribute::validate_ava`            (server/lib/src/schema.rs)
* `validateInvalid` = `Entry<EntryInvalid,_>::validate` / `Entry<EntryRefresh,_>::validate`
* `validateRepl`    = `Entry<EntryIncremental,EntryCommitted>::validate_repl`
* `seal`            = `Entry<EntryValid,_>::seal` (attribute part)
* `runSteps`/`applyOp`/`runHistory` = the store paths of `server/{create,modify,batch_modify,delete,
  recycle}.rs` and `repl/consumer.rs`, step lists regenerated into `Gen.pipelines`.

Atoms are naturals. The harness maps the real names to them: the attributes and classes the code
itself names get the fixed atoms below, every other name a number ≥ 16. An entry is the list of its
`(attribute, value set)` pairs in the iteration order of the real `BTreeMap`; a value set carries
its `SyntaxType` (as a number) and for every value an atom and whether the per-syntax predicate
(`ValueSet::validate`) accepts it.
-/
namespace Kanidm.SchemaCheck
open Gen

def Gen.Cls.atom : Cls → Nat
  | .conflict => 0 | .recycled => 1 | .extensibleObject => 2 | .object => 3 | .tombstone => 4

def Gen.AttrName.atom : AttrName → Nat
  | .class_ => 0 | .uuid => 1 | .lastModifiedCid => 2 | .createdAtCid => 3 | .sourceUuid => 4

def aClass : Nat := 0
def aUuid : Nat := 1
def aLastMod : Nat := 2
def aCreatedAt : Nat := 3
def aSourceUuid : Nat := 4
def cConflict : Nat := 0
def cRecycled : Nat := 1
def cExtensible : Nat := 2
def cObject : Nat := 3
def cTombstone : Nat := 4
/-- `SyntaxType::Utf8StringInsensitive`, `Uuid`, `Cid` (the three the check itself depends on) -/
def synIutf8 : Nat := 0
def synUuid : Nat := 1
def synCid : Nat := 2

structure SAttr where
  name : Nat
  syn : Nat
  multivalue : Bool
  phantom : Bool
deriving Repr, DecidableEq

structure SClass where
  name : Nat
  systemmust : List Nat
  must : List Nat
  systemmay : List Nat
  may : List Nat
  systemsupplements : List Nat
  supplements : List Nat
  systemexcludes : List Nat
  excludes : List Nat
deriving Repr, DecidableEq

structure Schema where
  attrs : List SAttr
  classes : List SClass
deriving Repr

structure Val where
  atom : Nat
  ok : Bool
deriving Repr, DecidableEq

structure Ava where
  syn : Nat
  vals : List Val
deriving Repr, DecidableEq

abbrev Entry := List (Nat × Ava)

inductive SErr where
  | noClassFound
  | invalidClass (l : List Nat)
  | supplementsNotSatisfied (l : List Nat)
  | excludesNotSatisfied (l : List Nat)
  | corrupted
  | missingMustAttribute (l : List Nat)
  | phantomAttribute (a : Nat)
  | invalidAttribute (a : Nat)
  | attributeNotValidForClass (a : Nat)
  | invalidAttributeSyntax (a : Nat)
deriving Repr, DecidableEq

def findClass (s : Schema) (c : Nat) : Option SClass := s.classes.find? (fun x => x.name == c)
def findAttr (s : Schema) (a : Nat) : Option SAttr := s.attrs.find? (fun x => x.name == a)

def fieldOf : Field → SClass → List Nat
  | .systemmust, c => c.systemmust
  | .must, c => c.must
  | .systemmay, c => c.systemmay
  | .may, c => c.may
  | .systemsupplements, c => c.systemsupplements
  | .supplements, c => c.supplements
  | .systemexcludes, c => c.systemexcludes
  | .excludes, c => c.excludes

/-- `classes.iter().flat_map(|cls| cls.f1.iter().chain(cls.f2.iter()) …)` -/
def gather (fs : List Field) (cs : List SClass) : List Nat :=
  cs.flatMap (fun c => fs.flatMap (fun f => fieldOf f c))

def getAva (e : Entry) (a : Nat) : Option Ava := e.lookup a

/-- the entry's classes: `get_ava_set(Class)` then `as_iutf8_set()`; `none` = no class attribute
or a class attribute that is not an iutf8 set (both end in `NoClassFound`) -/
def classSet (e : Entry) : Option (List Nat) :=
  match getAva e aClass with
  | none => none
  | some ava => if ava.syn == synIutf8 then some (ava.vals.map (·.atom)) else none

/-- `SchemaAttribute::validate_ava` -/
def validateAva (sa : SAttr) (a : Nat) (ava : Ava) : Except SErr Unit :=
  if singleValueViolated sa.multivalue ava.vals.length then .error (.invalidAttributeSyntax a)
  else if ((!avaRequiresSyntaxEq) || sa.syn == ava.syn)
        && ((!avaRequiresValuesValid) || ava.vals.all (·.ok)) then .ok ()
  else .error (.invalidAttributeSyntax a)

/-- extensible arm: every attribute must exist in the schema, must not be phantom, and pass `validate_ava` -/
def checkAttrsExt (s : Schema) : Entry → Except SErr Unit
  | [] => .ok ()
  | (a, ava) :: r =>
    match findAttr s a with
    | some sa =>
      if extensibleRejectsPhantom && sa.phantom then .error (.phantomAttribute a)
      else match validateAva sa a ava with
        | .error x => .error x
        | .ok _ => checkAttrsExt s r
    | none => .error (.invalidAttribute a)

/-- normal arm: every attribute must be in the may∪must map of the entry's classes and pass `validate_ava` -/
def checkAttrsMay (s : Schema) (may : List Nat) : Entry → Except SErr Unit
  | [] => .ok ()
  | (a, ava) :: r =>
    if may.contains a then
      match findAttr s a with
      | some sa =>
        match validateAva sa a ava with
        | .error x => .error x
        | .ok _ => checkAttrsMay s may r
      | none => .error .corrupted
    else .error (.attributeNotValidForClass a)

/-- `Entry<EntryValid,_>::validate` after the class attribute has been read and the conflict
short-cut passed, exit by exit -/
def validateBody (s : Schema) (e : Entry) (ecs : List Nat) : Except SErr Unit :=
  let recycled := ecs.contains recycledFlagClass.atom
  let extensible := ecs.contains extensibleFlagClass.atom
  let invalid := ecs.filter (fun c => (findClass s c).isNone)
  if !invalid.isEmpty then .error (.invalidClass invalid)
  else
    let classes := ecs.filterMap (findClass s)
    let supp := gather supplementsFields classes
    let validSupp :=
      if supplementsEmptyOk && supp.isEmpty then true
      else match supplementsQuant with
        | .any => supp.any (fun c => ecs.contains c)
        | .all => supp.all (fun c => ecs.contains c)
    if !validSupp then .error (.supplementsNotSatisfied supp)
    else
      let invExcl := (gather excludesFields classes).filter (fun c => ecs.contains c)
      if !invExcl.isEmpty then .error (.excludesNotSatisfied invExcl)
      else
        let mustNames := gather mustFields classes
        if mustNames.any (fun a => (findAttr s a).isNone) then .error .corrupted
        else
          let missing := mustNames.filter (fun a => (getAva e a).isNone)
          if !missing.isEmpty && !(missingMustSoftenedByRecycled && recycled) then
            .error (.missingMustAttribute missing)
          else if extensible then checkAttrsExt s e
          else
            let mayNames := gather mayFields classes
            if mayNames.any (fun a => (findAttr s a).isNone) then .error .corrupted
            else checkAttrsMay s mayNames e

/-- `Entry<EntryValid,_>::validate` -/
def validate (s : Schema) (e : Entry) : Except SErr Unit :=
  match classSet e with
  | none => .error .noClassFound
  | some ecs => if ecs.contains exemptClass.atom then .ok () else validateBody s e ecs

/-- `vs.to_uuid_single()`: a uuid set with exactly one value -/
def uuidSingle (e : Entry) : Bool :=
  match getAva e aUuid with
  | none => false
  | some ava => ava.syn == synUuid && ava.vals.length == 1

/-- `Entry<EntryInvalid,_>::validate` (and the identical `Entry<EntryRefresh,_>::validate`) -/
def validateInvalid (s : Schema) (e : Entry) : Except SErr Unit :=
  if invalidChecksUuidFirst && !uuidSingle e then .error (.missingMustAttribute [aUuid])
  else validate s e

/-- replace the value set of `a`, or add it -/
def setAva (e : Entry) (a : Nat) (ava : Ava) : Entry :=
  if e.any (fun p => p.1 == a) then e.map (fun p => if p.1 == a then (a, ava) else p)
  else e ++ [(a, ava)]

/-- `add_ava_int`: insert into an existing set of the same type (a set of another type refuses the
value and stays as it is), or create the attribute -/
def addAvaInt (e : Entry) (a : Nat) (syn : Nat) (v : Val) : Entry :=
  match getAva e a with
  | some ava =>
    if ava.syn == syn then
      if ava.vals.any (fun x => x.atom == v.atom) then e
      else setAva e a { ava with vals := ava.vals ++ [v] }
    else e
  | none => e ++ [(a, ⟨syn, [v]⟩)]

/-- `validate_repl`: an entry failing the schema is moved to the conflict state instead of being refused -/
def validateRepl (s : Schema) (selfUuid : Nat) (e : Entry) : Entry :=
  match validate s e with
  | .ok _ => e
  | .error _ =>
    let e1 := replFailClasses.foldl (fun e c => addAvaInt e aClass synIutf8 ⟨c.atom, true⟩) e
    addAvaInt e1 replFailAttr.atom synUuid ⟨selfUuid, true⟩

/-- `seal`: last_modified_cid and created_at_cid are (re)written after validation -/
def sealEntry (cid : Nat) (e : Entry) : Entry :=
  sealAttrs.foldl (fun e a => setAva e a.atom ⟨synCid, [⟨cid, true⟩]⟩) e

/-! ## Store paths -/

/-- everything the store paths leave to plugins, modlists and the replication merge: arbitrary
rewrites of the candidates and arbitrary refusals, by step name -/
structure Env where
  rewrite : String → Entry → Entry
  refuse : String → List Entry → Bool
  /-- what `resolve_add_conflict` produces for the origin node (stored without schema validation) -/
  conflictCopies : List Entry
  cid : Nat
  /-- uuid atom of a candidate (`self.valid.uuid`) -/
  uuidOf : Entry → Nat

inductive OpErr where
  | schema (e : SErr)
  | plugin (what : String)
deriving Repr, DecidableEq

def validateAll (s : Schema) : List Entry → Except SErr Unit
  | [] => .ok ()
  | e :: r => match validateInvalid s e with
    | .error x => .error x
    | .ok _ => validateAll s r

/-- run the steps of one store path on a batch of candidates; the result is what reached the backend -/
def runSteps (env : Env) (s : Schema) : List Step → List Entry → List Entry → Except OpErr (List Entry)
  | [], _, w => .ok w
  | .mutate t :: r, c, w =>
    if env.refuse t c then .error (.plugin t) else runSteps env s r (c.map (env.rewrite t)) w
  | .validate :: r, c, w =>
    match validateAll s c with
    | .error x => .error (.schema x)
    | .ok _ => runSteps env s r c w
  | .validateRepl :: r, c, w => runSteps env s r (c.map (fun e => validateRepl s (env.uuidOf e) e)) w
  | .sealing :: r, c, w => runSteps env s r (c.map (sealEntry env.cid)) w
  | .store _ :: r, c, w => runSteps env s r c (w ++ c)
  | .storeConflictCopies :: r, c, w => runSteps env s r c (w ++ env.conflictCopies)
  | .check t :: r, c, w => if env.refuse t c then .error (.plugin t) else runSteps env s r c w
  | .post t :: r, c, w => if env.refuse t c then .error (.plugin t) else runSteps env s r c w

/-- static check of a step list: every backend write happens on candidates that went through
`validate`/`validate_repl` and then only through `seal` -/
def wellOrderedFrom : Bool → List Step → Bool
  | _, [] => true
  | _, .mutate _ :: r => wellOrderedFrom false r
  | _, .validate :: r => wellOrderedFrom true r
  | _, .validateRepl :: r => wellOrderedFrom true r
  | v, .sealing :: r => wellOrderedFrom v r
  | v, .store _ :: r => v && wellOrderedFrom v r
  | v, .storeConflictCopies :: r => wellOrderedFrom v r
  | v, .check _ :: r => wellOrderedFrom v r
  | v, .post _ :: r => wellOrderedFrom v r

def wellOrdered (p : List Step) : Bool := wellOrderedFrom false p

/-- the database: the stored entries -/
abbrev Db := List Entry

/-- one operation: a store path, its environment, which stored entries it takes as candidates
(search filter) and which new entries the request brings -/
structure Op where
  steps : List Step
  env : Env
  sel : Entry → Bool
  fresh : List Entry

/-- accepted: the selected entries are replaced by what reached the backend; refused: nothing changes -/
def applyOp (s : Schema) (db : Db) (op : Op) : Db × Bool :=
  match runSteps op.env s op.steps (db.filter op.sel ++ op.fresh) [] with
  | .ok w => (db.filter (fun e => !op.sel e) ++ w, true)
  | .error _ => (db, false)

/-- a history step: an operation, or a schema reload -/
inductive HStep where
  | op (o : Op)
  | reload (s' : Schema)

def runHistory : Schema → Db → List HStep → Schema × Db
  | s, db, [] => (s, db)
  | s, db, .op o :: r => runHistory s (applyOp s db o).1 r
  | _, db, .reload s' :: r => runHistory s' db r

end Kanidm.SchemaCheck
