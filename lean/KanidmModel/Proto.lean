/-
Line protocol helpers shared by every driver (`Driver/Cxx.lean`).

One request per line, tokens separated by single spaces; naturals in decimal;
lists as `a,b,c` (empty list = `-`).  One reply line per request line.
Import-free (core Lean only) so that the drivers link as `lean_exe`.
-/
namespace Kanidm.Proto

def tokens (line : String) : List String :=
  (line.trimAscii.toString.splitOn " ").filter (· ≠ "")

def nat? (s : String) : Option Nat := s.toNat?

def int? (s : String) : Option Int := s.toInt?

/-- `a,b,c` ↦ `[a,b,c]`, `-` ↦ `[]`. -/
def splitList (s : String) : List String :=
  if s == "-" || s == "" then [] else s.splitOn ","

def natList? (s : String) : Option (List Nat) :=
  (splitList s).mapM nat?

def showList (f : α → String) (l : List α) : String :=
  if l.isEmpty then "-" else ",".intercalate (l.map f)

def showNatList (l : List Nat) : String := showList toString l

def showBool (b : Bool) : String := if b then "1" else "0"

def bool? (s : String) : Option Bool :=
  if s == "1" || s == "true" then some true
  else if s == "0" || s == "false" then some false else none

/-- Read request lines until EOF, threading a state. -/
partial def loop {σ : Type} (h : IO.FS.Stream) (out : IO.FS.Stream)
    (step : σ → String → σ × String) (s : σ) : IO Unit := do
  let line ← h.getLine
  if line.isEmpty then
    out.flush
    return ()
  let (s', reply) := step s line
  out.putStrLn reply
  -- the harness reads replies synchronously for interactive streams
  out.flush
  loop h out step s'

def run {σ : Type} (init : σ) (step : σ → String → σ × String) : IO Unit := do
  loop (← IO.getStdin) (← IO.getStdout) step init

/-- Stateless convenience. -/
def runPure (f : String → String) : IO Unit :=
  run () (fun _ l => ((), f l))

/-- Insertion sort on naturals (canonical output order for sets). -/
def insertSorted (x : Nat) : List Nat → List Nat
  | [] => [x]
  | y :: ys => if x ≤ y then x :: y :: ys else y :: insertSorted x ys

def sortNats (l : List Nat) : List Nat := l.foldr insertSorted []

end Kanidm.Proto
