import KanidmModel.Filter.Match
import KanidmModel.Filter.IdlTypes
import KanidmModel.Generated.FilterIdl
/-
C01 model: candidate-set resolution and search.

Transcribes, arm by arm, from `/repo/server/lib/src/be/mod.rs`:
  * `BackendTransaction::filter2idl`      (l.240–611)  ↦ `F.idl`
  * `BackendTransaction::filter2idl_sub`  (l.613–674)  ↦ `idlSub` / `subLoop`
  * `BackendTransaction::search`          (l.677–767)  ↦ `searchT` / `search`
  * `BackendTransaction::exists`          (l.774–833)  ↦ `existsT` / `exists`
and from `utils.rs` `trigraph_iter` / `GraphemeClusterIter` (l.98–161) ↦ `windows` / `trigraphs`.

The arm tables of the OR fold, of the two `(cand_idl, inter)` matches of the AND branch, the
`Partial → Partial(∅)` pre-step of the AndNot loop, the three `FILTER_*_THRESHOLD` constants and the
re-test arms of `search`/`exists` come from `KanidmModel.Generated.FilterIdl`, which `vtranslate`
rewrites from the source on every run.

Index access. `Idx a t k` is `get_idl(attr, itype, key)`: `none` = the index table does not exist
(the `…Corrupt` arms), `some s` = the stored id set. Keys are values: the harness maps the key text
of a dumped table row back to the value of the attribute's syntax (`get_idx_eq_key` is injective
per syntax); the presence key `"_"` is `presKey`; substring keys are strings.

Database. `World` = the ids in `id2entry` (`live`, ascending) and the entry of each id. At the
backend level every stored entry is searchable (recycled/tombstone masking is an `AndNot` term the
query server adds to the filter, i.e. part of `f`).

SQLite / cache errors (`?` on `get_idl`, `get_identry`) are not modelled: a pure total function.
Import-free (core Lean only).
-/
namespace Kanidm.Filter

/-- `get_idl`. -/
abbrev Idx := Nat → IType → Val → Option (List Nat)

/-- the stored representation of the id set of a table row (`IDLBitRange::is_compressed`) -/
abbrev Rep := Nat → IType → Val → Bool

/-- the key of the presence index: `"_"` -/
def presKey : Val := .str [95]

/-! ### substring keys -/

/-- `char::to_lowercase` on ASCII (the modelled alphabet; other scripts are outside the model) -/
def lowerNat (c : Nat) : Nat := if 65 ≤ c ∧ c ≤ 90 then c + 32 else c

/-- `PartialValue::get_idx_sub_key` (value.rs l.1026): string syntaxes only, lower-cased -/
def subKey : Val → Option (List Nat)
  | .str s => some (s.map lowerNat)
  | .num _ => none

/-- `GraphemeClusterIter::new(value, w)` (utils.rs l.98): every window of `w` consecutive
graphemes, left to right; nothing if the value is shorter than the window. -/
def windows (w : Nat) : List Nat → List (List Nat)
  | [] => []
  | x :: xs => if w ≤ (x :: xs).length then (x :: xs).take w :: windows w xs else []

/-- `trigraph_iter` (utils.rs l.157): windows of 3, then of 2, then of 1. -/
def trigraphs (s : List Nat) : List (List Nat) := windows 3 s ++ windows 2 s ++ windows 1 s

/-- `ValueSetT::generate_idx_sub_keys` for one stored value (valueset/{iutf8,iname,utf8}.rs):
the trigraphs of the lower-cased text; no keys for syntaxes without substring support. -/
def subKeysOf : Val → List (List Nat)
  | .str s => trigraphs (s.map lowerNat)
  | .num _ => []

/-- the `for idx_key in grapheme_iter` loop of `filter2idl_sub` (l.645–664) -/
def subLoop (get : List Nat → Option (List Nat × Bool)) :
    List Nat × Bool → List (List Nat) → List Nat × Bool
  | idl, [] => idl
  | idl, k :: ks =>
    let idl' := match get k with
      | some r => (interL r.1 idl.1, r.2 && idl.2 && !(interL r.1 idl.1).isEmpty)
      | none => ([], false)
    if idl'.1.length < thresSubstr then idl' else subLoop get idl' ks

/-- `filter2idl_sub` (l.613). -/
def idlSub (idx : Idx) (rep : Rep) (a : Nat) (key : List Nat) : IdList :=
  match trigraphs key with
  | [] => ⟨.idxd, [], false⟩
  | k :: ks =>
    match idx a .substring (.str k) with
    | none => ⟨.allIds, [], false⟩
    | some idl =>
      if idl.length > thresSubstr then
        let r := subLoop (fun k => (idx a .substring (.str k)).map (fun s => (s, rep a .substring (.str k))))
          (idl, rep a .substring (.str k)) ks
        ⟨.part, r.1, r.2⟩
      else ⟨.part, idl, rep a .substring (.str k)⟩

/-! ### the OR fold, the AND candidate algebra, Inclusion -/

/-- loop state of the `Or` arm: `result`, `partial`, `threshold` -/
structure OrAcc where
  result : List Nat
  comp : Bool
  part : Bool
  thres : Bool

/-- the `for f in l.iter()` loop of the `Or` arm (l.315–357) on the children's id lists -/
def orLoop : OrAcc → List IdList → IdList
  | acc, [] =>
    if acc.part then
      if acc.thres then ⟨.thres, acc.result, acc.comp⟩ else ⟨.part, acc.result, acc.comp⟩
    else ⟨.idxd, acc.result, acc.comp⟩
  | acc, i :: is =>
    match orArm i.kind with
    | none => ⟨.allIds, [], false⟩
    | some (p, t) =>
      orLoop ⟨unionL acc.result i.ids, acc.comp || i.comp, acc.part || p, acc.thres || t⟩ is

/-- outcome of one loop iteration of the `And` arm: early `return` or next candidate -/
inductive Step where
  | ret (r : IdList)
  | cont (c : IdList)

/-- one arm of a `(cand_idl, inter)` table, with `f_rem_count = rem` -/
def applyArm (arm : Arm) (thres rem : Nat) (c i : IdList) : Step :=
  let r := arm.op.apply c i
  if arm.thresRet && belowThreshold r.1 r.2 thres && decide (rem > 0) then .ret ⟨.thres, r.1, r.2⟩
  else if arm.emptyRet && r.1.isEmpty then .ret ⟨.idxd, [], false⟩
  else .cont ⟨arm.out, r.1, r.2⟩

/-- the check on the first candidate (l.390–406) -/
def firstCheck (thres rem : Nat) (c : IdList) : Step :=
  match c.kind with
  | .allIds => .cont c
  | _ =>
    if belowThreshold c.ids c.comp thres && decide (rem > 0) then .ret ⟨.thres, c.ids, c.comp⟩
    else if c.ids.isEmpty then .ret ⟨.idxd, [], false⟩
    else .cont c

/-- `for f in f_rem_iter` (l.409–465) -/
def andPosLoop (thres : Nat) : IdList → Nat → List IdList → Step × Nat
  | c, rem, [] => (.cont c, rem)
  | c, rem, i :: is =>
    let rem := rem - 1
    match applyArm (andArm c.kind i.kind) thres rem c i with
    | .ret r => (.ret r, rem)
    | .cont c' => andPosLoop thres c' rem is

/-- `let inter = match inter { Partial(_) => Partial(∅), PartialThreshold(_) => … }` (l.482) -/
def notPre (i : IdList) : IdList :=
  match notPreKind i.kind with
  | some k => ⟨k, [], false⟩
  | none => i

/-- `for f in f_andnot.iter()` (l.469–543) -/
def andNegLoop (thres : Nat) : IdList → Nat → List IdList → IdList
  | c, _, [] => c
  | c, rem, i :: is =>
    let rem := rem - 1
    let i := notPre i
    match applyArm (notArm c.kind i.kind) thres rem c i with
    | .ret r => r
    | .cont c' => andNegLoop thres c' rem is

/-- the `And` arm (l.359–557) on the id lists of the positive terms (`f_rem`, in order) and of the
inner filters of the `AndNot` terms (`f_andnot`, in order) -/
def andCombine (thres : Nat) (pos neg : List IdList) : IdList :=
  match pos with
  | [] => ⟨.idxd, [], false⟩
  | c :: ps =>
    let rem := (c :: ps).length + neg.length - 1
    match firstCheck thres rem c with
    | .ret r => r
    | .cont c =>
      match andPosLoop thres c rem ps with
      | (.ret r, _) => r
      | (.cont c, rem) => andNegLoop thres c rem neg

/-- the `Inclusion` arm (l.558–595) -/
def incLoop : List Nat × Bool → List IdList → IdList
  | res, [] => ⟨.idxd, res.1, res.2⟩
  | res, i :: is =>
    match i.kind with
    | .idxd =>
      if i.ids.isEmpty then ⟨.idxd, [], false⟩ else incLoop (unionL res.1 i.ids, res.2 || i.comp) is
    | _ => ⟨.part, [], false⟩

/-! ### `filter2idl` -/

/-- the `Eq` arm (l.246) -/
def idlEq (idx : Idx) (rep : Rep) (a : Nat) (v : Val) (s : Option Nat) : IdList :=
  if s.isSome then
    match idx a .equality v with
    | some l => ⟨.idxd, l, rep a .equality v⟩
    | none => ⟨.allIds, [], false⟩
  else ⟨.allIds, [], false⟩

/-- the `Stw | Enw | Cnt` arm (l.266) -/
def idlSubTerm (idx : Idx) (rep : Rep) (a : Nat) (v : Val) (s : Option Nat) : IdList :=
  match s.isSome, subKey v with
  | true, some key => idlSub idx rep a key
  | _, _ => ⟨.allIds, [], false⟩

/-- the `Pres` arm (l.278) -/
def idlPres (idx : Idx) (rep : Rep) (a : Nat) (s : Option Nat) : IdList :=
  if s.isSome then
    match idx a .presence presKey with
    | some l => ⟨.idxd, l, rep a .presence presKey⟩
    | none => ⟨.allIds, [], false⟩
  else ⟨.allIds, [], false⟩

/-- the `LessThan` arm (l.290): the *presence* index, as a `Partial` set -/
def idlLt (idx : Idx) (rep : Rep) (a : Nat) (s : Option Nat) : IdList :=
  if s.isSome then
    match idx a .presence presKey with
    | some l => ⟨.part, l, rep a .presence presKey⟩
    | none => ⟨.allIds, [], false⟩
  else ⟨.allIds, [], false⟩

mutual
/-- `filter2idl` (l.240). -/
def F.idl (idx : Idx) (rep : Rep) (thres : Nat) : F → IdList
  | .eq a v s => idlEq idx rep a v s
  | .cnt a v s => idlSubTerm idx rep a v s
  | .stw a v s => idlSubTerm idx rep a v s
  | .enw a v s => idlSubTerm idx rep a v s
  | .pres a s => idlPres idx rep a s
  | .lessThan a _ s => idlLt idx rep a s
  | .or l _ => orLoop ⟨[], false, false, false⟩ (F.idlAll idx rep thres l)
  | .and l _ => andCombine thres (F.idlPos idx rep thres l) (F.idlNeg idx rep thres l)
  | .invalid _ => ⟨.idxd, [], false⟩
  | .inclusion l _ => incLoop ([], false) (F.idlAll idx rep thres l)
  | .andnot _ _ => ⟨.idxd, [], false⟩
/-- the id lists of all children, in order -/
def F.idlAll (idx : Idx) (rep : Rep) (thres : Nat) : List F → List IdList
  | [] => []
  | f :: fs => f.idl idx rep thres :: F.idlAll idx rep thres fs
/-- `f_rem`: the id lists of the children that are not `AndNot`, in order -/
def F.idlPos (idx : Idx) (rep : Rep) (thres : Nat) : List F → List IdList
  | [] => []
  | .andnot _ _ :: fs => F.idlPos idx rep thres fs
  | f :: fs => f.idl idx rep thres :: F.idlPos idx rep thres fs
/-- `f_andnot`: the id lists of the inner filters of the `AndNot` children, in order -/
def F.idlNeg (idx : Idx) (rep : Rep) (thres : Nat) : List F → List IdList
  | [] => []
  | .andnot g _ :: fs => g.idl idx rep thres :: F.idlNeg idx rep thres fs
  | _ :: fs => F.idlNeg idx rep thres fs
end

/-! ### `search` and `exists` -/

/-- `Limits` (l.61), the three fields the backend reads -/
structure Limits where
  unindexedAllow : Bool
  maxResults : Nat
  maxFilterTest : Nat

/-- `OperationError::ResourceLimit` — the only error the modelled part can raise -/
inductive SErr where
  | resourceLimit
  deriving DecidableEq, Repr

/-- the stored entries: ids of `id2entry` in ascending order and the entry of each id -/
structure World where
  live : List Nat
  ent : Nat → Entry

/-- `get_identry(&idl)`: every stored entry for `AllIds`, else the stored entries with these ids -/
def getIdentry (w : World) (i : IdList) : List Nat :=
  match i.kind with
  | .allIds => w.live
  | _ => w.live.filter (fun id => i.ids.contains id)

/-- the first `match &idl` of `search` (l.692–722): `true` = no `ResourceLimit` -/
def searchLimitOk (lim : Limits) (i : IdList) : Bool :=
  match i.kind with
  | .allIds => lim.unindexedAllow
  | .part => belowThreshold i.ids i.comp lim.maxFilterTest
  | .thres => true
  | .idxd => belowThreshold i.ids i.comp lim.maxResults

/-- `search` (l.677) with an explicit threshold -/
def searchT (thres : Nat) (S : ValSem) (lim : Limits) (w : World) (idx : Idx) (rep : Rep) (f : F) :
    Except SErr (List Nat) :=
  let i := f.idl idx rep thres
  if !searchLimitOk lim i then .error .resourceLimit else
  let ents := getIdentry w i
  let filtered :=
    if searchRetest i.kind then ents.filter (fun id => f.matches S (w.ent id)) else ents
  if filtered.length > lim.maxResults then .error .resourceLimit else .ok filtered

/-- `search` (l.677): `filter2idl(filt, FILTER_SEARCH_TEST_THRESHOLD)` -/
def search (S : ValSem) (lim : Limits) (w : World) (idx : Idx) (rep : Rep) (f : F) :
    Except SErr (List Nat) :=
  searchT thresSearch S lim w idx rep f

/-- the first `match &idl` of `exists` (l.789–809) -/
def existsLimitOk (lim : Limits) (i : IdList) : Bool :=
  match i.kind with
  | .allIds => lim.unindexedAllow
  | .part => belowThreshold i.ids i.comp lim.maxFilterTest
  | .thres => true
  | .idxd => true

/-- `exists` (l.774) with an explicit threshold -/
def existsT (thres : Nat) (S : ValSem) (lim : Limits) (w : World) (idx : Idx) (rep : Rep) (f : F) :
    Except SErr Bool :=
  let i := f.idl idx rep thres
  if !existsLimitOk lim i then .error .resourceLimit else
  if existsRetest i.kind then
    .ok (!((getIdentry w i).filter (fun id => f.matches S (w.ent id))).isEmpty)
  else .ok (!i.ids.isEmpty)

/-- `exists` (l.774): `filter2idl(filt, FILTER_EXISTS_TEST_THRESHOLD)` -/
def «exists» (S : ValSem) (lim : Limits) (w : World) (idx : Idx) (rep : Rep) (f : F) :
    Except SErr Bool :=
  existsT thresExists S lim w idx rep f

/-! ### which filters the exactness theorem covers -/

/-- a substring needle that yields at least one index key (the empty string yields none and the
`None =>` arm of `filter2idl_sub` answers `Indexed(∅)`) -/
def needleOk : Val → Bool
  | .str [] => false
  | _ => true

mutual
/-- *Safe* filters: no `Inclusion` (internal only, no per-entry meaning), every `AndNot` is a direct
child of an `And` that also has a child that is not an `AndNot` (defect D1 otherwise), an indexed
substring term has a non-empty needle. -/
def F.safe : F → Bool
  | .eq _ _ _ => true
  | .cnt _ v s => s.isNone || needleOk v
  | .stw _ v s => s.isNone || needleOk v
  | .enw _ v s => s.isNone || needleOk v
  | .pres _ _ => true
  | .lessThan _ _ _ => true
  | .or l _ => F.safeAll l
  | .and l _ => F.hasPos l && F.safeAnd l
  | .invalid _ => true
  | .inclusion _ _ => false
  | .andnot _ _ => false
def F.safeAll : List F → Bool
  | [] => true
  | f :: fs => f.safe && F.safeAll fs
/-- children of an `And`: an `AndNot` child needs a safe inner filter -/
def F.safeAnd : List F → Bool
  | [] => true
  | .andnot g _ :: fs => g.safe && F.safeAnd fs
  | f :: fs => f.safe && F.safeAnd fs
/-- `f_rem` is non-empty -/
def F.hasPos : List F → Bool
  | [] => false
  | .andnot _ _ :: fs => F.hasPos fs
  | _ :: _ => true
end

mutual
/-- the filters the property quantifies over: nested And / Or / Not over equality, substring,
presence and ordering terms (no `Inclusion`) -/
def F.plain : F → Bool
  | .or l _ => F.plainAll l
  | .and l _ => F.plainAll l
  | .inclusion _ _ => false
  | .andnot g _ => g.plain
  | _ => true
def F.plainAll : List F → Bool
  | [] => true
  | f :: fs => f.plain && F.plainAll fs
end

/-! ### the reference index -/

/-- the index a reindex builds for layout `cfg` (which (attribute, index type) tables exist) -/
def idxOf (w : World) (cfg : Nat → IType → Bool) : Idx := fun a t k =>
  if cfg a t then
    some (match t with
      | .equality => w.live.filter (fun id => (w.ent id a).contains k)
      | .presence => if k = presKey then w.live.filter (fun id => !(w.ent id a).isEmpty) else []
      | .substring =>
        match k with
        | .str s => w.live.filter (fun id => (w.ent id a).any (fun x => (subKeysOf x).contains s))
        | .num _ => []
      | .ordering => [])
  else none

end Kanidm.Filter
