import KanidmModel.Filter.Match
import KanidmModel.Generated.FilterOrd
/-
Filter rewriting (C02): resolution and optimisation of filters, transcribed from
`/repo/server/lib/src/filter.rs`:

  `PartialEq for FilterResolved` (l.1327) ↦ `F.beq`   — (generated) ignores slopes; `Stw`, `Enw`, `Invalid`
                                                        fall in the `(_, _) => false` arm and are
                                                        never equal to anything, themselves included
  `Ord for FilterResolved::cmp`  (l.1353) ↦ `F.cmp`   — (arms generated) slope first (`Some < None`), then the arm list
  `Vec::dedup`                            ↦ `dedup`   — drops an element `==` to the last retained one
  `sort_unstable` / `sort_unstable_by(|a,b| b.cmp(a))` ↦ two *parameters* `sa sd : List F → List F`
        (the theorems assume only that they return a permutation; the driver instantiates them
        with insertion sorts by `cmp` / reversed `cmp`)
  `fast_optimise`                (l.1656) ↦ `F.fastOptimise`
  `optimise`                     (l.1674) ↦ `F.optimise`
  `resolve_idx`                  (l.1491) ↦ `FC.resolveIdx`
  `resolve_no_idx`               (l.1595) ↦ `FC.resolveNoIdx`
  `from_invalid` (cfg(test))     (l.1405) ↦ `FC.fromInvalid`

and the certificate checker `isOptimiseOf` used by the correspondence harness.
Import-free (core Lean only).
-/
namespace Kanidm.Filter

/-! ### `==` and `cmp` as coded

`F.beq`/`F.beqList` (`impl PartialEq for FilterResolved`, l.1327–1345), `slopeCmp` (the slope part
of `cmp`, l.1359–1364) and `F.kindCmp` (the arm list of `cmp` once the slopes are equal,
l.1373–1394) are **regenerated from the source on every run** by `vtranslate filter-ord-eq`
into `KanidmModel/Generated/FilterOrd.lean`; the frame around them is below. -/

/-- `impl Ord for FilterResolved` (l.1353–1399). -/
def F.cmp (x y : F) : Ordering :=
  match slopeCmp x.slope y.slope with
  | .eq => F.kindCmp x y
  | r => r

/-! ### `Vec::dedup` -/

/-- Scan with the last retained element: `same_bucket(current, previous_retained)` is `current == prev`. -/
def dedupAux (prev : F) : List F → List F
  | [] => []
  | y :: ys => if y.beq prev then dedupAux prev ys else y :: dedupAux y ys

def dedup : List F → List F
  | [] => []
  | x :: xs => x :: dedupAux x xs

/-! ### `fast_optimise` and `optimise` -/

/-- `fast_optimise` (l.1656–1672): only the outermost `Inclusion` / `And` is sorted and de-duplicated. -/
def F.fastOptimise (sa : List F → List F) : F → F
  | .inclusion l _ =>
    let l := dedup (sa l)
    .inclusion l (l.getLast?.bind F.slope)
  | .and l _ =>
    let l := dedup (sa l)
    .and l (l.head?.bind F.slope)
  | v => v

/-- `partition` + `append`: the non-matching children in order, then the children of every
matching child in order. -/
def foldSame (isK : F → Bool) (kids : F → List F) (ol : List F) : List F :=
  ol.filter (fun f => !isK f) ++ (ol.filter isK).flatMap kids

mutual
/-- `optimise` (l.1674–1772). `sa` = `sort_unstable()`, `sd` = `sort_unstable_by(|a, b| b.cmp(a))`.
Note the last arm: an `AndNot` (and every leaf) is cloned as is — its inner filter is *not* optimised. -/
def F.optimise (sa sd : List F → List F) : F → F
  | .inclusion l _ =>
    let new := foldSame F.isInclusion F.incChildren (F.optimiseList sa sd l)
    let new := dedup (sa new)
    .inclusion new (new.getLast?.bind F.slope)
  | .and l _ =>
    let new := foldSame F.isAnd F.andChildren (F.optimiseList sa sd l)
    match new with
    | [x] => x
    | _ =>
      let new := dedup (sa new)
      .and new (new.head?.bind F.slope)
  | .or l _ =>
    let new := foldSame F.isOr F.orChildren (F.optimiseList sa sd l)
    match new with
    | [x] => x
    | _ =>
      let new := dedup (sd new)
      .or new (new.getLast?.bind F.slope)
  | f => f
/-- `f_list.iter().map(|f_ref| f_ref.optimise())` -/
def F.optimiseList (sa sd : List F → List F) : List F → List F
  | [] => []
  | f :: fs => f.optimise sa sd :: F.optimiseList sa sd fs
end

/-! ### Resolution -/

/-- `NonZeroU8::new`. -/
def nonZero : Nat → Option Nat
  | 0 => none
  | n + 1 => some (n + 1)

/-- `idxmeta.get(&IdxKeyRef::new(a, itype)).copied().and_then(NonZeroU8::new)`. -/
def idxSlope (m : Nat → IType → Option Nat) (a : Nat) (t : IType) : Option Nat :=
  (m a t).bind nonZero

/-- Constants of the attribute numbering: the atoms of `Attribute::Uuid` and `Attribute::Name`. -/
structure AttrConsts where
  uuidA : Nat
  nameA : Nat

mutual
/-- `resolve_idx` (l.1491–1593). `self` is `ev.get_uuid()` as a value. -/
def FC.resolveIdx (c : AttrConsts) (self : Val) (m : Nat → IType → Option Nat) : FC → Option F
  | .eq a v => some (.eq a v (idxSlope m a .equality))
  | .selfUuid => some (.eq c.uuidA self (idxSlope m c.uuidA .equality))
  | .cnt a v => some (.cnt a v (idxSlope m a .substring))
  | .stw a v => some (.stw a v (idxSlope m a .substring))
  | .enw a v => some (.enw a v (idxSlope m a .substring))
  | .pres a => some (.pres a (idxSlope m a .presence))
  | .lessThan a v => some (.lessThan a v (idxSlope m a .ordering))
  | .or l => (FC.resolveIdxList c self m l).map (fun fi => .or fi none)
  | .and l => (FC.resolveIdxList c self m l).map (fun fi => .and fi none)
  | .inclusion l => (FC.resolveIdxList c self m l).map (fun fi => .inclusion fi none)
  | .andnot f => (FC.resolveIdx c self m f).map (fun fi => .andnot fi none)
  | .invalid a => some (.invalid a)
/-- `vs.into_iter().map(|f| resolve_idx(f, ev, idxmeta)).collect::<Option<Vec<_>>>()` -/
def FC.resolveIdxList (c : AttrConsts) (self : Val) (m : Nat → IType → Option Nat) :
    List FC → Option (List F)
  | [] => some []
  | f :: fs =>
    match FC.resolveIdx c self m f, FC.resolveIdxList c self m fs with
    | some g, some gs => some (g :: gs)
    | _, _ => none
end

mutual
/-- `resolve_no_idx` (l.1595–1653): only `name` / `uuid` equality gets a slope (1). -/
def FC.resolveNoIdx (c : AttrConsts) (self : Val) : FC → Option F
  | .eq a v => some (.eq a v (nonZero (if a == c.nameA || a == c.uuidA then 1 else 0)))
  | .selfUuid => some (.eq c.uuidA self (nonZero 1))
  | .cnt a v => some (.cnt a v none)
  | .stw a v => some (.stw a v none)
  | .enw a v => some (.enw a v none)
  | .pres a => some (.pres a none)
  | .lessThan a v => some (.lessThan a v none)
  | .or l => (FC.resolveNoIdxList c self l).map (fun fi => .or fi none)
  | .and l => (FC.resolveNoIdxList c self l).map (fun fi => .and fi none)
  | .inclusion l => (FC.resolveNoIdxList c self l).map (fun fi => .inclusion fi none)
  | .andnot f => (FC.resolveNoIdx c self f).map (fun fi => .andnot fi none)
  | .invalid a => some (.invalid a)
def FC.resolveNoIdxList (c : AttrConsts) (self : Val) : List FC → Option (List F)
  | [] => some []
  | f :: fs =>
    match FC.resolveNoIdx c self f, FC.resolveNoIdxList c self fs with
    | some g, some gs => some (g :: gs)
    | _, _ => none
end

mutual
/-- `from_invalid` (l.1405–1467, `cfg(test)`): slope `NonZeroU8::new(contains as u8)`;
`SelfUuid` panics (modelled as `none`). -/
def FC.fromInvalid (m : Nat → IType → Bool) : FC → Option F
  | .eq a v => some (.eq a v (nonZero (if m a .equality then 1 else 0)))
  | .selfUuid => none
  | .invalid a => some (.invalid a)
  | .cnt a v => some (.cnt a v (nonZero (if m a .substring then 1 else 0)))
  | .stw a v => some (.stw a v (nonZero (if m a .substring then 1 else 0)))
  | .enw a v => some (.enw a v (nonZero (if m a .substring then 1 else 0)))
  | .pres a => some (.pres a (nonZero (if m a .presence then 1 else 0)))
  | .lessThan a v => some (.lessThan a v (nonZero (if m a .ordering then 1 else 0)))
  | .or l => (FC.fromInvalidList m l).map (fun fi => .or fi none)
  | .and l => (FC.fromInvalidList m l).map (fun fi => .and fi none)
  | .inclusion l => (FC.fromInvalidList m l).map (fun fi => .inclusion fi none)
  | .andnot f => (FC.fromInvalid m f).map (fun fi => .andnot fi none)
def FC.fromInvalidList (m : Nat → IType → Bool) : List FC → Option (List F)
  | [] => some []
  | f :: fs =>
    match FC.fromInvalid m f, FC.fromInvalidList m fs with
    | some g, some gs => some (g :: gs)
    | _, _ => none
end

/-! ### Concrete sorts run by the driver (stable insertion sorts) -/

def insertBy (le : F → F → Bool) (x : F) : List F → List F
  | [] => [x]
  | y :: ys => if le x y then x :: y :: ys else y :: insertBy le x ys

def isortBy (le : F → F → Bool) (l : List F) : List F := l.foldr (insertBy le) []

/-- `sort_unstable()` realised as a stable sort by `cmp`. -/
def sortAsc : List F → List F := isortBy (fun x y => x.cmp y != .gt)
/-- `sort_unstable_by(|a, b| b.cmp(a))` realised as a stable sort by the reversed `cmp`. -/
def sortDesc : List F → List F := isortBy (fun x y => y.cmp x != .gt)

/-! ### Certificate checker

`isOptimiseOf f g` accepts `g` as a rewriting of `f` when the model's own optimiser, iterated to
its fixpoint, brings both to forms that agree up to the *set* of children of every And / Or /
Inclusion (slopes, order and multiplicity of children are ignored — none of them can change a
match result). Iteration is needed because one pass is not idempotent: `And[x, x]` becomes `And[x]`
(the length test precedes `dedup`), which only a second pass unwraps to `x`. The check therefore
accepts every output of an unstable sort, of `optimise` as well as of `fast_optimise`, and
behaviour-preserving refactors of the term order; `isOptimiseOf_sound` (KanidmProofs/C02.lean)
turns an accepted pair into a proved instance of "rewriting preserves meaning". -/

mutual
def F.size : F → Nat
  | .or l _ | .and l _ | .inclusion l _ => 1 + F.sizeList l
  | .andnot f _ => 1 + f.size
  | _ => 1
def F.sizeList : List F → Nat
  | [] => 0
  | f :: fs => f.size + F.sizeList fs
end

/-- Iterate the optimiser until a pass no longer removes a node (every effective flatten / unwrap /
dedup does), at most `fuel` times. -/
def optIter : Nat → F → F
  | 0, f => f
  | n + 1, f =>
    let g := f.optimise sortAsc sortDesc
    if g.size == f.size then g else optIter n g

def optFix (f : F) : F := optIter f.size f

mutual
/-- Same term up to slopes and up to set-equality of child lists. -/
def F.equiv : F → F → Bool
  | .eq a1 v1 _, .eq a2 v2 _ => a1 == a2 && v1 == v2
  | .cnt a1 v1 _, .cnt a2 v2 _ => a1 == a2 && v1 == v2
  | .stw a1 v1 _, .stw a2 v2 _ => a1 == a2 && v1 == v2
  | .enw a1 v1 _, .enw a2 v2 _ => a1 == a2 && v1 == v2
  | .pres a1 _, .pres a2 _ => a1 == a2
  | .lessThan a1 v1 _, .lessThan a2 v2 _ => a1 == a2 && v1 == v2
  | .or l1 _, .or l2 _ => F.subEquiv l1 l2 && l2.all (fun y => F.anyEquiv l1 y)
  | .and l1 _, .and l2 _ => F.subEquiv l1 l2 && l2.all (fun y => F.anyEquiv l1 y)
  | .invalid a1, .invalid a2 => a1 == a2
  | .inclusion l1 _, .inclusion l2 _ => F.subEquiv l1 l2 && l2.all (fun y => F.anyEquiv l1 y)
  | .andnot f1 _, .andnot f2 _ => F.equiv f1 f2
  | _, _ => false
/-- every element of the first list has an equivalent in the second -/
def F.subEquiv : List F → List F → Bool
  | [], _ => true
  | x :: xs, l2 => l2.any (fun y => F.equiv x y) && F.subEquiv xs l2
/-- some element of the list is equivalent to `y` -/
def F.anyEquiv : List F → F → Bool
  | [], _ => false
  | x :: xs, y => F.equiv x y || F.anyEquiv xs y
end

/-- Certificate check: `g` is an acceptable rewriting of `f`. -/
def isOptimiseOf (f g : F) : Bool :=
  (optFix f).equiv (optFix g)

end Kanidm.Filter
