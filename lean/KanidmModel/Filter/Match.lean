import KanidmModel.Filter.Syntax
/-
Shared filter model, part 2: what a filter means on one entry.

Transcribes `Entry::entry_match_no_index_inner` (`/repo/server/lib/src/entry.rs` l.3040–3063) arm
by arm, together with the `attribute_*` helpers it calls (l.2961–3024):

  Eq        → `attribute_equality`  = the attribute's value set `contains` the value
  Cnt/Stw/Enw → `attribute_substring/startswith/endswith` = `any` stored value `contains /
                starts_with / ends_with` the needle (valueset/iutf8.rs l.91–119; `false` for
                syntaxes without substrings, e.g. valueset/uint32.rs l.90–100)
  Pres      → `attribute_pres`      = the attribute key is present
  LessThan  → `attribute_lessthan`  = `any` stored value `<` the bound (valueset/uint32.rs l.102;
                `false` for non-orderable syntaxes, valueset/iutf8.rs l.121)
  Or / And  → `any` / `all` over the children (an empty Or is false, an empty And is true)
  Inclusion → `false` ("An inclusion doesn't make sense on an entry in isolation")
  AndNot    → plain negation of the inner filter
  Invalid   → `false`

`Entry := attr ↦ list of values`; an attribute is present iff its list is non-empty (kanidm never
stores an empty value set — `Entry::pop_ava`/`purge_ava` remove the key; modelling assumption).

The four per-value relations are a parameter (`ValSem`), so the theorems of C02 hold for *any*
syntax-specific comparison; `ValSem.std` is the instance for the two modelled value families that
the drivers execute.
-/
namespace Kanidm.Filter

/-- An entry: attribute ↦ its values (`[]` = attribute absent). -/
def Entry : Type := Nat → List Val

/-- Entry from an association list (later bindings of the same attribute are ignored). -/
def Entry.ofList (l : List (Nat × List Val)) : Entry :=
  fun a => match l.find? (fun p => p.1 == a) with
    | some p => p.2
    | none => []

/-- Per-value comparisons `stored → needle → Bool` used by Cnt / Stw / Enw / LessThan. -/
structure ValSem where
  sub : Val → Val → Bool
  stw : Val → Val → Bool
  enw : Val → Val → Bool
  lt : Val → Val → Bool

/-- `xs` occurs as a contiguous infix of `ys` (Rust `str::contains`). -/
def isInfix (xs : List Nat) : List Nat → Bool
  | [] => xs.isEmpty
  | y :: ys => xs.isPrefixOf (y :: ys) || isInfix xs ys

/-- String-like values support substrings and are not orderable; numbers the converse;
a needle of the wrong family never matches. -/
def ValSem.std : ValSem where
  sub := fun x v => match x, v with | .str x, .str v => isInfix v x | _, _ => false
  stw := fun x v => match x, v with | .str x, .str v => v.isPrefixOf x | _, _ => false
  enw := fun x v => match x, v with | .str x, .str v => v.isSuffixOf x | _, _ => false
  lt := fun x v => match x, v with | .num x, .num v => decide (x < v) | _, _ => false

mutual
/-- `entry_match_no_index_inner` (entry.rs l.3040). -/
def F.matches (S : ValSem) (e : Entry) : F → Bool
  | .eq a v _ => (e a).contains v
  | .cnt a v _ => (e a).any (fun x => S.sub x v)
  | .stw a v _ => (e a).any (fun x => S.stw x v)
  | .enw a v _ => (e a).any (fun x => S.enw x v)
  | .pres a _ => !(e a).isEmpty
  | .lessThan a v _ => (e a).any (fun x => S.lt x v)
  | .or l _ => F.matchesAny S e l
  | .and l _ => F.matchesAll S e l
  | .invalid _ => false
  | .inclusion _ _ => false
  | .andnot f _ => !(f.matches S e)
/-- `l.iter().any(|f| self.entry_match_no_index_inner(f))` -/
def F.matchesAny (S : ValSem) (e : Entry) : List F → Bool
  | [] => false
  | f :: fs => f.matches S e || F.matchesAny S e fs
/-- `l.iter().all(|f| self.entry_match_no_index_inner(f))` -/
def F.matchesAll (S : ValSem) (e : Entry) : List F → Bool
  | [] => true
  | f :: fs => f.matches S e && F.matchesAll S e fs
end

theorem F.matchesAny_eq (S : ValSem) (e : Entry) (l : List F) :
    F.matchesAny S e l = l.any (fun f => f.matches S e) := by
  induction l with
  | nil => rfl
  | cons x xs ih => simp [F.matchesAny, ih]

theorem F.matchesAll_eq (S : ValSem) (e : Entry) (l : List F) :
    F.matchesAll S e l = l.all (fun f => f.matches S e) := by
  induction l with
  | nil => rfl
  | cons x xs ih => simp [F.matchesAll, ih]

@[simp] theorem F.matches_or (S : ValSem) (e : Entry) (l : List F) (s : Option Nat) :
    (F.or l s).matches S e = l.any (fun f => f.matches S e) := by
  simp [F.matches, F.matchesAny_eq]

@[simp] theorem F.matches_and (S : ValSem) (e : Entry) (l : List F) (s : Option Nat) :
    (F.and l s).matches S e = l.all (fun f => f.matches S e) := by
  simp [F.matches, F.matchesAll_eq]

@[simp] theorem F.matches_inclusion (S : ValSem) (e : Entry) (l : List F) (s : Option Nat) :
    (F.inclusion l s).matches S e = false := by
  simp [F.matches]

@[simp] theorem F.matches_andnot (S : ValSem) (e : Entry) (f : F) (s : Option Nat) :
    (F.andnot f s).matches S e = !(f.matches S e) := by
  simp [F.matches]

@[simp] theorem F.matches_invalid (S : ValSem) (e : Entry) (a : Nat) :
    (F.invalid a).matches S e = false := by
  simp [F.matches]

/-! ### Meaning of an unresolved filter

`FilterComp` has no matcher in the Rust code (only resolved filters are ever evaluated); its
meaning is the obvious reading, with `SelfUuid` = "the entry's uuid attribute contains the
caller's uuid". `uuidA` is the atom of `Attribute::Uuid`, `self` the caller's uuid value. -/

mutual
def FC.matches (S : ValSem) (self : Val) (uuidA : Nat) (e : Entry) : FC → Bool
  | .eq a v => (e a).contains v
  | .cnt a v => (e a).any (fun x => S.sub x v)
  | .stw a v => (e a).any (fun x => S.stw x v)
  | .enw a v => (e a).any (fun x => S.enw x v)
  | .pres a => !(e a).isEmpty
  | .lessThan a v => (e a).any (fun x => S.lt x v)
  | .or l => FC.matchesAny S self uuidA e l
  | .and l => FC.matchesAll S self uuidA e l
  | .inclusion _ => false
  | .andnot f => !(f.matches S self uuidA e)
  | .selfUuid => (e uuidA).contains self
  | .invalid _ => false
def FC.matchesAny (S : ValSem) (self : Val) (uuidA : Nat) (e : Entry) : List FC → Bool
  | [] => false
  | f :: fs => f.matches S self uuidA e || FC.matchesAny S self uuidA e fs
def FC.matchesAll (S : ValSem) (self : Val) (uuidA : Nat) (e : Entry) : List FC → Bool
  | [] => true
  | f :: fs => f.matches S self uuidA e && FC.matchesAll S self uuidA e fs
end

end Kanidm.Filter
