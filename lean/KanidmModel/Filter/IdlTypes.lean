/-
C01 model, part 0: the vocabulary the generated tables are written in.

`IdList` (`/repo/server/lib/src/be/mod.rs` l.103) is a kind plus an id set. Id sets (`IDLBitRange`)
are duplicate-free lists of naturals; the three set operations the code uses are `&`, `|` and
`andnot`. `Arm` describes one arm of the two `match (cand_idl, inter)` tables inside
`filter2idl`'s AND branch (l.413 and l.487): which set is computed, whether the arm carries the
`below_threshold(thres) && f_rem_count > 0` early return and the `is_empty()` early return, and
the kind the arm continues with.

Import-free (core Lean only).
-/
namespace Kanidm.Filter

/-- `IdList` discriminant. -/
inductive Kind where
  | allIds | part | thres | idxd
  deriving DecidableEq, Repr, Inhabited

/-- `IdList`: for `allIds` the id list is unused (kept `[]`). -/
structure IdList where
  kind : Kind
  ids : List Nat
  deriving DecidableEq, Repr, Inhabited

/-- `ia & ib` -/
def interL (a b : List Nat) : List Nat := a.filter (fun x => b.contains x)
/-- `ia.andnot(ib)` -/
def diffL (a b : List Nat) : List Nat := a.filter (fun x => !b.contains x)
/-- `ia | ib` -/
def unionL (a b : List Nat) : List Nat := a ++ b.filter (fun x => !a.contains x)

/-- The set expression of an arm. `bound` = the single id set bound by a pattern whose other side
is `AllIds`; `none` = the arm builds no set (`=> IdList::AllIds`). -/
inductive SetOp where
  | inter | union | diff | diffRev | bound | none
  deriving DecidableEq, Repr, Inhabited

def SetOp.apply (op : SetOp) (c i : IdList) : List Nat :=
  match op with
  | .inter => interL c.ids i.ids
  | .union => unionL c.ids i.ids
  | .diff => diffL c.ids i.ids
  | .diffRev => diffL i.ids c.ids
  | .bound => if c.kind = .allIds then i.ids else c.ids
  | .none => []

/-- One arm of a `match (cand_idl, inter)` table. -/
structure Arm where
  op : SetOp
  /-- kind of the `else` branch / of the plain arm -/
  out : Kind
  /-- `if r.below_threshold(thres) && f_rem_count > 0 { return PartialThreshold(r) }` present -/
  thresRet : Bool
  /-- `else if r.is_empty() { return Indexed(∅) }` present -/
  emptyRet : Bool
  deriving DecidableEq, Repr, Inhabited

end Kanidm.Filter
