/-
C01 model, part 0: the vocabulary the generated tables are written in.

`IdList` (`/repo/server/lib/src/be/mod.rs` l.103) is a kind plus an id set. Id sets (`IDLBitRange`)
are duplicate-free lists of naturals; the three set operations the code uses are `&`, `|` and
`andnot`. `Arm` describes one arm of the two `match (cand_idl, inter)` tables inside
`filter2idl`'s AND branch (l.413 and l.487): which set is computed, whether the arm carries the
`below_threshold(thres) && f_rem_count > 0` early return and the `is_empty()` early return, and
the kind the arm continues with.

Import-free (core Lean only).
-/
namespace Kanidm.Filter

/-- `IdList` discriminant. -/
inductive Kind where
  | allIds | part | thres | idxd
  deriving DecidableEq, Repr, Inhabited

/-- `IdList`: for `allIds` the id list is unused (kept `[]`). `comp` is the representation of the
`IDLBitRange` (`is_compressed()`): it never changes which ids are in the set, but
`below_threshold` answers `true` for an *empty compressed* set whatever the threshold. -/
structure IdList where
  kind : Kind
  ids : List Nat
  comp : Bool
  deriving DecidableEq, Repr, Inhabited

/-- `IDLBitRange::below_threshold` (idlset 0.2.5 `v2.rs` l.288): sparse = `len < t`; compressed =
no prefix of ranges reaches `t` ids, which is also true for a compressed set without ranges. -/
def belowThreshold (ids : List Nat) (comp : Bool) (t : Nat) : Bool :=
  decide (ids.length < t) || (comp && ids.isEmpty)

/-- `ia & ib` -/
def interL (a b : List Nat) : List Nat := a.filter (fun x => b.contains x)
/-- `ia.andnot(ib)` -/
def diffL (a b : List Nat) : List Nat := a.filter (fun x => !b.contains x)
/-- `ia | ib` -/
def unionL (a b : List Nat) : List Nat := a ++ b.filter (fun x => !a.contains x)

/-- The set expression of an arm. `bound` = the single id set bound by a pattern whose other side
is `AllIds`; `none` = the arm builds no set (`=> IdList::AllIds`). -/
inductive SetOp where
  | inter | union | diff | diffRev | bound | none
  deriving DecidableEq, Repr, Inhabited

/-- The set an arm computes and its representation (idlset 0.2.5: `&` is compressed iff both
operands are and the result is non-empty; `|` iff either operand is; `andnot` iff its left
operand is; `IDLBitRange::new()` is sparse). -/
def SetOp.apply (op : SetOp) (c i : IdList) : List Nat × Bool :=
  match op with
  | .inter => (interL c.ids i.ids, c.comp && i.comp && !(interL c.ids i.ids).isEmpty)
  | .union => (unionL c.ids i.ids, c.comp || i.comp)
  | .diff => (diffL c.ids i.ids, c.comp)
  | .diffRev => (diffL i.ids c.ids, i.comp)
  | .bound => if c.kind = .allIds then (i.ids, i.comp) else (c.ids, c.comp)
  | .none => ([], false)

/-- One arm of a `match (cand_idl, inter)` table. -/
structure Arm where
  op : SetOp
  /-- kind of the `else` branch / of the plain arm -/
  out : Kind
  /-- `if r.below_threshold(thres) && f_rem_count > 0 { return PartialThreshold(r) }` present -/
  thresRet : Bool
  /-- `else if r.is_empty() { return Indexed(∅) }` present -/
  emptyRet : Bool
  deriving DecidableEq, Repr, Inhabited

end Kanidm.Filter
