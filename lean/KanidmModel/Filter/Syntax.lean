/-
Shared filter model, part 1: syntax.

Transcribes the data types of `/repo/server/lib/src/filter.rs`:
  * `FilterComp`     (l.141)  ↦ `FC`  — the validated, not yet resolved filter (has `SelfUuid`)
  * `FilterResolved` (l.234)  ↦ `F`   — the resolved filter; every term except `Invalid` carries an
                                         optional index slope (`Option<NonZeroU8>` ↦ `Option Nat`)
  * `IndexType`               ↦ `IType`
  * `get_slopeyness_factor` (l.1779) ↦ `F.slope`

Atoms: attributes are naturals (the harness numbers the real `Attribute`s in their `Ord` order),
values are `Val`: a string over a `Nat` alphabet (substring-capable syntaxes: Iutf8, Iname, Utf8 …)
or an orderable number (Uint32, Uuid …). `Val.cmp` is the derived `Ord` of `PartialValue` restricted
to those two families (variant order first, then content: byte-lexicographic / numeric).

Import-free (core Lean only). Reused by C01 / C02 / C18 / C41.
-/
namespace Kanidm.Filter

/-- A (partial) value: `str` = string-like syntaxes, `num` = orderable syntaxes. -/
inductive Val where
  | str (s : List Nat)
  | num (n : Nat)
  deriving DecidableEq, Repr, Inhabited

/-- Lexicographic order on strings (Rust `str::cmp`: bytewise, a proper prefix is smaller). -/
def cmpNatList : List Nat → List Nat → Ordering
  | [], [] => .eq
  | [], _ :: _ => .lt
  | _ :: _, [] => .gt
  | x :: xs, y :: ys =>
    if x < y then .lt else if y < x then .gt else cmpNatList xs ys

/-- `#[derive(Ord)]` on `PartialValue`, restricted to the two modelled families
(string variants are declared before numeric ones). -/
def Val.cmp : Val → Val → Ordering
  | .str a, .str b => cmpNatList a b
  | .str _, .num _ => .lt
  | .num _, .str _ => .gt
  | .num a, .num b => if a < b then .lt else if b < a then .gt else .eq

/-- `IndexType`. -/
inductive IType where
  | equality | substring | presence | ordering
  deriving DecidableEq, Repr, Inhabited

/-- `FilterComp` (filter.rs l.141): validated filter before resolution. -/
inductive FC where
  | eq (a : Nat) (v : Val)
  | cnt (a : Nat) (v : Val)
  | stw (a : Nat) (v : Val)
  | enw (a : Nat) (v : Val)
  | pres (a : Nat)
  | lessThan (a : Nat) (v : Val)
  | or (l : List FC)
  | and (l : List FC)
  | inclusion (l : List FC)
  | andnot (f : FC)
  | selfUuid
  | invalid (a : Nat)
  deriving Repr, Inhabited

/-- `FilterResolved` (filter.rs l.234). Constructor order as in the source. -/
inductive F where
  | eq (a : Nat) (v : Val) (s : Option Nat)
  | cnt (a : Nat) (v : Val) (s : Option Nat)
  | stw (a : Nat) (v : Val) (s : Option Nat)
  | enw (a : Nat) (v : Val) (s : Option Nat)
  | pres (a : Nat) (s : Option Nat)
  | lessThan (a : Nat) (v : Val) (s : Option Nat)
  | or (l : List F) (s : Option Nat)
  | and (l : List F) (s : Option Nat)
  | invalid (a : Nat)
  | inclusion (l : List F) (s : Option Nat)
  | andnot (f : F) (s : Option Nat)
  deriving Repr, Inhabited

/-- `get_slopeyness_factor` (filter.rs l.1779): `Invalid` is hard-coded to slope 1. -/
def F.slope : F → Option Nat
  | .eq _ _ s | .cnt _ _ s | .stw _ _ s | .enw _ _ s | .pres _ s | .lessThan _ _ s
  | .or _ s | .and _ s | .inclusion _ s | .andnot _ s => s
  | .invalid _ => some 1

def F.isAnd : F → Bool | .and _ _ => true | _ => false
def F.isOr : F → Bool | .or _ _ => true | _ => false
def F.isInclusion : F → Bool | .inclusion _ _ => true | _ => false
/-- `is_andnot` (filter.rs l.1774). -/
def F.isAndNot : F → Bool | .andnot _ _ => true | _ => false

/-- The list an `if let FilterResolved::And(mut l, _) = fc { … append(&mut l) }` contributes. -/
def F.andChildren : F → List F | .and l _ => l | _ => []
def F.orChildren : F → List F | .or l _ => l | _ => []
def F.incChildren : F → List F | .inclusion l _ => l | _ => []

/-! ### Induction principles (the derived recursor of a nested inductive is unusable directly) -/

set_option linter.unusedSectionVars false

section
variable {P : F → Prop}
  (heq : ∀ a v s, P (.eq a v s)) (hcnt : ∀ a v s, P (.cnt a v s))
  (hstw : ∀ a v s, P (.stw a v s)) (henw : ∀ a v s, P (.enw a v s))
  (hpres : ∀ a s, P (.pres a s)) (hlt : ∀ a v s, P (.lessThan a v s))
  (hor : ∀ l s, (∀ f ∈ l, P f) → P (.or l s))
  (hand : ∀ l s, (∀ f ∈ l, P f) → P (.and l s))
  (hinv : ∀ a, P (.invalid a))
  (hinc : ∀ l s, (∀ f ∈ l, P f) → P (.inclusion l s))
  (hnot : ∀ f s, P f → P (.andnot f s))
include heq hcnt hstw henw hpres hlt hor hand hinv hinc hnot

mutual
theorem F.ind : ∀ f, P f
  | .eq a v s => heq a v s
  | .cnt a v s => hcnt a v s
  | .stw a v s => hstw a v s
  | .enw a v s => henw a v s
  | .pres a s => hpres a s
  | .lessThan a v s => hlt a v s
  | .or l s => hor l s (F.indList l)
  | .and l s => hand l s (F.indList l)
  | .invalid a => hinv a
  | .inclusion l s => hinc l s (F.indList l)
  | .andnot f s => hnot f s (F.ind f)
theorem F.indList : ∀ (l : List F), ∀ f ∈ l, P f
  | [], _, h => absurd h (List.not_mem_nil)
  | x :: xs, f, h => by
    cases h with
    | head => exact F.ind x
    | tail _ h' => exact F.indList xs f h'
end
end

section
variable {P : FC → Prop}
  (heq : ∀ a v, P (.eq a v)) (hcnt : ∀ a v, P (.cnt a v))
  (hstw : ∀ a v, P (.stw a v)) (henw : ∀ a v, P (.enw a v))
  (hpres : ∀ a, P (.pres a)) (hlt : ∀ a v, P (.lessThan a v))
  (hor : ∀ l, (∀ f ∈ l, P f) → P (.or l))
  (hand : ∀ l, (∀ f ∈ l, P f) → P (.and l))
  (hinc : ∀ l, (∀ f ∈ l, P f) → P (.inclusion l))
  (hnot : ∀ f, P f → P (.andnot f))
  (hself : P .selfUuid)
  (hinv : ∀ a, P (.invalid a))
include heq hcnt hstw henw hpres hlt hor hand hinc hnot hself hinv

mutual
theorem FC.ind : ∀ f, P f
  | .eq a v => heq a v
  | .cnt a v => hcnt a v
  | .stw a v => hstw a v
  | .enw a v => henw a v
  | .pres a => hpres a
  | .lessThan a v => hlt a v
  | .or l => hor l (FC.indList l)
  | .and l => hand l (FC.indList l)
  | .inclusion l => hinc l (FC.indList l)
  | .andnot f => hnot f (FC.ind f)
  | .selfUuid => hself
  | .invalid a => hinv a
theorem FC.indList : ∀ (l : List FC), ∀ f ∈ l, P f
  | [], _, h => absurd h (List.not_mem_nil)
  | x :: xs, f, h => by
    cases h with
    | head => exact FC.ind x
    | tail _ h' => exact FC.indList xs f h'
end
end

end Kanidm.Filter
