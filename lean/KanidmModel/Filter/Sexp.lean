import KanidmModel.Filter.Match
/-
Text form of filters, values and entries for the line-protocol drivers (C01/C02/C18/C41).

  value   V  := `s` dot-separated naturals (string; `s` alone = empty)  |  `n<nat>`
  slope   S  := `-` | <nat>
  F          := (eq A V S) (cnt A V S) (stw A V S) (enw A V S) (pres A S) (lt A V S)
                (or S F*) (and S F*) (inv A) (inc S F*) (not S F)
  FC         := (eq A V) (cnt A V) (stw A V) (enw A V) (pres A) (lt A V)
                (or FC*) (and FC*) (inc FC*) (not FC) (self) (inv A)
  entry      := `-` | a=V+V,a=V…          entries := entry;entry;…

No theorem mentions these functions; they are I/O only.
-/
namespace Kanidm.Filter

inductive Sx where
  | atom (s : String)
  | list (l : List Sx)
  deriving Inhabited

def sxTokens (s : String) : List String :=
  (((s.replace "(" " ( ").replace ")" " ) ").splitOn " ").filter (· ≠ "")

mutual
partial def parseSx : List String → Option (Sx × List String)
  | [] => none
  | "(" :: rest => do
    let (items, rest') ← parseSxList rest
    pure (.list items, rest')
  | ")" :: _ => none
  | t :: rest => some (.atom t, rest)
partial def parseSxList : List String → Option (List Sx × List String)
  | [] => none
  | ")" :: rest => some ([], rest)
  | toks => do
    let (x, rest) ← parseSx toks
    let (xs, rest') ← parseSxList rest
    pure (x :: xs, rest')
end

def parseSxAll (s : String) : Option Sx :=
  match parseSx (sxTokens s) with
  | some (x, []) => some x
  | _ => none

def Val.ofString (s : String) : Option Val :=
  match s.toList with
  | 's' :: rest =>
    let body := String.ofList rest
    if body.isEmpty then some (.str []) else ((body.splitOn ".").mapM String.toNat?).map Val.str
  | 'n' :: rest => (String.ofList rest).toNat?.map .num
  | _ => none

def Val.render : Val → String
  | .str s => "s" ++ ".".intercalate (s.map toString)
  | .num n => "n" ++ toString n

def slopeOfString (s : String) : Option (Option Nat) :=
  if s == "-" then some none else s.toNat?.map some

def renderSlope : Option Nat → String
  | none => "-"
  | some n => toString n

partial def F.ofSx : Sx → Option F
  | .list [.atom "eq", .atom a, .atom v, .atom s] => do
    pure (.eq (← a.toNat?) (← Val.ofString v) (← slopeOfString s))
  | .list [.atom "cnt", .atom a, .atom v, .atom s] => do
    pure (.cnt (← a.toNat?) (← Val.ofString v) (← slopeOfString s))
  | .list [.atom "stw", .atom a, .atom v, .atom s] => do
    pure (.stw (← a.toNat?) (← Val.ofString v) (← slopeOfString s))
  | .list [.atom "enw", .atom a, .atom v, .atom s] => do
    pure (.enw (← a.toNat?) (← Val.ofString v) (← slopeOfString s))
  | .list [.atom "pres", .atom a, .atom s] => do
    pure (.pres (← a.toNat?) (← slopeOfString s))
  | .list [.atom "lt", .atom a, .atom v, .atom s] => do
    pure (.lessThan (← a.toNat?) (← Val.ofString v) (← slopeOfString s))
  | .list (.atom "or" :: .atom s :: rest) => do
    pure (.or (← rest.mapM F.ofSx) (← slopeOfString s))
  | .list (.atom "and" :: .atom s :: rest) => do
    pure (.and (← rest.mapM F.ofSx) (← slopeOfString s))
  | .list [.atom "inv", .atom a] => do pure (.invalid (← a.toNat?))
  | .list (.atom "inc" :: .atom s :: rest) => do
    pure (.inclusion (← rest.mapM F.ofSx) (← slopeOfString s))
  | .list [.atom "not", .atom s, f] => do
    pure (.andnot (← F.ofSx f) (← slopeOfString s))
  | _ => none

partial def FC.ofSx : Sx → Option FC
  | .list [.atom "eq", .atom a, .atom v] => do pure (.eq (← a.toNat?) (← Val.ofString v))
  | .list [.atom "cnt", .atom a, .atom v] => do pure (.cnt (← a.toNat?) (← Val.ofString v))
  | .list [.atom "stw", .atom a, .atom v] => do pure (.stw (← a.toNat?) (← Val.ofString v))
  | .list [.atom "enw", .atom a, .atom v] => do pure (.enw (← a.toNat?) (← Val.ofString v))
  | .list [.atom "pres", .atom a] => do pure (.pres (← a.toNat?))
  | .list [.atom "lt", .atom a, .atom v] => do pure (.lessThan (← a.toNat?) (← Val.ofString v))
  | .list (.atom "or" :: rest) => do pure (.or (← rest.mapM FC.ofSx))
  | .list (.atom "and" :: rest) => do pure (.and (← rest.mapM FC.ofSx))
  | .list (.atom "inc" :: rest) => do pure (.inclusion (← rest.mapM FC.ofSx))
  | .list [.atom "not", f] => do pure (.andnot (← FC.ofSx f))
  | .list [.atom "self"] => some .selfUuid
  | .list [.atom "inv", .atom a] => do pure (.invalid (← a.toNat?))
  | _ => none

def F.parse (s : String) : Option F := (parseSxAll s).bind F.ofSx
def FC.parse (s : String) : Option FC := (parseSxAll s).bind FC.ofSx

partial def F.render : F → String
  | .eq a v s => s!"(eq {a} {v.render} {renderSlope s})"
  | .cnt a v s => s!"(cnt {a} {v.render} {renderSlope s})"
  | .stw a v s => s!"(stw {a} {v.render} {renderSlope s})"
  | .enw a v s => s!"(enw {a} {v.render} {renderSlope s})"
  | .pres a s => s!"(pres {a} {renderSlope s})"
  | .lessThan a v s => s!"(lt {a} {v.render} {renderSlope s})"
  | .or l s => "(or " ++ " ".intercalate (renderSlope s :: l.map F.render) ++ ")"
  | .and l s => "(and " ++ " ".intercalate (renderSlope s :: l.map F.render) ++ ")"
  | .invalid a => s!"(inv {a})"
  | .inclusion l s => "(inc " ++ " ".intercalate (renderSlope s :: l.map F.render) ++ ")"
  | .andnot f s => s!"(not {renderSlope s} {f.render})"

/-- `a=V+V,a=V` / `-`. -/
def Entry.parseAssoc (s : String) : Option (List (Nat × List Val)) :=
  if s == "-" || s == "" then some [] else
  (s.splitOn ",").mapM fun item =>
    match item.splitOn "=" with
    | [a, vs] => do
      let a ← a.toNat?
      let vs ← (vs.splitOn "+").mapM Val.ofString
      pure (a, vs)
    | _ => none

def parseEntries (s : String) : Option (List Entry) :=
  (s.splitOn ";").mapM fun t => (Entry.parseAssoc t).map Entry.ofList

end Kanidm.Filter
