import KanidmModel.Generated.HostAuthzOps
/-
C45 — model of the host-login authorisation decision of the unix resolver
(unix_integration/resolver_common):

* `KanidmProvider::unix_user_authorise`   (idprovider/kanidm.rs)  — `unixUserAuthorise`
* `SystemProvider::authorise`             (idprovider/system.rs)  — `sysAuthorise`
* `Resolver::pam_account_allowed`         (resolver.rs)           — `pamAccountAllowed`
* `Resolver::get_usertoken`, `get_cached_usertoken`, `refresh_usertoken` (resolver.rs) and
  `KanidmProvider::unix_user_get`, `check_online`, `attempt_online` (kanidm.rs) — the part that
  decides *which* account record the decision is taken on (`getUsertoken`).

Strings (group names, hyphenated group uuids, the entries of `pam_allowed_login_groups`,
account ids) are `Nat` atoms: the code only tests them for equality (`BTreeSet` membership /
intersection, `HashMap::contains_key`, SQL `=`); the harness maps atoms to strings injectively.
A group's name and uuid live in the same atom space as the configured names on purpose:
`pam_allow_groups` is one set of strings that both are intersected with.

Time is abstracted to what the code compares: a cache row is `expired` or not
(`current_time >= ex_time`), an nxcache entry is live (its expiry is `timeout_seconds ≥ 60 s` in
the future; the harness never lets that elapse), the provider's `CacheState` is `online`,
`offline` (`Offline` or `OfflineNextCheck(t)` with `t` in the future) or `check`
(`OfflineNextCheck(t)` with `t ≤ now`).

The decision-carrying tokens (empty-list answer, the keys a group contributes, the final
boolean expression, the system short-circuit answers, the no-token answer, the
`UserTokenState → which record` table, the "record is gone" reply table) are not written here:
they come from `Generated/HostAuthzOps.lean`, i.e. from the source as it is now.
-/
namespace Kanidm.HostAuthz
open Kanidm.Gen.HostAuthz

/-- `GroupToken`: the two fields `unix_user_authorise` reads. -/
structure GroupTok where
  name : Nat
  uuid : Nat
deriving DecidableEq, Repr

/-- `UserToken`: `groups`, `valid`, and whether `provider` is one the resolver has a client for
(`client_ids.get(&token.provider)`; tokens fetched from the directory are `ProviderOrigin::Kanidm`). -/
structure UserTok where
  known : Bool
  groups : List GroupTok
  valid : Bool
deriving DecidableEq, Repr

/-! ## `BTreeSet<String>` as duplicate-free lists -/

/-- `collect::<BTreeSet<_>>()` up to order: keep the last copy of every element. -/
def dedup : List Nat → List Nat
  | [] => []
  | x :: xs => if xs.contains x then dedup xs else x :: dedup xs

/-- `token.groups.iter().flat_map(|g| [..keys of g..]).collect::<BTreeSet<_>>()`. -/
def userSet (t : UserTok) : List Nat :=
  dedup (t.groups.flatMap fun g => groupKeys g.name g.uuid)

/-- `user_set.intersection(&inner.pam_allow_groups).count()`; `allow` is the configured list,
`pam_allow_groups` the set collected from it. -/
def intersectionCount (allow : List Nat) (t : UserTok) : Nat :=
  ((userSet t).filter fun x => (dedup allow).contains x).length

/-- `KanidmProvider::unix_user_authorise` (the `Ok` value; the function has no `Err` path). -/
def unixUserAuthorise (allow : List Nat) (t : UserTok) : Option Bool :=
  if emptyGuard (dedup allow).isEmpty then emptyAnswer
  else some (decision (intersectionCount allow t) t.valid)

/-- `SystemProvider::authorise`: `sys` = the account ids of /etc/passwd users loaded into the
system provider. -/
def sysAuthorise (sys : List Nat) (id : Nat) : Option Bool :=
  if sys.contains id then sysKnown else sysUnknown

/-! ## Which record: cache, nxcache, refresh from the directory -/

/-- `CacheState` of the kanidm provider relative to `now`. -/
inductive Net where
  | online
  | offline
  | check
deriving DecidableEq, Repr

/-- `GET /v1/account/{id}/_unix/_token` as classified by the match in `unix_user_get`
(`DirReply` itself is generated: `tok`-less variants in source arm order). A decodable token
carries the group list and the validity flag. -/
inductive Dir where
  | tok (groups : List GroupTok) (valid : Bool)
  | other (r : DirReply)
deriving DecidableEq, Repr

/-- The environment: does the online probe (`whoami`) succeed, and what does the directory
answer for an account id. -/
structure World where
  selfOk : Bool
  dir : Nat → Dir

/-- A row of `account_t`. -/
structure Entry where
  tok : UserTok
  expired : Bool
deriving DecidableEq, Repr

structure St where
  net : Net
  cache : List (Nat × Entry)
  nx : List Nat
deriving DecidableEq, Repr

def St.init : St := { net := .check, cache := [], nx := [] }

def cacheGet (c : List (Nat × Entry)) (id : Nat) : Option Entry :=
  match c.find? (·.1 == id) with
  | some e => some e.2
  | none => none

def cacheErase (c : List (Nat × Entry)) (id : Nat) : List (Nat × Entry) :=
  c.filter (·.1 != id)

def cachePut (c : List (Nat × Entry)) (id : Nat) (e : Entry) : List (Nat × Entry) :=
  (id, e) :: cacheErase c id

/-- `ExpiryState` (`ValidRefresh` behaves as `Valid` for the caller: it only queues a
background refresh). -/
inductive Expiry where
  | valid
  | expired
deriving DecidableEq, Repr

/-- `Resolver::get_cached_usertoken`. -/
def getCached (st : St) (id : Nat) : Expiry × Option UserTok :=
  if st.nx.contains id then (.valid, none)
  else match cacheGet st.cache id with
    | some e => (if e.expired then .expired else .valid, some e.tok)
    | none => (.expired, none)

/-- `KanidmProviderInternal::check_online` + `attempt_online` (bearer token configured: the
probe is `whoami`, which also counts a 401 as an answer). -/
def checkOnline (w : World) : Net → Net × Bool
  | .online => (.online, true)
  | .check => if w.selfOk then (.online, true) else (.offline, false)
  | .offline => (.offline, false)

/-- `KanidmProvider::unix_user_get`. -/
def unixUserGet (w : World) (net : Net) (id : Nat) : Net × TokState × Option UserTok :=
  match checkOnline w net with
  | (net', false) => (net', offlineState, none)
  | (net', true) =>
    match w.dir id with
    | .tok gs v => (net', .update, some { known := true, groups := gs, valid := v })
    | .other r =>
      (match replyNet r with
        | 0 => net'
        | 1 => .offline
        | _ => .check,
       replyState r, none)

/-- `Resolver::refresh_usertoken` (single provider). -/
def refreshUsertoken (w : World) (st : St) (id : Nat) : St × Option UserTok :=
  let cached := (getCached st id).2
  let (net', r, fresh) :=
    match cached with
    | some t =>
      if t.known then unixUserGet w st.net id
      else (st.net, TokState.notFound, none)   -- provider of the cached token is gone
    | none => unixUserGet w st.net id
  match refreshAction r, fresh with
  | .useFresh, some t =>
    ({ net := net', cache := cachePut st.cache id { tok := t, expired := false }, nx := st.nx }, some t)
  | .useFresh, none => ({ st with net := net' }, cached)   -- unreachable: `update` always carries a token
  | .purge, _ =>
    ({ net := net', cache := cacheErase st.cache id, nx := id :: st.nx }, none)
  | .useCached, _ => ({ st with net := net' }, cached)

/-- `Resolver::get_usertoken`. -/
def getUsertoken (w : World) (st : St) (id : Nat) : St × Option UserTok :=
  match getCached st id with
  | (.expired, _) => refreshUsertoken w st id
  | (.valid, item) => (st, item)

/-- `Result<Option<bool>, ()>`. -/
inductive Res where
  | ok (a : Option Bool)
  | err
deriving DecidableEq, Repr

structure Cfg where
  sys : List Nat
  allow : List Nat
deriving DecidableEq, Repr

/-- `Resolver::pam_account_allowed`. -/
def pamAccountAllowed (cfg : Cfg) (w : World) (st : St) (id : Nat) : St × Res :=
  match sysAuthorise cfg.sys id with
  | some answer => (st, .ok (some answer))
  | none =>
    match getUsertoken w st id with
    | (st', some t) =>
      if t.known then (st', .ok (unixUserAuthorise cfg.allow t)) else (st', .err)
    | (st', none) => (st', .ok noTokenAnswer)

/-- `Resolver::invalidate`: every row expires, the nxcache is emptied. -/
def invalidate (st : St) : St :=
  { st with cache := st.cache.map (fun (i, e) => (i, { e with expired := true })), nx := [] }

/-! ## Histories -/

/-- One step of a host's life: the environment changes (`setDir`, `setSelf`), the administrator
or the daemon acts (`invalidate`, `markOffline`, `markNextCheck`, `seed` = a row already in the
cache database when the daemon starts), or PAM asks (`query`). -/
inductive Op where
  | setDir (id : Nat) (d : Dir)
  | setSelf (ok : Bool)
  | invalidate
  | markOffline
  | markNextCheck
  | seed (id : Nat) (e : Entry)
  | query (id : Nat)
deriving DecidableEq, Repr

def World.set (w : World) (id : Nat) (d : Dir) : World :=
  { w with dir := fun i => if i = id then d else w.dir i }

def step (cfg : Cfg) (w : World) (st : St) : Op → World × St × Option Res
  | .setDir id d => (w.set id d, st, none)
  | .setSelf b => ({ w with selfOk := b }, st, none)
  | .invalidate => (w, invalidate st, none)
  | .markOffline => (w, { st with net := .offline }, none)
  | .markNextCheck => (w, { st with net := .check }, none)
  | .seed id e => (w, { st with cache := cachePut st.cache id e }, none)
  | .query id =>
    let (st', r) := pamAccountAllowed cfg w st id
    (w, st', some r)

def Op.subject : Op → Nat
  | .query id => id
  | .setDir id _ => id
  | .seed id _ => id
  | _ => 0

/-- The answers to the `query` steps of a history, in order, each with the account asked about. -/
def run (cfg : Cfg) (w : World) (st : St) : List Op → List (Nat × Res)
  | [] => []
  | op :: rest =>
    match step cfg w st op with
    | (w', st', some r) => (op.subject, r) :: run cfg w' st' rest
    | (w', st', none) => run cfg w' st' rest

end Kanidm.HostAuthz
