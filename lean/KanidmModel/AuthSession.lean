import KanidmModel.Generated.AuthSessionTables
/-
C27 — model of the authentication session state machine
(server/lib/src/idm/authsession/mod.rs, server/lib/src/idm/server.rs `auth`).

What is transcribed (function by function):

* `Account::check_within_valid_time`      → `withinValidTime` (the two comparisons are generated)
* `CredHandler::build_from_password_*`    → `buildPrimary`
* `AuthSession::new`                      → `newSession` (order of builder calls and the
                                            `if handlers.is_empty()` guard are generated)
* `CredHandler::can_proceed/allows_mech/next_auth_state` → generated tables / `nextAuthState`
* `AuthSession::start_session`            → `startSession` (filter, `pop()` = last match)
* `CredHandler::validate_*`               → `validate` (`validate_password_totp`,
  `_backup_code`, `_security_key` are the same text up to the names of the second factor;
  they are one function `validateMfa` here, parametrised by the generated table of the
  `AuthCredential` variants each phase matches)
* `AuthSession::validate_creds`           → `validateCreds`
* `AuthSession::get_credential_uuid`, `end_session` → `credUuid`, `lockedReply`
* `IdmServerAuthTransaction::auth` Begin/Cred arms → `authBegin`, `authCred` (order of
  `start_session`, `get_credential_uuid()?`, soft-lock test, `end_session`)

External verifiers are *inputs* of each step (`Cred` carries the verdicts `Password::verify`,
badlist membership, `Totp::verify` over the account's tokens, `BackupCodes::verify`,
webauthn `finish_*_authentication`, credential-id lookup, `verify_attestation`), as is the
soft-lock verdict `locked` (= `!slock.is_valid()` after `apply_time_step`, C28).
Import-free (core Lean only).
-/
namespace Kanidm.AuthSession
open Kanidm.Gen.AuthSession

/-- `enum CredVerifyState`. -/
inductive VState where
  | init | success | fail
deriving DecidableEq, Repr, Inhabited

/-- Outcome of the OAuth2 client handler's own state machine (not modelled: oracle). -/
inductive ExtOutcome where
  | success | external | denied
deriving DecidableEq, Repr, Inhabited

/-- An `AuthCredential` as the handler sees it: variant + verdicts of the verifiers. -/
inductive Cred where
  | anonymous
  | password (ok badlisted : Bool)
  | totp (ok : Bool)
  | securityKey (ok : Bool)
  | backupCode (ok : Bool)
  /-- `ok`: `finish_*passkey_authentication` succeeded; `idKnown`: the credential id is in
  the handler's map; `attOk`: `verify_attestation` succeeded (attested handler only). -/
  | passkey (ok idKnown attOk : Bool)
  | oauth2 (o : ExtOutcome)
deriving DecidableEq, Repr, Inhabited

def Cred.kind : Cred → CredKind
  | .anonymous => .anonymous
  | .password .. => .password
  | .totp _ => .totp
  | .securityKey _ => .securityKey
  | .backupCode _ => .backupCode
  | .passkey .. => .passkey
  | .oauth2 _ => .oAuth2AuthorisationResponse

/-- The factor was verified (for a password: hash matches *and* not badlisted). -/
def Cred.verified : Cred → Bool
  | .anonymous => true
  | .password ok bad => ok && !bad
  | .totp ok => ok
  | .securityKey ok => ok
  | .backupCode ok => ok
  | .passkey ok idKnown _ => ok && idKnown
  | .oauth2 _ => false

/-- Denial reasons (`&'static str` constants of authsession/mod.rs and server.rs). -/
inductive Reason where
  | badPassword | badTotp | badWebauthn | badAccountPolicy | badBackupCode | badAuthType
  | badCredentials | accountExpired | pwBadlist | invalidCredState | locked | external
deriving DecidableEq, Repr, Inhabited

/-- The message a failed factor is denied with. -/
def Cred.failReason : Cred → Reason
  | .password ok _ => if ok then .pwBadlist else .badPassword
  | .totp _ => .badTotp
  | .securityKey _ => .badWebauthn
  | .backupCode _ => .badBackupCode
  | .passkey .. => .badWebauthn
  | _ => .badAuthType

inductive AuthType where
  | anonymous | password | generatedPassword | passwordTotp | passwordBackupCode
  | passwordSecurityKey | passkey | attestedPasskey | oAuth2Trust
deriving DecidableEq, Repr, Inhabited

/-- `AuthAllowed` (discriminant only). -/
inductive Allowed where
  | anonymous | backupCode | password | totp | securityKey | passkey
deriving DecidableEq, Repr, Inhabited

def allowedOf : CredKind → Option Allowed
  | .anonymous => some .anonymous
  | .password => some .password
  | .totp => some .totp
  | .securityKey => some .securityKey
  | .backupCode => some .backupCode
  | .passkey => some .passkey
  | _ => none

/-- `enum CredHandler` with the verification state each variant carries. -/
inductive Handler where
  | anonymous
  | password (generated : Bool)
  | passwordTotp (mfa pw : VState)
  | passwordBackupCode (mfa pw : VState)
  | passwordSecurityKey (mfa pw : VState)
  | passkey (st : VState)
  | attestedPasskey (st : VState)
  | oAuth2Trust
deriving DecidableEq, Repr, Inhabited

def Handler.kind : Handler → HKind
  | .anonymous => .anonymous
  | .password _ => .password
  | .passwordTotp .. => .passwordTotp
  | .passwordBackupCode .. => .passwordBackupCode
  | .passwordSecurityKey .. => .passwordSecurityKey
  | .passkey _ => .passkey
  | .attestedPasskey _ => .attestedPasskey
  | .oAuth2Trust => .oAuth2Trust

/-- `CredHandler::can_proceed` (table generated from the source). -/
def canProceed (h : HKind) (m : Mech) : Bool := canProceedPairs.contains (h, m)

/-- `enum CredState`. -/
inductive CredState where
  | success (t : AuthType)
  | continue_ (allowed : List Allowed)
  | external
  | denied (r : Reason)
deriving DecidableEq, Repr, Inhabited

/-! ### Accounts and `AuthSession::new` -/

/-- `CredentialType` of the primary credential (what the builders look at). -/
inductive Primary where
  | password
  | generatedPassword
  /-- `PasswordMfa(pw, totp, securitykeys, backup)`: non-empty TOTP map, non-empty
  security-key map (and the webauthn challenge can be created), `Some` backup codes. -/
  | passwordMfa (totp sk bc : Bool)
  | webauthn
deriving DecidableEq, Repr, Inhabited

structure Acct where
  /-- `Account::is_anonymous` -/
  anonymous : Bool := false
  primary : Option Primary := none
  /-- `passkeys` non-empty (and the challenge can be created) -/
  passkeys : Bool := false
  /-- `attested_passkeys` non-empty (and the challenge can be created) -/
  attested : Bool := false
  /-- `account_policy.webauthn_attestation_ca_list()` is `Some` -/
  attCaList : Bool := false
  /-- an OAuth2 client provider is linked and present -/
  oauth2 : Bool := false
  /-- `AccountValidFrom` / `AccountExpire`, nanoseconds since the epoch -/
  validFrom : Option Nat := none
  expire : Option Nat := none
deriving DecidableEq, Repr, Inhabited

/-- `Account::check_within_valid_time`. -/
def withinValidTime (a : Acct) (ct : Nat) : Bool :=
  let vmin := match a.validFrom with
    | some vft => validFromOk vft ct 0
    | none => true
  let vmax := match a.expire with
    | some ext => expireOk 0 ct ext
    | none => true
  vmin && vmax

/-- `CredHandler::build_from_password_totp / _backup_code / _security_key / _only`. -/
def buildPrimary (b : Builder) (p : Primary) : Option Handler :=
  match b, p with
  | .passwordTotp, .passwordMfa totp _ _ => if totp then some (.passwordTotp .init .init) else none
  | .passwordBackupCode, .passwordMfa _ _ bc => if bc then some (.passwordBackupCode .init .init) else none
  | .passwordSecurityKey, .passwordMfa _ sk _ => if sk then some (.passwordSecurityKey .init .init) else none
  | .passwordOnly, .password => some (.password false)
  | .passwordOnly, .generatedPassword => some (.password true)
  | _, _ => none

def isPrimaryBuilder : Builder → Bool
  | .passwordTotp | .passwordBackupCode | .passwordSecurityKey | .passwordOnly => true
  | _ => false

/-- The `if let Some(cred) = &asd.account.primary { … }` block of `new`: the builders are
called in the generated order; one flagged `true` only runs `if handlers.is_empty()`. -/
def primaryHandlers (p : Primary) : List (Builder × Bool) → List Handler → List Handler
  | [], acc => acc
  | (b, onlyIfEmpty) :: rest, acc =>
    if isPrimaryBuilder b then
      if onlyIfEmpty && !acc.isEmpty then primaryHandlers p rest acc
      else match buildPrimary b p with
        | some h => primaryHandlers p rest (acc ++ [h])
        | none => primaryHandlers p rest acc
    else primaryHandlers p rest acc

/-- The handler list of `AuthSession::new` for a non-anonymous account in its window. -/
def accountHandlers (a : Acct) : List Handler :=
  let hs := match a.primary with
    | some p => primaryHandlers p builders []
    | none => []
  -- "Important - if attested is present, don't use passkeys"
  let hs := if a.attCaList then
      (if a.attested then hs ++ [.attestedPasskey .init] else hs)
    else
      (if a.passkeys || a.attested then hs ++ [.passkey .init] else hs)
  if a.oauth2 then hs ++ [.oAuth2Trust] else hs

/-- `enum AuthSessionState`, plus `noSession`: `new` returned `None`, nothing is stored
under the session id (every later step is `InvalidSessionState`). -/
inductive State where
  | noSession
  | init (hs : List Handler)
  | inProgress (h : Handler)
  | success
  | denied (r : Reason)
deriving DecidableEq, Repr, Inhabited

inductive Err where
  | invalidAuthState | au0001InvalidState | invalidSessionState
deriving DecidableEq, Repr, Inhabited

/-- What `auth` returns: `Ok(AuthState)` or `Err`. -/
inductive Reply where
  | choose (ms : List Mech)
  | continue_ (allowed : List Allowed)
  | external
  | denied (r : Reason)
  /-- `AuthState::Success(token, _)`: a token is issued. -/
  | success (t : AuthType)
  | err (e : Err)
deriving DecidableEq, Repr, Inhabited

/-- The handlers `new` builds, or the reason it denies. -/
def newHandlers (a : Acct) (ct : Nat) : Except Reason (List Handler) :=
  if withinValidTime a ct then
    if a.anonymous then .ok [.anonymous]
    else if (accountHandlers a).isEmpty then .error .invalidCredState
    else .ok (accountHandlers a)
  else .error .accountExpired

/-- `AuthSession::new` + the `Init` arm of `auth`. -/
def newSession (a : Acct) (ct : Nat) : State × Reply :=
  match newHandlers a ct with
  | .ok hs => (.init hs, .choose (hs.map fun h => allowsMech h.kind))
  | .error r => (.noSession, .denied r)

/-! ### Steps -/

/-- `CredHandler::next_auth_state`. -/
def nextAuthState : Handler → Reply
  | .anonymous => .continue_ [.anonymous]
  | .password _ => .continue_ [.password]
  | .passwordTotp .. => .continue_ [.totp]
  | .passwordBackupCode .. => .continue_ [.backupCode]
  | .passwordSecurityKey .. => .continue_ [.securityKey]
  | .passkey _ => .continue_ [.passkey]
  | .attestedPasskey _ => .continue_ [.passkey]
  | .oAuth2Trust => .external

/-- `AuthSession::start_session`. -/
def startSession (s : State) (m : Mech) : State × Reply :=
  match s with
  | .init hs =>
    match (hs.filter fun h => canProceed h.kind m).getLast? with
    | some h => (.inProgress h, nextAuthState h)
    | none => (.denied .badCredentials, .denied .badCredentials)
  | s => (s, .err .invalidAuthState)

/-- `AuthSession::get_credential_uuid`: `Ok(Some)` / `Ok(None)` / `Err(AU0001)`. -/
def credUuid : State → Option Bool
  | .inProgress (.password _) => some true
  | .inProgress (.passwordTotp ..) => some true
  | .inProgress (.passwordBackupCode ..) => some true
  | .inProgress _ => some false
  | _ => none

/-- The three `validate_password_{totp,backup_code,security_key}` functions. `k` selects
the generated list of accepted `AuthCredential` variants: phase 0 (`(Init, Init)`) matches
the first, phase 1 (`(Success, Init)`) the second, any other state pair is denied. -/
def validateMfa (k : HKind) (t : AuthType) (mfa pw : VState) (c : Cred) :
    (VState × VState) × CredState :=
  match mfa, pw with
  | .init, .init =>
    if (acceptedCreds k)[0]? = some c.kind then
      if c.verified then
        ((.success, pw), .continue_ (((acceptedCreds k)[1]?.bind allowedOf).toList))
      else ((.fail, pw), .denied c.failReason)
    else ((mfa, pw), .denied .badAuthType)
  | .success, .init =>
    if (acceptedCreds k)[1]? = some c.kind then
      if c.verified then ((mfa, .success), .success t)
      else ((mfa, .fail), .denied c.failReason)
    else ((mfa, pw), .denied .badAuthType)
  | _, _ => ((mfa, pw), .denied .badAuthType)

/-- `validate_passkey` / `validate_attested_passkey`. -/
def validatePasskey (k : HKind) (attested : Bool) (st : VState) (c : Cred) : VState × CredState :=
  if st ≠ .init then (st, .denied .badWebauthn)
  else if (acceptedCreds k)[0]? = some c.kind then
    match c with
    | .passkey ok idKnown attOk =>
      if ok then
        if idKnown then
          if attested && !attOk then (.fail, .denied .badAccountPolicy)
          else (.success, .success (if attested then .attestedPasskey else .passkey))
        else (.fail, .denied .badWebauthn)
      else (.fail, .denied .badWebauthn)
    | _ => (st, .denied .badAuthType)
  else (st, .denied .badAuthType)

/-- `CredHandler::validate`. -/
def validate (h : Handler) (c : Cred) : Handler × CredState :=
  match h with
  | .anonymous =>
    if (acceptedCreds .anonymous)[0]? = some c.kind then (h, .success .anonymous)
    else (h, .denied .badAuthType)
  | .password generated =>
    if (acceptedCreds .password)[0]? = some c.kind then
      if c.verified then (h, .success (if generated then .generatedPassword else .password))
      else (h, .denied c.failReason)
    else (h, .denied .badAuthType)
  | .passwordTotp mfa pw =>
    let r := validateMfa .passwordTotp .passwordTotp mfa pw c
    (.passwordTotp r.1.1 r.1.2, r.2)
  | .passwordBackupCode mfa pw =>
    let r := validateMfa .passwordBackupCode .passwordBackupCode mfa pw c
    (.passwordBackupCode r.1.1 r.1.2, r.2)
  | .passwordSecurityKey mfa pw =>
    let r := validateMfa .passwordSecurityKey .passwordSecurityKey mfa pw c
    (.passwordSecurityKey r.1.1 r.1.2, r.2)
  | .passkey st =>
    let r := validatePasskey .passkey false st c
    (.passkey r.1, r.2)
  | .attestedPasskey st =>
    let r := validatePasskey .attestedPasskey true st c
    (.attestedPasskey r.1, r.2)
  | .oAuth2Trust =>
    match c with
    | .oauth2 .success => (h, .success .oAuth2Trust)
    | .oauth2 .external => (h, .external)
    | .oauth2 .denied => (h, .denied .external)
    | _ => (h, .denied .badAuthType)

/-- `AuthSession::validate_creds`. -/
def validateCreds (s : State) (c : Cred) : State × Reply :=
  match s with
  | .inProgress h =>
    match validate h c with
    | (_, .success t) => (.success, .success t)
    | (h', .continue_ allowed) => (.inProgress h', .continue_ allowed)
    | (h', .external) => (.inProgress h', .external)
    | (_, .denied r) => (.denied r, .denied r)
  | s => (s, .err .invalidAuthState)

/-- A step of a session as `auth` receives it; `locked` is the soft-lock verdict `auth`
would obtain for the handler's credential at this instant. -/
inductive Act where
  | begin (m : Mech)
  | cred (c : Cred)
deriving DecidableEq, Repr, Inhabited

structure Step where
  act : Act
  locked : Bool := false
deriving DecidableEq, Repr, Inhabited

/-- `AuthEventStep::Begin` arm of `auth`. -/
def authBegin (s : State) (m : Mech) (locked : Bool) : State × Reply :=
  match s with
  | .noSession => (s, .err .invalidSessionState)
  | _ =>
    let r := startSession s m
    match credUuid r.1 with
    | none => (r.1, .err .au0001InvalidState)
    | some hasUuid =>
      if hasUuid && locked then (.denied .locked, .denied .locked) else r

/-- `AuthEventStep::Cred` arm of `auth`. -/
def authCred (s : State) (c : Cred) (locked : Bool) : State × Reply :=
  match s with
  | .noSession => (s, .err .invalidSessionState)
  | _ =>
    match credUuid s with
    | none => (s, .err .au0001InvalidState)
    | some hasUuid =>
      if hasUuid && locked then (.denied .locked, .denied .locked) else validateCreds s c

def step (s : State) (st : Step) : State × Reply :=
  match st.act with
  | .begin m => authBegin s m st.locked
  | .cred c => authCred s c st.locked

/-- State after a list of steps. -/
def runState : State → List Step → State
  | s, [] => s
  | s, st :: rest => runState (step s st).1 rest

/-- The replies to a list of steps. -/
def run : State → List Step → List Reply
  | _, [] => []
  | s, st :: rest => (step s st).2 :: run (step s st).1 rest

def Reply.isErr : Reply → Bool
  | .err _ => true
  | _ => false

def Reply.isSuccess : Reply → Bool
  | .success _ => true
  | _ => false

/-- The steps that were *accepted* (did not return an `Err`), in order. -/
def accepted : State → List Step → List Step
  | _, [] => []
  | s, st :: rest =>
    if (step s st).2.isErr then accepted (step s st).1 rest
    else st :: accepted (step s st).1 rest

end Kanidm.AuthSession
