import KanidmModel.Generated.UniqueOps
/-!
# C19 — unique values stay unique: model of attrunique, Base's uuid checks and the replicated
conflict paths

Transcribes (operators / masks / marking rules regenerated into `Generated/UniqueOps.lean`):

* `attrunique::get_cand_attr_set`, `enforce_unique`        (plugins/attrunique.rs:17, :64)
* `Base::pre_create_transform` uuid checks                   (plugins/base.rs:31)
* the create / modify / delete / revive pipelines as far as uuid and unique values go
* `AttrUnique::post_repl_incremental_conflict`               (plugins/attrunique.rs:205)
* `Entry::is_add_conflict`, `Entry::resolve_add_conflict`    (entry.rs:673, :691)

An entry is its uuid, its state (live / recycled / conflict / tombstone) and its (unique
attribute, value) pairs.  One operation = one write transaction; an error leaves the state
unchanged.  Import-free apart from the generated table.
-/
namespace Kanidm.Unique
open Kanidm.Gen

/-- (index of a schema-unique attribute, value) -/
abbrev Key := Nat × Nat

inductive Status where
  | live | recycled | conflict | tombstone
deriving DecidableEq, Repr

structure Entry where
  id : Nat
  st : Status
  keys : List Key
deriving DecidableEq, Repr

/-- `mask_recycled_ts().is_some()`: neither class `recycled` (conflict entries carry it too) nor
`tombstone`. -/
def Entry.isLive (e : Entry) : Bool := e.st == .live

abbrev State := List Entry

inductive ErrKind where
  | empty | exists | unique | noMatch
deriving DecidableEq, Repr

inductive Res where
  | ok (s : State)
  | err (k : ErrKind)
deriving DecidableEq, Repr

/-- No value twice. -/
def nodupB : List Nat → Bool
  | [] => true
  | x :: xs => !xs.contains x && nodupB xs

/-- `get_cand_attr_set`: every (unique attribute, value) of every unmasked candidate, with the
candidate's uuid. -/
def claims (cands : List Entry) : List (Key × Nat) :=
  (cands.filter (fun c => !UniqueOps.candMaskHidesRecycled || c.isLive)).flatMap
    (fun c => c.keys.map (fun k => (k, c.id)))

/-- Is `e` returned by the lookup `attr = v ∧ ¬ uuid = self` for the claim `(k, self)`? -/
def dbHit (k : Key) (self : Nat) (e : Entry) : Bool :=
  (!UniqueOps.dbLookupLiveOnly || e.isLive) &&
  !(UniqueOps.dbLookupExcludesSelf && e.id == self) && e.keys.contains k

/-- `enforce_unique`: `true` = `Ok(())`. -/
def enforceUnique (db cands : List Entry) : Bool :=
  let cl := claims cands
  cl.all (fun c => cl.all (fun c' => !UniqueOps.inRequestDupRejected || c'.1 != c.1 || c'.2 == c.2)) &&
  cl.all (fun c => db.all (fun e => !UniqueOps.dbHitRejected || !dbHit c.1 c.2 e))

/-- The attrunique pre hook as registered in the plugin chain. -/
def uniqueHook (db cands : List Entry) : Bool :=
  !UniqueOps.pluginRegistered || enforceUnique db cands

/-- Base's uuid checks on a create: no uuid twice in the request, none present in the database
in any state. -/
def baseOk (db cands : List Entry) : Bool :=
  (!UniqueOps.baseRejectsRequestDup || nodupB (cands.map (·.id))) &&
  (!UniqueOps.baseRejectsExisting ||
    cands.all (fun c => db.all (fun e => !((UniqueOps.baseLooksAtHidden || e.isLive) && e.id == c.id))))

/-- Replace the values of the listed unique attributes. -/
def setKeys (e : Entry) (sets : List (Nat × List Nat)) : Entry :=
  { e with keys := e.keys.filter (fun k => !sets.any (fun s => s.1 == k.1)) ++
      sets.flatMap (fun s => s.2.map (fun v => (s.1, v))) }

inductive Op where
  /-- `internal_create`; the candidates as they are after the earlier plugins (uuid, unique values) -/
  | create (cands : List Entry)
  /-- `internal_modify` of the live entries with these uuids: purge-and-set of unique attributes -/
  | modify (ids : List Nat) (sets : List (Nat × List Nat))
  | delete (ids : List Nat)
  | revive (ids : List Nat)
deriving DecidableEq, Repr

def create (s : State) (cands : List Entry) : Res :=
  let cands := cands.map (fun c => { c with st := .live })
  if cands.isEmpty then .err .empty
  else if !baseOk s cands then .err .exists
  else if !uniqueHook s cands then .err .unique
  else .ok (s ++ cands)

def modify (s : State) (ids : List Nat) (sets : List (Nat × List Nat)) : Res :=
  let sel := fun (e : Entry) => e.isLive && ids.contains e.id
  if !s.any sel then .ok s
  else if !uniqueHook s ((s.filter sel).map (fun e => setKeys e sets)) then .err .unique
  else .ok (s.map (fun e => if sel e then setKeys e sets else e))

def delete (s : State) (ids : List Nat) : Res :=
  let sel := fun (e : Entry) => e.isLive && ids.contains e.id
  if !s.any sel then .err .noMatch
  else .ok (s.map (fun e => if sel e then { e with st := .recycled } else e))

/-- `revive_recycled`: recycled and conflict entries (both carry class `recycled`) come back
through the pre-modify hooks. -/
def revive (s : State) (ids : List Nat) : Res :=
  let sel := fun (e : Entry) => (e.st == .recycled || e.st == .conflict) && ids.contains e.id
  if !s.any sel then .err .noMatch
  else if UniqueOps.reviveRunsPreModify && !uniqueHook s ((s.filter sel).map (fun e => { e with st := .live })) then .err .unique
  else .ok (s.map (fun e => if sel e then { e with st := .live } else e))

def stepRes (s : State) : Op → Res
  | .create cands => create s cands
  | .modify ids sets => modify s ids sets
  | .delete ids => delete s ids
  | .revive ids => revive s ids

def step (s : State) (op : Op) : State :=
  match stepRes s op with
  | .ok s' => s'
  | .err _ => s

def run (s : State) (ops : List Op) : State := ops.foldl step s

/-! ## replication: value clashes -/

/-- The entries the slow path of `post_repl_incremental_conflict` finds for candidate `c`:
live, another uuid, sharing one of `c`'s unique values. -/
def partners (db : List Entry) (c : Entry) : List Nat :=
  (db.filter (fun e => (!UniqueOps.conflictSearchLiveOnly || e.isLive) &&
      !(UniqueOps.conflictSearchExcludesSelf && e.id == c.id) &&
      c.keys.any (fun k => e.keys.contains k))).map (·.id)

/-- Keys of `conflict_uuid_map`: every unmasked candidate that has a partner, and its partners. -/
def conflictSet (db : List Entry) (candIds : List Nat) : List Nat :=
  (db.filter (fun e => candIds.contains e.id && (!UniqueOps.candMaskHidesRecycled || e.isLive))).flatMap
    (fun c =>
      let ps := partners db c
      if ps.isEmpty then []
      else (if UniqueOps.conflictMarksCandidate then [c.id] else []) ++
           (if UniqueOps.conflictMarksPartners then ps else []))

/-- `post_repl_incremental_conflict` on the database as `incremental_apply` wrote it; `candIds`
= the uuids of the entries that arrived.  Marked entries are live (`internal_search_writeable`
with `filter!`) and get `to_conflict`. -/
def conflictStep (db : List Entry) (candIds : List Nat) : List Entry :=
  let cs := conflictSet db candIds
  db.map (fun e => if cs.contains e.id && e.isLive && UniqueOps.toConflictHides then { e with st := .conflict } else e)

/-! ## replication: the same uuid created twice -/

/-- An entry with its creation change id (`at` in the code, `cat` here; totally ordered; distinct creations have
distinct ids) and the server it was created on. -/
structure AtEntry where
  entry : Entry
  cat : Nat
  origin : Nat
deriving DecidableEq, Repr

/-- `is_add_conflict` + `resolve_add_conflict` on server `self`: the surviving content for this
uuid and whether this server writes the conflict copy of the loser. -/
def resolveAdd (self : Nat) (incoming db : AtEntry) : AtEntry × Bool :=
  if UniqueOps.addConflictWhen incoming.cat db.cat then
    if UniqueOps.incomingLoses incoming.cat db.cat then (db, false)
    else (incoming, if UniqueOps.copyOnlyAtOrigin then db.origin == self else true)
  else (db, false)

/-! ## decidable forms of the invariant (run by the driver on the real server's state) -/

def idsNodupB (s : State) : Bool := nodupB (s.map (·.id))

def keysUniqueB (s : State) : Bool :=
  s.all (fun e1 => s.all (fun e2 => !(e1.isLive && e2.isLive) || e1.id == e2.id ||
    e1.keys.all (fun k => !e2.keys.contains k)))

def uniqB (s : State) : Bool := idsNodupB s && keysUniqueB s

end Kanidm.Unique
