import KanidmModel.Generated.RangeDiffOps
import KanidmModel.Generated.SupplierMap
/-
C10 — model of `ReplicationUpdateVector::range_diff` (server/lib/src/repl/ruv.rs) and of the
decision part of `QueryServerReadTransaction::supplier_provide_changes`
(server/lib/src/repl/supplier.rs), which maps the status to the reply sent to the consumer.

A RUV range map is an association list `server ↦ (tsMin, tsMax)`; the Rust code
uses `BTreeMap<Uuid, ReplCidRange>` so keys are distinct and iteration is in key
order.  The three comparison conditions come from the generated module, i.e. from
the source text as it is now.
-/
namespace Kanidm.RangeDiff
open Kanidm.Gen.RangeDiff

structure Range where
  tsMin : Nat
  tsMax : Nat
deriving DecidableEq, Repr, Inhabited

abbrev Ruv := List (Nat × Range)

def lookup (m : Ruv) (s : Nat) : Option Range :=
  match m with
  | [] => none
  | (k, r) :: rest => if k = s then some r else lookup rest s

inductive Status where
  | ok (diff : Ruv)
  | refresh (lag : Ruv)
  | unwilling (adv : Ruv)
  | critical (lag adv : Ruv)
  | noOverlap
deriving DecidableEq, Repr

structure Acc where
  diff : Ruv := []
  lag : Ruv := []
  adv : Ruv := []
  consumerLagging : Bool := false
  supplierLagging : Bool := false
  overlap : Bool := false
deriving DecidableEq, Repr

/-- Body of the `for (supplier_s_uuid, supplier_cid_range) in supplier_range` loop. -/
def stepOne (consumer : Ruv) (acc : Acc) (e : Nat × Range) : Acc :=
  let s := e.2
  match lookup consumer e.1 with
  | some c =>
    let acc := { acc with overlap := true }
    if cond0 c.tsMin c.tsMax s.tsMin s.tsMax then
      { acc with consumerLagging := true, lag := acc.lag ++ [(e.1, ⟨s.tsMin, c.tsMax⟩)] }
    else if cond1 c.tsMin c.tsMax s.tsMin s.tsMax then
      { acc with supplierLagging := true, adv := acc.adv ++ [(e.1, ⟨s.tsMax, c.tsMin⟩)] }
    else if cond2 c.tsMin c.tsMax s.tsMin s.tsMax then
      { acc with diff := acc.diff ++ [(e.1, ⟨c.tsMax, s.tsMax⟩)] }
    else acc
  | none =>
    { acc with diff := acc.diff ++ [(e.1, ⟨0, s.tsMax⟩)] }

def finish (acc : Acc) : Status :=
  if !acc.overlap then .noOverlap
  else match acc.consumerLagging, acc.supplierLagging with
    | false, false => .ok acc.diff
    | true, false => .refresh acc.lag
    | false, true => .unwilling acc.adv
    | true, true => .critical acc.lag acc.adv

def rangeDiff (consumer supplier : Ruv) : Status :=
  finish (supplier.foldl (stepOne consumer) {})

/-! ### Declarative specification, written from the property text only -/

/-- The two windows of a shared server overlap. -/
def Overlap (c s : Range) : Prop := ¬ (c.tsMax < s.tsMin) ∧ ¬ (s.tsMax < c.tsMin)

/-- Server `k` is shared. -/
def Shared (consumer supplier : Ruv) (k : Nat) : Prop :=
  (lookup consumer k).isSome ∧ (lookup supplier k).isSome

/-- Consumer is lagging on `k`: its newest change is older than the supplier's oldest. -/
def LagOn (consumer supplier : Ruv) (k : Nat) : Prop :=
  ∃ c s, lookup consumer k = some c ∧ lookup supplier k = some s ∧ c.tsMax < s.tsMin

/-- Consumer is advanced on `k`: its oldest change is newer than the supplier's newest. -/
def AdvOn (consumer supplier : Ruv) (k : Nat) : Prop :=
  ∃ c s, lookup consumer k = some c ∧ lookup supplier k = some s ∧
    ¬ (c.tsMax < s.tsMin) ∧ s.tsMax < c.tsMin

/-- What must be supplied for server `k` when replication may proceed. -/
def Needed (consumer supplier : Ruv) (k : Nat) (r : Range) : Prop :=
  ∃ s, lookup supplier k = some s ∧
    ((∃ c, lookup consumer k = some c ∧ c.tsMax < s.tsMax ∧ r = ⟨c.tsMax, s.tsMax⟩) ∨
     (lookup consumer k = none ∧ r = ⟨0, s.tsMax⟩))

/-! ### `supplier_provide_changes`: from the range comparison to the reply

The argument order of the `range_diff` call, the arm-by-arm mapping of the status, the
`ranges.is_empty()` test and the domain test all come from the generated module
`Kanidm.Gen.SupplierMap`, i.e. from supplier.rs as it is now. -/
section Supplier
open Kanidm.Gen.SupplierMap

/-- What `supplier_provide_changes` answers: a unit variant of `ReplIncrementalContext`, or
`V1 { ranges, .. }` carrying the windows whose changes are sent. -/
inductive Decision where
  | reply (r : Reply)
  | supply (ranges : Ruv)
deriving DecidableEq, Repr

def kindOf : Status → Kind
  | .ok _ => .ok
  | .refresh _ => .refresh
  | .unwilling _ => .unwilling
  | .critical _ _ => .critical
  | .noOverlap => .noOverlap

/-- The payload an arm binds.  The last case cannot occur for a table produced by the
translator: it only emits `cont s` for an `s` bound by that very arm's pattern. -/
def payload : Status → Src → Ruv
  | .ok d, .okRanges => d
  | .refresh l, .lagRange => l
  | .unwilling a, .advRange => a
  | .critical l _, .lagRange => l
  | .critical _ a, .advRange => a
  | _, _ => []

/-- After the `match`: `if ranges.is_empty() { return Ok(<reply>) }`, then the changes of
`ranges` are retrieved and `V1 { ranges (anchored), .. }` is returned. -/
def afterMatch (ranges : Ruv) : Decision :=
  match emptyRangesReply with
  | some r => if ranges.isEmpty then .reply r else .supply ranges
  | none => .supply ranges

/-- `let supply_ranges = range_diff(&A, &B); let ranges = match supply_ranges { … }; …`
`consumer` = the request's ranges, `supplier` = `filter_ruv_range(trim_cid)` of the supplier's RUV. -/
def supplierDecide (consumer supplier : Ruv) : Decision :=
  let st := if consumerArgFirst then rangeDiff consumer supplier else rangeDiff supplier consumer
  match supplierMap (kindOf st) with
  | .ret r => .reply r
  | .cont s => afterMatch (payload st s)

/-- The whole function: the domain test comes first. -/
def supplierProvide (sameDomain : Bool) (consumer supplier : Ruv) : Decision :=
  match domainMismatchReply with
  | some r => if !sameDomain then .reply r else supplierDecide consumer supplier
  | none => supplierDecide consumer supplier

def showReply : Reply → String
  | .domainMismatch => "domainmismatch"
  | .noChangesAvailable => "nochanges"
  | .refreshRequired => "refresh"
  | .unwillingToSupply => "unwilling"

end Supplier

/-! ### Executable rendering for the driver -/

def showRuv (m : Ruv) : String :=
  if m.isEmpty then "-" else
  ",".intercalate (m.map fun (k, r) => s!"{k}:{r.tsMin}:{r.tsMax}")

def showStatus : Status → String
  | .ok d => s!"ok {showRuv d}"
  | .refresh l => s!"refresh {showRuv l}"
  | .unwilling a => s!"unwilling {showRuv a}"
  | .critical l a => s!"critical {showRuv l} {showRuv a}"
  | .noOverlap => "nooverlap"

def showDecision : Decision → String
  | .reply r => showReply r
  | .supply d => s!"supply {showRuv d}"

end Kanidm.RangeDiff
