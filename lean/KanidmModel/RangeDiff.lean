import KanidmModel.Generated.RangeDiffOps
/-
C10 — model of `ReplicationUpdateVector::range_diff` (server/lib/src/repl/ruv.rs).

A RUV range map is an association list `server ↦ (tsMin, tsMax)`; the Rust code
uses `BTreeMap<Uuid, ReplCidRange>` so keys are distinct and iteration is in key
order.  The three comparison conditions come from the generated module, i.e. from
the source text as it is now.
-/
namespace Kanidm.RangeDiff
open Kanidm.Gen.RangeDiff

structure Range where
  tsMin : Nat
  tsMax : Nat
deriving DecidableEq, Repr, Inhabited

abbrev Ruv := List (Nat × Range)

def lookup (m : Ruv) (s : Nat) : Option Range :=
  match m with
  | [] => none
  | (k, r) :: rest => if k = s then some r else lookup rest s

inductive Status where
  | ok (diff : Ruv)
  | refresh (lag : Ruv)
  | unwilling (adv : Ruv)
  | critical (lag adv : Ruv)
  | noOverlap
deriving DecidableEq, Repr

structure Acc where
  diff : Ruv := []
  lag : Ruv := []
  adv : Ruv := []
  consumerLagging : Bool := false
  supplierLagging : Bool := false
  overlap : Bool := false
deriving DecidableEq, Repr

/-- Body of the `for (supplier_s_uuid, supplier_cid_range) in supplier_range` loop. -/
def stepOne (consumer : Ruv) (acc : Acc) (e : Nat × Range) : Acc :=
  let s := e.2
  match lookup consumer e.1 with
  | some c =>
    let acc := { acc with overlap := true }
    if cond0 c.tsMin c.tsMax s.tsMin s.tsMax then
      { acc with consumerLagging := true, lag := acc.lag ++ [(e.1, ⟨s.tsMin, c.tsMax⟩)] }
    else if cond1 c.tsMin c.tsMax s.tsMin s.tsMax then
      { acc with supplierLagging := true, adv := acc.adv ++ [(e.1, ⟨s.tsMax, c.tsMin⟩)] }
    else if cond2 c.tsMin c.tsMax s.tsMin s.tsMax then
      { acc with diff := acc.diff ++ [(e.1, ⟨c.tsMax, s.tsMax⟩)] }
    else acc
  | none =>
    { acc with diff := acc.diff ++ [(e.1, ⟨0, s.tsMax⟩)] }

def finish (acc : Acc) : Status :=
  if !acc.overlap then .noOverlap
  else match acc.consumerLagging, acc.supplierLagging with
    | false, false => .ok acc.diff
    | true, false => .refresh acc.lag
    | false, true => .unwilling acc.adv
    | true, true => .critical acc.lag acc.adv

def rangeDiff (consumer supplier : Ruv) : Status :=
  finish (supplier.foldl (stepOne consumer) {})

/-! ### Declarative specification, written from the property text only -/

/-- The two windows of a shared server overlap. -/
def Overlap (c s : Range) : Prop := ¬ (c.tsMax < s.tsMin) ∧ ¬ (s.tsMax < c.tsMin)

/-- Server `k` is shared. -/
def Shared (consumer supplier : Ruv) (k : Nat) : Prop :=
  (lookup consumer k).isSome ∧ (lookup supplier k).isSome

/-- Consumer is lagging on `k`: its newest change is older than the supplier's oldest. -/
def LagOn (consumer supplier : Ruv) (k : Nat) : Prop :=
  ∃ c s, lookup consumer k = some c ∧ lookup supplier k = some s ∧ c.tsMax < s.tsMin

/-- Consumer is advanced on `k`: its oldest change is newer than the supplier's newest. -/
def AdvOn (consumer supplier : Ruv) (k : Nat) : Prop :=
  ∃ c s, lookup consumer k = some c ∧ lookup supplier k = some s ∧
    ¬ (c.tsMax < s.tsMin) ∧ s.tsMax < c.tsMin

/-- What must be supplied for server `k` when replication may proceed. -/
def Needed (consumer supplier : Ruv) (k : Nat) (r : Range) : Prop :=
  ∃ s, lookup supplier k = some s ∧
    ((∃ c, lookup consumer k = some c ∧ c.tsMax < s.tsMax ∧ r = ⟨c.tsMax, s.tsMax⟩) ∨
     (lookup consumer k = none ∧ r = ⟨0, s.tsMax⟩))

/-! ### Executable rendering for the driver -/

def showRuv (m : Ruv) : String :=
  if m.isEmpty then "-" else
  ",".intercalate (m.map fun (k, r) => s!"{k}:{r.tsMin}:{r.tsMax}")

def showStatus : Status → String
  | .ok d => s!"ok {showRuv d}"
  | .refresh l => s!"refresh {showRuv l}"
  | .unwilling a => s!"unwilling {showRuv a}"
  | .critical l a => s!"critical {showRuv l} {showRuv a}"
  | .noOverlap => "nooverlap"

end Kanidm.RangeDiff
