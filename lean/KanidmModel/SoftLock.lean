import KanidmModel.Generated.SoftLockTable
/-!
# Model of `server/lib/src/credential/softlock.rs` (C28)

Transcription, arm by arm, of `CredSoftLockPolicy::failure_next_state`,
`CredSoftLock::{new, apply_time_step, is_valid, record_failure}` and of the way
`idm/server.rs` (`auth` Begin/Cred, `auth_with_unix_pass`) and `idm/reauth.rs` use them.

Time: `std::time::Duration` is modelled as a `Nat` number of **nanoseconds** (the code compares
full `Duration`s, but computes `reset_at` from `ct.as_secs()`, so sub-second parts matter).
`ct.as_secs()` is `/ NS`, `Duration::from_secs n` is `n * NS`.  `u64`/`usize` overflow and the
`% 0` panic of `Totp(0)` are outside the model (see props/C28.json assumptions).

The thresholds, delays, `ONEDAY`, every comparison of `apply_time_step` and the counts of
`record_failure` come from `Generated/SoftLockTable.lean`, regenerated from the source on
every run.
-/
namespace Kanidm.SoftLock
open Kanidm.Gen.SoftLock

/-- Nanoseconds per second. -/
def NS : Nat := 1000000000

/-- `ct.as_secs()` -/
def asSecs (ct : Nat) : Nat := ct / NS
/-- `Duration::from_secs` -/
def fromSecs (s : Nat) : Nat := s * NS

/-- `enum CredSoftLockPolicy` -/
inductive Policy
  | password
  | totp (step : Nat)
  | webauthn
  | unrestricted
  deriving DecidableEq, Repr

/-- `enum LockState` -/
inductive LockState
  | init
  | locked (count resetAt unlockAt : Nat)
  | unlocked (count resetAt : Nat)
  deriving DecidableEq, Repr

/-- `struct CredSoftLock` -/
structure SoftLock where
  state : LockState
  policy : Policy
  lastExpireAt : Nat
  deriving DecidableEq, Repr

/-- The three `let`s of the Password and Totp arms:
`let e = ct.as_secs() + w; let rem = e % w; let reset_at = Duration::from_secs(e - rem);` -/
def windowReset (w ct : Nat) : Nat :=
  let e := asSecs ct + w
  let rem := e % w
  fromSecs (e - rem)

/-- The Password `if count < T { unlock_at: ct + from_secs(D) } else if … else { unlock_at: reset_at }`
chain, interpreted over the generated rows. -/
def rowsUnlock : List (Nat × Nat) → Nat → Nat → Nat → Nat
  | [], _, _, resetAt => resetAt
  | (t, d) :: rest, count, ct, resetAt =>
    if count < t then ct + fromSecs d else rowsUnlock rest count ct resetAt

/-- The policy table (`failure_next_state_inner` when `failure_next_state` is a wrapper, else
`failure_next_state` itself). -/
def failureNextStateInner (p : Policy) (count ct : Nat) : LockState :=
  match p with
  | .password =>
    let resetAt := windowReset oneDay ct
    .locked count resetAt (rowsUnlock passwordRows count ct resetAt)
  | .totp step =>
    let resetAt := windowReset step ct
    if count ≥ totpCap then .locked count resetAt resetAt
    else .locked count resetAt (ct + fromSecs totpDelay)
  | .webauthn => .locked count (ct + fromSecs webauthnReset) (ct + fromSecs webauthnUnlock)
  | .unrestricted => .init

/-- The wrapper's post-processing: `Locked { count, reset_at, unlock_at } if <guard> =>
Locked { count, reset_at: unlock_at, unlock_at }`, `other => other`.  The guard is generated
(`false` when the source has no wrapper). -/
def clamp : LockState → LockState
  | .locked c r u => if clampResets r u then .locked c u u else .locked c r u
  | st => st

/-- `CredSoftLockPolicy::failure_next_state` -/
def failureNextState (p : Policy) (count ct : Nat) : LockState :=
  clamp (failureNextStateInner p count ct)

/-- `CredSoftLock::new` -/
def new (p : Policy) : SoftLock := { state := .init, policy := p, lastExpireAt := 0 }

/-- The `if let Some(expiry) = expire_at { if self.last_expire_at != expiry { … } }` block of the
`Locked` arm: returns the new `last_expire_at` and the (possibly bounded) `reset_at`. -/
def boundReset (last resetAt : Nat) : Option Nat → Nat × Nat
  | some expiry =>
    if expiryChanged last expiry then
      (expiry, if resetBeyondExpiry resetAt expiry then expiry else resetAt)
    else (last, resetAt)
  | none => (last, resetAt)

/-- `CredSoftLock::apply_time_step` -/
def applyTimeStep (s : SoftLock) (ct : Nat) (expireAt : Option Nat) : SoftLock :=
  match s.state with
  | .init => s
  | .locked count resetAt unlockAt =>
    let b := boundReset s.lastExpireAt resetAt expireAt
    let st :=
      if lockedResets ct b.2 then LockState.init
      else if lockedUnlocks ct unlockAt then LockState.unlocked count b.2
      else LockState.locked count b.2 unlockAt
    { s with state := st, lastExpireAt := b.1 }
  | .unlocked count resetAt =>
    { s with state := if unlockedResets ct resetAt then LockState.init
                      else LockState.unlocked count resetAt }

/-- `CredSoftLock::is_valid`: `!matches!(self.state, LockState::Locked { .. })` -/
def isValid (s : SoftLock) : Bool :=
  match s.state with
  | .locked _ _ _ => false
  | _ => true

/-- `CredSoftLock::record_failure` -/
def recordFailure (s : SoftLock) (ct : Nat) : SoftLock :=
  { s with state :=
      match s.state with
      | .init => failureNextState s.policy failCountInit ct
      | .locked count _ _ => failureNextState s.policy (failCountLocked count) ct
      | .unlocked count _ => failureNextState s.policy (failCountUnlocked count) ct }

/-- What one credential attempt through the server did. -/
inductive Outcome
  | refused   -- "Account is temporarily locked": no credential check was attempted
  | success   -- credential check attempted and passed: nothing recorded
  | failed    -- credential check attempted and denied: failure recorded
  deriving DecidableEq, Repr

/-- The protocol of `auth` (Cred step), `auth_with_unix_pass` and `reauth_init`:
`apply_time_step(ct, expire)`; `is_valid()`; the credential is checked only if valid (`ok` is
the result of that check); `record_failure(ct)` on denial; a success touches nothing. -/
def attempt (s : SoftLock) (ct : Nat) (expireAt : Option Nat) (ok : Bool) : SoftLock × Outcome :=
  let s1 := applyTimeStep s ct expireAt
  if isValid s1 then
    if ok then (s1, .success) else (recordFailure s1 ct, .failed)
  else (s1, .refused)

/-- Events of a soft lock's history. -/
inductive Event
  | step (ct : Nat) (expireAt : Option Nat)            -- time advance + check (`auth` Begin step)
  | fail (ct : Nat)                                    -- raw `record_failure`
  | attempt (ct : Nat) (expireAt : Option Nat) (ok : Bool)
  deriving DecidableEq, Repr

def Event.time : Event → Nat
  | .step ct _ => ct
  | .fail ct => ct
  | .attempt ct _ _ => ct

/-- The administrator-set soft-lock expiry carried by an event, if any. -/
def Event.expire : Event → Option Nat
  | .step _ e => e
  | .fail _ => none
  | .attempt _ e _ => e

def exec (s : SoftLock) : Event → SoftLock
  | .step ct e => applyTimeStep s ct e
  | .fail ct => recordFailure s ct
  | .attempt ct e ok => (attempt s ct e ok).1

def run (s : SoftLock) (es : List Event) : SoftLock := es.foldl exec s

/-- Whether the event recorded a failure (a raw `fail`, or an attempt that was checked and denied). -/
def recorded (s : SoftLock) : Event → Bool
  | .step _ _ => false
  | .fail _ => true
  | .attempt ct e ok => (attempt s ct e ok).2 == .failed

/-- Times never go backwards, starting from `now`. -/
def Mono : Nat → List Event → Prop
  | _, [] => True
  | now, e :: es => now ≤ e.time ∧ Mono e.time es

/-- Number of failures of a history recorded at times inside window `k` of width `w` seconds,
i.e. with `ct.as_secs() / w = k` (UTC day `k` for `w = 86400`, TOTP step `k` for `w = step`). -/
def failsIn (w k : Nat) : SoftLock → List Event → Nat
  | _, [] => 0
  | s, e :: es =>
    (if recorded s e && decide (asSecs e.time / w = k) then 1 else 0) + failsIn w k (exec s e) es

/-- Failure count of a state (`Init` = 0). -/
def countOf : LockState → Nat
  | .init => 0
  | .locked c _ _ => c
  | .unlocked c _ => c

end Kanidm.SoftLock
