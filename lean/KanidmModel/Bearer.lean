/-
C32 — bearer token validation, transcribed from

* `IdmServerTransaction::validate_client_auth_info_to_ident`          (idm/server.rs:413)
* `IdmServerTransaction::pre_validate_client_auth_info` / `validate_client_auth_info_to_uat`
* `IdmServerTransaction::validate_and_parse_token_to_identity_token`  (idm/server.rs:524)
* `IdmServerTransaction::process_uat_to_identity` / `process_apit_to_identity`
* `Account::check_user_auth_token_valid`, `Account::check_within_valid_time` (idm/account.rs)
* `ServiceAccount::check_api_token_valid`                             (idm/serviceaccount.rs:63)
* `KeyObject::jws_verify` → `verify` of the internal key objects (server/keys/internal.rs):
  unknown kid ⇒ error, `Revoked` ⇒ error, `Valid`/`Retained` ⇒ the signature decides
* the write side that decides what "recorded on the account" means:
  `process_authsessionrecord` (append, `ValueSetSession::insert_checked` = vacant only),
  `ValueSetSession::remove` (→ `RevokedAt`), `ValueSetApiToken` insert/remove,
  plugin `SessionConsistency::modify_inner` (plugins/session.rs) run on every modify of the entry.

Times are nanoseconds (`Duration` / `OffsetDateTime` both map to a `Nat`).  Every comparison,
the grace constant and the arms of the session/expiry match come from `Generated/BearerOps.lean`.
The model transcribes what the code does, including the anonymous exemption.
Import-free apart from the generated operators.
-/
import KanidmModel.BearerTypes
import KanidmModel.Generated.BearerOps

namespace Kanidm.Bearer
open Kanidm.Gen.Bearer

def nsPerSec : Nat := 1000000000

/-- `AUTH_TOKEN_GRACE_WINDOW` in nanoseconds. -/
def graceWindow : Nat := graceWindowSecs * nsPerSec

/-- Atom standing for `UUID_ANONYMOUS` (the harness maps that uuid to 0). -/
def anonymous : Nat := 0

/-- `value::Session`, the fields validation and the consistency plugin read. -/
structure Session where
  state : SState
  cred : Nat
deriving DecidableEq, Repr, Inhabited

/-- `value::ApiToken` as stored on the account. -/
structure ApiRec where
  expiry : Option Nat
  issuedAt : Nat
deriving DecidableEq, Repr, Inhabited

/-- An account entry: validity window, primary credential uuid (the only credential kind the
model carries), `UserAuthTokenSession` map, `ApiTokenSession` map. -/
structure Account where
  validFrom : Option Nat
  expire : Option Nat
  cred : Option Nat
  sessions : Nat → Option Session
  apiTokens : Nat → Option ApiRec

/-- The server state validation reads: searchable entries, every uuid ever created (only used
to resolve a compact api token to its entry), the domain key object (`kid ↦ revoked?`). -/
structure World where
  accounts : Nat → Option Account
  ids : List Nat
  keys : Nat → Option Bool

def World.empty : World := ⟨fun _ => none, [], fun _ => none⟩

/-- The signed payload.  Parse order in the code: UAT JSON, legacy ApiToken JSON, 16 raw bytes. -/
inductive Payload where
  | uat (uuid sid issuedAt : Nat) (expiry : Option Nat)
  | apit (account tid issuedAt : Nat) (expiry : Option Nat)
  | apic (sid : Nat)
  | other
deriving DecidableEq, Repr, Inhabited

/-- A compact JWS: key id of the header, whether the signature is the one that key makes. -/
structure Token where
  kid : Nat
  sigok : Bool
  payload : Payload
deriving DecidableEq, Repr, Inhabited

inductive Reply where
  | ident (account session : Nat)
  | notAuthenticated
  | sessionExpired
deriving DecidableEq, Repr, Inhabited

/-! ### Signature -/

/-- `jws_verify`: the kid must be present in the key object and not `Revoked`; then the
signature check itself decides. -/
def jwsVerify (w : World) (t : Token) : Bool :=
  match w.keys t.kid with
  | some false => t.sigok
  | _ => false

/-! ### Account checks -/

/-- `Account::check_within_valid_time`. -/
def withinWindow (acc : Account) (ct : Nat) : Bool :=
  withinValidTime (validFromOk acc.validFrom ct) (expireOk acc.expire ct)

/-- `Account::check_user_auth_token_valid`. -/
def checkUat (ct : Nat) (uuid sid issuedAt : Nat) (expiry : Option Nat) (acc : Account) : Bool :=
  if !withinWindow acc ct then false
  else if uatIsAnonymous uuid anonymous then uatAnonymousResult
  else
    match acc.sessions sid with
    | some session =>
      match evalArms uatSessionExpEq uatSessionArms session.state expiry with
      | some r => r
      | none => false
    | none => uatNoSession ct (uatGrace issuedAt graceWindow)

/-- `ServiceAccount::check_api_token_valid`. -/
def checkApit (ct : Nat) (tid issuedAt : Nat) (acc : Account) : Bool :=
  if !withinWindow acc ct then false
  else if (acc.apiTokens tid).isSome then apitSessionPresentResult
  else apitNoSession ct (apitGrace issuedAt graceWindow)

/-! ### Parsing (`validate_and_parse_token_to_identity_token`) -/

/-- `enum Token` of idm/server.rs plus the error outcome. -/
inductive Parsed where
  | uat (uuid sid issuedAt : Nat) (expiry : Option Nat)
  | api (account tid issuedAt : Nat)
  | err (r : Reply)
deriving DecidableEq, Repr, Inhabited

def hasApiToken (w : World) (sid a : Nat) : Bool :=
  match w.accounts a with
  | some acc => (acc.apiTokens sid).isSome
  | none => false

/-- `internal_search(f_eq(ApiTokenSession, Refer(session_id)))` then `entry.pop()`. -/
def findApiOwner (w : World) (sid : Nat) : Option Nat :=
  (w.ids.filter (hasApiToken w sid)).getLast?

def parseToken (w : World) (t : Token) (ct : Nat) : Parsed :=
  if !jwsVerify w t then .err .notAuthenticated
  else
    match t.payload with
    | .uat uuid sid iat exp =>
      match exp with
      | some e => if uatExpired e ct then .err .sessionExpired else .uat uuid sid iat exp
      | none => .uat uuid sid iat exp
    | .apit a tid iat exp =>
      if (match exp with | some e => apitExpired ct e | none => false) then .err .sessionExpired
      else
        match w.accounts a with
        | none => .err .notAuthenticated
        | some _ => .api a tid iat
    | .apic sid =>
      match findApiOwner w sid with
      | none => .err .notAuthenticated
      | some a =>
        match w.accounts a with
        | none => .err .notAuthenticated
        | some acc =>
          match acc.apiTokens sid with
          | none => .err .notAuthenticated
          | some r =>
            if (match r.expiry with | some e => apicExpired ct e | none => false)
            then .err .sessionExpired
            else .api a sid r.issuedAt
    | .other => .err .notAuthenticated

/-! ### Identity (`process_uat_to_identity`, `process_apit_to_identity`) -/

def processUat (w : World) (ct uuid sid iat : Nat) (exp : Option Nat) : Reply :=
  match w.accounts uuid with
  | none => .sessionExpired
  | some acc => if checkUat ct uuid sid iat exp acc then .ident uuid sid else .sessionExpired

/-- The entry was loaded by the parser; the model re-reads it from the same snapshot. -/
def processApit (w : World) (ct a tid iat : Nat) : Reply :=
  match w.accounts a with
  | none => .notAuthenticated
  | some acc => if checkApit ct tid iat acc then .ident a tid else .sessionExpired

/-- `validate_client_auth_info_to_ident` for a bearer token without client certificate and
without pre-validation. -/
def validate (w : World) (t : Token) (ct : Nat) : Reply :=
  match parseToken w t ct with
  | .uat uuid sid iat exp => processUat w ct uuid sid iat exp
  | .api a tid iat => processApit w ct a tid iat
  | .err r => r

/-! ### Pre-validated path (`pre_validate_client_auth_info` then `…_to_ident`) -/

/-- `PreValidatedTokenStatus`. -/
inductive PreStatus where
  | valid (uuid sid issuedAt : Nat) (expiry : Option Nat)
  | sessionExpired
  | notAuthenticated
  | none
deriving DecidableEq, Repr, Inhabited

/-- `validate_client_auth_info_to_uat` followed by the status mapping of
`pre_validate_client_auth_info` (every error the parser can produce is one of the two mapped). -/
def preValidate (w : World) (t : Token) (ct : Nat) : PreStatus :=
  match parseToken w t ct with
  | .uat uuid sid iat exp => .valid uuid sid iat exp
  | .api _ _ _ => .notAuthenticated
  | .err .notAuthenticated => .notAuthenticated
  | .err .sessionExpired => .sessionExpired
  | .err (.ident _ _) => .none

/-- `validate_client_auth_info_to_ident` with a pre-validation status attached. -/
def validateWith (w : World) (st : PreStatus) (t : Token) (ct : Nat) : Reply :=
  match st with
  | .valid uuid sid iat exp => processUat w ct uuid sid iat exp
  | .sessionExpired => .sessionExpired
  | .notAuthenticated => validate w t ct
  | .none => validate w t ct

/-- Both phases at one instant, as one request does. -/
def validatePre (w : World) (t : Token) (ct : Nat) : Reply :=
  validateWith w (preValidate w t ct) t ct

/-! ### Write side -/

def revokeSession (s : Session) : Session := { s with state := .revokedAt }

/-- `SessionConsistency::modify_inner` on one session: already revoked ⇒ untouched; issuing
credential no longer on the account ⇒ revoked; `ExpiresAt(exp)` with `exp <= curtime` ⇒ revoked. -/
def sweepSession (cred : Option Nat) (t : Nat) (s : Session) : Session :=
  match s.state with
  | .revokedAt => s
  | .neverExpires => if cred = some s.cred then s else revokeSession s
  | .expiresAt e =>
    if cred = some s.cred then (if sweepExpired e t then revokeSession s else s)
    else revokeSession s

/-- Every modify of the entry runs the plugin at the transaction's time. -/
def touch (acc : Account) (t : Nat) : Account :=
  { acc with sessions := fun s => (acc.sessions s).map (sweepSession acc.cred t) }

def setAccount (w : World) (a : Nat) (acc : Account) : World :=
  { w with accounts := fun k => if k = a then some acc else w.accounts k }

/-- Apply `f` then the plugin to account `a` if it is searchable (else the modify matches
nothing and changes nothing). -/
def modifyAccount (w : World) (a t : Nat) (f : Account → Account) : World :=
  match w.accounts a with
  | none => w
  | some acc => setAccount w a (touch (f acc) t)

def stateOf : Option Nat → SState
  | some e => .expiresAt e
  | none => .neverExpires

/-- `ValueSetSession::insert_checked`: only into a vacant slot. -/
def insertSession (acc : Account) (s : Nat) (v : Session) : Account :=
  match acc.sessions s with
  | some _ => acc
  | none => { acc with sessions := fun k => if k = s then some v else acc.sessions k }

/-- `ValueSetSession::remove`: present and not revoked ⇒ `RevokedAt`. -/
def removeSession (acc : Account) (s : Nat) : Account :=
  match acc.sessions s with
  | some v => { acc with sessions := fun k => if k = s then some (revokeSession v) else acc.sessions k }
  | none => acc

def insertApi (acc : Account) (tid : Nat) (r : ApiRec) : Account :=
  match acc.apiTokens tid with
  | some _ => acc
  | none => { acc with apiTokens := fun k => if k = tid then some r else acc.apiTokens k }

def removeApi (acc : Account) (tid : Nat) : Account :=
  { acc with apiTokens := fun k => if k = tid then none else acc.apiTokens k }

/-- The events of a history (times `t` are the write transaction's `ct`). -/
inductive Op where
  /-- create an account entry (no sessions) with an optional primary credential; a uuid is
  never reused, not even after the entry was deleted (it stays in the recycle bin) -/
  | addAccount (a : Nat) (cred : Option Nat)
  /-- `process_authsessionrecord` -/
  | record (a s c : Nat) (e : Option Nat) (t : Nat)
  /-- `Modify::Removed(UserAuthTokenSession, Refer(s))` (`account_destroy_session_token`) -/
  | revoke (a s t : Nat)
  /-- purge (`none`) or replace (`some c`) the primary credential -/
  | setCred (a : Nat) (c : Option Nat) (t : Nat)
  /-- purge-and-set `AccountValidFrom` / `AccountExpire` -/
  | setValid (a : Nat) (vf ex : Option Nat) (t : Nat)
  /-- delete the entry (recycled: no longer searchable) -/
  | delete (a : Nat)
  /-- `service_account_generate_api_token` -/
  | apiIssue (a tid : Nat) (e : Option Nat) (iat t : Nat)
  /-- `service_account_destroy_api_token` -/
  | apiDestroy (a tid t : Nat)
  /-- a key with this kid exists in the domain key object (rotation / first use) -/
  | keyAdd (k : Nat)
  /-- `KeyActionRevoke` -/
  | keyRevoke (k : Nat)
deriving DecidableEq, Repr, Inhabited

def step (w : World) : Op → World
  | .addAccount a c =>
    if w.ids.contains a then w
    else
      { setAccount w a ⟨none, none, c, fun _ => none, fun _ => none⟩ with ids := w.ids ++ [a] }
  | .record a s c e t => modifyAccount w a t (fun acc => insertSession acc s ⟨stateOf e, c⟩)
  | .revoke a s t => modifyAccount w a t (fun acc => removeSession acc s)
  | .setCred a c t => modifyAccount w a t (fun acc => { acc with cred := c })
  | .setValid a vf ex t => modifyAccount w a t (fun acc => { acc with validFrom := vf, expire := ex })
  | .delete a => { w with accounts := fun k => if k = a then none else w.accounts k }
  | .apiIssue a tid e iat t => modifyAccount w a t (fun acc => insertApi acc tid ⟨e, iat⟩)
  | .apiDestroy a tid t => modifyAccount w a t (fun acc => removeApi acc tid)
  | .keyAdd k =>
    match w.keys k with
    | some _ => w
    | none => { w with keys := fun j => if j = k then some false else w.keys j }
  | .keyRevoke k => { w with keys := fun j => if j = k then some true else w.keys j }

/-- A history, oldest event first. -/
def run (w : World) (ops : List Op) : World := ops.foldl step w

end Kanidm.Bearer
