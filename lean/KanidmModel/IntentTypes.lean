/-!
# Shared enumerations of the credential-reset link model (C37)

Kept apart from `KanidmModel/Intent.lean` so that the translator-generated tables
(`Generated/IntentOps.lean`) can mention them.
-/
namespace Kanidm.Intent

/-- The variants of `enum IntentTokenState` (`value.rs`) plus `absent` for the `None` of
`account.credential_update_intent_tokens.get(..)`. -/
inductive Tag
  | valid
  | inProgress
  | consumed
  | absent
  deriving DecidableEq, Repr

/-- The `OperationError` variants returned by the modelled functions. -/
inductive Err
  | wait
  | invalidState
  | sessionExpired
  | cu0004SessionInconsistent
  | cu0005IntentTokenConflict
  | cu0006IntentTokenInvalidated
  | emptyRequest
  deriving DecidableEq, Repr

/-- What one arm of a `match account.credential_update_intent_tokens.get(id)` does:
* `reject e`        – `return Err(OperationError::e)`
* `proceed`         – falls through to the state write (yields `(max_ttl[, perms])`)
* `checkSession e`  – `if <session_id test> { return Err(e) } else { proceed }`
* `skip`            – `return None` inside `revoke`'s `filter_map` (entry left untouched) -/
inductive Arm
  | reject (e : Err)
  | proceed
  | checkSession (e : Err)
  | skip
  deriving DecidableEq, Repr

/-- A credential-update session id: `uuid_from_duration(t, sid)` = 8 bytes seconds ‖ 4 bytes
sub-second nanoseconds ‖ the 4 bytes `sid` drawn at random by every `proxy_write`
(`idm/server.rs`), compared bytewise. `t` is the instant in nanoseconds. -/
structure SessId where
  t : Nat
  sid : Nat
  deriving DecidableEq, Repr

end Kanidm.Intent
