/-
C32 — types shared by the generated operators (`Generated/BearerOps.lean`) and the hand model
(`Bearer.lean`).  Import-free.

`SState` is `value::SessionState` (the `Cid` payload of `RevokedAt` is irrelevant to token
validation and dropped).  `Arm` is one arm of the `match (&session.state, &uat.expiry)` in
`Account::check_user_auth_token_valid` (idm/account.rs), so that the translator can emit the
arms verbatim, in source order, and the model interprets them first-match-wins like Rust does.
Times are naturals (nanoseconds since the epoch) everywhere.
-/
namespace Kanidm.Bearer

/-- `value::SessionState`. -/
inductive SState where
  | expiresAt (e : Nat)
  | neverExpires
  | revokedAt
deriving DecidableEq, Repr, Inhabited

/-- Pattern on the session state in one match arm. -/
inductive StPat where
  | expiresAt | neverExpires | revokedAt | any
deriving DecidableEq, Repr, Inhabited

/-- Pattern on `uat.expiry` in one match arm. -/
inductive ExpPat where
  | some | none | any
deriving DecidableEq, Repr, Inhabited

/-- One arm: patterns, whether it carries the guard `if s_exp == u_exp`, and its value. -/
structure Arm where
  st : StPat
  exp : ExpPat
  guardEq : Bool
  result : Bool
deriving DecidableEq, Repr, Inhabited

def StPat.matches : StPat → SState → Bool
  | .any, _ => true
  | .expiresAt, .expiresAt _ => true
  | .neverExpires, .neverExpires => true
  | .revokedAt, .revokedAt => true
  | _, _ => false

def ExpPat.matches : ExpPat → Option Nat → Bool
  | .any, _ => true
  | .some, Option.some _ => true
  | .none, Option.none => true
  | _, _ => false

/-- The guard `s_exp == u_exp`; only meaningful when both sides bind a value (the translator
refuses a guard on an arm whose patterns do not bind both). -/
def guardHolds (eqOp : Nat → Nat → Bool) : SState → Option Nat → Bool
  | .expiresAt s, some u => eqOp s u
  | _, _ => false

def Arm.fires (eqOp : Nat → Nat → Bool) (a : Arm) (st : SState) (uexp : Option Nat) : Bool :=
  a.st.matches st && a.exp.matches uexp && (!a.guardEq || guardHolds eqOp st uexp)

/-- Rust `match`: the first arm that fires gives the value (`none` = no arm fired, impossible for
an exhaustive match; the model maps it to rejection and a theorem shows it never happens for the
generated arms). -/
def evalArms (eqOp : Nat → Nat → Bool) : List Arm → SState → Option Nat → Option Bool
  | [], _, _ => none
  | a :: rest, st, uexp =>
    if a.fires eqOp st uexp then some a.result else evalArms eqOp rest st uexp

end Kanidm.Bearer
