import KanidmModel.Access.Write
import KanidmModel.Generated.SyncScopeOps
/-
C50 — Synchronisation agreements stay inside their own scope.

Transcribes
  * `/repo/server/lib/src/idm/scim.rs`
      `scim_sync_apply` (l.510: phase 1, 2, refresh clean-up if `sync_refresh`, 3, 4, 5, each `?`),
      `scim_sync_apply_phase_1` (l.551: origin arms, scope arms, `internal_search_uuid(sync_uuid)`,
      the (from_state, sync_cookie) match, yield-authority set, `BTreeMap` of the entries by id),
      `scim_sync_apply_phase_2` (l.646: empty set, search with `filter_all!`, masked-entry refusal,
      reserved-range refusal, stub creation, external-id batch modify with its `Assert`),
      `scim_sync_apply_phase_refresh_cleanup` (l.775), `scim_entry_to_mod` (l.1162: class lookup,
      `Assert`, class presents, sync-owned attribute set, purges, rejection of non-owned
      attributes), `scim_sync_apply_phase_3` (l.1293: the three schema-derived sets, all modlists
      first, then one batch modify), `scim_sync_apply_phase_4` (l.1379: Ignore / Retain / Delete),
      `scim_sync_apply_phase_5` (l.1485)
  * `/repo/server/lib/src/server/batch_modify.rs` `batch_modify` as far as the sync path uses it
      (empty modset ⇒ `EmptyRequest`, candidates by `filter_all!`, `apply_modlist` with
      `assert_ava` ⇒ `ModifyAssertionFailed`)
  * `/repo/server/lib/src/plugins/cred_import.rs` `CredImport::modify_inner` (import attribute
      popped, target attribute set) and the reference clean-up of `plugins/refint.rs` on delete
      (values naming a deleted uuid leave the reference attributes of live entries)
  * `/repo/server/lib/src/server/mod.rs` `reload_accesscontrols` (l.2365: the `sync_agreements`
      map = live `sync_account` entries that have `sync_yield_authority`)
  * user modifications: `server/modify.rs` `modify_pre_apply` with the access decision of C24's
      model `Kanidm.Access.Write.modifyAllowOperation` (imported, which contains
      `modify_sync_constrain`).

Generated (`Kanidm.Gen.SyncScope`, `vtranslate sync-scope`): origin and scope gates of phase 1,
cookie comparison, phase order, the range comparison and constant, statement order of phase 2,
stub classes and parent attribute, the asserted attribute of both modlists, the two attribute-set
predicates of phase 3, the ownership comparison of phase 4, the import targets of `CredImport`.

Atoms as in `Access.Write`: attributes / classes are positions in `Attribute` / `EntryClass`
(unknown names from 1000), uuids the 128-bit number, values naturals interned by the harness.
Stages not modelled (schema validation, the other plugins, the backend) are the `later` flag of an
operation: the theorems quantify over it.
-/
namespace Kanidm.SyncScope
open Kanidm.Access.Write
open Kanidm.Gen.Access
open Kanidm.Gen.SyncScope

/-! ### stored entries -/

inductive Life where
  | live | recycled | tombstone
  deriving DecidableEq, Repr, Inhabited

/-- A stored entry as the sync path and the access code read it. `classes` excludes `recycled` /
`tombstone` (that is `life`); `attrs` holds every other tracked attribute (never an empty set). -/
structure Entry where
  uuid : Nat
  life : Life
  classes : List Nat
  /-- `get_ava_single_refer(Attribute::SyncParentUuid)` -/
  syncParent : Option Nat
  /-- `sync_external_id` -/
  extId : Option Nat
  /-- `sync_class` -/
  syncClasses : List Nat
  /-- `get_ava_single_private_binary(Attribute::SyncCookie)` (sync accounts) -/
  cookie : Option Nat
  /-- `get_ava_as_iutf8(Attribute::SyncYieldAuthority)` (sync accounts) -/
  yieldAuth : Option (List Nat)
  attrs : List (Nat × List Nat)
  deriving DecidableEq, Repr, Inhabited

abbrev State := List Entry

/-- `mask_recycled_ts().is_none()` -/
def Entry.masked (e : Entry) : Bool := e.life != .live

/-- value set of an attribute (`[]` = absent) -/
def getA (m : List (Nat × List Nat)) (a : Nat) : List Nat := (m.lookup a).getD []

/-- `purge_ava` -/
def purgeA (a : Nat) (m : List (Nat × List Nat)) : List (Nat × List Nat) :=
  m.filter (fun p => p.1 != a)

/-- set union keeping the first list's order -/
def union (xs ys : List Nat) : List Nat := xs ++ ys.filter (fun y => !xs.contains y)

/-- `add_ava` for every value of `vs` -/
def addA (a : Nat) (vs : List Nat) (m : List (Nat × List Nat)) : List (Nat × List Nat) :=
  let nv := union (getA m a) vs
  if nv.isEmpty then purgeA a m else (a, nv) :: purgeA a m

/-- `set_ava` -/
def setA (a : Nat) (vs : List Nat) (m : List (Nat × List Nat)) : List (Nat × List Nat) :=
  if vs.isEmpty then purgeA a m else (a, vs) :: purgeA a m

/-- `remove_ava` -/
def remA (a : Nat) (v : Nat) (m : List (Nat × List Nat)) : List (Nat × List Nat) :=
  setA a ((getA m a).filter (· != v)) m

/-! ### schema facts phase 3 reads -/

/-- `SchemaClass`: name, `sync_allowed`, `systemmay ++ may ++ systemmust ++ must` -/
structure ClassDef where
  name : Nat
  syncAllowed : Bool
  attrs : List Nat
  deriving Repr, Inhabited

/-- `SchemaAttribute`: name, `sync_allowed`, `phantom` -/
structure AttrDef where
  name : Nat
  syncAllowed : Bool
  phantom : Bool
  deriving Repr, Inhabited

structure Schema where
  classes : List ClassDef
  attrs : List AttrDef
  /-- tracked attributes of syntax `ReferenceUuid` (cleaned by referential integrity on delete) -/
  refAttrs : List Nat
  deriving Repr, Inhabited

/-- `sync_allow_attr_set` (phase 3) -/
def syncAllowAttrSet (sch : Schema) (auth : List Nat) : List Nat :=
  (sch.attrs.filter fun a => syncAllowAttr a.syncAllowed (auth.contains a.name)).map (·.name)

/-- `phantom_attr_set` (phase 3) -/
def phantomAttrSet (sch : Schema) : List Nat :=
  (sch.attrs.filter fun a => phantomAttr a.phantom a.syncAllowed).map (·.name)

/-- `sync_allow_class_set.get_key_value(cls_name)` -/
def syncClass? (sch : Schema) (c : Nat) : Option ClassDef :=
  sch.classes.find? fun d => d.name == c && d.syncAllowed

/-- attributes that mark ownership and lifecycle; the property needs none of them synchronisable -/
def structuralAttrs : List Nat :=
  [A.Uuid, A.Class, A.SyncParentUuid, A.SyncExternalId, A.SyncClass, A.SyncCookie,
   A.SyncYieldAuthority]

/-- No structural attribute is `sync_allowed` (a fact about the schema data; the harness checks it
on the running server's schema every world). -/
def Schema.structuralNotSyncable (sch : Schema) : Bool :=
  sch.attrs.all fun a => !(a.syncAllowed && structuralAttrs.contains a.name)

/-! ### requests -/

inductive Err where
  | accessDenied | noMatchingEntries | invalidSyncState | invalidEntryState | emptyRequest
  | modifyAssertionFailed | invalidAttribute | missingEntries | structural
  /-- a stage that is not modelled refused -/
  | later
  deriving DecidableEq, Repr, Inhabited

/-- `ScimSyncState` (cookies are atoms) -/
inductive SyncState where
  | refresh
  | active (cookie : Nat)
  deriving DecidableEq, Repr, Inhabited

/-- `ScimSyncRetentionMode` -/
inductive Retention where
  | ignore
  | retain (ids : List Nat)
  | delete (ids : List Nat)
  deriving Repr, Inhabited

/-- `ScimEntry`. `schemas`: `none` = the string does not start with `SCIM_SCHEMA_SYNC_1`, `some c` =
the class name after the prefix. `attrs` in `BTreeMap` order; the value is what
`scim_attr_to_values` returns (`none` = it fails). -/
structure ScimEntry where
  id : Nat
  extId : Option Nat
  schemas : List (Option Nat)
  attrs : List (Nat × Option (List Nat))
  deriving Repr, Inhabited

structure Request where
  fromState : SyncState
  toState : SyncState
  entries : List ScimEntry
  retain : Retention
  deriving Repr, Inhabited

/-- `BTreeMap::insert` keyed by id -/
def insertCE (s : ScimEntry) : List ScimEntry → List ScimEntry
  | [] => [s]
  | t :: rest =>
    if s.id < t.id then s :: t :: rest
    else if s.id == t.id then s :: rest
    else t :: insertCE s rest

/-- `changes.entries.iter().map(|e| (e.id, e)).collect::<BTreeMap<_, _>>()` -/
def changeEntries (es : List ScimEntry) : List ScimEntry :=
  es.foldl (fun acc s => insertCE s acc) []

def ceIds (ce : List ScimEntry) : List Nat := ce.map (·.id)

/-! ### phase 1 -/

/-- numbering of `IdentType` used by `phase1OriginDenied` -/
def originCode : Origin → Nat
  | .user _ _ => 0
  | .internal _ => 1
  | .synch _ => 2

structure P1 where
  syncUuid : Nat
  authority : List Nat
  ce : List ScimEntry
  refresh : Bool

/-- the `(from_state, sync_cookie)` match of phase 1 -/
def stateOk : SyncState → Option Nat → Bool
  | .refresh, _ => true
  | .active c, some sc => !phase1CookieMismatch c sc
  | .active _, none => false

/-- `matches!(&changes.from_state, ScimSyncState::Refresh)` -/
def isRefresh : SyncState → Bool
  | .refresh => true
  | .active _ => false

/-- `scim_sync_apply_phase_1` -/
def phase1 (id : Ident) (st : State) (req : Request) : Except Err P1 :=
  if phase1OriginDenied (originCode id.origin) then .error .accessDenied
  else
    match id.origin with
    | .user _ _ | .internal _ => .error .accessDenied
    | .synch su =>
      if phase1ScopeDenied id.scope.code then .error .accessDenied
      else
        -- internal_search_uuid: live entries only
        match st.find? (fun e => e.uuid == su && !e.masked) with
        | none => .error .noMatchingEntries
        | some se =>
          if !stateOk req.fromState se.cookie then .error .invalidSyncState
          else
            .ok { syncUuid := su
                  authority := se.yieldAuth.getD []
                  ce := changeEntries req.entries
                  refresh := isRefresh req.fromState }

/-! ### phase 2 -/

/-- the stub of `entry_init!` in phase 2 -/
def stub (su : Nat) (u : Nat) : Entry :=
  { uuid := u, life := .live, classes := stubClasses, syncParent := some su, extId := none,
    syncClasses := [], cookie := none, yieldAuth := none, attrs := [] }

/-- ids of the change set that no stored entry (of any lifecycle) has -/
def missingIds (st : State) (ce : List ScimEntry) : List Nat :=
  (ceIds ce).filter fun u => !(st.any fun e => e.uuid == u)

/-- the external-id modset of phase 2 -/
def extIdPairs (ce : List ScimEntry) : List (Nat × Nat) :=
  ce.filterMap fun s => s.extId.map fun x => (s.id, x)

/-- `Modify::Assert(SyncParentUuid, Refer(su))` holds on every candidate of the modset -/
def assertOwned (st : State) (ids : List Nat) (su : Nat) : Bool :=
  st.all fun e => !ids.contains e.uuid || e.syncParent == some su

/-- `scim_sync_apply_phase_2` -/
def phase2 (st : State) (ce : List ScimEntry) (su : Nat) : Except Err State :=
  if ce.isEmpty then .ok st
  else
    let ids := ceIds ce
    -- search with filter_all!: every lifecycle
    if st.any (fun e => ids.contains e.uuid && e.masked) then .error .invalidEntryState
    else
      let missing := missingIds st ce
      if missing.any (fun u => stubRangeCmp u dynamicRangeMinimum) then .error .invalidEntryState
      else
        let st1 := st ++ missing.map (stub su)
        let pairs := extIdPairs ce
        -- batch_modify: `me.modset.is_empty()` ⇒ EmptyRequest
        if pairs.isEmpty then .error .emptyRequest
        else if !assertOwned st1 (pairs.map (·.1)) su then .error .modifyAssertionFailed
        else
          .ok (st1.map fun e =>
            match pairs.lookup e.uuid with
            | some x => { e with extId := some x }
            | none => e)

/-! ### deletes (refresh clean-up, phase 4) -/

/-- referential integrity after a delete: values naming a deleted uuid leave the reference
attributes -/
def stripAttrs (refAttrs D : List Nat) (m : List (Nat × List Nat)) : List (Nat × List Nat) :=
  m.map fun p => if refAttrs.contains p.1 then (p.1, p.2.filter fun v => !D.contains v) else p

def Entry.strip (refAttrs D : List Nat) (e : Entry) : Entry :=
  { e with attrs := stripAttrs refAttrs D e.attrs }

/-- `internal_delete(filter!(..))`: live entries satisfying `p` are recycled; the references to them
are removed from the other live entries. -/
def deleteWhere (sch : Schema) (p : Entry → Bool) (st : State) : State :=
  let D := (st.filter fun e => !e.masked && p e).map (·.uuid)
  st.map fun e =>
    if !e.masked && p e then { e with life := .recycled }
    else if !e.masked then e.strip sch.refAttrs D
    else e

/-- `scim_sync_apply_phase_refresh_cleanup`: `sync_parent_uuid = su ∧ ¬ (uuid ∈ change set)`;
`NoMatchingEntries` is tolerated. -/
def refreshCleanup (sch : Schema) (st : State) (ce : List ScimEntry) (su : Nat) : Except Err State :=
  .ok (deleteWhere sch (fun e => e.syncParent == some su && !(ceIds ce).contains e.uuid) st)

/-- `scim_sync_apply_phase_4` -/
def phase4 (sch : Schema) (st : State) (r : Retention) (su : Nat) : Except Err State :=
  match r with
  | .ignore => .ok st
  | .retain ids =>
    .ok (deleteWhere sch (fun e => e.syncParent == some su && !ids.contains e.uuid) st)
  | .delete ids =>
    if ids.isEmpty then .ok st
    else
      -- candidates by filter_all!; masked ones are skipped, a foreign live one is an error
      if st.any (fun e => ids.contains e.uuid && !e.masked && phase4Foreign e.syncParent su) then
        .error .accessDenied
      else
        .ok (deleteWhere sch (fun e => e.syncParent == some su && ids.contains e.uuid) st)

/-! ### phase 3 -/

/-- what `scim_entry_to_mod` produces for one entry -/
structure Plan where
  id : Nat
  classes : List Nat
  /-- `Modify::Purged` -/
  purge : List Nat
  /-- `Modify::Present` per converted value, request order -/
  sets : List (Nat × List Nat)
  deriving Repr, Inhabited

def reqClasses (sch : Schema) : List (Option Nat) → Except Err (List ClassDef)
  | [] => .ok []
  | none :: _ => .error .invalidEntryState
  | some c :: rest =>
    match syncClass? sch c with
    | none => .error .invalidEntryState
    | some d =>
      match reqClasses sch rest with
      | .error e => .error e
      | .ok ds => .ok (d :: ds)

/-- `sync_owned_attrs` -/
def syncOwnedAttrs (sch : Schema) (auth : List Nat) (ds : List ClassDef) : List Nat :=
  (ds.flatMap (·.attrs)).filter (fun a => (syncAllowAttrSet sch auth).contains a) ++ phantomAttrSet sch

def reqSets (owned : List Nat) : List (Nat × Option (List Nat)) → Except Err (List (Nat × List Nat))
  | [] => .ok []
  | (a, v) :: rest =>
    if !owned.contains a then .error .invalidEntryState
    else
      match v with
      | none => .error .invalidAttribute
      | some vs =>
        match reqSets owned rest with
        | .error e => .error e
        | .ok r => .ok ((a, vs) :: r)

/-- `scim_entry_to_mod` -/
def entryToMod (sch : Schema) (auth : List Nat) (s : ScimEntry) : Except Err Plan :=
  match reqClasses sch s.schemas with
  | .error e => .error e
  | .ok ds =>
    let owned := syncOwnedAttrs sch auth ds
    let phantoms := phantomAttrSet sch
    match reqSets owned s.attrs with
    | .error e => .error e
    | .ok sets =>
      .ok { id := s.id
            classes := ds.map (·.name)
            purge := owned.filter fun a => !phantoms.contains a
            sets := sets }

def plans (sch : Schema) (auth : List Nat) : List ScimEntry → Except Err (List Plan)
  | [] => .ok []
  | s :: rest =>
    match entryToMod sch auth s with
    | .error e => .error e
    | .ok p =>
      match plans sch auth rest with
      | .error e => .error e
      | .ok ps => .ok (p :: ps)

/-- The stored effect of one `Present(a, vs)` group after `CredImport`: an import attribute is
popped and its target set; a phantom attribute without a target cannot be stored (`none`); any
other attribute gains the values. -/
def presentA (sch : Schema) (a : Nat) (vs : List Nat) (m : List (Nat × List Nat)) :
    Option (List (Nat × List Nat)) :=
  match credImportTargets.lookup a with
  | some t => some (setA t vs m)
  | none => if (phantomAttrSet sch).contains a then none else some (addA a vs m)

def presentAll (sch : Schema) : List (Nat × List Nat) → List (Nat × List Nat) →
    Option (List (Nat × List Nat))
  | [], m => some m
  | (a, vs) :: rest, m =>
    match presentA sch a vs m with
    | none => none
    | some m' => presentAll sch rest m'

/-- `apply_modlist` of the phase-3 modlist (after its `Assert`) followed by `CredImport` -/
def applyPlan (sch : Schema) (p : Plan) (e : Entry) : Option Entry :=
  match presentAll sch p.sets (p.purge.foldl (fun m a => purgeA a m) e.attrs) with
  | none => none
  | some m =>
    some { e with
      syncClasses := union e.syncClasses p.classes
      classes := union e.classes p.classes
      attrs := m }

def planFor (ps : List Plan) (u : Nat) : Option Plan := ps.find? fun p => p.id == u

def applyPlans (sch : Schema) (ps : List Plan) : State → Option State
  | [] => some []
  | e :: rest =>
    let e' : Option Entry :=
      match planFor ps e.uuid with
      | some p => applyPlan sch p e
      | none => some e
    match e', applyPlans sch ps rest with
    | some x, some r => some (x :: r)
    | _, _ => none

/-- `scim_sync_apply_phase_3` -/
def phase3 (sch : Schema) (st : State) (ce : List ScimEntry) (su : Nat) (auth : List Nat) :
    Except Err State :=
  if ce.isEmpty then .ok st
  else
    match plans sch auth ce with
    | .error e => .error e
    | .ok ps =>
      let ids := ceIds ce
      -- batch_modify: one candidate per modset key
      if !(ids.all fun u => st.any fun e => e.uuid == u) then .error .missingEntries
      else if !assertOwned st ids su then .error .modifyAssertionFailed
      else
        match applyPlans sch ps st with
        | none => .error .later
        | some st' => .ok st'

/-! ### phase 5 -/

/-- `scim_sync_apply_phase_5`: `internal_modify_uuid(sync_uuid, purge / purge-and-set sync_cookie)` -/
def phase5 (st : State) (su : Nat) (to : SyncState) : Except Err State :=
  if !(st.any fun e => e.uuid == su && !e.masked) then .error .noMatchingEntries
  else
    let c : Option Nat := match to with | .active c => some c | .refresh => none
    .ok (st.map fun e => if e.uuid == su && !e.masked then { e with cookie := c } else e)

/-! ### scim_sync_apply -/

/-- the order in which `apply` below runs the phases (compared with the generated order) -/
def modelledPhaseOrder : List Nat := [1, 2, 6, 3, 4, 5]

/-- `scim_sync_apply` -/
def apply (sch : Schema) (id : Ident) (st : State) (req : Request) : Except Err State :=
  match phase1 id st req with
  | .error e => .error e
  | .ok p1 =>
    match phase2 st p1.ce p1.syncUuid with
    | .error e => .error e
    | .ok st2 =>
      match (if p1.refresh then refreshCleanup sch st2 p1.ce p1.syncUuid else .ok st2) with
      | .error e => .error e
      | .ok st2c =>
        match phase3 sch st2c p1.ce p1.syncUuid p1.authority with
        | .error e => .error e
        | .ok st3 =>
          match phase4 sch st3 req.retain p1.syncUuid with
          | .error e => .error e
          | .ok st4 => phase5 st4 p1.syncUuid req.toState

/-! ### user modifications and yield-authority changes -/

/-- `reload_accesscontrols`: the `sync_agreements` map -/
def agreementsOf (st : State) : List (Nat × List Nat) :=
  st.filterMap fun e =>
    if !e.masked && e.classes.contains C.SyncAccount then e.yieldAuth.map fun y => (e.uuid, y)
    else none

def lifeClasses : Life → List Nat
  | .live => []
  | .recycled => [C.Recycled]
  | .tombstone => [C.Tombstone]

/-- the entry as C24's access model reads it -/
def toEnt (e : Entry) : Ent :=
  let cls := e.classes ++ lifeClasses e.life
  { uuid := e.uuid
    classes := some cls
    managedBy := none
    syncParent := e.syncParent
    fe := fun a => if a == A.Class then cls.map Filter.Val.num else [] }

/-- `apply_modlist` on a single-valued structural field (`none` = the result would hold two values,
which the entry cannot represent and the schema refuses). -/
def applyField (cur : Option Nat) : Mod → Option (Option Nat)
  | .present _ v => if cur == none || cur == some v then some (some v) else none
  | .removed _ v => some (if cur == some v then none else cur)
  | .purged _ => some none
  | .set _ vs =>
    match vs with
    | [] => some none
    | [v] => some (some v)
    | _ => none
  | .assert _ _ => some cur

/-- attributes of `structuralAttrs` that `applyUserMod` does not apply at all -/
def frozenAttrs : List Nat := [A.Uuid, A.SyncCookie, A.SyncYieldAuthority]

/-- the attribute a modification names -/
def umodAttr : Mod → Nat
  | .present a _ | .removed a _ | .purged a | .set a _ | .assert a _ => a

def isAssert : Mod → Bool
  | .assert _ _ => true
  | _ => false

/-- `apply_modlist` on a value set kept as a list (`class`, `sync_class`) -/
def applyList (cur : List Nat) : Mod → List Nat
  | .present _ v => union cur [v]
  | .removed _ v => cur.filter (· != v)
  | .purged _ => []
  | .set _ vs => vs
  | .assert _ _ => cur

/-- `apply_modlist` on the attribute map -/
def applyAttr (a : Nat) (m : List (Nat × List Nat)) : Mod → List (Nat × List Nat)
  | .present _ v => addA a [v] m
  | .removed _ v => remA a v m
  | .purged _ => purgeA a m
  | .set _ vs => setA a vs m
  | .assert _ _ => m

/-- `apply_modlist`, one modification, on the tracked part of the entry. `uuid` (refused by the
Base plugin, C20), `sync_cookie` and `sync_yield_authority` are not applied (`none`). -/
def applyUserMod (e : Entry) (m : Mod) : Option Entry :=
  if frozenAttrs.contains (umodAttr m) then (if isAssert m then some e else none)
  else if umodAttr m == A.SyncParentUuid then
    (applyField e.syncParent m).map fun p => { e with syncParent := p }
  else if umodAttr m == A.SyncExternalId then
    (applyField e.extId m).map fun x => { e with extId := x }
  else if umodAttr m == A.Class then some { e with classes := applyList e.classes m }
  else if umodAttr m == A.SyncClass then some { e with syncClasses := applyList e.syncClasses m }
  else some { e with attrs := applyAttr (umodAttr m) e.attrs m }

def applyUserMods : Entry → List Mod → Option Entry
  | e, [] => some e
  | e, m :: rest =>
    match applyUserMod e m with
    | none => none
    | some e' => applyUserMods e' rest

/-- `modify` of one uuid by an identity (the candidates are the live entries with that uuid). -/
def userModify (id : Ident) (acps : List AcpModify) (st : State) (target : Nat) (ml : List Mod) :
    Except Err State :=
  if ml.isEmpty then .error .emptyRequest
  else
    let cands := st.filter fun e => e.uuid == target && !e.masked
    if cands.isEmpty then .error .noMatchingEntries
    else if !modifyAllowOperation id acps (agreementsOf st) (cands.map toEnt) ml then
      .error .accessDenied
    else if !(cands.all fun e => (applyUserMods e ml).isSome) then .error .structural
    else
      .ok (st.map fun e =>
        if e.uuid == target && !e.masked then (applyUserMods e ml).getD e else e)

/-- an administrator's purge-and-set of `sync_yield_authority` on a sync account -/
def setYield (st : State) (su : Nat) (y : Option (List Nat)) : Except Err State :=
  if !(st.any fun e => e.uuid == su && !e.masked) then .error .noMatchingEntries
  else .ok (st.map fun e => if e.uuid == su && !e.masked then { e with yieldAuth := y } else e)

/-! ### histories -/

inductive Op where
  | sync (id : Ident) (req : Request) (later : Bool)
  | yield (su : Nat) (y : Option (List Nat))
  | user (id : Ident) (acps : List AcpModify) (target : Nat) (ml : List Mod) (later : Bool)

/-- result of one operation; `later = false` = a stage that is not modelled refused -/
def stepRes (sch : Schema) (st : State) : Op → Except Err State
  | .sync id req later =>
    match apply sch id st req with
    | .error e => .error e
    | .ok st' => if later then .ok st' else .error .later
  | .yield su y => setYield st su y
  | .user id acps target ml later =>
    match userModify id acps st target ml with
    | .error e => .error e
    | .ok st' => if later then .ok st' else .error .later

/-- the committed state: a refused operation leaves nothing behind (the transaction is dropped) -/
def step (sch : Schema) (st : State) (op : Op) : State :=
  match stepRes sch st op with
  | .ok st' => st'
  | .error _ => st

def run (sch : Schema) (st : State) (ops : List Op) : State := ops.foldl (step sch) st

end Kanidm.SyncScope
