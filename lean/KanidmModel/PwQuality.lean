import KanidmModel.Generated.PwQualityOps
import KanidmModel.AccountPolicy
/-!
# Model of the password quality gates and the password setters (C31)

* `cuCheck`   — `IdmServerCredUpdateTransaction::check_password_quality`
  (server/lib/src/idm/credupdatesession.rs), used by `credential_primary_set_password`,
  `credential_unix_set_password` and the read-only `credential_check_password_quality`;
* `posixCheck` — `IdmServerProxyWriteTransaction::check_password_quality`
  (server/lib/src/idm/server.rs), used by `set_unix_account_password`;
* `initSession` / `setPrimary` / `setUnix` / `deletePrimary` / `deleteUnix` / `commit` — the part
  of a credential update session that concerns password credentials
  (`create_credupdate_session`, the setters, `commit_credential_update`);
* `setUnixDirect` — `set_unix_account_password`.

The order of the gates, the length comparisons with their operands, the reported values, the
score threshold and "is the badlist key lower-cased" come from `Generated/PwQualityOps.lean`
(regenerated from the source on every run).  The resolved policy is C35's `Resolved`
(`KanidmModel/AccountPolicy.lean`, `foldFrom`).

Text is a list of Unicode scalar values.  External (not modelled, passed in):
* `Input.graphemes` — `utf8_len(cleartext)`, the extended-grapheme-cluster count of
  unicode-segmentation;
* `Input.score` — `zxcvbn(cleartext, related_inputs).score()` as 0…4;
* `lower` — `str::to_lowercase` (used both by `Value::new_iutf8` when a badlist entry is stored
  and by the gates when the cleartext is looked up).
`str::len` (`utf8Len`) and `str::contains` (`containsSub`) are modelled.
-/
namespace Kanidm.PwQuality
open Kanidm.Gen.PwQuality
open Kanidm.AccountPolicy (Resolved)

/-- Bytes of one scalar value in UTF-8. -/
def utf8Width (c : Nat) : Nat :=
  if c < 0x80 then 1 else if c < 0x800 then 2 else if c < 0x10000 then 3 else 4

/-- `str::len` -/
def utf8Len : List Nat → Nat
  | [] => 0
  | c :: t => utf8Width c + utf8Len t

def isPrefixOf : List Nat → List Nat → Bool
  | [], _ => true
  | _ :: _, [] => false
  | a :: as, b :: bs => a == b && isPrefixOf as bs

/-- `hay.contains(needle)` for `&str` patterns (UTF-8 is self-synchronising, so a byte substring
is a scalar-value substring); the empty needle is contained in everything. -/
def containsSub : List Nat → List Nat → Bool
  | [], needle => needle.isEmpty
  | h :: t, needle => isPrefixOf needle (h :: t) || containsSub t needle

/-- What the gates see of one submitted cleartext. -/
structure Input where
  text : List Nat
  graphemes : Nat
  score : Nat
  deriving DecidableEq, Repr

/-- `PasswordQuality` / the `PasswordFeedback` the request fails with. -/
inductive Reject
  | tooShort (n : Nat)
  | tooLong (n : Nat)
  | dontReuse
  | related
  | weak
  | badlisted
  deriving DecidableEq, Repr

/-- What a gate consults besides the cleartext and the policy. -/
structure Ctx where
  /-- `qs.pw_badlist()`: the stored values of `badlist_password` -/
  badlist : List (List Nat)
  /-- `account.radius_secret` -/
  radius : Option (List Nat)
  /-- `account.related_inputs()` -/
  related : List (List Nat)

/-- `Value::new_iutf8` on every submitted badlist entry, then `get_sc_password_badlist`. -/
def storeBadlist (lower : List Nat → List Nat) (raw : List (List Nat)) : List (List Nat) :=
  raw.map lower

/-- The key looked up in the badlist. -/
def lookupKey (lowered : Bool) (lower : List Nat → List Nat) (t : List Nat) : List Nat :=
  if lowered then lower t else t

/-- Gate 0 (length), parameterised by the regenerated comparisons and reported values. -/
def lengthGate (short long : Nat → Nat → Nat → Nat → Bool) (shortRep longRep : Nat → Nat → Nat)
    (pol : Resolved) (i : Input) : Option Reject :=
  if short i.graphemes (utf8Len i.text) pol.pwMinLength pol.pwMaxLength then
    some (.tooShort (shortRep pol.pwMinLength pol.pwMaxLength))
  else if long i.graphemes (utf8Len i.text) pol.pwMinLength pol.pwMaxLength then
    some (.tooLong (longRep pol.pwMinLength pol.pwMaxLength))
  else none

/-- Gate 1: `cleartext.contains(some_radius_secret)`. -/
def radiusGate (ctx : Ctx) (i : Input) : Option Reject :=
  match ctx.radius with
  | some r => if containsSub i.text r then some .dontReuse else none
  | none => none

/-- Gate 2: `for related in related_inputs { if cleartext.contains(related) … }`. -/
def relatedGate (ctx : Ctx) (i : Input) : Option Reject :=
  if ctx.related.any (containsSub i.text) then some .related else none

/-- Gate 3: the zxcvbn score. -/
def scoreGate (weak : Nat → Bool) (i : Input) : Option Reject :=
  if weak i.score then some .weak else none

/-- Gate 4: the badlist. -/
def badlistGate (lowered : Bool) (lower : List Nat → List Nat) (ctx : Ctx) (i : Input) : Option Reject :=
  if ctx.badlist.contains (lookupKey lowered lower i.text) then some .badlisted else none

/-- One gate of the credential-update check, by code. -/
def cuGate (lower : List Nat → List Nat) (ctx : Ctx) (pol : Resolved) (i : Input) (code : Nat) : Option Reject :=
  if code = 0 then lengthGate cuTooShort cuTooLong cuShortReport cuLongReport pol i
  else if code = 1 then radiusGate ctx i
  else if code = 2 then relatedGate ctx i
  else if code = 3 then scoreGate cuWeak i
  else if code = 4 then badlistGate cuKeyLowered lower ctx i
  else none

/-- One gate of the POSIX check, by code (it has no radius / related containment gates in the
source; the codes are shared, so a gate added there is understood). -/
def posixGate (lower : List Nat → List Nat) (ctx : Ctx) (pol : Resolved) (i : Input) (code : Nat) : Option Reject :=
  if code = 0 then lengthGate posixTooShort posixTooLong posixShortReport posixLongReport pol i
  else if code = 1 then radiusGate ctx i
  else if code = 2 then relatedGate ctx i
  else if code = 3 then scoreGate posixWeak i
  else if code = 4 then badlistGate posixKeyLowered lower ctx i
  else none

/-- The gates run in source order; the first that objects decides. -/
def firstReject (gates : List Nat) (g : Nat → Option Reject) : Option Reject :=
  match gates with
  | [] => none
  | c :: t =>
    match g c with
    | some r => some r
    | none => firstReject t g

/-- `IdmServerCredUpdateTransaction::check_password_quality` (`none` = `Ok(())`). -/
def cuCheck (lower : List Nat → List Nat) (ctx : Ctx) (pol : Resolved) (i : Input) : Option Reject :=
  firstReject cuGates (cuGate lower ctx pol i)

/-- `IdmServerProxyWriteTransaction::check_password_quality` (`none` = `Ok(())`). -/
def posixCheck (lower : List Nat → List Nat) (ctx : Ctx) (pol : Resolved) (i : Input) : Option Reject :=
  firstReject posixGates (posixGate lower ctx pol i)

/-! ## Credential update session -/

/-- `CredentialState` -/
inductive CredState
  | modifiable
  | deleteOnly
  | accessDeny
  | policyDeny
  deriving DecidableEq, Repr

/-- A stored password credential, by provenance: what the account held before (`old`), or the
hash of cleartext `i` accepted while the badlist was `bl` (`fresh`).  (That the stored hash
verifies exactly that cleartext is C30's subject.) -/
inductive Stored
  | old (id : Nat)
  | fresh (i : Input) (bl : List (List Nat))
  deriving DecidableEq, Repr

/-- The password-related part of an account entry. -/
structure Account where
  primary : Option Stored
  unix : Option Stored
  isPosix : Bool
  radius : Option (List Nat)
  related : List (List Nat)
  deriving DecidableEq, Repr

/-- `CredUpdateSessionPerms`, the two fields that matter here. -/
structure Perms where
  primaryCanEdit : Bool
  unixCanEdit : Bool
  deriving DecidableEq, Repr

/-- The password-related part of `CredentialUpdateSession`. -/
structure Session where
  /-- resolved when the session was created; never refreshed -/
  policy : Resolved
  radius : Option (List Nat)
  related : List (List Nat)
  primaryState : CredState
  unixState : CredState
  primary : Option Stored
  unix : Option Stored

/-- `create_credupdate_session`: the two states and the stashed credentials. -/
def initSession (pol : Resolved) (a : Account) (p : Perms) : Session :=
  let primaryState :=
    if pol.credentialPolicy > Kanidm.Gen.AccountPolicy.credMfa then CredState.policyDeny
    else if p.primaryCanEdit then .modifiable else .accessDeny
  let unixState :=
    if !a.isPosix then CredState.policyDeny
    else if p.unixCanEdit then .modifiable else .accessDeny
  { policy := pol, radius := a.radius, related := a.related
    primaryState := primaryState, unixState := unixState
    primary := if primaryState = .modifiable then a.primary else none
    unix := if unixState = .modifiable then a.unix else none }

inductive Err
  | accessDenied
  | missingPosix
  | quality (r : Reject)
  deriving DecidableEq, Repr

def Session.ctx (s : Session) (bl : List (List Nat)) : Ctx :=
  { badlist := bl, radius := s.radius, related := s.related }

/-- `credential_primary_set_password` (badlist `bl` = the one current at the request). -/
def setPrimary (lower : List Nat → List Nat) (bl : List (List Nat)) (s : Session) (i : Input) :
    Except Err Session :=
  if s.primaryState ≠ .modifiable then .error .accessDenied
  else match cuCheck lower (s.ctx bl) s.policy i with
    | some r => .error (.quality r)
    | none => .ok { s with primary := some (.fresh i bl) }

/-- `credential_unix_set_password` -/
def setUnix (lower : List Nat → List Nat) (bl : List (List Nat)) (s : Session) (i : Input) :
    Except Err Session :=
  if s.unixState ≠ .modifiable then .error .accessDenied
  else match cuCheck lower (s.ctx bl) s.policy i with
    | some r => .error (.quality r)
    | none => .ok { s with unix := some (.fresh i bl) }

/-- `credential_primary_delete` -/
def deletePrimary (s : Session) : Except Err Session :=
  if s.primaryState = .modifiable ∨ s.primaryState = .deleteOnly then .ok { s with primary := none }
  else .error .accessDenied

/-- `credential_unix_delete` -/
def deleteUnix (s : Session) : Except Err Session :=
  if s.unixState = .modifiable ∨ s.unixState = .deleteOnly then .ok { s with unix := none }
  else .error .accessDenied

/-- `commit_credential_update`: what the modify list does to the two password attributes
(`canCommit` = `session.can_commit()` and the intent-token checks, external). -/
def commit (s : Session) (a : Account) (canCommit : Bool) : Account :=
  if !canCommit then a
  else
    { a with
      unix := match s.unixState with
        | .modifiable | .deleteOnly => s.unix
        | .policyDeny => none
        | .accessDeny => a.unix
      primary := match s.primaryState with
        | .modifiable => s.primary
        | .deleteOnly | .policyDeny => none
        | .accessDeny => a.primary }

/-- Requests of one session. -/
inductive Op
  | setPrimary (bl : List (List Nat)) (i : Input)
  | setUnix (bl : List (List Nat)) (i : Input)
  | deletePrimary
  | deleteUnix
  deriving DecidableEq, Repr

def applyOp (lower : List Nat → List Nat) (s : Session) : Op → Except Err Session
  | .setPrimary bl i => setPrimary lower bl s i
  | .setUnix bl i => setUnix lower bl s i
  | .deletePrimary => deletePrimary s
  | .deleteUnix => deleteUnix s

/-- A failed request leaves the session as it was (`?` returns before any assignment). -/
def step (lower : List Nat → List Nat) (s : Session) (o : Op) : Session :=
  match applyOp lower s o with
  | .ok s' => s'
  | .error _ => s

def run (lower : List Nat → List Nat) (s : Session) (ops : List Op) : Session :=
  ops.foldl (step lower) s

/-! ## Direct POSIX password change -/

/-- `set_unix_account_password` (`allowed` = `modify_pre_apply` under the caller's identity). -/
def setUnixDirect (lower : List Nat → List Nat) (bl : List (List Nat)) (pol : Resolved) (a : Account)
    (allowed : Bool) (i : Input) : Except Err Account :=
  if !a.isPosix then .error .missingPosix
  else if !allowed then .error .accessDenied
  else match posixCheck lower { badlist := bl, radius := a.radius, related := a.related } pol i with
    | some r => .error (.quality r)
    | none => .ok { a with unix := some (.fresh i bl) }

/-! ## A concrete `lower` for ASCII + basic Greek (final-sigma rule included)

`lowerGreek` agrees with `str::to_lowercase` on strings over ASCII and the Greek letters
U+0391…U+03C9 that contain no case-ignorable character (tied by the correspondence stream
`lower`); it is what `casefold_full_false` is stated about. -/

def isAsciiUpper (c : Nat) : Bool := 0x41 ≤ c && c ≤ 0x5A
def isAsciiLower (c : Nat) : Bool := 0x61 ≤ c && c ≤ 0x7A
/-- Α…Ω (U+03A2 is unassigned) -/
def isGreekUpper (c : Nat) : Bool := 0x391 ≤ c && c ≤ 0x3A9 && c != 0x3A2
/-- α…ω including ς -/
def isGreekLower (c : Nat) : Bool := 0x3B1 ≤ c && c ≤ 0x3C9

/-- `Cased` restricted to the alphabet. -/
def isCased (c : Nat) : Bool := isAsciiUpper c || isAsciiLower c || isGreekUpper c || isGreekLower c

/-- `char::to_lowercase` on the alphabet. -/
def lower1 (c : Nat) : Nat :=
  if isAsciiUpper c || isGreekUpper c then c + 0x20 else c

/-- Left to right; `prevCased` = the previous character is cased (no case-ignorable characters in
the alphabet, so "preceded by a cased letter" is the immediate predecessor). -/
def lowerGreekAux : Bool → List Nat → List Nat
  | _, [] => []
  | prevCased, c :: t =>
    let nextCased := match t with
      | [] => false
      | d :: _ => isCased d
    let out := if c = 0x3A3 then (if prevCased && !nextCased then 0x3C2 else 0x3C3) else lower1 c
    out :: lowerGreekAux (isCased c) t

def lowerGreek (t : List Nat) : List Nat := lowerGreekAux false t

/-- Simple case folding on the alphabet: Σ, σ and ς all fold to σ. -/
def fold1 (c : Nat) : Nat :=
  if c = 0x3C2 then 0x3C3 else lower1 c

/-- "Equal ignoring case". -/
def caselessEq (a b : List Nat) : Bool := a.map fold1 == b.map fold1

/-- Any of Σ σ ς. -/
def isSigma (c : Nat) : Bool := c = 0x3A3 || c = 0x3C3 || c = 0x3C2

end Kanidm.PwQuality
