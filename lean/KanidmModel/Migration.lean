import KanidmModel.Generated.MigrationOps
/-!
# C48 — the domain-level migration: upsert of built-in definitions, the level's ordered steps, the driver

Transcribes (server/lib/src):
* `entry.rs` `Entry::gen_modlist_assert` (uuid skipped; single-valued and the listed access-control /
  schema attributes: purge then present; multi-valued: present) — `genModlistAssert`;
* `server/migrations.rs` `internal_migrate_or_create(_ignore_attrs)` (search by uuid among live entries;
  none ⇒ create with `member_create_once` merged into `member`; one ⇒ drop `member_create_once` and the
  ignore list from the definition, assert the rest; more ⇒ `InvalidDbState`) — `migrateOrCreate`;
  `internal_migrate_or_create_batch` (first error ends the batch and is swallowed) — `batch`;
  `internal_delete_batch` / `internal_delete_if_exists` — `deleteWhere`;
  the statement list of each `migrate_domain_*` (regenerated) — `runSteps`;
* `server/mod.rs` `reload_domain_info_version` (early return, fresh bring-up, re-migration floor, the gate
  chain, each migration's in-development guard) — `reloadVersion`; `domain_remigrate`;
* `server/migrations.rs` `initialise_helper` (bootstrap table, skip / downgrade refusal, the step loop, the
  development-taint re-migration, the patch level) — `initialise`.

The state is the stored, non-derived part of every entry: attribute ↦ values (`[]` = absent).  Derived
attributes (memberof, directmemberof, dynmember, spn, change ids) are functions of it maintained by the
plugins (properties C17, C18, C22) and are not part of the state.  Schema validation and plugin refusals
are the abstract acceptance predicates of `Env`; every theorem holds for all of them.
-/
namespace Kanidm.Migration
open Kanidm.Gen.Migration

/-- The stored non-derived attributes of an entry. -/
abbrev Ent := Nat → List Nat

inductive Mod where
  | purged (a : Nat)
  | present (a v : Nat)
deriving DecidableEq, Repr

def Mod.attr : Mod → Nat
  | .purged a => a
  | .present a _ => a

/-- `Modify::Purged` removes the attribute, `Modify::Present` adds the value unless it is there. -/
def applyMod (e : Ent) : Mod → Ent
  | .purged a => fun b => if b = a then [] else e b
  | .present a v => fun b => if b = a then (if v ∈ e a then e a else e a ++ [v]) else e b

def applyMods (e : Ent) (ms : List Mod) : Ent := ms.foldl applyMod e

/-- A definition's attributes in `BTreeMap` order (without its uuid, which is carried separately). -/
abbrev Def := List (Nat × List Nat)

def modsFor (multi : Bool) (k : Nat) (vs : List Nat) : List Mod :=
  (if purgeWhen multi (forcePurgeAttrs.contains k) then [Mod.purged k] else []) ++ vs.map (Mod.present k)

/-- `Entry::gen_modlist_assert`; `none` = `SchemaError` of `is_multivalue` for an unknown attribute. -/
def genModlistAssert (multi : Nat → Option Bool) : Def → Option (List Mod)
  | [] => some []
  | (k, vs) :: rest =>
    if skipUuid && k == attrUuid then genModlistAssert multi rest
    else match multi k with
      | none => none
      | some r =>
        match genModlistAssert multi rest with
        | none => none
        | some ms => some (modsFor r k vs ++ ms)

/-- `e.remove_ava(MemberCreateOnce)` and `for attr in attrs { e.remove_ava(attr) }` of the migrate arm. -/
def stripForMigrate (d : Def) : Def :=
  d.filter (fun p => !(p.1 == attrMemberCreateOnce) && !(ignoreAttrs.contains p.1))

def lookupVals (d : Def) (a : Nat) : List Nat :=
  match d.lookup a with
  | some vs => vs
  | none => []

/-- The create arm: `pop_ava(MemberCreateOnce)` merged into `member` (or set as `member`). -/
def mergeCreateOnce (d : Def) : Def :=
  match d.lookup attrMemberCreateOnce with
  | none => d
  | some once =>
    let d' := d.filter (fun p => !(p.1 == attrMemberCreateOnce))
    match d'.lookup attrMember with
    | some ms => d'.map (fun p => if p.1 == attrMember then (p.1, ms ++ once.filter (fun v => !ms.contains v)) else p)
    | none => d' ++ [(attrMember, once)]

def entOfDef (d : Def) : Ent := fun a => lookupVals d a

structure DbEntry where
  uuid : Nat
  /-- `false` = recycled or tombstoned: invisible to `internal_search` / `filter!` -/
  live : Bool
  attrs : Ent

inductive Err where
  | schemaViolation | invalidDbState | createRefused | modifyRefused
deriving DecidableEq, Repr

/-- What the model does not decide: the schema's multi-value table and whether schema validation and the
    plugins accept a create / a modify.  Theorems quantify over all of it. -/
structure Env where
  multi : Nat → Option Bool
  acceptCreate : List DbEntry → Nat → Ent → Bool
  acceptModify : List DbEntry → DbEntry → Ent → Bool
  /-- reference-typed attributes (referential integrity removes references to deleted entries) -/
  isRef : Nat → Bool
  /-- class values `classtype` / `attributetype` of the db-schema delete filter -/
  valClassType : Nat
  valAttributeType : Nat

def hits (db : List DbEntry) (uuid : Nat) : List DbEntry := db.filter (fun x => x.live && x.uuid == uuid)

def setAttrs (db : List DbEntry) (uuid : Nat) (e : Ent) : List DbEntry :=
  db.map (fun y => if y.live && y.uuid == uuid then { y with attrs := e } else y)

/-- `internal_migrate_or_create` for the definition `d` of `uuid`. -/
def migrateOrCreate (env : Env) (db : List DbEntry) (uuid : Nat) (d : Def) : Except Err (List DbEntry) :=
  match hits db uuid with
  | [] =>
    let e := entOfDef (mergeCreateOnce d)
    -- base plugin: a uuid that exists in any state refuses the create
    if db.any (fun x => x.uuid == uuid) || !env.acceptCreate db uuid e then .error .createRefused
    else .ok (db ++ [⟨uuid, true, e⟩])
  | [x] =>
    match genModlistAssert env.multi (stripForMigrate d) with
    | none => .error .schemaViolation
    | some ms =>
      let e' := applyMods x.attrs ms
      if env.acceptModify db x e' then .ok (setAttrs db uuid e') else .error .modifyRefused
  | _ => .error .invalidDbState

/-- `internal_migrate_or_create_batch`: `try_for_each`, the error is logged and swallowed. -/
def batch (env : Env) : List DbEntry → List (Nat × Def) → List DbEntry × Option Err
  | db, [] => (db, none)
  | db, (u, d) :: rest =>
    match migrateOrCreate env db u d with
    | .ok db' => batch env db' rest
    | .error e => (db, some e)

/-- referential integrity after a delete: references to the deleted uuids disappear -/
def unref (isRef : Nat → Bool) (gone : List Nat) (e : Ent) : Ent :=
  fun a => if isRef a then (e a).filter (fun v => !gone.contains v) else e a

/-- database plus the uuids the migration has deleted so far -/
structure St where
  db : List DbEntry
  gone : List Nat

def deleteHits (p : DbEntry → Bool) (db : List DbEntry) : List Nat :=
  (db.filter (fun x => x.live && p x)).map (·.uuid)

/-- `internal_delete` of the live entries matching `p` (recycled), references to them removed everywhere. -/
def deleteWhere (isRef : Nat → Bool) (p : DbEntry → Bool) (s : St) : St :=
  let hit := deleteHits p s.db
  ⟨s.db.map (fun x => if x.live && p x then { x with live := false }
                     else { x with attrs := unref isRef hit x.attrs }),
   s.gone ++ hit⟩

/-- the filter of "Delete all existing DB contained schema" -/
def matchesDbSchema (env : Env) (x : DbEntry) : Bool :=
  let ct := (x.attrs attrClass).contains env.valClassType
  let aty := (x.attrs attrClass).contains env.valAttributeType
  if dbSchemaFilterIsAnd then ct && aty else ct || aty

/-- The definitions of one level: batch number ↦ (uuid, definition) list, and the delete list. -/
structure LevelData where
  batches : Nat → List (Nat × Def)
  dels : List Nat

def runStep (env : Env) (ld : LevelData) (s : St) : Step → St
  | .batch n => ⟨(batch env s.db (ld.batches n)).1, s.gone⟩
  | .deleteBatch => deleteWhere env.isRef (fun x => ld.dels.contains x.uuid) s
  | .deleteDbSchema => deleteWhere env.isRef (matchesDbSchema env) s
  -- in-memory schema, reloads, reindex, phase changes: no stored non-derived attribute changes;
  -- `fixup` steps belong to older levels (the target level has none, `target_steps_shape`)
  | _ => s

def runSteps (env : Env) (ld : LevelData) (s : St) (steps : List Step) : St :=
  steps.foldl (runStep env ld) s

def stepsOf (f : Nat) : List Step :=
  match migrationSteps.lookup f with
  | some l => l
  | none => []

/-- index of the migration function that brings a database to `DOMAIN_TGT_LEVEL` -/
def targetMigration : Option Nat := bootstrapTable.lookup domainTgtLevel

def targetSteps : List Step :=
  match targetMigration with
  | some f => stepsOf f
  | none => []

/-! ## The driver -/

inductive Code where
  | MG0001 | MG0004 | MG0008 | MG0009 | MG0010
deriving DecidableEq, Repr

def runGates (prev new : Nat) : List ((Nat → Nat → Bool) × Nat) → Except Code (List Nat)
  | [] => .ok []
  | (g, f) :: rest =>
    if g prev new then
      if inDevelopment f then .error .MG0004
      else match runGates prev new rest with
        | .ok l => .ok (f :: l)
        | .error c => .error c
    else runGates prev new rest

/-- `reload_domain_info_version`: the migration functions run, in order. -/
def reloadVersion (prev new prevPatch newPatch : Nat) (belowReady : Bool) : Except Code (List Nat) :=
  if reloadSkips prev new prevPatch newPatch belowReady then .ok []
  else if freshBringUp prev then .ok []
  else if remigrationRefused prev then .error .MG0001
  else runGates prev new gates

/-- the step loop of `initialise_helper`: `internal_apply_domain_migration(l)` for `l = from+1 … from+n` -/
def stepLoop (patch : Nat) : Nat → Nat → Except Code (List Nat)
  | _, 0 => .ok []
  | cur, n + 1 =>
    match reloadVersion cur (cur + stepOffset) patch patch false with
    | .error c => .error c
    | .ok fs =>
      match stepLoop patch (cur + stepOffset) n with
      | .error c => .error c
      | .ok gs => .ok (fs ++ gs)

/-- the end of `initialise_helper`: raise the patch level if needed, then one `reload()` if a re-migration
    was requested or the patch level changed (`memv` = the in-memory version `domain_remigrate` left). -/
def finishInit (patch level memv : Nat) (ran : List Nat) (reloadReq : Bool) : Except Code (Nat × List Nat) :=
  let newPatch := if patchNeeded patch then domainTgtPatchLevel else patch
  if reloadReq || patchNeeded patch then
    match reloadVersion memv level patch newPatch false with
    | .error c => .error c
    | .ok fs => .ok (level, ran ++ fs)
  else .ok (level, ran)

/-- `initialise_helper` on a database that already has a domain entry at `dbv`: the final level and the
    migration functions that ran. -/
def initialiseExisting (dbv tgt : Nat) (taint : Bool) (patch : Nat) : Except Code (Nat × List Nat) :=
  if needsUpgrade dbv tgt then
    if skipRefused dbv then .error .MG0008
    else match stepLoop patch dbv (tgt - dbv) with
      | .error c => .error c
      | .ok fs => finishInit patch tgt tgt fs false
  else if isDowngrade dbv tgt then .error .MG0010
  else if taint then
    finishInit patch dbv (if remigrateIsNoop remigrateFrom dbv then dbv else remigrateFrom) [] true
  else finishInit patch dbv dbv [] false

/-- `initialise_helper`: `dbv = 0` ⇒ no domain entry: bootstrap at the target level first. -/
def initialise (dbv tgt : Nat) (taint : Bool) (patch : Nat) : Except Code (Nat × List Nat) :=
  if dbv = 0 then
    match bootstrapTable.lookup tgt with
    | none => .error .MG0009
    | some f =>
      if inDevelopment f then .error .MG0004
      else match initialiseExisting tgt tgt taint 0 with
        | .error c => .error c
        | .ok (l, fs) => .ok (l, f :: fs)
  else initialiseExisting dbv tgt taint patch

end Kanidm.Migration
