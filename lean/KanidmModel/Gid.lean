import KanidmModel.Generated.GidConsts
/-
C21 — model of the gidnumber plugin (`server/lib/src/plugins/gidnumber.rs::apply_gidnumber`) and of
`utils.rs::uuid_to_gid_u32`.

Everything numeric is regenerated from the source (`Generated/GidConsts.lean`): the `GID_*`
constants, the mask-then-prefix expression `gen`, the accepted-range disjunction `accept`, the byte
window of `uuid_to_gid_u32`.  Hand-transcribed: the three-way branch of `apply_gidnumber`
(generate / check / leave alone) — its conditions are shape-checked by the translator and tied by
the correspondence stream.  gids are `Nat`; the implementation's `u32` is the hypothesis `< 2^32`
where a theorem needs it (`&`, `|` never leave `u32`, so no wrap-around is involved).
-/
namespace Kanidm.Gid
open Kanidm.Gen.Gid

/-- `u32::from_be_bytes` of a byte list. -/
def beNat (bs : List Nat) : Nat := bs.foldl (fun acc b => acc * 256 + b) 0

/-- `uuid_to_gid_u32`: the big-endian number in bytes `[uuidByteLo, uuidByteHi)` of the uuid. -/
def uuidToGid (uuid : List Nat) : Nat :=
  beNat ((uuid.drop uuidByteLo).take (uuidByteHi - uuidByteLo))

/-- The `gidnumber` attribute as `apply_gidnumber` can see it. -/
inductive GidAttr where
  /-- `!attribute_pres(GidNumber)` -/
  | absent
  /-- `get_ava_single_uint32(GidNumber) = Some g` -/
  | single (g : Nat)
  /-- present but not a single uint32 (several values): `get_ava_single_uint32 = None` -/
  | other
deriving DecidableEq, Repr

structure EntryView where
  /-- class `posixgroup` or `posixaccount` -/
  posix : Bool
  gid : GidAttr
  /-- `get_uuid()`, already through `uuid_to_gid_u32` -/
  uuidLow : Option Nat
deriving DecidableEq, Repr

inductive Outcome where
  /-- `Ok(())`, entry now carries this gid attribute -/
  | ok (gid : GidAttr)
  /-- `Err(PL0001GidOverlapsSystemRange)` -/
  | overlapsSystemRange
  /-- `Err(InvalidEntryState)` (no uuid) -/
  | invalidEntryState
deriving DecidableEq, Repr

/-- `apply_gidnumber`, arm by arm. -/
def applyGid (e : EntryView) : Outcome :=
  if e.posix && (e.gid == .absent) then
    match e.uuidLow with
    | none => .invalidEntryState
    | some x => .ok (.single (gen x))
  else
    match e.gid with
    | .single g => if accept g then .ok (.single g) else .overlapsSystemRange
    | g => .ok g

/-! ### Specification, from the property text (DESIGN §7.0 fixes the reading of "reserved") -/

/-- Reserved: operating system ids, systemd-homed, systemd dynamic service users, `nobody`, the
16-bit sentinel, and the upper half of `u32` that confuses the kernel. -/
def Reserved (g : Nat) : Prop :=
  g ≤ 999 ∨ (60001 ≤ g ∧ g ≤ 60577) ∨ (61184 ≤ g ∧ g ≤ 65519) ∨ g = 65534 ∨ g = 65535 ∨
  (2147483648 ≤ g ∧ g < 4294967296)

instance (g : Nat) : Decidable (Reserved g) := by unfold Reserved; infer_instance

end Kanidm.Gid
