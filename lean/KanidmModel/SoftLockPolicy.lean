import KanidmModel.SoftLock
import KanidmModel.Generated.SoftLockPolicy
/-!
# Model of `Credential::softlock_policy` (`server/lib/src/credential/mod.rs`) (C28)

Which soft-lock policy each credential type gets.  The per-variant decision trees, the way the
TOTP step is picked from the tokens (`.min()`), and `TOTP_DEFAULT_STEP` are regenerated from the
source on every run (`Generated/SoftLockPolicy.lean`); this file only interprets them.
-/
namespace Kanidm.SoftLock
open Kanidm.Gen.SoftLockPolicy

/-- What `softlock_policy` reads of a `Credential`: its `CredentialType` variant and, for
`PasswordMfa(_, totp, wan, _)`, the `step` of every token of the `totp` map (in iteration order)
and the number of keys in `wan`.  (For the other variants the two fields are not looked at: the
translator refuses a tree with conditions in an arm that does not bind the maps.) -/
structure CredShape where
  kind : CredKind
  totpSteps : List Nat
  wanKeys : Nat
  deriving DecidableEq, Repr

/-- `iter.min()` (`isMin`) / `iter.max()` of a list: `None` on the empty iterator. -/
def pickStep (isMin : Bool) : List Nat → Option Nat
  | [] => none
  | x :: xs =>
    match pickStep isMin xs with
    | none => some x
    | some y => some (if isMin then (if y < x then y else x) else (if y > x then y else x))

def evalCond (c : CredShape) : Cond → Bool
  | .totpNonEmpty => !c.totpSteps.isEmpty
  | .wanNonEmpty => !(c.wanKeys == 0)
  | .totpEmpty => c.totpSteps.isEmpty
  | .wanEmpty => c.wanKeys == 0

/-- `let min_step = totp.iter().map(|(_, t)| t.step).min().unwrap_or(TOTP_DEFAULT_STEP)` -/
def minStep (c : CredShape) : Nat := (pickStep totpStepIsMin c.totpSteps).getD totpDefaultStep

def evalTree (c : CredShape) : Tree → Policy
  | .leaf .password => .password
  | .leaf .totpStep => .totp (minStep c)
  | .leaf .webauthn => .webauthn
  | .leaf .unrestricted => .unrestricted
  | .ite cnd t e => if evalCond c cnd then evalTree c t else evalTree c e

/-- `Credential::softlock_policy` -/
def softlockPolicy (c : CredShape) : Policy := evalTree c (policyTree c.kind)

end Kanidm.SoftLock
