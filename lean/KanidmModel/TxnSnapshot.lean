import KanidmModel.TxnCommit
import KanidmModel.Generated.ReadOrder
/-
C06 — model of what one read transaction observes while one write transaction commits.

Transcribes
  * the acquisition order of `IdmServer::proxy_read` → `QueryServer::read` (server/mod.rs) →
    `Backend::read` (be/mod.rs) → `IdlArcSqlite::read` (be/idl_arc_sqlite.rs), regenerated as
    `Gen.ReadOrder.readSteps`: each `x.read()` of a transactional cell returns the value committed
    at that instant and is immutable afterwards (concread read transactions — trusted);
  * `IdlSqliteReadTransaction::new` (be/idl_sqlite.rs): `BEGIN DEFERRED TRANSACTION` only — the
    database snapshot is taken by the first statement that reads (`Gen.ReadOrder.dbSnapshotDeferred`),
    and is immutable afterwards (SQLite WAL snapshot isolation — trusted);
  * the writer: the generated commit order of C04 (`TxnCommit.flatSteps`), executed step by step.

A schedule says, for every acquisition of the reader and for its first reading statement, how many
steps of the writer's `commit()` have been executed at that moment.
-/
namespace Kanidm.TxnSnapshot
open Kanidm.Gen.CommitOrder Kanidm.Gen.ReadOrder Kanidm.TxnCommit

/-- The server state after the writer executed the first `k` steps of its `commit()`
(`t` = the state with the writer's private changes staged). -/
def during (t : St) (k : Nat) : St := applyAll (flatSteps.take k) t

/-- Reader schedule: writer progress at each acquisition of `readSteps` (in order) and at the
reader's first statement that reads the database. -/
structure Sched where
  acq : List Nat
  sel : Nat
deriving Repr, DecidableEq

/-- Time order: acquisitions happen in program order, the first select after all of them. -/
def Sched.wf (σ : Sched) : Prop :=
  σ.acq.length = readSteps.length ∧ σ.acq.Pairwise (· ≤ ·) ∧ ∀ k ∈ σ.acq, k ≤ σ.sel

/-- Writer progress at the reader's `BEGIN`. -/
def beginPos : List Acq → List Nat → Nat
  | .dbBegin :: _, k :: _ => k
  | .cell _ :: as, _ :: ks => beginPos as ks
  | _, _ => 0

/-- When the database snapshot is taken. -/
def dbPos (deferred : Bool) (σ : Sched) : Nat :=
  if deferred then σ.sel else beginPos readSteps σ.acq

/-- Values of the acquired cells, in acquisition order. -/
def cellObsF (val : Cell → Nat → Nat) : List Acq → List Nat → List (Cell × Nat)
  | .cell c :: as, k :: ks => (c, val c k) :: cellObsF val as ks
  | .dbBegin :: as, _ :: ks => cellObsF val as ks
  | _, _ => []

structure Obs where
  cells : List (Cell × Nat)
  db : Nat
deriving Repr, DecidableEq

/-- Everything the read transaction observes (for its whole life: snapshots are immutable). -/
def observeWith (deferred : Bool) (t : St) (σ : Sched) : Obs :=
  ⟨cellObsF (fun c k => ((during t k).cells c).committed) readSteps σ.acq,
   (during t (dbPos deferred σ)).db.committed⟩

/-- With the snapshot rule read from the source. -/
def observe (t : St) (σ : Sched) : Obs := observeWith dbSnapshotDeferred t σ

/-- What a reader of the committed state before the transaction observes. -/
def oldObs (s : St) (σ : Sched) : Obs :=
  ⟨cellObsF (fun c _ => (s.cells c).committed) readSteps σ.acq, s.db.committed⟩

/-- What a reader of the committed state after the transaction observes. -/
def newObs (t : St) (σ : Sched) : Obs :=
  ⟨cellObsF (fun c _ => ((t.cells c).publish).committed) readSteps σ.acq, (t.db.publish).committed⟩

/-- The observation belongs to ONE committed state: the one before or the one after. -/
def Consistent (s t : St) (σ : Sched) (o : Obs) : Prop := o = oldObs s σ ∨ o = newObs t σ

/-- A reader whose whole `read()` runs at one instant `k` of the writer and selects at `sel`. -/
def atomicRead (k sel : Nat) : Sched := ⟨List.replicate readSteps.length k, sel⟩

/-- Is cell `c` / the database already published after `k` writer steps? -/
def cellNewAt (c : Cell) (k : Nat) : Bool := decide (c ∈ publishedCells (flatSteps.take k))
def dbNewAt (k : Nat) : Bool := (flatSteps.take k).any isDbCommit

/-- The cells the writer publishes only after `COMMIT TRANSACTION`. -/
def lateCells : List Cell := publishedCells (flatSteps.drop (flatSteps.findIdx isDbCommit + 1))

end Kanidm.TxnSnapshot
