/-
C36 — types shared by the generated operators (`Generated/SessionPluginOps.lean`) and the hand
model (`SessionPlugin.lean`).  Import-free.

`CredSrc` names the attributes `SessionConsistency::modify_inner` (plugins/session.rs) chains into
`cred_ids`; `Pass` names its three sweeps.  The translator emits the *lists* of these in source
order, the model interprets the lists.
-/
namespace Kanidm.SessionPlugin

/-- One source of credential ids of an account entry. -/
inductive CredSrc where
  /-- `get_ava_single_credential(Attribute::PrimaryCredential)` → `c.uuid` -/
  | primary
  /-- `get_ava_passkeys(Attribute::PassKeys)` → the map's keys -/
  | passkeys
  /-- `get_ava_attestedpasskeys(Attribute::AttestedPasskeys)` → the map's keys -/
  | attestedPasskeys
  /-- `get_ava_single_uuid(Attribute::OAuth2AccountCredentialUuid)` -/
  | oauth2AccountCredential
deriving DecidableEq, Repr, Inhabited

/-- One sweep of the plugin: compute a set of session ids, then `remove_avas` them. -/
inductive Pass where
  /-- login sessions whose `cred_id` is not in `cred_ids` -/
  | credGone
  /-- login sessions past their expiry -/
  | uatExpired
  /-- OAuth2 sessions past their expiry, or orphaned past the grace window -/
  | oauth2
deriving DecidableEq, Repr, Inhabited

end Kanidm.SessionPlugin
