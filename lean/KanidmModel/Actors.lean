import KanidmModel.Generated.ActorsOps
/-!
# C47 — supervisor tree stop protocol (`libs/actors/src/lib.rs`)

State machine over a dynamically built tree of tasks.  A task is a supervisor task
(`SupervisorTask::run`) or a supervised actor task (`SupervisedActor::run`); each executes its
*program* — the statement order regenerated from the source into `Kanidm.Gen.Actors` — one
operation per transition, in any interleaving with every other task and with the environment
(spawns, `Supervisor::stop`, dropping a handle, `Runtime::exec` terminating).

tokio axiomatisation (trusted, see props `trusted_base`):
* `broadcast::Sender::send` delivers to exactly the receivers subscribed at that instant
  (a later `subscribe()` does not see it);
* `Receiver::recv` returns when a message is waiting, or when every `Sender` is gone (`Closed`);
* `Sender::closed()` completes iff no receiver is subscribed at the instant it is polled;
* a receiver is dropped when its task's future completes (for an actor: after `cleanup`);
* `mpsc::Sender::closed()` completes iff the supervisor task has completed.
-/
namespace Kanidm.Actors
open Kanidm.Gen.Actors

inductive Kind | sup | actor
  deriving DecidableEq, Repr, Inhabited

structure Node where
  kind : Kind
  /-- supervisor whose `ctrl_tx` this task's `parent_ctrl_rx` subscribes to; `none` = the
  `Runtime::exec` control channel (primary supervisor). -/
  parent : Option Nat
  /-- index of the next operation of the task's program; past the end = task completed
  (its receiver, and for a supervisor its mailbox receiver, are dropped). -/
  pc : Nat := 0
  /-- a stop message is waiting in this task's `parent_ctrl_rx`. -/
  pending : Bool := false
  /-- ghost: subscribed after the parent had already broadcast. -/
  late : Bool := false
  /-- ghost: subscribed after the parent task had completed. -/
  orphan : Bool := false
  /-- supervisor: the broadcast `ctrl_tx.send(())` has been executed. -/
  sent : Bool := false
  /-- supervisor: `SupervisorMessage::Stop` is in the mailbox (`Supervisor::stop` was called). -/
  stopReq : Bool := false
  /-- primary supervisor: `Runtime::exec` left its signal loop. -/
  termReq : Bool := false
  /-- supervisor: the `Supervisor` handle (a `ctrl_tx` sender + the mailbox sender) is alive. -/
  handle : Bool := true
  /-- supervisor: `Supervisor::stop` (or `Runtime::exec`) has returned. -/
  returned : Bool := false
  /-- actor: inside `self.a.run(msg).await`. -/
  inStep : Bool := false
  /-- actor: left the loop through the `parent_ctrl_rx.recv()` arm. -/
  sawStop : Bool := false
  /-- actor: `cleanup().await` has completed. -/
  cleaned : Bool := false
  /-- actor: number of messages handled. -/
  handled : Nat := 0
  deriving Repr, Inhabited

def Node.prog (n : Node) : List Nat :=
  match n.kind with
  | .sup => supRun
  | .actor => actorRun

/-- The task has completed (fell off the end of its program). -/
def Node.done (n : Node) : Bool := decide (n.prog.length ≤ n.pc)

def Node.op (n : Node) : Option Nat := n.prog[n.pc]?

structure State where
  nodes : Nat → Option Node
  size : Nat

def init : State := ⟨fun _ => none, 0⟩

def State.set (σ : State) (i : Nat) (n : Node) : State :=
  { σ with nodes := fun j => if j = i then some n else σ.nodes j }

def State.push (σ : State) (n : Node) : State :=
  ⟨fun j => if j = σ.size then some n else σ.nodes j, σ.size + 1⟩

/-- `i` holds a live receiver on supervisor `s`'s control channel. -/
def liveChildOf (s : Nat) (n : Node) : Bool := (n.parent == some s) && !n.done

/-- `ctrl_tx.closed()` of supervisor `s` would complete now. -/
def State.noLiveChild (σ : State) (s : Nat) : Bool :=
  (List.range σ.size).all fun i =>
    match σ.nodes i with
    | some n => !liveChildOf s n
    | none => true

/-- `ctrl_tx.send(())` of supervisor `s`: every currently subscribed receiver gets the message. -/
def State.broadcast (σ : State) (s : Nat) : State :=
  { σ with nodes := fun i =>
      match σ.nodes i with
      | some n => if liveChildOf s n then some { n with pending := true } else some n
      | none => none }

/-- Every sender of the channel `n` listens on is gone (`RecvError::Closed`): the parent task has
completed and its `Supervisor` handle was dropped.  The `Runtime::exec` channel never closes
before `exec` returns. -/
def State.parentClosed (σ : State) (n : Node) : Bool :=
  match n.parent with
  | none => false
  | some p =>
    match σ.nodes p with
    | some pn => pn.done && !pn.handle
    | none => false

/-- The supervisor's select loop can be left now. -/
def State.canBreak (σ : State) (n : Node) : Bool :=
  (supParentRecvBreaks && (n.pending || σ.parentClosed n))
  || (supMboxStopBreaks && n.stopReq)
  || (supMboxNoneBreaks && !n.handle && !n.stopReq)

/-- `Supervisor::stop` sends first and then waits for the task. -/
def stopSends : Bool := stopOps.head? == some 0
def stopAwaitsTask : Bool := stopOps == [0, 1]
def execSends : Bool := execTail.head? == some 0
def execAwaitsTask : Bool := execTail == [0, 1]

inductive Ev
  /-- `Supervisor::primary` (parent `none`) / `Supervisor::subordinate` -/
  | spawnSup (p : Option Nat)
  /-- `Supervisor::spawn` -/
  | spawnActor (p : Nat)
  /-- `Runtime::exec` leaves its loop and sends on its control channel -/
  | terminate (r : Nat)
  /-- `Runtime::exec` returns -/
  | execReturn (r : Nat)
  /-- `Supervisor::stop` called: Stop is put in the mailbox -/
  | stopReq (s : Nat)
  /-- `Supervisor::stop` returns -/
  | stopReturn (s : Nat)
  /-- the `Supervisor` handle is dropped without `stop` -/
  | dropHandle (s : Nat)
  /-- supervisor task executes its next operation (internal) -/
  | supStep (s : Nat)
  | setupDone (a : Nat)
  | ready (a : Nat)
  | stepDone (a : Nat)
  | selfStop (a : Nat)
  | seeStop (a : Nat)
  | cleanupDone (a : Nat)
  deriving DecidableEq, Repr

def spawn (σ : State) (k : Kind) (p : Option Nat) : Option State :=
  match p with
  | none => if k = .sup then some (σ.push { kind := .sup, parent := none }) else none
  | some pi =>
    match σ.nodes pi with
    | some pn =>
      if pn.kind = .sup && pn.handle && !pn.stopReq
          && spawnSubscribesFirst && subordinateSubscribesFirst && buildMovesParentRx then
        some (σ.push { kind := k, parent := some pi, late := pn.sent, orphan := pn.done })
      else none
    | none => none

def supStep (σ : State) (s : Nat) : Option State :=
  match σ.nodes s with
  | some n =>
    if n.kind = .sup then
      match n.op with
      | some 0 => if σ.canBreak n then some (σ.set s { n with pc := n.pc + 1 }) else none
      | some 1 => some ((σ.broadcast s).set s { n with pc := n.pc + 1, sent := true })
      | some 2 => if σ.noLiveChild s then some (σ.set s { n with pc := n.pc + 1 }) else none
      | _ => none
    else none
  | none => none

def actorStep (σ : State) (a : Nat) (f : Node → Option Node) : Option State :=
  match σ.nodes a with
  | some n => if n.kind = .actor then (f n).map (σ.set a) else none
  | none => none

def supEnv (σ : State) (s : Nat) (f : Node → Option Node) : Option State :=
  match σ.nodes s with
  | some n => if n.kind = .sup then (f n).map (σ.set s) else none
  | none => none

def step (σ : State) : Ev → Option State
  | .spawnSup p => spawn σ .sup p
  | .spawnActor p => spawn σ .actor (some p)
  | .terminate r => supEnv σ r fun n =>
      if n.parent.isNone && !n.termReq && execSends then
        some { n with termReq := true, pending := n.pending || !n.done } else none
  | .execReturn r => supEnv σ r fun n =>
      if n.termReq && !n.returned && (!execAwaitsTask || n.done) then
        some { n with returned := true, handle := false } else none
  | .stopReq s => supEnv σ s fun n =>
      if n.handle && !n.stopReq && n.parent.isSome && stopSends then
        some { n with stopReq := true } else none
  | .stopReturn s => supEnv σ s fun n =>
      if n.stopReq && !n.returned && (!stopAwaitsTask || n.done) then
        some { n with returned := true, handle := false } else none
  | .dropHandle s => supEnv σ s fun n =>
      if n.handle && !n.stopReq && n.parent.isSome then some { n with handle := false } else none
  | .supStep s => supStep σ s
  | .setupDone a => actorStep σ a fun n =>
      if n.op = some 0 then some { n with pc := n.pc + 1 } else none
  | .ready a => actorStep σ a fun n =>
      if n.op = some 1 && !n.inStep && actStateReadyRuns then
        some { n with inStep := true, handled := n.handled + 1 } else none
  | .stepDone a => actorStep σ a fun n =>
      if n.op = some 1 && n.inStep then some { n with inStep := false } else none
  | .selfStop a => actorStep σ a fun n =>
      if n.op = some 1 && !n.inStep && actStateStopBreaks then some { n with pc := n.pc + 1 } else none
  | .seeStop a => actorStep σ a fun n =>
      if n.op = some 1 && !n.inStep && actParentRecvBreaks && (n.pending || σ.parentClosed n) then
        some { n with pc := n.pc + 1, sawStop := true } else none
  | .cleanupDone a => actorStep σ a fun n =>
      if n.op = some 2 then some { n with pc := n.pc + 1, cleaned := true } else none

/-- Run a whole schedule; `none` as soon as one event is not enabled. -/
def run (σ : State) : List Ev → Option State
  | [] => some σ
  | e :: es =>
    match step σ e with
    | some σ' => run σ' es
    | none => none

/-- States reachable from the empty system under any schedule (any tree, any interleaving). -/
inductive Reach : State → Prop
  | init : Reach init
  | step {σ σ' : State} (e : Ev) : Reach σ → step σ e = some σ' → Reach σ'

/-- `d` is `s` or was registered — while the registering supervisor's task was still running —
under a task registered under `s`. -/
inductive Registered (σ : State) (s : Nat) : Nat → Prop
  | refl : Registered σ s s
  | child {d p : Nat} {dn : Node} :
      σ.nodes d = some dn → dn.parent = some p → dn.orphan = false → Registered σ s p →
      Registered σ s d

/-- `d` is `s` or below it in the tree (however it got there). -/
inductive Desc (σ : State) (s : Nat) : Nat → Prop
  | refl : Desc σ s s
  | child {d p : Nat} {dn : Node} :
      σ.nodes d = some dn → dn.parent = some p → Desc σ s p → Desc σ s d

/-! ## Trace acceptance (used by the driver)

The harness observes every event except `supStep`.  `accept` replays an observed trace, inserting
the supervisor-internal steps on demand; every transition goes through `step`, so an accepted
trace is by construction the visible projection of a schedule of the model. -/

mutual
/-- Make supervisor `s` execute its broadcast (demanding, recursively, what lets it leave its loop:
the parent's broadcast, or the parent's completion when the parent handle is gone). -/
def wantSent : Nat → State → Nat → Option State
  | 0, _, _ => none
  | fuel + 1, σ, s =>
    match σ.nodes s with
    | some n =>
      if n.sent then some σ
      else if n.op = some 0 then
        if σ.canBreak n then (supStep σ s).bind fun σ1 => wantSent fuel σ1 s
        else match n.parent with
          | some p =>
            let retry := fun (σ1 : State) =>
              match σ1.nodes s with
              | some n1 => if σ1.canBreak n1 then wantSent fuel σ1 s else none
              | none => none
            match (wantSent fuel σ p).bind retry with
            | some r => some r
            | none => (wantDone fuel σ p).bind retry
          | none => none
      else if n.op = some 1 then supStep σ s
      else none
    | none => none

/-- Make supervisor `s` complete: broadcast, have every live supervisor child complete, exit. -/
def wantDone : Nat → State → Nat → Option State
  | 0, _, _ => none
  | fuel + 1, σ, s =>
    match σ.nodes s with
    | some n =>
      if n.done then some σ
      else
        (wantSent fuel σ s).bind fun σ1 =>
          (wantKids fuel σ1 s σ1.size).bind fun σ3 => supStep σ3 s
    | none => none

/-- children with id below `k` -/
def wantKids : Nat → State → Nat → Nat → Option State
  | 0, _, _, _ => none
  | fuel + 1, σ, s, k =>
    match k with
    | 0 => some σ
    | k + 1 =>
      (wantKids fuel σ s k).bind fun τ =>
        match τ.nodes k with
        | some c =>
          if liveChildOf s c then (if c.kind = .sup then wantDone fuel τ k else none)
          else some τ
        | none => some τ
end

/-- Replay one observed event, inserting the internal steps it needs. -/
def acceptEv (σ : State) (e : Ev) : Option State :=
  let fuel := 8 * σ.size + 16
  match step σ e with
  | some σ' => some σ'
  | none =>
    match e with
    | .seeStop a =>
      match σ.nodes a with
      | some n =>
        match n.parent with
        | some p =>
          match (wantSent fuel σ p).bind (fun σ1 => step σ1 e) with
          | some σ' => some σ'
          | none => (wantDone fuel σ p).bind fun σ1 => step σ1 e
        | none => none
      | none => none
    | .stopReturn s => (wantDone fuel σ s).bind fun σ1 => step σ1 e
    | .execReturn s => (wantDone fuel σ s).bind fun σ1 => step σ1 e
    | _ => none

/-- Replay an observed trace.  At a spawn under a supervisor that may already have completed both
possibilities are explored (`late` = true lets the search consider that the parent finished first). -/
def accept : State → List Ev → Option State
  | σ, [] => some σ
  | σ, e :: es =>
    let direct := (acceptEv σ e).bind fun σ' => accept σ' es
    match direct with
    | some r => some r
    | none =>
      let parent : Option Nat := match e with
        | .spawnActor p => some p
        | .spawnSup (some p) => some p
        | _ => none
      match parent with
      | some p =>
        -- the parent task may have completed before this registration
        (wantDone (8 * σ.size + 16) σ p).bind fun σ1 =>
          (step σ1 e).bind fun σ2 => accept σ2 es
      | none => none

end Kanidm.Actors
