import KanidmModel.ProtoFilter
import KanidmModel.Filter.Optimise
import KanidmModel.Filter.Idl
/-
C41 model, last step: what the server executes for a translated, validated protocol filter —
`into_ignore_hidden` (filter.rs l.614), `Filter::resolve` = `resolve_idx` + `optimise` (C02's
model), `Backend::search` (C01's model). This is the path of `SearchEvent::new_ext_impersonate_uuid`
(event.rs l.292, LDAP) and `scim_search_filter_ext` (server/mod.rs l.1643, SCIM) once access
control is left out.
-/
namespace Kanidm.ProtoFilter
open Kanidm.Filter

/-- neither `class = tombstone` nor `class = recycled` -/
def visible (classA : Nat) (tomb recy : Val) (e : Entry) : Bool :=
  !((e classA).contains tomb || (e classA).contains recy)

/-- ignore-hidden wrapper → resolve against the index metadata `m` → optimise → backend search.
`none` = resolution failed (`resolve_idx` returns `None` only for shapes the translations never
produce). -/
def execSearch (S : ValSem) (lim : Limits) (w : World) (idx : Idx) (rep : Rep)
    (c : AttrConsts) (self : Val) (m : Nat → IType → Option Nat) (sa sd : List F → List F)
    (classA : Nat) (tomb recy : Val) (fc : FC) : Option (Except SErr (List Nat)) :=
  ((ignoreHidden classA tomb recy fc).resolveIdx c self m).map
    (fun g => search S lim w idx rep (g.optimise sa sd))

/-- the answer the standard prescribes: the visible stored entries whose standard meaning holds -/
def stdAnswer (w : World) (classA : Nat) (tomb recy : Val) (sem : Entry → Bool) : List Nat :=
  w.live.filter (fun id => visible classA tomb recy (w.ent id) && sem (w.ent id))

end Kanidm.ProtoFilter
