import KanidmModel.Generated.CommitOrder
/-
C04 — model of what a write transaction does to the server-wide state when it is dropped,
when an operation fails, and when `commit()` fails at any step.

Transcribes
  * the four nested commits `IdmServerProxyWriteTransaction::commit` (idm/server.rs) →
    `QueryServerWriteTransaction::commit` (server/mod.rs) → `BackendWriteTransaction::commit`
    (be/mod.rs) → `IdlArcSqliteWriteTransaction::commit` (be/idl_arc_sqlite.rs).  The ordered step
    lists, the kind of every step and whether it can return `Err` are regenerated from the source
    (`Generated/CommitOrder.lean`); `flatSteps` inlines the nested calls, `runSteps` interprets the
    list with an arbitrary failing step (an `Err` skips every later step, as `?` / `and_then` do);
  * every transactional cell (concread `CowCell` / `ARCache` / `BptreeMap` / `HashMap` write
    transactions and the wrappers around them — the fields of the four write-transaction structs,
    enumerated by the translator) as a pair `(committed, pending)`: writes go to the private
    pending copy, `commit()` of the cell (`publish`) makes it the committed value, dropping the
    write transaction discards it;
  * the SQLite database as the same kind of pair: statements inside `BEGIN EXCLUSIVE` … are
    pending, `COMMIT TRANSACTION` (`dbCommit`) makes them durable, `Drop` of
    `IdlSqliteWriteTransaction` executes `ROLLBACK` (be/idl_sqlite.rs).

Values are version numbers (`Nat`); what readers see is `committed`.  SQLite's atomic COMMIT /
ROLLBACK and concread's private write copies are the trusted base (tied by correspondence only).
-/
namespace Kanidm.TxnCommit
open Kanidm.Gen.CommitOrder

structure CellSt where
  committed : Nat
  pending : Option Nat
deriving DecidableEq, Repr, Inhabited

/-- Server state: every transactional cell plus the database. -/
structure St where
  cells : Cell → CellSt
  db : CellSt

/-- No write transaction is open: nothing is pending. -/
def Clean (s : St) : Prop := (∀ c, (s.cells c).pending = none) ∧ s.db.pending = none

def CellSt.publish (x : CellSt) : CellSt :=
  match x.pending with
  | some v => ⟨v, none⟩
  | none => x

def CellSt.discard (x : CellSt) : CellSt := ⟨x.committed, none⟩

/-- What a write transaction does before `commit()`: it only ever touches private copies. -/
inductive Op where
  /-- a write to the write copy of cell `c` (directly, or by a reload inside the transaction) -/
  | stage (c : Cell) (v : Nat)
  /-- SQL statements / dirty cache entries that will be flushed inside the open SQLite transaction -/
  | dbStage (v : Nat)
deriving DecidableEq, Repr

def applyOp (s : St) : Op → St
  | .stage c v => { s with cells := fun d => if d = c then ⟨(s.cells d).committed, some v⟩ else s.cells d }
  | .dbStage v => { s with db := ⟨s.db.committed, some v⟩ }

def applyOps (s : St) (ops : List Op) : St := ops.foldl applyOp s

/-- Drop of the write transaction (abandon, failed operation, or the tail of a failed commit):
every cell write transaction is dropped, the SQLite transaction is rolled back. -/
def dropTxn (s : St) : St :=
  { cells := fun c => (s.cells c).discard, db := s.db.discard }

/-- Inline the nested commits once. -/
def expand1 (steps : List CStep) : List CStep :=
  steps.flatMap fun st => match st.kind with
    | .call l => levelSteps l
    | _ => [st]

/-- The whole commit of the level as one list (three levels of nesting below `idm`). -/
def flatOf (l : Level) : List CStep := expand1 (expand1 (expand1 (levelSteps l)))

/-- `IdmServerProxyWriteTransaction::commit` with all nested commits inlined. -/
def flatSteps : List CStep := flatOf .idm

def isCall (st : CStep) : Bool := match st.kind with | .call _ => true | _ => false

def applyKind (k : Kind) (s : St) : St :=
  match k with
  | .publish c => { s with cells := fun d => if d = c then (s.cells d).publish else s.cells d }
  | .dbCommit => { s with db := s.db.publish }
  | .stage => s
  | .dbWrite => s
  | .call _ => s

/-- Run the steps in order; `fail = some i`: if step `i` is fallible it returns `Err`, which skips
itself and every later step.  Result: state reached, and whether `commit()` returned `Ok`. -/
def runSteps : List CStep → Nat → Option Nat → St → St × Bool
  | [], _, _, s => (s, true)
  | st :: rest, i, fail, s =>
    if st.fallible && fail == some i then (s, false)
    else runSteps rest (i + 1) fail (applyKind st.kind s)

/-- `commit()` over an arbitrary step list, followed by the drop of whatever was not consumed. -/
def commitWith (steps : List CStep) (s : St) (fail : Option Nat) : St × Bool :=
  let r := runSteps steps 0 fail s
  (dropTxn r.1, r.2)

/-- `IdmServerProxyWriteTransaction::commit`. -/
def commit (s : St) (fail : Option Nat) : St × Bool := commitWith flatSteps s fail

/-- Does the step make something visible to readers? -/
def publishes (st : CStep) : Bool :=
  match st.kind with
  | .publish _ => true
  | .dbCommit => true
  | _ => false

/-- Number of leading steps that publish nothing = index of the first publication. -/
def firstPublish : List CStep → Nat
  | [] => 0
  | st :: rest => if publishes st then 0 else firstPublish rest + 1

/-- The safe order: no publication precedes a step that can still fail. -/
def Ordered : List CStep → Bool
  | [] => true
  | st :: rest => (if publishes st then rest.all (fun r => !r.fallible) else true) && Ordered rest

/-- Cells published by a list of steps. -/
def publishedCells : List CStep → List Cell
  | [] => []
  | st :: rest =>
    match st.kind with
    | .publish c => c :: publishedCells rest
    | _ => publishedCells rest

def isDbCommit (st : CStep) : Bool := match st.kind with | .dbCommit => true | _ => false

/-- Whether `commit()` returns `Ok` (does not depend on the state). -/
def okOf : List CStep → Nat → Option Nat → Bool
  | [], _, _ => true
  | st :: rest, i, fail => if st.fallible && fail == some i then false else okOf rest (i + 1) fail

/-- How many steps are executed before `commit()` returns. -/
def execCount : List CStep → Nat → Option Nat → Nat
  | [], _, _ => 0
  | st :: rest, i, fail => if st.fallible && fail == some i then 0 else execCount rest (i + 1) fail + 1

/-- Execute every step of the list. -/
def applyAll (steps : List CStep) (s : St) : St := steps.foldl (fun s st => applyKind st.kind s) s

/-- After the SQLite commit nothing can fail any more. -/
def noFallibleAfterDbCommit : List CStep → Bool
  | [] => true
  | st :: rest => (if isDbCommit st then rest.all (fun r => !r.fallible) else true) && noFallibleAfterDbCommit rest

/-- One write transaction of a history. -/
structure TxnRun where
  ops : List Op
  /-- `none` = dropped without commit (abandoned / an operation failed); `some f` = `commit()` with
  failing step `f` -/
  finish : Option (Option Nat)
deriving DecidableEq, Repr

def runTxn (s : St) (t : TxnRun) : St × Bool :=
  match t.finish with
  | none => (dropTxn (applyOps s t.ops), false)
  | some f => commit (applyOps s t.ops) f

def runHist (s : St) (ts : List TxnRun) : St := ts.foldl (fun s t => (runTxn s t).1) s

/-- Did the transaction report success? (independent of the state) -/
def succeeded (t : TxnRun) : Bool :=
  match t.finish with
  | none => false
  | some f => okOf flatSteps 0 f

/-- What readers can see. -/
def visible (s : St) : (Cell → Nat) × Nat := (fun c => (s.cells c).committed, s.db.committed)

/-- The all-zero clean state. -/
def zero : St := ⟨fun _ => ⟨0, none⟩, ⟨0, none⟩⟩

end Kanidm.TxnCommit
