/-!
# Executable SHA-1 / SHA-256 / SHA-512 (FIPS 180-4) and HMAC (RFC 2104) over `Nat` bytes

Independent reference used by the C29 model (`KanidmModel/Totp.lean`): kanidm's
`TotpAlgo::digest` calls `Hmac<ShaN>::new_from_slice / update / finalize` of the RustCrypto
crates; this file is what that call computes, written from the standards.  It is tied to the
linked crates by the correspondence harness (every code kanidm produces is compared with the
code derived from these functions) and by known-answer vectors in `KanidmProofs/C29.lean`.

Import-free, total, kernel-friendly: words and bytes are `Nat`s, reduced modulo the word size
after every addition / rotation; no arrays, no partial functions.
-/
namespace Kanidm.Totp.Hash

/-- Big-endian bytes of `w`, exactly `n` of them (`w` taken modulo `256^n`). -/
def beBytes : Nat → Nat → List Nat
  | 0, _ => []
  | n + 1, w => (w >>> (8 * n)) % 256 :: beBytes n w

/-- Big-endian number of a byte string. -/
def beNum (bs : List Nat) : Nat := bs.foldl (fun acc b => acc * 256 + b) 0

def chunksAux (n : Nat) : Nat → List Nat → List (List Nat)
  | 0, _ => []
  | fuel + 1, l =>
    match l with
    | [] => []
    | _ => l.take n :: chunksAux n fuel (l.drop n)

/-- Consecutive chunks of `n` items (`n > 0`). -/
def chunks (n : Nat) (l : List Nat) : List (List Nat) := chunksAux n l.length l

/-- Merkle–Damgård padding: `0x80`, zeros, bit length in `lenBytes` big-endian bytes; the
result is a multiple of `blk` bytes. -/
def pad (blk lenBytes : Nat) (m : List Nat) : List Nat :=
  let zeros := (blk - (m.length + 1 + lenBytes) % blk) % blk
  m ++ [0x80] ++ List.replicate zeros 0 ++ beBytes lenBytes (8 * m.length)

/-! ## SHA-1 -/

def m32 : Nat := 4294967296

def add32 (a b : Nat) : Nat := (a + b) % m32
def rotl32 (x n : Nat) : Nat := ((x <<< n) ||| (x >>> (32 - n))) % m32
def not32 (x : Nat) : Nat := x ^^^ 4294967295

structure S5 where
  a : Nat
  b : Nat
  c : Nat
  d : Nat
  e : Nat

/-- The 80-word message schedule, in order. -/
def sha1Sched (block : List Nat) : List Nat :=
  let w0 := (chunks 4 block).map beNum
  ((List.range 64).foldl
    (fun ws _ => rotl32 (ws.getD 2 0 ^^^ ws.getD 7 0 ^^^ ws.getD 13 0 ^^^ ws.getD 15 0) 1 :: ws)
    w0.reverse).reverse

def sha1Round (s : S5) (wt : Nat × Nat) : S5 :=
  let w := wt.1
  let t := wt.2
  let f :=
    if t < 20 then (s.b &&& s.c) ||| (not32 s.b &&& s.d)
    else if t < 40 then s.b ^^^ s.c ^^^ s.d
    else if t < 60 then (s.b &&& s.c) ||| (s.b &&& s.d) ||| (s.c &&& s.d)
    else s.b ^^^ s.c ^^^ s.d
  let k :=
    if t < 20 then 0x5A827999 else if t < 40 then 0x6ED9EBA1
    else if t < 60 then 0x8F1BBCDC else 0xCA62C1D6
  let temp := add32 (add32 (add32 (add32 (rotl32 s.a 5) f) s.e) k) w
  ⟨temp, s.a, rotl32 s.b 30, s.c, s.d⟩

def sha1Compress (h : S5) (block : List Nat) : S5 :=
  let r := (sha1Sched block).zipIdx.foldl sha1Round h
  ⟨add32 h.a r.a, add32 h.b r.b, add32 h.c r.c, add32 h.d r.d, add32 h.e r.e⟩

def sha1 (m : List Nat) : List Nat :=
  let h := (chunks 64 (pad 64 8 m)).foldl sha1Compress
    ⟨0x67452301, 0xEFCDAB89, 0x98BADCFE, 0x10325476, 0xC3D2E1F0⟩
  beBytes 4 h.a ++ beBytes 4 h.b ++ beBytes 4 h.c ++ beBytes 4 h.d ++ beBytes 4 h.e

/-! ## SHA-256 / SHA-512 (one parametrised definition) -/

structure Sha2P where
  /-- word size in bits -/
  bits : Nat
  /-- `2 ^ bits` -/
  modulus : Nat
  k : List Nat
  bigS0 : Nat × Nat × Nat
  bigS1 : Nat × Nat × Nat
  /-- rotr, rotr, shr -/
  smallS0 : Nat × Nat × Nat
  smallS1 : Nat × Nat × Nat

structure S8 where
  a : Nat
  b : Nat
  c : Nat
  d : Nat
  e : Nat
  f : Nat
  g : Nat
  h : Nat

def rotr (p : Sha2P) (x n : Nat) : Nat := ((x >>> n) ||| (x <<< (p.bits - n))) % p.modulus
def addw (p : Sha2P) (a b : Nat) : Nat := (a + b) % p.modulus
def bigSigma (p : Sha2P) (r : Nat × Nat × Nat) (x : Nat) : Nat :=
  rotr p x r.1 ^^^ rotr p x r.2.1 ^^^ rotr p x r.2.2
def smallSigma (p : Sha2P) (r : Nat × Nat × Nat) (x : Nat) : Nat :=
  rotr p x r.1 ^^^ rotr p x r.2.1 ^^^ (x >>> r.2.2)

def sha2Sched (p : Sha2P) (block : List Nat) : List Nat :=
  let w0 := (chunks (p.bits / 8) block).map beNum
  ((List.range (p.k.length - 16)).foldl
    (fun ws _ =>
      addw p (addw p (addw p (smallSigma p p.smallS1 (ws.getD 1 0)) (ws.getD 6 0))
        (smallSigma p p.smallS0 (ws.getD 14 0))) (ws.getD 15 0) :: ws)
    w0.reverse).reverse

def sha2Round (p : Sha2P) (s : S8) (wk : Nat × Nat) : S8 :=
  let ch := (s.e &&& s.f) ^^^ ((s.e ^^^ (p.modulus - 1)) &&& s.g)
  let maj := (s.a &&& s.b) ^^^ (s.a &&& s.c) ^^^ (s.b &&& s.c)
  let t1 := addw p (addw p (addw p (addw p s.h (bigSigma p p.bigS1 s.e)) ch) wk.2) wk.1
  let t2 := addw p (bigSigma p p.bigS0 s.a) maj
  ⟨addw p t1 t2, s.a, s.b, s.c, addw p s.d t1, s.e, s.f, s.g⟩

def sha2Compress (p : Sha2P) (h : S8) (block : List Nat) : S8 :=
  let r := ((sha2Sched p block).zip p.k).foldl (sha2Round p) h
  ⟨addw p h.a r.a, addw p h.b r.b, addw p h.c r.c, addw p h.d r.d,
   addw p h.e r.e, addw p h.f r.f, addw p h.g r.g, addw p h.h r.h⟩

def sha2 (p : Sha2P) (init : S8) (m : List Nat) : List Nat :=
  let wb := p.bits / 8
  let h := (chunks (16 * wb) (pad (16 * wb) (2 * wb) m)).foldl (sha2Compress p) init
  beBytes wb h.a ++ beBytes wb h.b ++ beBytes wb h.c ++ beBytes wb h.d ++
  beBytes wb h.e ++ beBytes wb h.f ++ beBytes wb h.g ++ beBytes wb h.h

def p256 : Sha2P where
  bits := 32
  modulus := 4294967296
  k := [0x428a2f98, 0x71374491, 0xb5c0fbcf, 0xe9b5dba5, 0x3956c25b, 0x59f111f1,
   0x923f82a4, 0xab1c5ed5, 0xd807aa98, 0x12835b01, 0x243185be, 0x550c7dc3,
   0x72be5d74, 0x80deb1fe, 0x9bdc06a7, 0xc19bf174, 0xe49b69c1, 0xefbe4786,
   0x0fc19dc6, 0x240ca1cc, 0x2de92c6f, 0x4a7484aa, 0x5cb0a9dc, 0x76f988da,
   0x983e5152, 0xa831c66d, 0xb00327c8, 0xbf597fc7, 0xc6e00bf3, 0xd5a79147,
   0x06ca6351, 0x14292967, 0x27b70a85, 0x2e1b2138, 0x4d2c6dfc, 0x53380d13,
   0x650a7354, 0x766a0abb, 0x81c2c92e, 0x92722c85, 0xa2bfe8a1, 0xa81a664b,
   0xc24b8b70, 0xc76c51a3, 0xd192e819, 0xd6990624, 0xf40e3585, 0x106aa070,
   0x19a4c116, 0x1e376c08, 0x2748774c, 0x34b0bcb5, 0x391c0cb3, 0x4ed8aa4a,
   0x5b9cca4f, 0x682e6ff3, 0x748f82ee, 0x78a5636f, 0x84c87814, 0x8cc70208,
   0x90befffa, 0xa4506ceb, 0xbef9a3f7, 0xc67178f2]
  bigS0 := (2, 13, 22)
  bigS1 := (6, 11, 25)
  smallS0 := (7, 18, 3)
  smallS1 := (17, 19, 10)

def p512 : Sha2P where
  bits := 64
  modulus := 18446744073709551616
  k := [0x428a2f98d728ae22, 0x7137449123ef65cd, 0xb5c0fbcfec4d3b2f, 0xe9b5dba58189dbbc,
   0x3956c25bf348b538, 0x59f111f1b605d019, 0x923f82a4af194f9b, 0xab1c5ed5da6d8118,
   0xd807aa98a3030242, 0x12835b0145706fbe, 0x243185be4ee4b28c, 0x550c7dc3d5ffb4e2,
   0x72be5d74f27b896f, 0x80deb1fe3b1696b1, 0x9bdc06a725c71235, 0xc19bf174cf692694,
   0xe49b69c19ef14ad2, 0xefbe4786384f25e3, 0x0fc19dc68b8cd5b5, 0x240ca1cc77ac9c65,
   0x2de92c6f592b0275, 0x4a7484aa6ea6e483, 0x5cb0a9dcbd41fbd4, 0x76f988da831153b5,
   0x983e5152ee66dfab, 0xa831c66d2db43210, 0xb00327c898fb213f, 0xbf597fc7beef0ee4,
   0xc6e00bf33da88fc2, 0xd5a79147930aa725, 0x06ca6351e003826f, 0x142929670a0e6e70,
   0x27b70a8546d22ffc, 0x2e1b21385c26c926, 0x4d2c6dfc5ac42aed, 0x53380d139d95b3df,
   0x650a73548baf63de, 0x766a0abb3c77b2a8, 0x81c2c92e47edaee6, 0x92722c851482353b,
   0xa2bfe8a14cf10364, 0xa81a664bbc423001, 0xc24b8b70d0f89791, 0xc76c51a30654be30,
   0xd192e819d6ef5218, 0xd69906245565a910, 0xf40e35855771202a, 0x106aa07032bbd1b8,
   0x19a4c116b8d2d0c8, 0x1e376c085141ab53, 0x2748774cdf8eeb99, 0x34b0bcb5e19b48a8,
   0x391c0cb3c5c95a63, 0x4ed8aa4ae3418acb, 0x5b9cca4f7763e373, 0x682e6ff3d6b2b8a3,
   0x748f82ee5defb2fc, 0x78a5636f43172f60, 0x84c87814a1f0ab72, 0x8cc702081a6439ec,
   0x90befffa23631e28, 0xa4506cebde82bde9, 0xbef9a3f7b2c67915, 0xc67178f2e372532b,
   0xca273eceea26619c, 0xd186b8c721c0c207, 0xeada7dd6cde0eb1e, 0xf57d4f7fee6ed178,
   0x06f067aa72176fba, 0x0a637dc5a2c898a6, 0x113f9804bef90dae, 0x1b710b35131c471b,
   0x28db77f523047d84, 0x32caab7b40c72493, 0x3c9ebe0a15c9bebc, 0x431d67c49c100d4c,
   0x4cc5d4becb3e42b6, 0x597f299cfc657e2a, 0x5fcb6fab3ad6faec, 0x6c44198c4a475817]
  bigS0 := (28, 34, 39)
  bigS1 := (14, 18, 41)
  smallS0 := (1, 8, 7)
  smallS1 := (19, 61, 6)

def sha256 (m : List Nat) : List Nat :=
  sha2 p256 ⟨0x6a09e667, 0xbb67ae85, 0x3c6ef372, 0xa54ff53a, 0x510e527f, 0x9b05688c, 0x1f83d9ab, 0x5be0cd19⟩ m

def sha512 (m : List Nat) : List Nat :=
  sha2 p512 ⟨0x6a09e667f3bcc908, 0xbb67ae8584caa73b, 0x3c6ef372fe94f82b, 0xa54ff53a5f1d36f1,
    0x510e527fade682d1, 0x9b05688c2b3e6c1f, 0x1f83d9abfb41bd6b, 0x5be0cd19137e2179⟩ m

/-! ## HMAC (RFC 2104) -/

structure HashAlg where
  hash : List Nat → List Nat
  /-- `B`, the compression block length in bytes -/
  blockLen : Nat
  /-- `L`, the digest length in bytes -/
  outLen : Nat

def algSha1 : HashAlg := ⟨sha1, 64, 20⟩
def algSha256 : HashAlg := ⟨sha256, 64, 32⟩
def algSha512 : HashAlg := ⟨sha512, 128, 64⟩

/-- RFC 2104 §2 step (1) with the §3 rule for long keys: a key longer than `B` bytes is
hashed first; the result is filled with zeros to `B` bytes. -/
def hmacKey (h : HashAlg) (key : List Nat) : List Nat :=
  let k0 := if h.blockLen < key.length then h.hash key else key
  k0 ++ List.replicate (h.blockLen - k0.length) 0

/-- `H(K ⊕ opad ‖ H(K ⊕ ipad ‖ text))`. -/
def hmac (h : HashAlg) (key msg : List Nat) : List Nat :=
  let k := hmacKey h key
  h.hash (k.map (· ^^^ 0x5c) ++ h.hash (k.map (· ^^^ 0x36) ++ msg))

end Kanidm.Totp.Hash
